(* Proofs about model/RoomApi.v (C11). *)
From Coq Require Import List ZArith NArith String Bool Lia.
From Verif Require Import gen.Params gen.Schema lib.Json lib.Decode model.RoomApi corr.Run_C11 proofs.Decode_proofs proofs.Decode_depth.
Import ListNotations.
Open Scope string_scope.
Open Scope list_scope.

(* ---- the request type the proofs are about: what the generated schema must resolve to ----
   (a changed tag, a pointer turned into a value, a new or removed member makes
   this lemma - and with it everything below - fail to compile) *)
Definition t_strs : gty := TSlice TString.
Definition t_users : gty := TSlice (TMap TIface).
Definition t_int64 : gty := TInt (-9223372036854775808) 9223372036854775807.
Definition ty_invite := TStruct [("UserIds", "userids", t_strs); ("AllUserIds", "alluserids", t_strs); ("Properties", "properties", TRaw)].
Definition ty_disinvite := TStruct [("UserIds", "userids", t_strs); ("SessionIds", "sessionids", t_strs); ("AllUserIds", "alluserids", t_strs); ("Properties", "properties", TRaw)].
Definition ty_update := TStruct [("UserIds", "userids", t_strs); ("Properties", "properties", TRaw)].
Definition ty_delete := TStruct [("UserIds", "userids", t_strs)].
Definition ty_incall := TStruct [("InCall", "incall", TRaw); ("All", "all", TBool); ("Changed", "changed", t_users); ("Users", "users", t_users)].
Definition ty_participants := TStruct [("Changed", "changed", t_users); ("Users", "users", t_users)].
Definition ty_message := TStruct [("Data", "data", TRaw)].
Definition swfields : list (string * string * gty) :=
  [("RoomId", "roomid", TString); ("Sessions", "sessions", TRaw); ("SessionsList", "sessionslist", t_strs); ("SessionsMap", "sessionsmap", TMap TRaw)].
Definition ty_switchto := TStruct swfields.
Definition ty_dialout := TStruct [("Number", "number", TString); ("Options", "options", TRaw)].
Definition ty_transient := TStruct [("Action", "action", TString); ("Key", "key", TString); ("Value", "value", TIface); ("TTL", "ttl", t_int64)].
Definition req_fields : list (string * string * gty) :=
  [("Type", "type", TString);
   ("Invite", "invite", TPtr ty_invite); ("Disinvite", "disinvite", TPtr ty_disinvite);
   ("Update", "update", TPtr ty_update); ("Delete", "delete", TPtr ty_delete);
   ("InCall", "incall", TPtr ty_incall); ("Participants", "participants", TPtr ty_participants);
   ("Message", "message", TPtr ty_message); ("SwitchTo", "switchto", TPtr ty_switchto);
   ("Dialout", "dialout", TPtr ty_dialout); ("Transient", "transient", TPtr ty_transient);
   ("ReceivedTime", "received", t_int64)].

Lemma ty_request_eq : ty_request = TStruct req_fields.
Proof. vm_compute. reflexivity. Qed.

Lemma req_fields_nodup : NoDup (map fname req_fields).
Proof. cbn. repeat (constructor; [cbn; intuition discriminate|]). constructor. Qed.

Lemma swfields_nodup : NoDup (map fname swfields).
Proof. cbn. repeat (constructor; [cbn; intuition discriminate|]). constructor. Qed.

(* ---- "safe" publications: nothing the Room object / hub / sessions do with them panics ---- *)
Definition safe (r : gval) : Prop := forall st, c_exit (consume st r) = false.
Definition all_safe (ps : list pub) : Prop := forall r, In (PBackendRoom r) ps -> safe r.

Lemma all_safe_nil : all_safe [].
Proof. intros r []. Qed.

Lemma all_safe_app : forall a b, all_safe a -> all_safe b -> all_safe (a ++ b).
Proof. intros a b Ha Hb r Hin. apply in_app_or in Hin as [H|H]; auto. Qed.

Lemma all_safe_cons_room : forall r ps, safe r -> all_safe ps -> all_safe (PBackendRoom r :: ps).
Proof. intros r ps Hr Hps r' [H|H]; [inversion H; now subst | auto]. Qed.

Definition no_room (ps : list pub) : Prop := forall r, ~ In (PBackendRoom r) ps.
Lemma no_room_safe : forall ps, no_room ps -> all_safe ps.
Proof. intros ps H r Hin. exfalso. eapply H; eauto. Qed.

Lemma no_room_users : forall k l, no_room (map (fun u => PUser u k) l).
Proof. intros k l r Hin. apply in_map_iff in Hin as [u [E _]]. discriminate. Qed.

Lemma no_room_app : forall a b, no_room a -> no_room b -> no_room (a ++ b).
Proof. intros a b Ha Hb r Hin. apply in_app_or in Hin as [H|H]; [eapply Ha | eapply Hb]; eauto. Qed.

Lemma no_room_update : forall n a, no_room (room_update_pubs n a).
Proof. intros n a. apply no_room_users. Qed.

Lemma no_room_disinvite : forall st u s, no_room (disinvite_pubs st u s).
Proof.
  intros st u s. apply no_room_app; [apply no_room_users|].
  intros r Hin. apply in_flat_map in Hin as [x [_ Hx]].
  destruct (lookup_rs st x); [destruct Hx as [E|[]]; discriminate | destruct Hx].
Qed.

Lemma no_room_perm : forall changed pp, perm_pubs changed = Some pp -> no_room pp.
Proof.
  induction changed as [|u r IH]; intros pp H; cbn in H.
  - inversion H. intros x [].
  - destruct (assoc "permissions" (as_map u)) as [p|]; [|now apply IH].
    destruct (user_sid u) as [sid|]; [|discriminate].
    destruct p; try (now apply IH).
    destruct j; try (now apply IH).
    destruct (perm_strings l); [|now apply IH].
    destruct (perm_pubs r) as [pp'|]; [|discriminate].
    inversion H; subst pp. intros x [E|Hin]; [discriminate | eapply IH; eauto].
Qed.

(* ---- user lists after fixupUserSessions -------------------------------------------------------- *)
Definition has_sid (u : gval) : bool := match user_sid u with Some _ => true | None => false end.

Lemma fixup_user_has_sid : forall st u x, In x (fixup_user st u) -> has_sid x = true.
Proof.
  intros st u x Hin. unfold fixup_user in Hin.
  destruct (assoc "sessionId" (as_map u)) as [v|]; [|destruct Hin].
  destruct v; try destruct Hin. destruct j; try destruct Hin.
  destruct (lookup_rs st s) as [sid|]; [|destruct Hin].
  destruct Hin as [<-|[]]. unfold has_sid, user_sid. cbn [as_map].
  now rewrite assoc_map_set_same.
Qed.

Lemma fixup_users_has_sid : forall st l, forallb has_sid (fixup_users st l) = true.
Proof.
  intros st l. apply forallb_forall. intros x Hin. unfold fixup_users in Hin.
  apply in_flat_map in Hin as [u [_ Hx]]. eapply fixup_user_has_sid; eauto.
Qed.

Lemma has_sid_add_internal_ok : forall l, forallb has_sid l = true -> add_internal_ok l = true.
Proof.
  intros l H. unfold add_internal_ok. apply forallb_forall. intros u Hin.
  rewrite forallb_forall in H. specialize (H u Hin). unfold has_sid, user_sid in H.
  destruct (assoc "sessionId" (as_map u)) as [v|]; [|reflexivity].
  destruct v; try discriminate. destruct j; try discriminate.
  destruct (is_empty_str (GIface (JStr s))); [reflexivity|].
  destruct (assoc "userId" (as_map u)) as [uid|]; [|reflexivity].
  destruct (is_empty_str uid); reflexivity.
Qed.

Lemma perm_pubs_has_sid : forall l, forallb has_sid l = true -> perm_pubs l <> None.
Proof.
  induction l as [|u r IH]; intros H; cbn; [discriminate|].
  cbn in H. apply andb_prop in H as [Hu Hr]. specialize (IH Hr).
  destruct (assoc "permissions" (as_map u)) as [p|]; [|assumption].
  unfold has_sid in Hu. destruct (user_sid u) as [sid|]; [|discriminate].
  destruct p; try assumption. destruct j; try assumption.
  destruct (perm_strings l); [|assumption].
  destruct (perm_pubs r); [discriminate | congruence].
Qed.

Lemma publish_participants_ok : forall st users changed,
  forallb has_sid users = true -> forallb has_sid changed = true ->
  c_exit (publish_participants st users changed) = false.
Proof.
  intros st users changed Hu Hc. unfold publish_participants.
  rewrite (has_sid_add_internal_ok _ Hu). cbn [negb].
  destruct (st_members st); [reflexivity|].
  unfold filter_message.
  assert (H : forallb (fun u => match user_sid u with Some _ => true | None => false end) (users ++ changed) = true).
  { rewrite forallb_app. unfold has_sid in Hu, Hc. now rewrite Hu, Hc. }
  rewrite H. reflexivity.
Qed.

(* ---- reading back what set_sub wrote ----------------------------------------------------------------- *)
Lemma set_sub_type : forall sub kvs req, sub <> "Type" -> fld "Type" (set_sub sub kvs req) = fld "Type" req.
Proof. intros. unfold set_sub. now apply fld_sset_other. Qed.

Lemma set_sub_read : forall sub kvs req s, deref (fld sub req) = Some s ->
  fld sub (set_sub sub kvs req) = fold_left (fun p kv => pset (fst kv) (snd kv) p) kvs (fld sub req).
Proof.
  intros sub kvs req s H. unfold set_sub. apply fld_sset_same_present.
  eapply deref_some_not_nil; eauto.
Qed.

(* the two user lists of an incall / participants request after the handler replaced them *)
Lemma set_sub_users : forall sub req s U C, sub <> "Type" -> deref (fld sub req) = Some s ->
  let r := set_sub sub [("Users", GSlice U); ("Changed", GSlice C)] req in
  fld "Type" r = fld "Type" req /\
  exists s', deref (fld sub r) = Some s' /\
             (as_list (fld "Users" s') = U \/ as_list (fld "Users" s') = []) /\
             (as_list (fld "Changed" s') = C \/ as_list (fld "Changed" s') = []) /\
             fld "All" s' = fld "All" s.
Proof.
  intros sub req s U C Hne Hd r. split; [now apply set_sub_type|].
  unfold r. rewrite (set_sub_read _ _ _ _ Hd). cbn [fold_left fst snd].
  destruct (deref_pset "Users" (GSlice U) _ _ Hd) as [s1 [Hd1 [Hu1 Ho1]]].
  destruct (deref_pset "Changed" (GSlice C) _ _ Hd1) as [s2 [Hd2 [Hc2 Ho2]]].
  exists s2. split; [assumption|]. repeat split.
  - rewrite (Ho2 "Users") by discriminate. destruct Hu1 as [->| ->]; cbn; auto.
  - destruct Hc2 as [->| ->]; cbn; auto.
  - rewrite (Ho2 "All") by discriminate. now rewrite (Ho1 "All") by discriminate.
Qed.

(* ---- consumers on what the handler publishes ----------------------------------------------------------- *)
Lemma safe_update : forall r s, as_str (fld "Type" r) = "update" -> deref (fld "Update" r) = Some s -> safe r.
Proof.
  intros r s Hty Hd st. unfold consume. rewrite Hty. cbn [String.eqb Ascii.eqb Bool.eqb]. rewrite Hd.
  destruct (raw_eqb (st_props st) (as_raw (fld "Properties" s))); reflexivity.
Qed.

Lemma safe_delete : forall r, as_str (fld "Type" r) = "delete" -> safe r.
Proof. intros r Hty st. unfold consume. rewrite Hty. reflexivity. Qed.

Lemma safe_message : forall r, as_str (fld "Type" r) = "message" -> safe r.
Proof.
  intros r Hty st. unfold consume. rewrite Hty. cbn [String.eqb Ascii.eqb Bool.eqb].
  destruct (deref (fld "Message" r)) as [m|]; [|reflexivity].
  destruct (as_raw (fld "Data" m)); reflexivity.
Qed.

Lemma safe_switchto : forall r s, as_str (fld "Type" r) = "switchto" -> deref (fld "SwitchTo" r) = Some s -> safe r.
Proof.
  intros r s Hty Hd st. unfold consume. rewrite Hty. cbn [String.eqb Ascii.eqb Bool.eqb]. rewrite Hd. reflexivity.
Qed.

Lemma safe_incall_all : forall r s, as_str (fld "Type" r) = "incall" -> deref (fld "InCall" r) = Some s ->
  as_bool (fld "All" s) = true -> safe r.
Proof.
  intros r s Hty Hd Hall st. unfold consume. rewrite Hty. cbn [String.eqb Ascii.eqb Bool.eqb]. rewrite Hd, Hall.
  destruct (incall_flags (as_raw (fld "InCall" s))) as [fl|]; [|reflexivity].
  destruct (Z.odd fl).
  - destruct (filter (fun s0 => negb (mem s0 (st_incall st))) (st_members st)); reflexivity.
  - destruct (st_incall st); reflexivity.
Qed.

Lemma safe_incall_lists : forall r s, as_str (fld "Type" r) = "incall" -> deref (fld "InCall" r) = Some s ->
  forallb has_sid (as_list (fld "Users" s)) = true -> forallb has_sid (as_list (fld "Changed" s)) = true -> safe r.
Proof.
  intros r s Hty Hd Hu Hc st. unfold consume. rewrite Hty. cbn [String.eqb Ascii.eqb Bool.eqb]. rewrite Hd.
  destruct (as_bool (fld "All" s)).
  - destruct (incall_flags (as_raw (fld "InCall" s))) as [fl|]; [|reflexivity].
    destruct (Z.odd fl).
    + destruct (filter (fun s0 => negb (mem s0 (st_incall st))) (st_members st)); reflexivity.
    + destruct (st_incall st); reflexivity.
  - now apply publish_participants_ok.
Qed.

Lemma safe_participants_lists : forall r s, as_str (fld "Type" r) = "participants" -> deref (fld "Participants" r) = Some s ->
  forallb has_sid (as_list (fld "Users" s)) = true -> forallb has_sid (as_list (fld "Changed" s)) = true -> safe r.
Proof.
  intros r s Hty Hd Hu Hc st. unfold consume. rewrite Hty. cbn [String.eqb Ascii.eqb Bool.eqb]. rewrite Hd.
  now apply publish_participants_ok.
Qed.

(* ---- the handler ---------------------------------------------------------------------------------------- *)
Definition replied (h : hres) : Prop := exists code, h_reply h = Status code.
Definition hgood (h : hres) : Prop := replied h /\ all_safe (h_pubs h).

Lemma hdone_good : forall c ps, all_safe ps -> hgood (hdone c ps).
Proof. intros c ps H. split; [now exists c | exact H]. Qed.

Lemma hpublish_good : forall r b a, safe r -> no_room b -> no_room a -> hgood (hpublish r b a).
Proof.
  intros r b a Hr Hb Ha. unfold hpublish. destruct (fits r); apply hdone_good.
  - apply all_safe_app; [now apply no_room_safe|]. apply all_safe_cons_room; [assumption | now apply no_room_safe].
  - apply no_room_safe. now apply no_room_app.
Qed.

Lemma no_room_nil : no_room [].
Proof. intros r []. Qed.

Lemma sub_field_cases : forall ty F, sub_field ty = Some F ->
  (ty = "invite" /\ F = "Invite") \/ (ty = "disinvite" /\ F = "Disinvite") \/ (ty = "update" /\ F = "Update") \/
  (ty = "delete" /\ F = "Delete") \/ (ty = "incall" /\ F = "InCall") \/ (ty = "participants" /\ F = "Participants") \/
  (ty = "message" /\ F = "Message") \/ (ty = "switchto" /\ F = "SwitchTo") \/ (ty = "dialout" /\ F = "Dialout").
Proof.
  intros ty F H. unfold sub_field in H.
  repeat match type of H with
  | (if String.eqb ?a ?b then _ else _) = _ =>
      let E := fresh "E" in destruct (String.eqb a b) eqn:E;
      [apply String.eqb_eq in E; inversion H; subst; tauto|]
  end.
  discriminate.
Qed.

Lemma check_valid_sub : forall req F, check_valid req = true ->
  sub_field (as_str (fld "Type" req)) = Some F ->
  exists s, deref (fld F req) = Some s /\
            (as_str (fld "Type" req) = "switchto" -> switchto_valid s = true).
Proof.
  intros req F Hcv Hsf. unfold check_valid in Hcv.
  destruct (String.eqb (as_str (fld "Type" req)) ""); [discriminate|].
  rewrite Hsf in Hcv. destruct (deref (fld F req)) as [s|]; [|discriminate].
  exists s. split; [reflexivity|]. intros Hty. rewrite Hty in Hcv. exact Hcv.
Qed.

Lemma lists_has_sid_cases : forall st l x, x = fixup_users st l \/ x = [] -> forallb has_sid x = true.
Proof. intros st l x [->| ->]; [apply fixup_users_has_sid | reflexivity]. Qed.

Lemma dispatch_good : forall st req, check_valid req = true -> hgood (dispatch st req).
Proof.
  intros st req Hcv. unfold dispatch.
  destruct (String.eqb (as_str (fld "Type" req)) "invite") eqn:E1.
  { apply String.eqb_eq in E1. destruct (check_valid_sub req "Invite" Hcv) as [s [Hd _]]; [now rewrite E1|].
    unfold do_invite. rewrite Hd. apply hdone_good, no_room_safe, no_room_app; [apply no_room_users | apply no_room_update]. }
  destruct (String.eqb (as_str (fld "Type" req)) "disinvite") eqn:E2.
  { apply String.eqb_eq in E2. destruct (check_valid_sub req "Disinvite" Hcv) as [s [Hd _]]; [now rewrite E2|].
    unfold do_disinvite. rewrite Hd. apply hdone_good, no_room_safe, no_room_app; [apply no_room_disinvite | apply no_room_update]. }
  destruct (String.eqb (as_str (fld "Type" req)) "update") eqn:E3.
  { apply String.eqb_eq in E3. destruct (check_valid_sub req "Update" Hcv) as [s [Hd _]]; [now rewrite E3|].
    unfold do_update. rewrite Hd. apply hpublish_good; [eapply safe_update; eauto | apply no_room_nil | apply no_room_update]. }
  destruct (String.eqb (as_str (fld "Type" req)) "delete") eqn:E4.
  { apply String.eqb_eq in E4. destruct (check_valid_sub req "Delete" Hcv) as [s [Hd _]]; [now rewrite E4|].
    unfold do_delete. rewrite Hd. apply hpublish_good; [now apply safe_delete | apply no_room_nil | apply no_room_disinvite]. }
  destruct (String.eqb (as_str (fld "Type" req)) "incall") eqn:E5.
  { apply String.eqb_eq in E5. destruct (check_valid_sub req "InCall" Hcv) as [s [Hd _]]; [now rewrite E5|].
    unfold do_incall. rewrite Hd. destruct (as_bool (fld "All" s)) eqn:Hall.
    - apply hpublish_good; [eapply safe_incall_all; eauto | apply no_room_nil | apply no_room_nil].
    - set (U := fixup_users st (as_list (fld "Users" s))). set (C := fixup_users st (as_list (fld "Changed" s))).
      assert (Hpub : hgood (hpublish (set_sub "InCall" [("Users", GSlice U); ("Changed", GSlice C)] req) [] [])).
      { destruct (set_sub_users "InCall" req s U C ltac:(discriminate) Hd) as [Hty [s' [Hd' [Hu [Hc _]]]]].
        apply hpublish_good; [|apply no_room_nil|apply no_room_nil].
        eapply safe_incall_lists; [now rewrite Hty | exact Hd' | |].
        + eapply lists_has_sid_cases; exact Hu.
        + eapply lists_has_sid_cases; exact Hc. }
      destruct U; [destruct C; [apply hdone_good, all_safe_nil | exact Hpub] | exact Hpub]. }
  destruct (String.eqb (as_str (fld "Type" req)) "participants") eqn:E6.
  { apply String.eqb_eq in E6. destruct (check_valid_sub req "Participants" Hcv) as [s [Hd _]]; [now rewrite E6|].
    unfold do_participants. rewrite Hd.
    set (U := fixup_users st (as_list (fld "Users" s))). set (C := fixup_users st (as_list (fld "Changed" s))).
    assert (Hpub : hgood (match perm_pubs C with
                          | None => hpanic []
                          | Some pp => hpublish (set_sub "Participants" [("Users", GSlice U); ("Changed", GSlice C)] req) pp []
                          end)).
    { destruct (perm_pubs C) as [pp|] eqn:Hpp.
      - destruct (set_sub_users "Participants" req s U C ltac:(discriminate) Hd) as [Hty [s' [Hd' [Hu [Hc _]]]]].
        apply hpublish_good; [|eapply no_room_perm; eauto|apply no_room_nil].
        eapply safe_participants_lists; [now rewrite Hty | exact Hd' | |].
        + eapply lists_has_sid_cases; exact Hu.
        + eapply lists_has_sid_cases; exact Hc.
      - exfalso. eapply perm_pubs_has_sid; [|exact Hpp]. apply fixup_users_has_sid. }
    destruct U; [destruct C; [apply hdone_good, all_safe_nil | exact Hpub] | exact Hpub]. }
  destruct (String.eqb (as_str (fld "Type" req)) "message") eqn:E7.
  { apply String.eqb_eq in E7. unfold do_message.
    apply hpublish_good; [now apply safe_message | apply no_room_nil | apply no_room_nil]. }
  destruct (String.eqb (as_str (fld "Type" req)) "switchto") eqn:E8.
  { apply String.eqb_eq in E8. destruct (check_valid_sub req "SwitchTo" Hcv) as [s [Hd Hsv]]; [now rewrite E8|].
    specialize (Hsv E8). unfold do_switchto. rewrite Hd.
    assert (Hmod : forall kvs, safe (set_sub "SwitchTo" kvs req)).
    { intros kvs. assert (Hnn : fld "SwitchTo" (set_sub "SwitchTo" kvs req) <> GNil).
      { rewrite (set_sub_read _ _ _ _ Hd). pose proof (deref_some_not_nil _ _ Hd) as Hn.
        revert Hn. generalize (fld "SwitchTo" req). induction kvs as [|kv r IH]; intros p Hn; cbn; [assumption|].
        apply IH. now apply pset_not_nil. }
      destruct (deref (fld "SwitchTo" (set_sub "SwitchTo" kvs req))) as [s'|] eqn:Hd'.
      - eapply safe_switchto; [|exact Hd']. rewrite set_sub_type by discriminate. exact E8.
      - exfalso. eapply deref_not_nil; eauto. }
    destruct (as_raw (fld "Sessions" s)) as [raw|] eqn:Hraw.
    - destruct raw; try (apply hdone_good, all_safe_nil).
      + (* list *)
        unfold switchto_valid in Hsv. rewrite Hraw in Hsv.
        destruct (std_string_list l) as [ids|]; [|discriminate].
        destruct (flat_map _ ids); [apply hdone_good, all_safe_nil|].
        apply hpublish_good; [apply Hmod | apply no_room_nil | apply no_room_nil].
      + (* map *)
        destruct (fold_left _ (std_raw_map ms []) []); [apply hdone_good, all_safe_nil|].
        apply hpublish_good; [apply Hmod | apply no_room_nil | apply no_room_nil].
    - apply hpublish_good; [eapply safe_switchto; eauto | apply no_room_nil | apply no_room_nil]. }
  destruct (String.eqb (as_str (fld "Type" req)) "dialout") eqn:E9.
  { apply String.eqb_eq in E9. destruct (check_valid_sub req "Dialout" Hcv) as [s [Hd _]]; [now rewrite E9|].
    unfold do_dialout. rewrite Hd.
    destruct (negb (valid_number (as_str (fld "Number" s)))); [apply hdone_good, all_safe_nil|].
    destruct (negb (st_numeric st)); [apply hdone_good, all_safe_nil|].
    destruct (st_dialout st); apply hdone_good, all_safe_nil. }
  apply hdone_good, all_safe_nil.
Qed.

Lemma handle_good : forall st b, hgood (handle true st b).
Proof.
  intros st b. destruct b as [|j]; cbn [handle]; [apply hdone_good, all_safe_nil|].
  destruct (Z.of_nat (json_depth j) >? max_nesting)%Z; [apply hdone_good, all_safe_nil|].
  destruct (decode ty_request (zero ty_request) j) as [req|]; [|apply hdone_good, all_safe_nil].
  cbn [andb]. destruct (check_valid req) eqn:Hcv; cbn [negb]; [now apply dispatch_good | apply hdone_good, all_safe_nil].
Qed.

(* ---- delivery --------------------------------------------------------------------------------------------- *)
Lemma deliver_safe : forall ps st, all_safe ps -> c_exit (deliver st ps) = false.
Proof.
  induction ps as [|p r IH]; intros st Hs; [reflexivity|].
  assert (Hr : all_safe r) by (intros x Hx; apply Hs; now right).
  destruct p; cbn [deliver c_exit]; try (now apply IH).
  destruct (st_room st); cbn [c_exit]; [|now apply IH].
  assert (Hc : c_exit (consume st r0) = false) by (apply Hs; now left).
  rewrite Hc. cbn [c_exit]. now apply IH.
Qed.

(* C11, first half, at full strength: every correctly signed request is answered
   and nothing anywhere panics - whatever the body, whatever the state *)
Lemma answered_never_fatal : forall st b,
  let o := snd (step true st b) in
  o_exit o = false /\ exists code, o_reply o = Status code.
Proof.
  intros st b. unfold step. cbn [snd o_exit o_reply].
  destruct (handle_good st b) as [Hrep Hsafe]. split; [now apply deliver_safe | exact Hrep].
Qed.

Lemma run_never_fatal : forall bs st,
  Forall (fun o => o_exit o = false /\ exists code, o_reply o = Status code) (run true st bs).
Proof.
  induction bs as [|b r IH]; intros st; cbn [run]; [constructor|].
  pose proof (answered_never_fatal st b) as H.
  destruct (step true st b) as [st' o] eqn:E. cbn [snd] in H.
  constructor; [exact H|]. destruct H as [Hx _]. rewrite Hx. apply IH.
Qed.

(* ---- status codes ------------------------------------------------------------------------------------------ *)
Lemma fits_mono : forall r r', (gdepth r <= gdepth r')%nat -> fits r = false -> fits r' = false.
Proof.
  intros r r' Hle H. unfold fits in *. apply Z.leb_gt in H. apply Z.leb_gt. lia.
Qed.

Definition code_ok (st : state) (req : gval) (h : hres) : Prop :=
  forall code, h_reply h = Status code ->
    code = 200%Z \/ code = 400%Z \/ code = 404%Z \/ st_dialout st = Some code \/ (code = 500%Z /\ fits req = false).

Lemma hdone_code : forall st req c ps, (c = 200 \/ c = 400 \/ c = 404)%Z -> code_ok st req (hdone c ps).
Proof. intros st req c ps H code E. cbn in E. inversion E; subst. tauto. Qed.

Lemma hpublish_code : forall st req r b a, (gdepth r <= gdepth req)%nat -> code_ok st req (hpublish r b a).
Proof.
  intros st req r b a Hle code E. unfold hpublish in E. destruct (fits r) eqn:F; cbn in E; inversion E; subst.
  - tauto.
  - right; right; right; right. split; [reflexivity|]. eapply fits_mono; eauto.
Qed.

(* depth of the lists the handler writes back *)
Lemma fixup_user_depth : forall st u x, In x (fixup_user st u) -> (gdepth x <= gdepth u)%nat.
Proof.
  intros st u x Hin. unfold fixup_user in Hin.
  destruct (assoc "sessionId" (as_map u)) as [v|] eqn:Ea; [|destruct Hin].
  destruct v; try destruct Hin. destruct j; try destruct Hin.
  destruct (lookup_rs st s) as [sid|]; [|destruct Hin].
  destruct Hin as [<-|[]].
  destruct u; cbn [as_map] in *; try discriminate.
  rewrite !gdepth_map. destruct m as [|e m']; [discriminate|].
  pose proof (maxd_kv_map_set "sessionId" (GIface (JStr sid)) (e :: m')) as H. cbn [gdepth json_depth] in H.
  destruct (map_set "sessionId" (GIface (JStr sid)) (e :: m')); lia.
Qed.

Lemma fixup_users_depth : forall st l, (maxd (fixup_users st l) <= maxd l)%nat.
Proof.
  intros st. induction l as [|u r IH]; [cbn; lia|].
  unfold fixup_users in *. cbn [flat_map maxd].
  assert (H : (maxd (fixup_user st u) <= gdepth u)%nat).
  { pose proof (fixup_user_depth st u) as Hx. revert Hx. generalize (fixup_user st u). intros l Hx.
    induction l as [|y l' IHl]; [cbn; lia|]. cbn [maxd].
    pose proof (Hx y (or_introl eq_refl)). specialize (IHl (fun z Hz => Hx z (or_intror Hz))). lia. }
  assert (Happ : forall a b, maxd (a ++ b) = Nat.max (maxd a) (maxd b)).
  { induction a as [|y a' IHa]; intros b; [reflexivity|]. cbn [app maxd]. rewrite IHa. lia. }
  rewrite Happ. lia.
Qed.

Lemma fixup_slice_depth : forall st v, (gdepth (GSlice (fixup_users st (as_list v))) <= gdepth v)%nat.
Proof.
  intros st v. pose proof (as_list_depth v) as H. rewrite gdepth_slice in *.
  pose proof (fixup_users_depth st (as_list v)) as H0.
  destruct (as_list v) as [|a l0]; [cbn; lia|].
  destruct (fixup_users st (a :: l0)); lia.
Qed.

Lemma set_sub_users_depth : forall st sub req s, deref (fld sub req) = Some s ->
  (gdepth (set_sub sub [("Users", GSlice (fixup_users st (as_list (fld "Users" s))));
                        ("Changed", GSlice (fixup_users st (as_list (fld "Changed" s))))] req) <= gdepth req)%nat.
Proof.
  intros st sub req s Hd. unfold set_sub. apply gdepth_sset_le. cbn [fold_left fst snd].
  destruct (deref_pset "Users" (GSlice (fixup_users st (as_list (fld "Users" s)))) _ _ Hd) as [s1 [Hd1 [_ Ho1]]].
  pose proof (gdepth_pset_le "Users" _ _ _ Hd (fixup_slice_depth st (fld "Users" s))) as H1.
  assert (H2 : (gdepth (GSlice (fixup_users st (as_list (fld "Changed" s)))) <= gdepth (fld "Changed" s1))%nat).
  { rewrite (Ho1 "Changed") by discriminate. apply fixup_slice_depth. }
  pose proof (gdepth_pset_le "Changed" _ _ _ Hd1 H2). lia.
Qed.

(* switchto: the internal lists replace a raw "sessions" value that was at least as deep *)
Lemma fold_pset_depth : forall kvs p d, (gdepth p <= d)%nat ->
  (forall kv, In kv kvs -> S (gdepth (snd kv)) <= d)%nat ->
  (gdepth (fold_left (fun p kv => pset (fst kv) (snd kv) p) kvs p) <= d)%nat.
Proof.
  induction kvs as [|kv r IH]; intros p d Hp Hk; cbn [fold_left]; [assumption|].
  apply IH; [|intros kv' Hin; apply Hk; now right].
  pose proof (gdepth_pset (fst kv) (snd kv) p). pose proof (Hk kv (or_introl eq_refl)). lia.
Qed.

Lemma set_sub_depth_weak : forall sub kvs req s, deref (fld sub req) = Some s ->
  (forall kv, In kv kvs -> S (gdepth (snd kv)) <= gdepth s)%nat ->
  (gdepth (set_sub sub kvs req) <= gdepth req)%nat.
Proof.
  intros sub kvs req s Hd Hk. unfold set_sub. apply gdepth_sset_le.
  apply fold_pset_depth; [lia|]. rewrite <- (deref_depth _ _ Hd). exact Hk.
Qed.

Lemma std_raw_map_depth : forall ms acc, (maxj_kv (std_raw_map ms acc) <= Nat.max (maxj_kv acc) (maxj_kv ms))%nat.
Proof.
  induction ms as [|[k v] r IH]; intros acc; cbn [std_raw_map maxj_kv]; [lia|].
  specialize (IH (map_set k v acc)).
  assert (H : (maxj_kv (map_set k v acc) <= Nat.max (json_depth v) (maxj_kv acc))%nat).
  { clear. induction acc as [|[k' y] a IHa]; cbn [map_set maxj_kv]; [lia|].
    destruct (String.eqb k k'); cbn [maxj_kv]; lia. }
  lia.
Qed.

Lemma internal_map_depth : forall st l acc,
  (maxd_kv (fold_left (fun acc kv => match lookup_rs st (fst kv) with
                                    | Some sid => map_set sid (GRaw (Some (snd kv))) acc
                                    | None => acc
                                    end) l acc) <= Nat.max (maxd_kv acc) (maxj_kv l))%nat.
Proof.
  intros st. induction l as [|[k v] r IH]; intros acc; cbn [fold_left maxj_kv fst snd]; [lia|].
  destruct (lookup_rs st k) as [sid|].
  - specialize (IH (map_set sid (GRaw (Some v)) acc)).
    pose proof (maxd_kv_map_set sid (GRaw (Some v)) acc) as H. cbn [gdepth] in H. lia.
  - specialize (IH acc). lia.
Qed.

Lemma strs_depth : forall (l : list gval), (forall x, In x l -> gdepth x = 0%nat) -> (gdepth (GSlice l) <= 1)%nat.
Proof.
  intros l H. rewrite gdepth_slice. destruct l as [|y r]; [lia|].
  assert (Hm : maxd (y :: r) = 0%nat).
  { revert H. generalize (y :: r). induction l as [|z l' IHl]; intros H; [reflexivity|]. cbn [maxd].
    rewrite (H z (or_introl eq_refl)), IHl; [reflexivity | intros x Hx; apply H; now right]. }
  lia.
Qed.

Lemma dispatch_code : forall st req, check_valid req = true -> code_ok st req (dispatch st req).
Proof.
  intros st req Hcv. unfold dispatch.
  destruct (String.eqb (as_str (fld "Type" req)) "invite") eqn:E1.
  { apply String.eqb_eq in E1. destruct (check_valid_sub req "Invite" Hcv) as [s [Hd _]]; [now rewrite E1|].
    unfold do_invite. rewrite Hd. apply hdone_code. tauto. }
  destruct (String.eqb (as_str (fld "Type" req)) "disinvite") eqn:E2.
  { apply String.eqb_eq in E2. destruct (check_valid_sub req "Disinvite" Hcv) as [s [Hd _]]; [now rewrite E2|].
    unfold do_disinvite. rewrite Hd. apply hdone_code. tauto. }
  destruct (String.eqb (as_str (fld "Type" req)) "update") eqn:E3.
  { apply String.eqb_eq in E3. destruct (check_valid_sub req "Update" Hcv) as [s [Hd _]]; [now rewrite E3|].
    unfold do_update. rewrite Hd. apply hpublish_code. lia. }
  destruct (String.eqb (as_str (fld "Type" req)) "delete") eqn:E4.
  { apply String.eqb_eq in E4. destruct (check_valid_sub req "Delete" Hcv) as [s [Hd _]]; [now rewrite E4|].
    unfold do_delete. rewrite Hd. apply hpublish_code. lia. }
  destruct (String.eqb (as_str (fld "Type" req)) "incall") eqn:E5.
  { apply String.eqb_eq in E5. destruct (check_valid_sub req "InCall" Hcv) as [s [Hd _]]; [now rewrite E5|].
    unfold do_incall. rewrite Hd. destruct (as_bool (fld "All" s)); [apply hpublish_code; lia|].
    pose proof (set_sub_users_depth st "InCall" req s Hd) as Hdep.
    destruct (fixup_users st (as_list (fld "Users" s)));
      [destruct (fixup_users st (as_list (fld "Changed" s))); [apply hdone_code; tauto|]|];
      now apply hpublish_code. }
  destruct (String.eqb (as_str (fld "Type" req)) "participants") eqn:E6.
  { apply String.eqb_eq in E6. destruct (check_valid_sub req "Participants" Hcv) as [s [Hd _]]; [now rewrite E6|].
    unfold do_participants. rewrite Hd.
    pose proof (set_sub_users_depth st "Participants" req s Hd) as Hdep.
    assert (Hpp : perm_pubs (fixup_users st (as_list (fld "Changed" s))) <> None)
      by (apply perm_pubs_has_sid, fixup_users_has_sid).
    destruct (fixup_users st (as_list (fld "Users" s)));
      [destruct (fixup_users st (as_list (fld "Changed" s))); [apply hdone_code; tauto|]|];
      (match goal with |- context [perm_pubs ?l] => destruct (perm_pubs l) as [pp|]; [now apply hpublish_code | congruence] end). }
  destruct (String.eqb (as_str (fld "Type" req)) "message") eqn:E7.
  { unfold do_message. apply hpublish_code. lia. }
  destruct (String.eqb (as_str (fld "Type" req)) "switchto") eqn:E8.
  { apply String.eqb_eq in E8. destruct (check_valid_sub req "SwitchTo" Hcv) as [s [Hd Hsv]]; [now rewrite E8|].
    specialize (Hsv E8). unfold do_switchto. rewrite Hd. unfold switchto_valid in Hsv.
    destruct (as_raw (fld "Sessions" s)) as [raw|] eqn:Hraw; [|apply hpublish_code; lia].
    assert (Hnn : fld "Sessions" s <> GNil) by (intros E; rewrite E in Hraw; discriminate).
    pose proof (fld_depth "Sessions" s Hnn) as Hfd.
    assert (Hrd : gdepth (fld "Sessions" s) = json_depth raw).
    { destruct (fld "Sessions" s); cbn in Hraw; try discriminate. inversion Hraw; subst. reflexivity. }
    destruct raw; try discriminate; try (apply hdone_code; tauto).
    - (* list *)
      destruct (std_string_list l) as [ids|]; [|discriminate].
      destruct (flat_map _ ids) eqn:Ef; [apply hdone_code; tauto|]. rewrite <- Ef.
      apply hpublish_code. eapply set_sub_depth_weak; [exact Hd|].
      rewrite json_depth_arr in Hrd.
      intros kv [<-|[<-|[<-|[]]]]; cbn [snd].
      + assert (Hs : (gdepth (GSlice (flat_map (fun rs => match lookup_rs st rs with Some sid => [GStr sid] | None => [] end) ids)) <= 1)%nat).
        { apply strs_depth. intros x Hx. apply in_flat_map in Hx as [rs [_ Hx]].
          destruct (lookup_rs st rs); [destruct Hx as [<-|[]]; reflexivity | destruct Hx]. }
        lia.
      + cbn. lia.
      + cbn. lia.
    - (* map *)
      destruct (fold_left _ (std_raw_map ms []) []) eqn:Ef; [apply hdone_code; tauto|]. rewrite <- Ef.
      apply hpublish_code. eapply set_sub_depth_weak; [exact Hd|].
      rewrite json_depth_obj in Hrd.
      intros kv [<-|[<-|[<-|[]]]]; cbn [snd].
      + cbn. lia.
      + pose proof (internal_map_depth st (std_raw_map ms []) []) as H1.
        pose proof (std_raw_map_depth ms []) as H2. cbn [maxd_kv maxj_kv] in H1, H2.
        rewrite gdepth_map.
        destruct (fold_left _ (std_raw_map ms []) []); lia.
      + cbn. lia. }
  destruct (String.eqb (as_str (fld "Type" req)) "dialout") eqn:E9.
  { apply String.eqb_eq in E9. destruct (check_valid_sub req "Dialout" Hcv) as [s [Hd _]]; [now rewrite E9|].
    unfold do_dialout. rewrite Hd.
    destruct (negb (valid_number (as_str (fld "Number" s)))); [apply hdone_code; tauto|].
    destruct (negb (st_numeric st)); [apply hdone_code; tauto|].
    destruct (st_dialout st) as [c|] eqn:Ed; [|apply hdone_code; tauto].
    intros code E. cbn in E. inversion E; subst. tauto. }
  apply hdone_code. tauto.
Qed.

Lemma handle_code : forall st b code, h_reply (handle true st b) = Status code ->
  code = 200%Z \/ code = 400%Z \/ code = 404%Z \/ st_dialout st = Some code \/
  (code = 500%Z /\ exists j req, b = Doc j /\ decode ty_request (zero ty_request) j = Ok req /\ fits req = false).
Proof.
  intros st b code H. destruct b as [|j]; cbn [handle] in H; [cbn in H; inversion H; tauto|].
  destruct (Z.of_nat (json_depth j) >? max_nesting)%Z; [cbn in H; inversion H; tauto|].
  destruct (decode ty_request (zero ty_request) j) as [req|] eqn:E; [|cbn in H; inversion H; tauto].
  cbn [andb] in H. destruct (check_valid req) eqn:Hcv; cbn [negb] in H; [|cbn in H; inversion H; tauto].
  destruct (dispatch_code st req Hcv code H) as [?|[?|[?|[?|[? ?]]]]]; try tauto.
  right; right; right; right. split; [assumption|]. exists j, req. tauto.
Qed.

(* the decoded request is not deeper than the document (or than the two levels the
   type has by itself) *)
Lemma request_depth : forall j req, decode ty_request (zero ty_request) j = Ok req ->
  (gdepth req <= Nat.max (json_depth j) 2)%nat.
Proof.
  intros j req H. rewrite ty_request_eq in H.
  assert (Hflat : flat (TStruct req_fields) = true) by (vm_compute; reflexivity).
  pose proof (decode_depth _ Hflat _ _ _ H) as Hd.
  assert (Hz : gdepth (zero (TStruct req_fields)) = 1%nat) by (vm_compute; reflexivity).
  assert (Ht : tz (TStruct req_fields) = 2%nat) by (vm_compute; reflexivity).
  rewrite Hz, Ht in Hd. lia.
Qed.

Definition shallow (b : body) : Prop :=
  match b with BadSyntax => True | Doc j => (Z.of_nat (json_depth j) < max_nesting)%Z end.
Definition good_code (c : Z) : Prop := (200 <= c < 300 \/ 400 <= c < 500)%Z.
Definition dialout_ok (st : state) : Prop :=
  match st_dialout st with None => True | Some c => good_code c end.

Lemma shallow_fits : forall j req, shallow (Doc j) -> decode ty_request (zero ty_request) j = Ok req -> fits req = true.
Proof.
  intros j req Hs Hd. pose proof (request_depth j req Hd) as H. unfold shallow, max_nesting in Hs.
  unfold fits, max_nesting. apply Z.leb_le. lia.
Qed.

Lemma total_partial : forall st b, dialout_ok st -> shallow b ->
  let o := snd (step true st b) in
  o_exit o = false /\ exists code, o_reply o = Status code /\ good_code code.
Proof.
  intros st b Hdo Hs o. destruct (answered_never_fatal st b) as [Hx [code Hc]]. fold o in Hx, Hc.
  split; [assumption|]. exists code. split; [assumption|].
  unfold o, step in Hc. cbn [snd o_reply] in Hc.
  destruct (handle_code st b code Hc) as [->|[->|[->|[Hd|[_ [j [req [-> [Hdec Hf]]]]]]]]]; unfold good_code; try lia.
  - unfold dialout_ok in Hdo. rewrite Hd in Hdo. exact Hdo.
  - rewrite (shallow_fits j req Hs Hdec) in Hf. discriminate.
Qed.

(* a reply outside 2xx/4xx is either the status a connected dial-out client caused or
   the 500 of a request that cannot be published because of its nesting *)
Lemma bad_code_cases : forall st b code, o_reply (snd (step true st b)) = Status code -> ~ good_code code ->
  st_dialout st = Some code \/ (code = 500%Z /\ ~ shallow b).
Proof.
  intros st b code Hc Hbad. unfold step in Hc. cbn [snd o_reply] in Hc.
  destruct (handle_code st b code Hc) as [->|[->|[->|[Hd|[-> [j [req [-> [Hdec Hf]]]]]]]]]; unfold good_code in Hbad; try lia.
  - now left.
  - right. split; [reflexivity|]. intros Hs. rewrite (shallow_fits j req Hs Hdec) in Hf. discriminate.
Qed.

(* the dial-out environment is not changed by requests *)
Lemma consume_dialout : forall st r, st_dialout (c_state (consume st r)) = st_dialout st.
Proof.
  intros st r. unfold consume, publish_participants.
  repeat match goal with
         | |- context [if ?c then _ else _] => destruct c
         | |- context [match ?x with _ => _ end] => destruct x
         end; reflexivity.
Qed.

Lemma deliver_dialout : forall ps st, st_dialout (c_state (deliver st ps)) = st_dialout st.
Proof.
  induction ps as [|p r IH]; intros st; [reflexivity|].
  destruct p; cbn [deliver c_state]; try apply IH.
  destruct (st_room st); cbn [c_state]; [|apply IH].
  destruct (c_exit (consume st r0)); cbn [c_state]; [apply consume_dialout|].
  rewrite IH. apply consume_dialout.
Qed.

Lemma run_total_partial : forall bs st, dialout_ok st -> Forall shallow bs ->
  Forall (fun o => o_exit o = false /\ exists code, o_reply o = Status code /\ good_code code) (run true st bs).
Proof.
  induction bs as [|b r IH]; intros st Hdo Hs; cbn [run]; [constructor|].
  inversion Hs as [|? ? Hb Hr]; subst.
  pose proof (total_partial st b Hdo Hb) as H.
  destruct (step true st b) as [st' o] eqn:E. cbn [snd] in H.
  constructor; [exact H|]. destruct H as [Hx _]. rewrite Hx. apply IH; [|assumption].
  unfold dialout_ok. replace st' with (fst (step true st b)) by now rewrite E.
  unfold step. cbn [fst]. rewrite deliver_dialout. exact Hdo.
Qed.

(* ---- malformed requests are rejected before anything is published ------------------------------------------ *)
Definition zero_req : gval := zero (TStruct req_fields).

Lemma request_fields : forall ms req, decode ty_request (zero ty_request) (JObj ms) = Ok req ->
  exists vs, req = GStruct vs /\ decode_fields req_fields zero_req ms = Ok vs.
Proof.
  intros ms req H. rewrite ty_request_eq, decode_struct_obj in H. fold zero_req in H.
  destruct (decode_fields req_fields zero_req ms) as [vs|]; [|discriminate].
  inversion H. eauto.
Qed.

Lemma field_value : forall ms vs gn jn ft, decode_fields req_fields zero_req ms = Ok vs ->
  In (gn, jn, ft) req_fields ->
  exists v, decode_occs ft (nonnull_occurrences jn ms) (sget gn zero_req (zero ft)) = Ok v /\ fld gn (GStruct vs) = v.
Proof.
  intros ms vs gn jn ft H Hin.
  destruct (decode_fields_assoc _ _ _ _ _ _ _ H req_fields_nodup Hin) as [v [Hv Ha]].
  exists v. split; [assumption|]. cbn [fld]. now rewrite Ha.
Qed.

Lemma type_field_in : In ("Type", "type", TString) req_fields.
Proof. cbn; tauto. Qed.

(* "type" holds the last non-null occurrence *)
Lemma type_value : forall ms vs ty, decode_fields req_fields zero_req ms = Ok vs ->
  effective_type ms = Some ty -> as_str (fld "Type" (GStruct vs)) = ty.
Proof.
  intros ms vs ty H He. unfold effective_type in He.
  destruct (last_nonnull "type" ms) as [x|] eqn:El; [|discriminate].
  destruct x; try discriminate. inversion He; subst s.
  destruct (field_value _ _ _ _ _ H type_field_in) as [v [Hv Hf]].
  destruct (last_nonnull_split _ _ _ El) as [pre Hsplit]. rewrite Hsplit in Hv.
  apply (decode_occs_last _ _ _ _ _ replacing_string) in Hv. cbn in Hv. injection Hv as <-.
  rewrite Hf. reflexivity.
Qed.

Lemma type_value_none : forall ms vs, decode_fields req_fields zero_req ms = Ok vs ->
  nonnull_occurrences "type" ms = [] -> as_str (fld "Type" (GStruct vs)) = "".
Proof.
  intros ms vs H Hn. destruct (field_value _ _ _ _ _ H type_field_in) as [v [Hv Hf]].
  rewrite Hn in Hv. cbn in Hv. injection Hv as <-. rewrite Hf. reflexivity.
Qed.

Lemma wrong_kind_no_decode : forall ms vs, wrong_kind_member ms = true ->
  decode_fields req_fields zero_req ms = Ok vs -> False.
Proof.
  intros ms vs Hw Hd. unfold wrong_kind_member in Hw. apply orb_prop in Hw as [Hw|Hw].
  - apply existsb_exists in Hw as [v [Hin Hv]]. apply negb_true_iff in Hv.
    destruct (decode_fields_err req_fields zero_req ms "Type" "type" TString v type_field_in Hin) as [e He];
      [intros c'; now apply decode_string_err | congruence].
  - apply existsb_exists in Hw as [k [Hk Hw]]. apply existsb_exists in Hw as [v [Hin Hv]].
    apply negb_true_iff in Hv.
    assert (Hnn : is_null v = false).
    { apply in_nonnull_occurrences in Hin as [_ Hne]. destruct v; try reflexivity. congruence. }
    assert (Hfield : exists F fs, In (F, k, TPtr (TStruct fs)) req_fields).
    { cbn in Hk. destruct Hk as [<-|[<-|[<-|[<-|[<-|[<-|[<-|[<-|[<-|[<-|[]]]]]]]]]]];
        eexists; eexists; cbn; unfold ty_invite, ty_disinvite, ty_update, ty_delete, ty_incall,
          ty_participants, ty_message, ty_switchto, ty_dialout, ty_transient; tauto. }
    destruct Hfield as [F [fs HF]].
    destruct (decode_fields_err req_fields zero_req ms F k (TPtr (TStruct fs)) v HF Hin) as [e He];
      [intros c'; now apply decode_ptr_struct_err | congruence].
Qed.

Lemma not_api_type : forall ty, existsb (String.eqb ty) api_types = false ->
  String.eqb ty "invite" = false /\ String.eqb ty "disinvite" = false /\ String.eqb ty "update" = false /\
  String.eqb ty "delete" = false /\ String.eqb ty "incall" = false /\ String.eqb ty "participants" = false /\
  String.eqb ty "message" = false /\ String.eqb ty "switchto" = false /\ String.eqb ty "dialout" = false.
Proof.
  intros ty H. cbn [existsb api_types] in H.
  repeat (apply orb_false_iff in H as [? H]). tauto.
Qed.

Lemma unknown_type_rejected : forall st req, existsb (String.eqb (as_str (fld "Type" req))) api_types = false ->
  dispatch st req = hdone 400 [].
Proof.
  intros st req H. apply not_api_type in H as [H1 [H2 [H3 [H4 [H5 [H6 [H7 [H8 H9]]]]]]]].
  unfold dispatch. now rewrite H1, H2, H3, H4, H5, H6, H7, H8, H9.
Qed.

(* the sub-object member of every API type and its Go field *)
Lemma api_type_field : forall ty, existsb (String.eqb ty) api_types = true ->
  exists F fs, sub_field ty = Some F /\ In (F, ty, TPtr (TStruct fs)) req_fields /\ sget F zero_req (zero (TPtr (TStruct fs))) = GNil.
Proof.
  intros ty H. apply existsb_exists in H as [x [Hin He]]. apply String.eqb_eq in He. subst x.
  cbn in Hin.
  destruct Hin as [<-|[<-|[<-|[<-|[<-|[<-|[<-|[<-|[<-|[]]]]]]]]]];
    eexists; eexists; (split; [reflexivity|]); (split; [cbn; unfold ty_invite, ty_disinvite, ty_update, ty_delete, ty_incall,
          ty_participants, ty_message, ty_switchto, ty_dialout; tauto | reflexivity]).
Qed.

Lemma missing_sub_invalid : forall ms vs ty, decode_fields req_fields zero_req ms = Ok vs ->
  as_str (fld "Type" (GStruct vs)) = ty -> existsb (String.eqb ty) api_types = true ->
  nonnull_occurrences ty ms = [] -> check_valid (GStruct vs) = false.
Proof.
  intros ms vs ty H Hty Hapi Hn.
  destruct (api_type_field ty Hapi) as [F [fs [Hsf [Hin Hz]]]].
  destruct (field_value _ _ _ _ _ H Hin) as [v [Hv Hf]].
  rewrite Hn in Hv. cbn [decode_occs] in Hv. rewrite Hz in Hv. injection Hv as <-.
  unfold check_valid. rewrite Hty. destruct (String.eqb ty ""); [reflexivity|].
  rewrite Hsf, Hf. reflexivity.
Qed.

Lemma decode_ptr_obj : forall t cur ms,
  decode (TPtr t) cur (JObj ms) =
  match decode t (match cur with GPtr v => v | _ => zero t end) (JObj ms) with Ok v => Ok (GPtr v) | Err e => Err e end.
Proof. reflexivity. Qed.

Lemma nonnull_single : forall k ms x, occurrences k ms = [x] -> is_null x = false -> nonnull_occurrences k ms = [x].
Proof. intros k ms x H Hn. unfold nonnull_occurrences. rewrite H. cbn. now rewrite Hn. Qed.

Lemma bad_sessions_invalid : forall ms vs, decode_fields req_fields zero_req ms = Ok vs ->
  as_str (fld "Type" (GStruct vs)) = "switchto" -> bad_sessions ms = true -> check_valid (GStruct vs) = false.
Proof.
  intros ms vs H Hty Hb. unfold bad_sessions in Hb.
  destruct (occurrences "switchto" ms) as [|o [|? ?]] eqn:Eo; try discriminate.
  2: { destruct o; discriminate. }
  destruct o; try discriminate. rename ms0 into sw.
  assert (Hin : In ("SwitchTo", "switchto", TPtr (TStruct swfields)) req_fields) by (cbn; unfold ty_switchto; tauto).
  destruct (field_value _ _ _ _ _ H Hin) as [v [Hv Hf]].
  rewrite (nonnull_single _ _ _ Eo eq_refl) in Hv.
  change (sget "SwitchTo" zero_req (zero (TPtr (TStruct swfields)))) with GNil in Hv.
  cbn [decode_occs] in Hv.
  destruct (decode (TPtr (TStruct swfields)) GNil (JObj sw)) as [c|] eqn:Ed; [|discriminate].
  injection Hv as ->.
  rewrite decode_ptr_obj, decode_struct_obj in Ed.
  destruct (decode_fields swfields (zero (TStruct swfields)) sw) as [vs2|] eqn:E2; [|discriminate].
  injection Ed as <-.
  (* the raw "sessions" value *)
  assert (Hraw : forall x, occurrences "sessions" sw = [x] -> is_null x = false ->
                 as_raw (fld "Sessions" (GStruct vs2)) = Some x).
  { intros x Hx Hnx.
    assert (Hs : In ("Sessions", "sessions", TRaw) swfields) by (cbn; tauto).
    destruct (decode_fields_assoc _ _ _ _ _ _ _ E2 swfields_nodup Hs) as [w [Hw Ha]].
    rewrite (nonnull_single _ _ _ Hx Hnx) in Hw. cbn in Hw. injection Hw as <-.
    cbn [fld]. rewrite Ha. reflexivity. }
  unfold check_valid. rewrite Hty. cbn [String.eqb Ascii.eqb Bool.eqb sub_field]. rewrite Hf. cbn [deref].
  unfold switchto_valid.
  destruct (occurrences "sessions" sw) as [|x [|? ?]] eqn:Es; try discriminate.
  2: { destruct x; discriminate. }
  destruct x; try discriminate; try (rewrite (Hraw _ eq_refl eq_refl); reflexivity).
  rewrite (Hraw _ eq_refl eq_refl). now rewrite (std_string_list_bad _ Hb).
Qed.

Lemma malformed_rejected : forall st b, malformed b = true -> handle true st b = hdone 400 [].
Proof.
  intros st b Hm. destruct b as [|j]; [reflexivity|]. cbn [handle].
  destruct (Z.of_nat (json_depth j) >? max_nesting)%Z; [reflexivity|].
  destruct (decode ty_request (zero ty_request) j) as [req|] eqn:Ed; [|reflexivity].
  cbn [andb]. cbn [malformed] in Hm.
  assert (Hcases : check_valid req = false \/ dispatch st req = hdone 400 []).
  { destruct j; cbn [malformed_doc] in Hm.
    1-6: rewrite ty_request_eq in Ed; cbn in Ed; try discriminate; inversion Ed; subst req; left; reflexivity.
    destruct (request_fields _ _ Ed) as [vs [-> Hdf]].
    apply orb_prop in Hm as [Hw|Hm]; [exfalso; eapply wrong_kind_no_decode; eauto|].
    destruct (effective_type ms) as [ty|] eqn:Ety.
    - pose proof (type_value _ _ _ Hdf Ety) as Hty.
      apply orb_prop in Hm as [Hm|Hm]; [apply orb_prop in Hm as [Hm|Hm]|].
      + apply negb_true_iff in Hm. right. apply unknown_type_rejected. now rewrite Hty.
      + destruct (existsb (String.eqb ty) api_types) eqn:Hapi.
        * left. destruct (nonnull_occurrences ty ms) eqn:En; [|discriminate].
          eapply missing_sub_invalid; eauto.
        * right. apply unknown_type_rejected. now rewrite Hty.
      + apply andb_prop in Hm as [Hsw Hbs]. apply String.eqb_eq in Hsw. subst ty.
        left. eapply bad_sessions_invalid; eauto.
    - left. unfold effective_type in Ety.
      destruct (last_nonnull "type" ms) as [x|] eqn:El.
      + exfalso. eapply wrong_kind_no_decode; [|exact Hdf]. unfold wrong_kind_member.
        apply orb_true_iff; left. apply existsb_exists. exists x. split; [now apply last_nonnull_in|].
        destruct x; try reflexivity. discriminate.
      + pose proof (type_value_none _ _ Hdf (last_nonnull_none _ _ El)) as Hty.
        unfold check_valid. now rewrite Hty. }
  destruct Hcases as [Hcv|Hdis]; [now rewrite Hcv|].
  destruct (check_valid req); cbn [negb]; [assumption | reflexivity].
Qed.

(* C11, second half, at full strength *)
Lemma malformed_silent : forall st b, malformed b = true ->
  step true st b = (st, {| o_reply := Status 400; o_exit := false; o_pubs := [] |}).
Proof.
  intros st b Hm. unfold step. rewrite (malformed_rejected st b Hm). reflexivity.
Qed.

(* ---- "incall all" requests that name no state reach no client ------------------------------------------------- *)
Definition incall_fields : list (string * string * gty) :=
  [("InCall", "incall", TRaw); ("All", "all", TBool); ("Changed", "changed", t_users); ("Users", "users", t_users)].

Lemma incall_fields_nodup : NoDup (map fname incall_fields).
Proof. cbn. repeat (constructor; [cbn; intuition discriminate|]). constructor. Qed.

(* the flags the hub reads from the raw "incall" member of such a request: none *)
Lemma unreadable_flags_none : forall ic vs2,
  decode_fields incall_fields (zero (TStruct incall_fields)) ic = Ok vs2 ->
  unreadable_flags ic = true ->
  incall_flags (as_raw (fld "InCall" (GStruct vs2))) = None.
Proof.
  intros ic vs2 E2 Hu.
  assert (Hs : In ("InCall", "incall", TRaw) incall_fields) by (cbn; tauto).
  destruct (decode_fields_assoc _ _ _ _ _ _ _ E2 incall_fields_nodup Hs) as [w [Hw Ha]].
  cbn [fld]. rewrite Ha. clear Ha.
  unfold unreadable_flags in Hu. unfold nonnull_occurrences in Hw.
  destruct (occurrences "incall" ic) as [|x [|? ?]].
  - cbn in Hw. injection Hw as <-. reflexivity.
  - destruct x; cbn in Hw; injection Hw as <-; cbn in Hu |- *; try reflexivity; try discriminate.
    match goal with |- (if ?c then _ else _) = _ => destruct c end; [discriminate | reflexivity].
  - exfalso. destruct x; discriminate.
Qed.

Lemma all_true_value : forall ic vs2,
  decode_fields incall_fields (zero (TStruct incall_fields)) ic = Ok vs2 ->
  occurrences "all" ic = [JBool true] -> as_bool (fld "All" (GStruct vs2)) = true.
Proof.
  intros ic vs2 E2 Ho.
  assert (Hs : In ("All", "all", TBool) incall_fields) by (cbn; tauto).
  destruct (decode_fields_assoc _ _ _ _ _ _ _ E2 incall_fields_nodup Hs) as [w [Hw Ha]].
  rewrite (nonnull_single _ _ _ Ho eq_refl) in Hw. cbn in Hw. injection Hw as <-.
  cbn [fld]. rewrite Ha. reflexivity.
Qed.

(* nothing the request made visible is an event for anybody *)
Definition no_events (st : state) (ps : list pub) : Prop := forall sid, events_for st sid ps = [].

Lemma names_no_state_dispatch : forall st ms vs,
  decode_fields req_fields zero_req ms = Ok vs ->
  incall_all_unreadable (JObj ms) = true ->
  exists ic, as_str (fld "Type" (GStruct vs)) = "incall" /\ deref (fld "InCall" (GStruct vs)) = Some ic /\
             as_bool (fld "All" ic) = true /\ incall_flags (as_raw (fld "InCall" ic)) = None /\
             dispatch st (GStruct vs) = hpublish (GStruct vs) [] [].
Proof.
  intros st ms vs Hdf Hn. cbn [incall_all_unreadable] in Hn.
  destruct (effective_type ms) as [ty|] eqn:Ety; [|discriminate].
  apply andb_prop in Hn as [Hty Hn]. apply String.eqb_eq in Hty. subst ty.
  pose proof (type_value _ _ _ Hdf Ety) as Hty.
  destruct (occurrences "incall" ms) as [|o [|? ?]] eqn:Eo; try discriminate.
  2: { destruct o; discriminate. }
  destruct o; try discriminate. rename ms0 into ic.
  destruct (occurrences "all" ic) as [|a [|? ?]] eqn:Ea; try discriminate.
  2: { destruct a as [|[]| | | | |]; discriminate. }
  destruct a as [|[]| | | | |]; try discriminate.
  assert (Hin : In ("InCall", "incall", TPtr (TStruct incall_fields)) req_fields) by (cbn; unfold ty_incall; tauto).
  destruct (field_value _ _ _ _ _ Hdf Hin) as [v [Hv Hf]].
  rewrite (nonnull_single _ _ _ Eo eq_refl) in Hv.
  change (sget "InCall" zero_req (zero (TPtr (TStruct incall_fields)))) with GNil in Hv.
  cbn [decode_occs] in Hv.
  destruct (decode (TPtr (TStruct incall_fields)) GNil (JObj ic)) as [c|] eqn:Ed; [|discriminate].
  injection Hv as ->.
  rewrite decode_ptr_obj, decode_struct_obj in Ed.
  destruct (decode_fields incall_fields (zero (TStruct incall_fields)) ic) as [vs2|] eqn:E2; [|discriminate].
  injection Ed as <-.
  exists (GStruct vs2).
  assert (Hall : as_bool (fld "All" (GStruct vs2)) = true) by (eapply all_true_value; eauto).
  assert (Hfl : incall_flags (as_raw (fld "InCall" (GStruct vs2))) = None) by (eapply unreadable_flags_none; eauto).
  repeat split; try assumption.
  - rewrite Hf. reflexivity.
  - unfold dispatch. rewrite Hty. cbn [String.eqb Ascii.eqb Bool.eqb]. unfold do_incall. rewrite Hf. cbn [deref].
    rewrite Hall. reflexivity.
Qed.

Lemma consume_no_state : forall st r ic,
  as_str (fld "Type" r) = "incall" -> deref (fld "InCall" r) = Some ic ->
  as_bool (fld "All" ic) = true -> incall_flags (as_raw (fld "InCall" ic)) = None ->
  consume st r = cdone st [].
Proof.
  intros st r ic Hty Hd Hall Hfl. unfold consume. rewrite Hty. cbn [String.eqb Ascii.eqb Bool.eqb].
  rewrite Hd, Hall, Hfl. reflexivity.
Qed.

Lemma names_no_state_handle : forall st b, names_no_state b = true ->
  (exists c, handle true st b = hdone c []) \/
  (exists r, handle true st b = hdone 200 [PBackendRoom r] /\ consume st r = cdone st []).
Proof.
  intros st b Hn. destruct b as [|j]; [discriminate|]. cbn [names_no_state] in Hn. cbn [handle].
  destruct (Z.of_nat (json_depth j) >? max_nesting)%Z; [left; eauto|].
  destruct (decode ty_request (zero ty_request) j) as [req|] eqn:Ed; [|left; eauto].
  destruct j; try discriminate.
  destruct (request_fields _ _ Ed) as [vs [-> Hdf]].
  destruct (names_no_state_dispatch st ms vs Hdf Hn) as (ic & Hty & Hd & Hall & Hfl & Hdis).
  cbn [andb]. destruct (check_valid (GStruct vs)); cbn [negb]; [|left; eauto].
  rewrite Hdis. unfold hpublish. destruct (fits (GStruct vs)); cbn [app]; [right|left; eauto].
  exists (GStruct vs). split; [reflexivity|]. now apply (consume_no_state st _ ic).
Qed.

(* C11, last sentence, for the second class: whatever the state, an "incall all" request that names
   no state is answered, kills nothing, leaves the state (call membership included) as it was and
   produces no event for any session *)
Lemma names_no_state_silent : forall st b, names_no_state b = true ->
  fst (step true st b) = st /\
  o_exit (snd (step true st b)) = false /\
  (exists code, o_reply (snd (step true st b)) = Status code) /\
  no_events st (o_pubs (snd (step true st b))).
Proof.
  intros st b Hn. unfold step.
  destruct (names_no_state_handle st b Hn) as [[c H]|[r [H Hc]]]; rewrite H.
  - cbn. repeat split; eauto.
  - cbn [hdone h_pubs h_reply deliver]. destruct (st_room st).
    + rewrite Hc. cbn. repeat split; eauto.
    + cbn. repeat split; eauto.
Qed.

(* ---- the code as found (fixed = false) and the nesting limit: witnesses ------------------------------------- *)
Definition wst : state := fixture true true.
Definition w_invite : body := Doc (JObj [("type", JStr "invite")]).
Definition w_switchto : body :=
  Doc (JObj [("type", JStr "switchto"); ("switchto", JObj [("roomid", JStr "x"); ("sessions", JStr "abc")])]).
Definition w_update : body := Doc (JObj [("type", JStr "update")]).
Definition w_deep : body :=
  Doc (JObj [("type", JStr "message"); ("message", JObj [("data", jnest 9998 (JNum 1))])]).

Lemma unrepaired_no_reply : o_reply (snd (step false wst w_invite)) = NoReply.
Proof. vm_compute. reflexivity. Qed.
Lemma unrepaired_500 : shallow w_switchto /\ o_reply (snd (step false wst w_switchto)) = Status 500.
Proof. split; [vm_compute; reflexivity | vm_compute; reflexivity]. Qed.
Lemma unrepaired_exit : o_exit (snd (step false wst w_update)) = true /\ o_reply (snd (step false wst w_update)) = NoReply.
Proof. split; vm_compute; reflexivity. Qed.
Lemma unrepaired_published_before_panic :
  exists r, o_pubs (snd (step false wst w_update)) = [PBackendRoom r].
Proof. eexists. vm_compute. reflexivity. Qed.
Lemma repaired_witnesses :
  o_reply (snd (step true wst w_invite)) = Status 400 /\
  o_reply (snd (step true wst w_switchto)) = Status 400 /\
  snd (step true wst w_update) = {| o_reply := Status 400; o_exit := false; o_pubs := [] |}.
Proof. repeat split; vm_compute; reflexivity. Qed.

Lemma nesting_500 : o_reply (snd (step true (fixture false true) w_deep)) = Status 500 /\
                    malformed w_deep = false /\ dialout_ok (fixture false true).
Proof. split; [vm_compute; reflexivity | split; [vm_compute; reflexivity | exact I]]. Qed.

(* non-vacuity: a well-formed request that passes all hypotheses and reaches clients *)
Definition ex_incall : body :=
  Doc (JObj [("type", JStr "incall");
             ("incall", JObj [("incall", JNum 1);
                              ("changed", JArr [JObj [("sessionId", JStr "c11-rs"); ("inCall", JNum 1)]]);
                              ("users", JArr [JObj [("sessionId", JStr "c11-rs"); ("inCall", JNum 1)]; JObj [("sessionId", JNum 5)]])])]).
Lemma ex_incall_ok :
  shallow ex_incall /\ dialout_ok wst /\ malformed ex_incall = false /\
  o_reply (snd (step true wst ex_incall)) = Status 200 /\
  events_for wst fixture_sid (o_pubs (snd (step true wst ex_incall))) = [KParticipants 1] /\
  st_incall (fst (step true wst ex_incall)) = [fixture_sid].
Proof. repeat split; vm_compute; reflexivity. Qed.

Definition ex_malformed : list body :=
  [BadSyntax; Doc JNull; Doc (JArr []); Doc (JObj []); Doc (JObj [("type", JNum 1)]);
   Doc (JObj [("type", JStr "transient"); ("transient", JObj [("action", JStr "set"); ("key", JStr "k")])]);
   Doc (JObj [("type", JStr "invite"); ("invite", JNull)]);
   Doc (JObj [("type", JStr "message"); ("message", JObj []); ("dialout", JStr "x")]);
   Doc (JObj [("type", JStr "switchto"); ("switchto", JObj [("roomid", JStr "r"); ("sessions", JArr [JStr "a"; JNum 2])])])].
Lemma ex_malformed_ok : forallb malformed ex_malformed = true.
Proof. vm_compute. reflexivity. Qed.

(* non-vacuity: the six bodies of the class named in the report of the seeded change, and a state
   with somebody in the call *)
Definition ex_no_state : list body :=
  map (fun v => Doc (JObj [("type", JStr "incall"); ("incall", JObj (v ++ [("all", JBool true)]))]))
      [[("incall", JStr "yes")]; [("incall", JObj [("flags", JNum 1)])]; [("incall", JArr [JNum 1])];
       [("incall", JFloat 15 (-1))]; [("incall", JNull)]; []].
Lemma ex_no_state_ok :
  forallb names_no_state ex_no_state = true /\ forallb (fun b => negb (malformed b)) ex_no_state = true /\
  forallb (fun b => match o_reply (snd (step true (with_incall wst [fixture_sid]) b)) with Status 200 => true | _ => false end) ex_no_state = true.
Proof. repeat split; vm_compute; reflexivity. Qed.

