(* NR lemmas for the requests of an internal client (virtual sessions) *)
From Coq Require Import List NArith Bool Lia.
From Verif Require Import model.Hub proofs.Hub_basics proofs.Hub_wf proofs.Hub_easy proofs.Hub_pending proofs.Hub_transient_frame proofs.Hub_transient_nr proofs.Hub_transient_nr2.
Import ListNotations.
Open Scope N_scope.

Lemma nr_int_incall ex h0 h c sid s ic : get_sess h sid = Some s -> NR ex h0 h -> nres ex h0 (do_internal h c sid s (IInCall ic)).
Proof. intros Hs B. unfold do_internal. ngo. Qed.

Lemma nr_int_update ex h0 h c sid s v rn fl ic : get_sess h sid = Some s -> NR ex h0 h -> nres ex h0 (do_internal h c sid s (IUpdate v rn fl ic)).
Proof. intros Hs B. unfold do_internal. ngo. Qed.

Lemma nr_int_remove ex h0 h c sid s v rn : WF h -> NR ex h0 h -> nres ex h0 (do_internal h c sid s (IRemove v rn)).
Proof.
  intros W B. unfold do_internal. destruct (room_of h (s_backend s, rn)); [|split; [exact B|apply qouts_nil]].
  destruct (pget (h_vtable h) (sid, v)) as [vs|] eqn:Hv; [|split; [exact B|apply qouts_nil]].
  destruct (wf_vt _ _ h W sid v vs Hv) as (t & Ht & Hk).
  apply nr_close_one; [|exact B]. right. intros s0 Hs0.
  change (get_sess (set_vtable h (pdel (h_vtable h) (sid, v))) vs) with (get_sess h vs) in Hs0.
  assert (s0 = t) by congruence. subst s0. now rewrite Hk.
Qed.

Lemma nr_int_add ex h0 h c sid s v rn user flags incall : WF h -> NR ex h0 h -> nres ex h0 (do_internal h c sid s (IAdd v rn user flags incall)).
Proof.
  intros W B. unfold do_internal. destruct (room_of h (s_backend s, rn)) as [r|] eqn:Hr; [|split; [exact B|apply qouts_nil]].
  cbv zeta.
  set (vs := next_id h). set (k := (s_backend s, rn)).
  set (vsess := mksess (s_backend s) (KVirtual sid v) user (Some k) (2000000 + vs) None None [] [] 0 _ _ [] [] [] 0).
  set (r' := mkroom (nadd vs (r_members r)) (r_incall r) (r_sessdata r) (r_transient r) (r_props r)).
  set (h1 := put_sess (set_rooms (set_nextsid h vs) (pset (h_rooms (set_nextsid h vs)) k r')) vs vsess).
  assert (B1 : NR ex h0 h1).
  { unfold h1. apply nr_put_gen; [|right; right; repeat split; apply hello_free_nil].
    eapply nr_pset; [apply nr_nextsid; [exact B|pose proof (next_id_gt h); unfold vs; lia]|exact Hr|reflexivity]. }
  match goal with |- context [match pget ?T (sid, v) with Some pv => close_one ?H9 pv | None => (?H9', [])  end] =>
    set (h9 := H9); set (prev := pget T (sid, v)) end.
  assert (B9 : NR ex h0 h9).
  { unfold h9. destruct (N.eqb _ 0); change (NR ex h0 (rs_set (set_vtable h1 (pset (h_vtable h1) (sid, v) vs)) vs (2000000 + vs)));
      apply nr_rs_set; exact B1. }
  assert (G9 : forall y, get_sess h9 y = if N.eqb y vs then Some vsess else get_sess h y).
  { intros y. unfold h9, get_sess. destruct (N.eqb _ 0); cbn [h_sessions publish set_clock set_bus]; rewrite rs_set_sessions; cbn; apply aget_aset. }
  clearbody h9.
  assert (X : nres ex h0 (match prev with Some pv => close_one h9 pv | None => (h9, []) end)).
  { unfold prev. cbn [h_vtable set_nextsid]. destruct (pget (h_vtable h) (sid, v)) as [pv|] eqn:Hp; [|split; [exact B9|apply qouts_nil]].
    destruct (wf_vt _ _ h W sid v pv Hp) as (t & Ht & Hk).
    apply nr_close_one; [|exact B9]. right. intros s0 Hs0. rewrite G9 in Hs0.
    destruct (N.eqb pv vs); [injection Hs0 as <-; reflexivity|]. assert (s0 = t) by congruence. subst s0. now rewrite Hk. }
  destruct (match prev with Some pv => close_one h9 pv | None => (h9, []) end) as [h10 outs10]. destruct X as [B10 Q10].
  split; cbn [fst snd] in *; [exact B10|apply qouts_cons; [intros; discriminate|exact Q10]].
Qed.

Lemma nr_do_internal ex h0 h c sid s q : WF h -> get_sess h sid = Some s -> NR ex h0 h -> nres ex h0 (do_internal h c sid s q).
Proof.
  intros W Hs B. destruct q.
  - now apply nr_int_add.
  - now apply nr_int_update.
  - now apply nr_int_remove.
  - now apply nr_int_incall.
Qed.
