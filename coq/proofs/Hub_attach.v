(* Attachment of sessions and connections, for every history (C06, C07; the session side of C09):

     AT h  - a session that has a connection is in the clients table and not in the expiry list;
           - the clients table names only live sessions that have a connection;
           - a connection that is attached to a session does not wait for a hello;
           - the connection table has no duplicate keys;
           - a virtual session has no connection, no publisher, no subscriber;
           - every pending creation at the media server belongs to a live session that is not virtual.

   Organisation as in Hub_isolation.v (shr): a relation CR between the state before and after that every
   model function satisfies which neither attaches a connection, nor detaches one from a session that lives
   on, nor creates a session, nor starts a creation (sessions may be closed, connections may be closed or
   lose their session, tables shrink); it is reflexive and transitive, proved once per function without
   any hypothesis on the state, and keeps AT.  Direct lemmas for register, resume, the cut of a connection,
   addsession, the start and the completion of a creation.

   Then: the two boolean clauses of the trace predicates (corr/Hub_preds.v expiring_unattached,
   clients_attached) are true on the digest of every reachable state, and a connected session that is
   not in the anonymous list survives a housekeeping tick with its connection and its room. *)
From Coq Require Import List NArith ZArith Bool Lia.
From Verif Require Import model.Hub proofs.Hub_basics proofs.Hub_easy proofs.Hub_wf proofs.Hub_corollaries
  proofs.Hub_pending proofs.Hub_own proofs.Hub_isolation.
Import ListNotations.
Open Scope N_scope.

(* ------------------------------------------------------------------ the invariant *)
Record AT (h : hub) : Prop := {
  at_in_clients : forall sid s c, get_sess h sid = Some s -> s_conn s = Some c -> In sid (h_clients h);
  at_not_expiring : forall sid s c, get_sess h sid = Some s -> s_conn s = Some c -> ~ In sid (h_expired h);
  at_clients_conn : forall sid, In sid (h_clients h) -> exists s c, get_sess h sid = Some s /\ s_conn s = Some c;
  at_expect : forall c cn sid, aget (h_conns h) c = Some cn -> c_sess cn = Some sid -> c_expect cn = false;
  at_ckeys : NoDup (map fst (h_conns h));
  at_virtual_conn : forall sid s, get_sess h sid = Some s -> is_virtual (s_kind s) = true -> s_conn s = None;
  at_virtual_toks : forall sid s, get_sess h sid = Some s -> is_virtual (s_kind s) = true -> toks s = [];
  at_pending : forall tok p, In (tok, p) (h_mcupending h) ->
                 exists s, get_sess h (mp_owner p) = Some s /\ is_virtual (s_kind s) = false;
}.

Lemma at_init limits gated : AT (init limits gated).
Proof.
  assert (Hn : forall sid, get_sess (init limits gated) sid = None) by reflexivity.
  constructor; try (intros sid s; intros; rewrite Hn in *; discriminate).
  - intros sid [].
  - intros c cn sid H. discriminate H.
  - constructor.
  - intros tok p [].
Qed.

(* ------------------------------------------------------------------ the relation *)
(* what a session keeps: connection, kind; a virtual session that holds nothing still holds nothing *)
Definition skeep (s s' : session) : Prop :=
  s_conn s' = s_conn s /\ s_kind s' = s_kind s /\
  (is_virtual (s_kind s) = true -> toks s = [] -> toks s' = []).
Lemma skeep_refl s : skeep s s.
Proof. repeat split; auto. Qed.
Lemma skeep_trans s1 s2 s3 : skeep s1 s2 -> skeep s2 s3 -> skeep s1 s3.
Proof.
  intros (C1 & K1 & T1) (C2 & K2 & T2). split; [congruence|]. split; [congruence|].
  intros Hv Ht. apply T2; [congruence|]. now apply T1.
Qed.
Lemma skeep_same s s' : s_conn s' = s_conn s -> s_kind s' = s_kind s -> s_pubs s' = s_pubs s -> s_subs s' = s_subs s -> skeep s s'.
Proof. intros C K P S. split; [exact C|]. split; [exact K|]. intros _. unfold toks. now rewrite P, S. Qed.
(* the media tables of a session that is not virtual may change *)
Lemma skeep_client s s' : s_conn s' = s_conn s -> s_kind s' = s_kind s -> is_virtual (s_kind s) = false -> skeep s s'.
Proof. intros C K V. split; [exact C|]. split; [exact K|]. intros Hv. congruence. Qed.
Lemma skeep_released s s' : s_conn s' = s_conn s -> s_kind s' = s_kind s -> s_pubs s' = [] -> s_subs s' = [] -> skeep s s'.
Proof. intros C K P S. split; [exact C|]. split; [exact K|]. intros _ _. unfold toks. now rewrite P, S. Qed.

Definition conn_keep (cs cs' : alist conn) : Prop :=
  forall c cn', aget cs' c = Some cn' ->
    c_sess cn' = None \/ exists cn, aget cs c = Some cn /\ c_sess cn' = c_sess cn /\ c_expect cn' = c_expect cn.

Record CR (h h' : hub) : Prop := {
  cr_sess : forall sid s', get_sess h' sid = Some s' -> exists s, get_sess h sid = Some s /\ skeep s s';
  cr_cl : forall sid, In sid (h_clients h') -> In sid (h_clients h);
  cr_clk : forall sid, In sid (h_clients h) -> live h' sid -> In sid (h_clients h');
  cr_cll : forall sid, In sid (h_clients h') -> live h sid -> live h' sid;
  cr_exp : forall sid, In sid (h_expired h') -> In sid (h_expired h);
  cr_conns : conn_keep (h_conns h) (h_conns h');
  cr_ckeys : NoDup (map fst (h_conns h)) -> NoDup (map fst (h_conns h'));
  cr_pend : forall e, In e (h_mcupending h') ->
              In e (h_mcupending h) /\ (live h (mp_owner (snd e)) -> live h' (mp_owner (snd e)));
}.

Lemma conn_keep_refl cs : conn_keep cs cs.
Proof. intros c cn' H. right. exists cn'. auto. Qed.
Lemma conn_keep_trans a b c : conn_keep a b -> conn_keep b c -> conn_keep a c.
Proof.
  intros K1 K2 x cn3 H3. destruct (K2 x cn3 H3) as [?|(cn2 & H2 & S2 & E2)]; [now left|].
  destruct (K1 x cn2 H2) as [?|(cn1 & H1 & S1 & E1)]; [left; congruence|].
  right. exists cn1. split; [exact H1|]. split; congruence.
Qed.

Lemma cr_refl h : CR h h.
Proof.
  constructor; auto.
  - intros sid s' Hs. exists s'. split; [exact Hs|apply skeep_refl].
  - apply conn_keep_refl.
Qed.
Lemma cr_live h h' sid : CR h h' -> live h' sid -> live h sid.
Proof. intros R [s' Hs']. destruct (cr_sess _ _ R sid s' Hs') as (s & Hs & _). now exists s. Qed.
Lemma cr_trans h1 h2 h3 : CR h1 h2 -> CR h2 h3 -> CR h1 h3.
Proof.
  intros R1 R2. constructor.
  - intros sid s3 H3. destruct (cr_sess _ _ R2 sid s3 H3) as (s2 & H2 & K2).
    destruct (cr_sess _ _ R1 sid s2 H2) as (s1 & H1 & K1). exists s1. split; [exact H1|eapply skeep_trans; eauto].
  - intros sid H. apply (cr_cl _ _ R1), (cr_cl _ _ R2), H.
  - intros sid H L3. apply (cr_clk _ _ R2); [|exact L3]. apply (cr_clk _ _ R1); [exact H|]. eapply cr_live; eauto.
  - intros sid H L1. apply (cr_cll _ _ R2); [exact H|]. apply (cr_cll _ _ R1); [|exact L1]. apply (cr_cl _ _ R2), H.
  - intros sid H. apply (cr_exp _ _ R1), (cr_exp _ _ R2), H.
  - eapply conn_keep_trans; [apply R1|apply R2].
  - intros H. apply (cr_ckeys _ _ R2), (cr_ckeys _ _ R1), H.
  - intros e H3. destruct (cr_pend _ _ R2 e H3) as [H2 L2]. destruct (cr_pend _ _ R1 e H2) as [H1 L1]. auto.
Qed.

(* the relation keeps the invariant *)
Lemma at_cr h h' : AT h -> CR h h' -> AT h'.
Proof.
  intros A R. constructor.
  - intros sid s' c Hs' Hc. destruct (cr_sess _ _ R sid s' Hs') as (s & Hs & C & _).
    apply (cr_clk _ _ R); [|now exists s']. apply (at_in_clients _ A sid s c Hs). congruence.
  - intros sid s' c Hs' Hc Hin. destruct (cr_sess _ _ R sid s' Hs') as (s & Hs & C & _).
    apply (at_not_expiring _ A sid s c Hs); [congruence|]. apply (cr_exp _ _ R), Hin.
  - intros sid Hin. destruct (at_clients_conn _ A sid (cr_cl _ _ R sid Hin)) as (s & c & Hs & Hc).
    destruct (cr_cll _ _ R sid Hin (ex_intro _ s Hs)) as [s' Hs'].
    destruct (cr_sess _ _ R sid s' Hs') as (s0 & Hs0 & C & _). exists s', c. split; [exact Hs'|]. congruence.
  - intros c cn' sid Hc Hs. destruct (cr_conns _ _ R c cn' Hc) as [Hn|(cn & Hcn & S & E)]; [congruence|].
    rewrite E. apply (at_expect _ A c cn sid Hcn). congruence.
  - apply (cr_ckeys _ _ R), A.
  - intros sid s' Hs' Hv. destruct (cr_sess _ _ R sid s' Hs') as (s & Hs & C & K & _).
    rewrite C. apply (at_virtual_conn _ A sid s Hs). congruence.
  - intros sid s' Hs' Hv. destruct (cr_sess _ _ R sid s' Hs') as (s & Hs & C & K & T).
    assert (Hv0 : is_virtual (s_kind s) = true) by congruence.
    apply T; [exact Hv0|]. apply (at_virtual_toks _ A sid s Hs Hv0).
  - intros tok p Hin. destruct (cr_pend _ _ R _ Hin) as [Hin0 L]. cbn [snd] in L.
    destruct (at_pending _ A tok p Hin0) as (s & Hs & Hv). destruct (L (ex_intro _ s Hs)) as [s' Hs'].
    destruct (cr_sess _ _ R _ s' Hs') as (s0 & Hs0 & _ & K & _). exists s'. split; [exact Hs'|]. congruence.
Qed.

(* ------------------------------------------------------------------ building blocks *)
Lemma cr_eq h h' :
  h_sessions h' = h_sessions h -> h_clients h' = h_clients h -> h_expired h' = h_expired h ->
  h_conns h' = h_conns h -> h_mcupending h' = h_mcupending h -> CR h h'.
Proof.
  intros Es Ec Ee En Ep.
  assert (Hg : forall x, get_sess h' x = get_sess h x) by (intros x; unfold get_sess; now rewrite Es).
  constructor; rewrite ?Ec, ?Ee, ?En, ?Ep; auto.
  - intros sid s' Hs. rewrite Hg in Hs. exists s'. split; [exact Hs|apply skeep_refl].
  - intros sid _ [s Hs]. exists s. now rewrite Hg.
  - apply conn_keep_refl.
  - intros e He. split; [exact He|]. intros [s Hs]. exists s. now rewrite Hg.
Qed.
Ltac cr_ns :=
  apply cr_eq;
  (cbn [h_sessions h_clients h_expired h_conns h_mcupending fst publish set_conns set_sessions set_rooms set_rs set_vtable
        set_expired set_anonymous set_dialout set_clients set_counted set_fail set_bus set_nextsid set_clock set_mcu
        record_failure]; reflexivity).

Lemma cr_put h x s s' : get_sess h x = Some s -> skeep s s' -> CR h (put_sess h x s').
Proof.
  intros Hs K.
  assert (Hl : forall y, live h y -> live (put_sess h x s') y).
  { intros y [t Ht]. unfold live. rewrite gp. destruct (N.eqb y x); eauto. }
  constructor; auto.
  - intros sid t. rewrite gp. destruct (N.eqb_spec sid x) as [->|Hne]; intros Ht.
    + injection Ht as <-. exists s. auto.
    + exists t. split; [exact Ht|apply skeep_refl].
  - apply conn_keep_refl.
Qed.

(* the connection table changes, no attachment appears *)
Lemma cr_set_conns h v : conn_keep (h_conns h) v -> (NoDup (map fst (h_conns h)) -> NoDup (map fst v)) -> CR h (set_conns h v).
Proof.
  intros K N. constructor; auto.
  - intros sid s' Hs. exists s'. split; [exact Hs|apply skeep_refl].
Qed.
Lemma conn_keep_adel cs c : conn_keep cs (adel cs c).
Proof. intros x cn'. rewrite aget_adel. destruct (N.eqb x c); [discriminate|]. intros H. right. exists cn'. auto. Qed.
Lemma conn_keep_aset_none cs c cn : c_sess cn = None -> conn_keep cs (aset cs c cn).
Proof.
  intros Hn x cn'. rewrite aget_aset. destruct (N.eqb x c); intros H.
  - injection H as <-. now left.
  - right. exists cn'. auto.
Qed.
Lemma cr_del_conn h c : CR h (set_conns h (adel (h_conns h) c)).
Proof. apply cr_set_conns; [apply conn_keep_adel|apply nodup_adel]. Qed.
Lemma cr_set_conn_none h c cn : c_sess cn = None -> CR h (set_conns h (aset (h_conns h) c cn)).
Proof. intros Hn. apply cr_set_conns; [now apply conn_keep_aset_none|apply nodup_aset]. Qed.

Lemma cr_fold_sessions h l f :
  (forall hh x, CR hh (fst (f hh x))) -> CR h (fst (fold_sessions h l f)).
Proof.
  intros Hf. apply (wf_fold_sessions (fun hh => CR h hh)); [apply cr_refl|].
  intros hh x R. eapply cr_trans; [exact R|apply Hf].
Qed.
Lemma cr_fold_left_hub {A} (f : hub -> A -> hub) l h :
  (forall hh x, CR hh (f hh x)) -> CR h (fold_left f l h).
Proof.
  intros Hf. apply (wf_fold_left_hub (fun hh => CR h hh)); [apply cr_refl|].
  intros hh x R. eapply cr_trans; [exact R|apply Hf].
Qed.

Lemma rs_set_clients h sid rs : h_clients (rs_set h sid rs) = h_clients h.
Proof.
  unfold rs_set. destruct (N.eqb rs 0).
  - destruct (aget (h_rs1 h) sid); reflexivity.
  - destruct (aget (h_rs1 h) sid) as [prev|]; [destruct (N.eqb prev rs)|]; reflexivity.
Qed.
Lemma rs_set_expired h sid rs : h_expired (rs_set h sid rs) = h_expired h.
Proof.
  unfold rs_set. destruct (N.eqb rs 0).
  - destruct (aget (h_rs1 h) sid); reflexivity.
  - destruct (aget (h_rs1 h) sid) as [prev|]; [destruct (N.eqb prev rs)|]; reflexivity.
Qed.
Lemma rs_set_pending h sid rs : h_mcupending (rs_set h sid rs) = h_mcupending h.
Proof.
  unfold rs_set. destruct (N.eqb rs 0).
  - destruct (aget (h_rs1 h) sid); reflexivity.
  - destruct (aget (h_rs1 h) sid) as [prev|]; [destruct (N.eqb prev rs)|]; reflexivity.
Qed.
Lemma cr_rs_set h x rs : CR h (rs_set h x rs).
Proof. apply cr_eq; [apply rs_set_sessions|apply rs_set_clients|apply rs_set_expired|apply rs_set_conns|apply rs_set_pending]. Qed.
Lemma cr_rs_del h x : CR h (rs_del h x).
Proof. apply cr_rs_set. Qed.
Lemma cr_publish h subj m : CR h (publish h subj m).
Proof. cr_ns. Qed.
Lemma cr_set_rooms h v : CR h (set_rooms h v).
Proof. cr_ns. Qed.

Lemma cr_remove_room_if_empty h k : CR h (remove_room_if_empty h k).
Proof.
  unfold remove_room_if_empty. destruct (room_of h k) as [r|]; [|apply cr_refl].
  destruct (r_members r); [apply cr_set_rooms|apply cr_refl].
Qed.
Lemma cr_room_remove h k x : CR h (room_remove h k x).
Proof.
  unfold room_remove. destruct (room_of h k) as [r|] eqn:Hr; [|apply cr_refl].
  destruct (nmem x (r_members r)); [|apply cr_refl].
  eapply cr_trans; [|apply cr_publish]. eapply cr_trans; [|apply cr_remove_room_if_empty]. apply cr_set_rooms.
Qed.
Lemma cr_set_incall h k x on : CR h (set_incall h k x on).
Proof.
  unfold set_incall. destruct (room_of h k) as [r|] eqn:Hr; [|apply cr_refl].
  destruct (on && negb (nmem x (r_members r))); [apply cr_refl|apply cr_set_rooms].
Qed.
Lemma cr_close_tokens h toks : CR h (fst (close_tokens h toks)).
Proof. unfold close_tokens. cbn [fst]. cr_ns. Qed.

Lemma cr_release_mcu h x : CR h (fst (release_mcu h x)).
Proof.
  unfold release_mcu. destruct (get_sess h x) as [s|] eqn:Hs; [|apply cr_refl].
  eapply cr_trans; [|apply cr_close_tokens]. apply cr_put with s; [exact Hs|]. now apply skeep_released.
Qed.
Lemma filter_nil_toks {A} (f : A -> bool) (l : list A) : l = [] -> filter f l = [].
Proof. intros ->. reflexivity. Qed.
Lemma cr_revoke h x : CR h (fst (revoke h x)).
Proof.
  unfold revoke. destruct (get_sess h x) as [s|] eqn:Hs; [|apply cr_refl].
  eapply cr_trans; [|apply cr_close_tokens]. apply cr_put with s; [exact Hs|].
  split; [reflexivity|]. split; [reflexivity|]. intros _ Ht. apply toks_nil_inv in Ht as [Hp Hsu].
  apply toks_nil; cbn [s_pubs s_subs sess_media]; [now rewrite Hp|exact Hsu].
Qed.
Lemma cr_leave_call h x : CR h (fst (leave_call h x)).
Proof.
  unfold leave_call. destruct (get_sess h x) as [s|]; [|apply cr_refl].
  destruct (s_kind s); destruct (s_room s); try apply cr_refl; apply cr_release_mcu.
Qed.

Lemma cr_leave_room h x notify : CR h (fst (leave_room h x notify)).
Proof.
  unfold leave_room. destruct (get_sess h x) as [s|] eqn:Hs; [|apply cr_refl].
  destruct (s_room s) as [k|]; [|apply cr_refl].
  assert (Hs1 : get_sess (rs_del h x) x = Some s) by (unfold get_sess; now rewrite rs_del_sessions).
  destruct (is_virtual (s_kind s)).
  - cbn [fst]. eapply cr_trans; [apply (cr_rs_del h x)|].
    eapply cr_trans; [|apply cr_room_remove]. apply cr_put with s; [exact Hs1|]. now apply skeep_same.
  - match goal with |- context [release_mcu ?hh x] => destruct (release_mcu hh x) as [h3 o2] eqn:Hr end. cbn [fst].
    eapply cr_trans; [apply (cr_rs_del h x)|].
    eapply cr_trans; [|apply cr_room_remove].
    eapply cr_trans; [|rewrite (fst_eq _ _ _ Hr); apply cr_release_mcu].
    apply cr_put with s; [exact Hs1|]. now apply skeep_same.
Qed.

(* closing one session *)
Lemma after_close_clients h2a s x : h_clients (after_close h2a s x) = nrem x (h_clients h2a).
Proof.
  unfold after_close. destruct (drop_vt_other (detach_conn (scrub (set_mcu h2a (h_mcutok h2a)
     (filter (fun e => negb (N.eqb (mp_owner (snd e)) x)) (h_mcupending h2a)) (h_mcuopen h2a)) x) (s_conn s)) (s_kind s) x)
    as (_ & _ & _ & _ & _ & _ & _ & D & _). rewrite D.
  match goal with |- h_clients (detach_conn ?hh ?oc) = _ => destruct (detach_conn_other hh oc) as (_ & _ & _ & _ & _ & _ & _ & F & _) end.
  rewrite F. reflexivity.
Qed.
Lemma after_close_expired h2a s x : h_expired (after_close h2a s x) = nrem x (h_expired h2a).
Proof.
  unfold after_close. destruct (drop_vt_other (detach_conn (scrub (set_mcu h2a (h_mcutok h2a)
     (filter (fun e => negb (N.eqb (mp_owner (snd e)) x)) (h_mcupending h2a)) (h_mcuopen h2a)) x) (s_conn s)) (s_kind s) x)
    as (_ & _ & _ & _ & D & _). rewrite D.
  match goal with |- h_expired (detach_conn ?hh ?oc) = _ => destruct (detach_conn_other hh oc) as (_ & _ & _ & _ & F & _) end.
  rewrite F. reflexivity.
Qed.
Lemma after_close_anonymous h2a s x : h_anonymous (after_close h2a s x) = nrem x (h_anonymous h2a).
Proof.
  unfold after_close. destruct (drop_vt_other (detach_conn (scrub (set_mcu h2a (h_mcutok h2a)
     (filter (fun e => negb (N.eqb (mp_owner (snd e)) x)) (h_mcupending h2a)) (h_mcuopen h2a)) x) (s_conn s)) (s_kind s) x)
    as (_ & _ & _ & _ & _ & D & _). rewrite D.
  match goal with |- h_anonymous (detach_conn ?hh ?oc) = _ => destruct (detach_conn_other hh oc) as (_ & _ & _ & _ & _ & F & _) end.
  rewrite F. reflexivity.
Qed.
Lemma drop_vt_pending h kd x : h_mcupending (drop_vt h kd x) = h_mcupending h.
Proof. unfold drop_vt. destruct kd as [| |p v]; try reflexivity. destruct (pget (h_vtable h) (p, v)) as [y|]; [destruct (N.eqb y x)|]; reflexivity. Qed.
Lemma detach_conn_pending h oc : h_mcupending (detach_conn h oc) = h_mcupending h.
Proof. unfold detach_conn. destruct oc as [c|]; [|reflexivity]. destruct (aget (h_conns h) c); reflexivity. Qed.
Lemma after_close_pending h2a s x :
  h_mcupending (after_close h2a s x) = filter (fun e => negb (N.eqb (mp_owner (snd e)) x)) (h_mcupending h2a).
Proof. unfold after_close. rewrite drop_vt_pending, detach_conn_pending. reflexivity. Qed.
Lemma after_close_conns h2a s x c :
  aget (h_conns (after_close h2a s x)) c =
  match s_conn s with
  | Some c0 => if N.eqb c c0 then option_map (fun cn => mkconn (c_addr cn) None (c_expect cn)) (aget (h_conns h2a) c0)
               else aget (h_conns h2a) c
  | None => aget (h_conns h2a) c
  end.
Proof.
  unfold after_close.
  match goal with |- aget (h_conns (drop_vt ?hh ?kd x)) c = _ => destruct (drop_vt_other hh kd x) as (_ & _ & _ & _ & _ & _ & _ & _ & _ & D) end.
  rewrite D, detach_conn_get. reflexivity.
Qed.
Lemma detach_conn_keys h oc : NoDup (map fst (h_conns h)) -> NoDup (map fst (h_conns (detach_conn h oc))).
Proof.
  intros N. unfold detach_conn. destruct oc as [c|]; [|exact N]. destruct (aget (h_conns h) c); [|exact N].
  cbn [h_conns set_conns]. now apply nodup_aset.
Qed.
Lemma after_close_keys h2a s x : NoDup (map fst (h_conns h2a)) -> NoDup (map fst (h_conns (after_close h2a s x))).
Proof.
  intros N. unfold after_close.
  match goal with |- NoDup (map fst (h_conns (drop_vt ?hh ?kd x))) => destruct (drop_vt_other hh kd x) as (_ & _ & _ & _ & _ & _ & _ & _ & _ & D) end.
  rewrite D. apply detach_conn_keys. exact N.
Qed.

Lemma cr_after_close h2a s x : CR h2a (after_close h2a s x).
Proof.
  assert (Hg : forall y, get_sess (after_close h2a s x) y = if N.eqb y x then None else get_sess h2a y).
  { intros y. unfold get_sess. rewrite after_close_sessions. apply aget_adel. }
  assert (Hl : forall y, y <> x -> live h2a y -> live (after_close h2a s x) y).
  { intros y Hne [t Ht]. exists t. rewrite Hg. destruct (N.eqb_spec y x); [contradiction|exact Ht]. }
  constructor.
  - intros sid s' Hs. rewrite Hg in Hs. destruct (N.eqb sid x); [discriminate|]. exists s'. split; [exact Hs|apply skeep_refl].
  - intros sid. rewrite after_close_clients. apply in_nrem.
  - intros sid Hin [t Ht]. rewrite Hg in Ht. destruct (N.eqb_spec sid x) as [->|Hne]; [discriminate|].
    rewrite after_close_clients. apply nmem_In. rewrite nmem_nrem. apply nmem_In in Hin. rewrite Hin.
    destruct (N.eqb_spec sid x); [contradiction|reflexivity].
  - intros sid Hin. rewrite after_close_clients in Hin. apply Hl. eapply in_nrem_ne; eauto.
  - intros sid. rewrite after_close_expired. apply in_nrem.
  - intros c cn'. rewrite after_close_conns. destruct (s_conn s) as [c0|].
    + destruct (N.eqb c c0).
      * destruct (aget (h_conns h2a) c0); cbn [option_map]; [|discriminate]. intros H. injection H as <-. now left.
      * intros H. right. exists cn'. auto.
    + intros H. right. exists cn'. auto.
  - apply after_close_keys.
  - intros e. rewrite after_close_pending. intros He. apply filter_In in He as [He Ho]. split; [exact He|].
    apply Hl. intros E. rewrite E, N.eqb_refl in Ho. discriminate.
Qed.

Lemma cr_close_one h x : CR h (fst (close_one h x)).
Proof.
  destruct (get_sess h x) as [s|] eqn:Hs; [|rewrite (close_one_dead h x Hs); apply cr_refl].
  rewrite (close_one_eq h x s Hs).
  eapply cr_trans; [apply (cr_leave_room h x true)|]. eapply cr_trans; [apply cr_release_mcu|]. apply cr_after_close.
Qed.
Lemma cr_close_session h x : CR h (fst (close_session h x)).
Proof.
  unfold close_session. destruct (close_one h x) as [h1 o1] eqn:Hc.
  apply (fold_acc_inv (fun hh => CR h hh) close_one).
  - intros hh k R. eapply cr_trans; [exact R|apply cr_close_one].
  - cbn [fst]. rewrite (fst_eq _ _ _ Hc). apply cr_close_one.
Qed.

(* a connection is closed: its session, if it has one, is closed with it *)
Lemma cr_close_conn h c : CR h (fst (close_conn h c)).
Proof.
  unfold close_conn. destruct (aget (h_conns h) c) as [cn|]; [|apply cr_refl].
  destruct (c_sess cn) as [x|]; [|cbn [fst]; apply cr_del_conn].
  set (h1 := set_conns h (adel (h_conns h) c)).
  assert (R1 : CR h h1) by apply cr_del_conn.
  destruct (get_sess h1 x) as [s|] eqn:Hs.
  2:{ destruct (close_session h1 x) as [h3 outs] eqn:Hcl. cbn [fst]. rewrite (fst_eq _ _ _ Hcl).
      eapply cr_trans; [exact R1|apply cr_close_session]. }
  set (h2 := put_sess h1 x (sess_conn s None)).
  pose proof (cr_close_session h2 x) as R3. pose proof (Hub_own.close_session_gone h2 x) as G.
  destruct (close_session h2 x) as [h3 outs] eqn:Hcl. cbn [fst] in *.
  (* every session of h3 is a session of h2 other than x, hence unchanged since h1 *)
  assert (Hback : forall y t, get_sess h3 y = Some t -> y <> x).
  { intros y t Ht ->. congruence. }
  assert (Hl2 : forall y, live h1 y -> live h2 y).
  { intros y [t Ht]. unfold live, h2. rewrite gp. destruct (N.eqb y x); eauto. }
  eapply cr_trans; [exact R1|]. constructor.
  - intros y t Ht. destruct (cr_sess _ _ R3 y t Ht) as (t2 & Ht2 & K). unfold h2 in Ht2. rewrite gp in Ht2.
    destruct (N.eqb_spec y x) as [->|Hne]; [exfalso; eapply Hback; eauto|]. exists t2. auto.
  - intros y Hy. apply (cr_cl _ _ R3) in Hy. exact Hy.
  - intros y Hy L. apply (cr_clk _ _ R3); [exact Hy|exact L].
  - intros y Hy L. apply (cr_cll _ _ R3); [exact Hy|]. now apply Hl2.
  - intros y Hy. apply (cr_exp _ _ R3) in Hy. exact Hy.
  - apply (cr_conns _ _ R3).
  - apply (cr_ckeys _ _ R3).
  - intros e He. destruct (cr_pend _ _ R3 e He) as [H2 L]. split; [exact H2|]. intros L1. apply L. now apply Hl2.
Qed.

Lemma cr_deliver_to_session h x m : CR h (fst (deliver_to_session h x m)).
Proof.
  unfold deliver_to_session. destruct (get_sess h x) as [s|] eqn:Hs; [|apply cr_refl].
  match goal with |- context [let '(m', s1) := ?X in _] => destruct X as [m' s1] eqn:HX end.
  assert (K : skeep s s1).
  { destruct m; try (injection HX as <- <-; apply skeep_refl).
    - destruct (filter_seen (s_seen s) l) as [keep seen']. injection HX as <- <-. now apply skeep_same.
    - injection HX as <- <-. now apply skeep_same. }
  assert (K2 : forall v, skeep s (sess_pending s1 v)).
  { intros v. eapply skeep_trans; [exact K|]. now apply skeep_same. }
  destruct m' as [mm|]; cbn [fst].
  - destruct (s_conn s1) as [c|]; cbn [fst]; apply cr_put with s; auto.
  - apply cr_put with s; auto.
Qed.

Lemma cr_send_session h x m : CR h (fst (send_session h x m)).
Proof.
  unfold send_session.
  match goal with |- context [deliver_to_session h ?t m] => set (target := t) end.
  destruct (deliver_to_session h target m) as [h1 outs] eqn:Hd. pose proof (fst_eq _ _ _ Hd) as E1.
  assert (R1 : CR h h1) by (rewrite E1; apply cr_deliver_to_session).
  destruct outs as [|[c mm| | |] [|o2 outs2]]; cbn [fst]; try exact R1.
  destruct (is_closing h1 c mm); [|exact R1].
  destruct (close_conn h1 c) as [h2 outs2] eqn:Hc. cbn [fst]. rewrite (fst_eq _ _ _ Hc).
  eapply cr_trans; [exact R1|apply cr_close_conn].
Qed.
Lemma cr_send_conn h c m : CR h (fst (send_conn h c m)).
Proof.
  unfold send_conn. destruct (aget (h_conns h) c); [|apply cr_refl].
  destruct (is_closing h c m); [|apply cr_refl].
  destruct (close_conn h c) as [h2 outs2] eqn:Hc. cbn [fst]. rewrite (fst_eq _ _ _ Hc). apply cr_close_conn.
Qed.

Lemma cr_kick h rs : CR h (fst (kick_room_session h rs)).
Proof.
  unfold kick_room_session. destruct (aget (h_rs2 h) rs) as [x|]; [|apply cr_refl].
  destruct (get_sess h x) as [s'|]; [|cbn [fst]; apply cr_publish].
  destruct (leave_room h x false) as [h1 o1] eqn:Hl. pose proof (fst_eq _ _ _ Hl) as E1.
  assert (R1 : CR h h1) by (rewrite E1; apply cr_leave_room).
  match goal with |- context [let '(h2, outs2) := ?X in _] => destruct X as [h2 o2] eqn:H2 end.
  assert (R2 : CR h h2).
  { destruct (s_kind s') as [| |p v]; destruct (s_conn s') as [c'|];
      try (injection H2 as <- <-; exact R1); rewrite (fst_eq _ _ _ H2);
      (eapply cr_trans; [exact R1|apply cr_send_conn]). }
  destruct (close_session h2 x) as [h3 o3] eqn:H3. cbn [fst]. rewrite (fst_eq _ _ _ H3).
  eapply cr_trans; [exact R2|apply cr_close_session].
Qed.

Lemma cr_do_message h x s kindn to tag cb : CR h (fst (do_message h x s kindn to tag cb)).
Proof.
  unfold do_message.
  destruct to as [i|u| |].
  - destruct i as [n|n|k|n]; try (cbn [fst]; apply cr_publish).
    destruct (get_sess h n) as [t|]; [|cbn [fst]; apply cr_publish].
    destruct (cb && negb (N.eqb (s_backend t) (s_backend s))); [apply cr_refl|].
    destruct (N.eqb n x); [apply cr_refl|].
    destruct (s_kind t); apply cr_send_session.
  - destruct (N.eqb u 0); [apply cr_refl|]. destruct (N.eqb u (sess_userid h x s)); [apply cr_refl|].
    cbn [fst]. apply cr_publish.
  - destruct (s_room s); [|apply cr_refl]. cbn [fst]. apply cr_publish.
  - destruct (s_room s); [|apply cr_refl]. cbn [fst]. apply cr_publish.
Qed.

Lemma cr_recv_event h x m sender co re t : CR h (fst (recv_event h x m sender co re t)).
Proof.
  unfold recv_event. destruct (get_sess h x) as [s|]; [|apply cr_refl].
  destruct (N.eqb sender x && negb (N.eqb sender 0)); [apply cr_refl|].
  destruct (co && negb (in_call h x s)); [apply cr_refl|].
  match goal with |- context [if ?c then _ else _] => destruct c end; [apply cr_refl|]. apply cr_send_session.
Qed.

Lemma cr_delete_member hh m : CR hh (fst (delete_member hh m)).
Proof.
  unfold delete_member. destruct (get_sess hh m) as [s|]; [|apply cr_refl].
  destruct (leave_room hh m true) as [h2 o1] eqn:Hl.
  assert (R2 : CR hh h2) by (rewrite (fst_eq _ _ _ Hl); apply cr_leave_room).
  destruct (is_virtual (s_kind s)); [exact R2|].
  destruct (send_session h2 m (SRoom 0)) as [h3 o2] eqn:H3. cbn [fst]. rewrite (fst_eq _ _ _ H3).
  eapply cr_trans; [exact R2|apply cr_send_session].
Qed.

Lemma cr_transient_update h k r del key val : CR h (fst (transient_update h k r del key val)).
Proof.
  unfold transient_update.
  assert (Hn : forall d m, CR h (fst (transient_notify h k r d m))).
  { intros d m. unfold transient_notify. eapply cr_trans; [|apply cr_fold_sessions; intros hh y; apply cr_send_session].
    apply cr_set_rooms. }
  destruct (del || N.eqb val 0).
  - destruct (aget (r_transient r) key); [apply Hn|apply cr_refl].
  - destruct (aget (r_transient r) key) as [v|]; [destruct (N.eqb v val); [apply cr_refl|apply Hn]|apply Hn].
Qed.

Lemma cr_room_request h k q : CR h (fst (room_request h k q)).
Proof.
  unfold room_request. destruct (room_of h k) as [r|] eqn:Hroom; [|apply cr_refl].
  destruct q as [|users rs|tag|l|l|ic|tag|ok|del key val]; [| | | | | | |apply cr_refl|apply cr_transient_update].
  - match goal with |- context [fold_sessions h ?int ?f] => set (internals := int); set (g := f) end.
    destruct (fold_sessions h internals g) as [h0 o0] eqn:H0.
    assert (R0 : CR h h0).
    { rewrite (fst_eq _ _ _ H0). apply cr_fold_sessions. intros hh y. apply cr_send_session. }
    set (h1 := set_rooms h0 (pdel (h_rooms h0) k)).
    destruct (fold_sessions h1 (r_members r) delete_member) as [h9 o9] eqn:H9. cbn [fst].
    rewrite (fst_eq _ _ _ H9). eapply cr_trans; [exact R0|].
    eapply cr_trans; [apply (cr_set_rooms h0)|].
    apply cr_fold_sessions. intros hh y. apply cr_delete_member.
  - apply cr_refl.
  - destruct (N.eqb (r_props r) (tag + 1)); [apply cr_refl|]. cbn [fst].
    eapply cr_trans; [|apply cr_publish]. apply cr_set_rooms.
  - cbn [fst]. apply cr_publish.
  - match goal with |- context [fold_left ?f l (h, [])] => set (g := f) end.
    assert (Hg : CR h (fst (fold_left g l (h, [])))).
    { assert (G : forall acc, CR h (fst acc) -> CR h (fst (fold_left g l acc))).
      { induction l as [|u l IH]; intros acc Hacc; cbn [fold_left]; [exact Hacc|]. apply IH.
        destruct acc as [hh oo]. cbn [fst] in Hacc. unfold g. destruct u as [[i icv] pm].
        destruct i as [n|y|kk|n]; try exact Hacc.
        destruct (get_sess hh y); [|exact Hacc].
        destruct (N.testbit icv 0); [cbn [fst]; eapply cr_trans; [exact Hacc|apply cr_set_incall]|].
        destruct (leave_call (set_incall hh k y false) y) as [h2 o2] eqn:H2. cbn [fst].
        rewrite (fst_eq _ _ _ H2). eapply cr_trans; [exact Hacc|].
        eapply cr_trans; [apply cr_set_incall|apply cr_leave_call]. }
      apply G. apply cr_refl. }
    destruct (fold_left g l (h, [])) as [h1 outs]. cbn [fst] in *. eapply cr_trans; [exact Hg|apply cr_publish].
  - destruct (N.testbit ic 0).
    + match goal with |- context [filter ?f (filter ?g0 (r_members r))] => set (fresh := filter f (filter g0 (r_members r))); set (joiners := filter g0 (r_members r)) end.
      destruct fresh; [apply cr_refl|].
      eapply cr_trans; [|apply cr_fold_sessions; intros hh y; apply cr_send_session].
      apply cr_fold_left_hub. intros hh y. apply cr_set_incall.
    + destruct (r_incall r) eqn:Hic; [apply cr_refl|].
      set (h1 := set_rooms h (pset (h_rooms h) k (mkroom (r_members r) [] (r_sessdata r) (r_transient r) (r_props r)))).
      assert (R1 : CR h h1) by apply cr_set_rooms.
      match goal with |- context [fold_sessions h1 ?lv leave_call] => destruct (fold_sessions h1 lv leave_call) as [h2 o1] eqn:H2 end.
      assert (R2 : CR h h2).
      { rewrite (fst_eq _ _ _ H2). eapply cr_trans; [exact R1|]. apply cr_fold_sessions. intros hh y. apply cr_leave_call. }
      match goal with |- context [fold_sessions h2 ?lv ?f] => destruct (fold_sessions h2 lv f) as [h3 o2] eqn:H3 end.
      cbn [fst]. rewrite (fst_eq _ _ _ H3). eapply cr_trans; [exact R2|].
      apply cr_fold_sessions. intros hh y. apply cr_send_session.
  - cbn [fst]. apply cr_publish.
Qed.

Lemma cr_deliver_pub h p : CR h (fst (deliver_pub h p)).
Proof.
  unfold deliver_pub.
  destruct (p_subj p) as [b r|b r|b u|x|]; destruct (p_msg p) as [m sender co|m|sj internal|pm| |q]; try apply cr_refl.
  - apply cr_fold_sessions. intros hh y. apply cr_recv_event.
  - apply cr_fold_sessions. intros hh y. apply cr_recv_event.
  - destruct (room_of h (b, r)) as [rm|]; [|apply cr_refl].
    match goal with |- context [match ?o with [] => _ | _ => _ end] => destruct o end; [apply cr_refl|]. cbn [fst].
    match goal with |- CR _ (fold_left ?f ?l ?h0) => apply (wf_fold_left_hub (fun hh => CR h hh) f l h0) end.
    + apply cr_publish.
    + intros hh y Hhh. destruct (get_sess hh y) as [sx|]; [|exact Hhh].
      destruct (is_virtual (s_kind sx) && negb (N.eqb (s_flags sx) 0)); [|exact Hhh].
      eapply cr_trans; [exact Hhh|apply cr_publish].
  - apply cr_room_request.
  - apply cr_fold_sessions. intros hh y. apply cr_recv_event.
  - destruct (get_sess h x) as [s|]; [|apply cr_refl]. destruct (is_virtual (s_kind s)); [apply cr_refl|]. apply cr_recv_event.
  - destruct (get_sess h x) as [s|]; [|apply cr_refl]. destruct (is_virtual (s_kind s)); [apply cr_refl|]. apply cr_recv_event.
  - destruct (get_sess h x) as [s|] eqn:Hs; [|apply cr_refl]. destruct (is_virtual (s_kind s)); [apply cr_refl|].
    eapply cr_trans; [|apply cr_revoke]. apply cr_put with s; [exact Hs|now apply skeep_same].
  - destruct (get_sess h x) as [s|]; [|apply cr_refl]. destruct (is_virtual (s_kind s)); [apply cr_refl|].
    destruct (leave_room h x false) as [h1 o1] eqn:H1.
    destruct (send_session h1 x (SBye B_room_session_reconnected)) as [h2 o2] eqn:H2.
    destruct (close_session h2 x) as [h3 o3] eqn:H3. cbn [fst].
    assert (R1 : CR h h1) by (rewrite (fst_eq _ _ _ H1); apply cr_leave_room).
    assert (R2 : CR h1 h2) by (rewrite (fst_eq _ _ _ H2); apply cr_send_session).
    assert (R3 : CR h2 h3) by (rewrite (fst_eq _ _ _ H3); apply cr_close_session).
    eapply cr_trans; [exact R1|]. eapply cr_trans; [exact R2|exact R3].
Qed.

Lemma cr_deliver_at h pos : CR h (fst (deliver_at h pos)).
Proof.
  unfold deliver_at. destruct (take_nth pos (h_bus h)) as [[p rest]|]; [|apply cr_refl].
  eapply cr_trans; [|apply cr_deliver_pub]. cr_ns.
Qed.

Lemma cr_do_api h b room q : CR h (fst (do_api h b room q)).
Proof.
  unfold do_api.
  assert (Hpub : forall hh s m, CR h hh -> CR h (publish hh s m)).
  { intros hh s m R. eapply cr_trans; [exact R|apply cr_publish]. }
  pose proof (cr_refl h) as R0.
  destruct q as [|users rs|tag|l|l|ic|tag|ok|del key val]; cbn [fst]; auto.
  - match goal with |- CR _ (fold_left ?f ?l ?h0) => apply (wf_fold_left_hub (fun hh => CR h hh) f l h0) end.
    + match goal with |- CR _ (fold_left ?f ?l ?h0) => apply (wf_fold_left_hub (fun hh => CR h hh) f l h0) end; auto.
    + intros hh y Hhh. destruct (aget (h_rs2 hh) (1000000 + y)); auto.
  - match goal with |- context [match ?o with [] => _ | _ => _ end] => destruct o end; cbn [fst]; auto.
    apply Hpub. match goal with |- CR _ (fold_left ?f ?l ?h0) => apply (wf_fold_left_hub (fun hh => CR h hh) f l h0) end; auto.
    intros hh [[i icv] pm] Hhh. destruct i; auto. destruct pm; auto.
  - match goal with |- context [match ?o with [] => _ | _ => _ end] => destruct o end; cbn [fst]; auto.
  - destruct ok; cbn [negb fst]; [|exact R0]. destruct (dialout_session h b) as [x|]; [|exact R0].
    destruct (send_session h x (SDialout room)) as [h1 o1] eqn:H1. cbn [fst]. apply Hpub.
    rewrite (fst_eq _ _ _ H1). apply cr_send_session.
Qed.

Lemma cr_do_tick h secs : CR h (fst (do_tick h secs)).
Proof.
  unfold do_tick.
  match goal with |- context [let '(h1, o1) := ?X in _] => destruct X as [h1 o1] eqn:H1 end.
  assert (R1 : CR h h1).
  { destruct (hub_expire_s <? secs); [|injection H1 as <- <-; apply cr_refl].
    rewrite (fst_eq _ _ _ H1). apply cr_fold_sessions. intros hh y. apply cr_close_session. }
  match goal with |- context [let '(h2, o2) := ?X in _] => destruct X as [h2 o2] eqn:H2 end.
  assert (R2 : CR h h2).
  { destruct (hub_anonymous_s <? secs); [|injection H2 as <- <-; exact R1].
    rewrite (fst_eq _ _ _ H2). eapply cr_trans; [exact R1|]. apply cr_fold_sessions. intros hh y.
    destruct (get_sess hh y) as [s|]; [|apply cr_refl].
    match goal with |- context [let '(h3, o3) := ?X in _] => destruct X as [h3 o3] eqn:H3 end.
    assert (R3 : CR hh h3).
    { destruct (s_conn s); [|injection H3 as <- <-; apply cr_refl]. rewrite (fst_eq _ _ _ H3). apply cr_send_conn. }
    destruct (close_session h3 y) as [h4 o4] eqn:H4. cbn [fst]. rewrite (fst_eq _ _ _ H4).
    eapply cr_trans; [exact R3|apply cr_close_session]. }
  match goal with |- context [let '(h3, o3) := ?X in _] => destruct X as [h3 o3] eqn:H3 end.
  cbn [fst]. destruct (hub_hello_s <? secs); [|injection H3 as <- <-; exact R2].
  rewrite (fst_eq _ _ _ H3). eapply cr_trans; [exact R2|]. apply cr_fold_sessions. intros hh y. apply cr_send_conn.
Qed.

(* ------------------------------------------------------------------ joining *)
Lemma cr_join_room h c sid k rs perms su : CR h (fst (join_room h c sid k rs perms su)).
Proof.
  unfold join_room.
  destruct (leave_room h sid true) as [h1 o1] eqn:Hl.
  assert (R1 : CR h h1) by (rewrite (fst_eq _ _ _ Hl); apply cr_leave_room).
  destruct (get_sess h1 sid) as [s|] eqn:Hs; [|cbn [fst]; exact R1].
  set (r := match room_of h1 k with Some x => x | None => empty_room end).
  set (r' := mkroom (nadd sid (r_members r)) (r_incall r) (if N.eqb su 0 then r_sessdata r else aset (r_sessdata r) sid su) (r_transient r) (r_props r)).
  set (s1 := upd_sess s (Some k) rs (s_conn s) (match perms with Some p => Some p | None => s_perms s end) (s_pending s) [] (h_clock h1)).
  set (hA := put_sess (set_rooms h1 (pset (h_rooms h1) k r')) sid s1).
  assert (RA : CR h hA).
  { eapply cr_trans; [exact R1|]. eapply cr_trans with (set_rooms h1 (pset (h_rooms h1) k r')); [apply cr_set_rooms|].
    apply cr_put with s; [exact Hs|]. now apply skeep_same. }
  set (h2 := set_clock hA (h_clock h1 + 1)).
  set (h3 := if N.eqb rs 0 then h2 else rs_set h2 sid rs).
  assert (R3 : CR h h3).
  { unfold h3. destruct (N.eqb rs 0).
    - eapply cr_trans; [exact RA|cr_ns].
    - eapply cr_trans; [exact RA|]. eapply cr_trans with h2; [cr_ns|apply cr_rs_set]. }
  set (h4 := set_anonymous h3 (nrem sid (h_anonymous h3))).
  set (h5 := match s_kind s with KInternal _ true => set_dialout h4 (nrem sid (h_dialout h4)) | _ => h4 end).
  assert (R5 : CR h h5).
  { unfold h5. destruct (s_kind s) as [|f d|]; try (eapply cr_trans; [exact R3|cr_ns]).
    destruct d; (eapply cr_trans; [exact R3|cr_ns]). }
  destruct (send_session h5 sid (SRoom (snd k))) as [h7 o2] eqn:Hsend. pose proof (fst_eq _ _ _ Hsend) as E7.
  assert (R7 : CR h h7) by (eapply cr_trans; [exact R5|rewrite E7; apply cr_send_session]).
  destruct (room_of h7 k); [|cbn [fst]; exact R7].
  set (h9 := if nmem sid (r_members r) then h7 else publish h7 (SubjRoom (fst k) (snd k)) (ARoomEvent (SJoin [(sid, if N.eqb (s_user s) 0 then su else s_user s)]))).
  assert (R9 : CR h h9).
  { unfold h9. destruct (nmem sid (r_members r)); [exact R7|]. eapply cr_trans; [exact R7|apply cr_publish]. }
  match goal with |- context [let '(h10, outs3) := ?X in _] => destruct X as [h10 o3] eqn:H10 end.
  assert (R10 : CR h h10).
  { destruct (nmem sid (r_members r)); [injection H10 as <- <-; exact R9|].
    destruct (r_transient r); [injection H10 as <- <-; exact R9|].
    rewrite (fst_eq _ _ _ H10). eapply cr_trans; [exact R9|apply cr_send_session]. }
  cbn [fst]. eapply cr_trans; [exact R10|apply cr_publish].
Qed.

Lemma cr_do_join h c sid s rn rs rep : get_sess h sid = Some s -> CR h (fst (do_join h c sid s rn rs rep)).
Proof.
  intros Hs. unfold do_join. destruct (N.eqb rn 0).
  - destruct (s_room s); [|apply cr_refl].
    destruct (leave_room h sid true) as [h1 o1] eqn:Hl.
    destruct (send_session h1 sid (SRoom 0)) as [h2 o2] eqn:H2. cbn [fst].
    assert (R1 : CR h h1) by (rewrite (fst_eq _ _ _ Hl); apply cr_leave_room).
    assert (R2 : CR h h2) by (eapply cr_trans; [exact R1|]; rewrite (fst_eq _ _ _ H2); apply cr_send_session).
    destruct (N.eqb (s_user s) 0 && negb (is_internal (s_kind s))); [|exact R2]. eapply cr_trans; [exact R2|cr_ns].
  - set (k := (s_backend s, rn)). set (rsv := if N.eqb rs 0 then 0 else 1000000 + rs).
    destruct (match room_of h k with Some r => nmem sid (r_members r) | None => false end).
    + set (newrs := if N.eqb rs 0 then 2000000 + sid else rsv).
      set (h1 := if N.eqb (s_rs s) newrs then h else put_sess (rs_set h sid newrs) sid (sess_rs s newrs)).
      assert (R1 : CR h h1).
      { unfold h1. destruct (N.eqb (s_rs s) newrs); [apply cr_refl|].
        eapply cr_trans; [apply cr_rs_set|]. apply cr_put with s; [|now apply skeep_same].
        unfold get_sess. rewrite rs_set_sessions. exact Hs. }
      destruct (send_session h1 sid (SError E_already_joined)) as [h2 o2] eqn:H2. cbn [fst].
      rewrite (fst_eq _ _ _ H2). eapply cr_trans; [exact R1|apply cr_send_session].
    + destruct (is_internal (s_kind s)); [apply cr_join_room|].
      match goal with |- context [let '(h1, outs1) := ?X in _] => destruct X as [h1 o1] eqn:H1 end.
      assert (R1 : CR h h1).
      { destruct (N.eqb rs 0 || N.eqb (s_rs s) rsv); [injection H1 as <- <-; apply cr_refl|].
        rewrite (fst_eq _ _ _ H1). apply cr_kick. }
      destruct (get_sess h1 sid); [|cbn [fst]; exact R1].
      destruct rep as [perms su|code].
      * destruct (join_room h1 c sid k rsv perms su) as [h2 o2] eqn:H2. cbn [fst]. rewrite (fst_eq _ _ _ H2).
        eapply cr_trans; [exact R1|apply cr_join_room].
      * destruct (send_session h1 sid (SError code)) as [h2 o2] eqn:H2. cbn [fst]. rewrite (fst_eq _ _ _ H2).
        eapply cr_trans; [exact R1|apply cr_send_session].
Qed.

(* ------------------------------------------------------------------ states in which a session is attached, detached, created *)
Lemma at_attach h h' sid ns c cn' :
  AT h ->
  (forall y, get_sess h' y = if N.eqb y sid then Some ns else get_sess h y) ->
  (forall y, In y (h_clients h') <-> y = sid \/ In y (h_clients h)) ->
  ~ In sid (h_expired h') -> (forall y, In y (h_expired h') -> In y (h_expired h)) ->
  h_conns h' = aset (h_conns h) c cn' -> h_mcupending h' = h_mcupending h ->
  s_conn ns = Some c -> is_virtual (s_kind ns) = false -> c_sess cn' = Some sid -> c_expect cn' = false -> AT h'.
Proof.
  intros A Hg Hcl Hne Hex Hco Hpe Hc Hv Hcs Hce. constructor.
  - intros y t c0 Ht Hc0. apply Hcl. rewrite Hg in Ht. destruct (N.eqb_spec y sid) as [->|Hn]; [now left|right].
    eapply (at_in_clients _ A); eauto.
  - intros y t c0 Ht Hc0 Hin. rewrite Hg in Ht. destruct (N.eqb_spec y sid) as [->|Hn]; [contradiction|].
    eapply (at_not_expiring _ A); eauto.
  - intros y Hin. rewrite Hg. destruct (N.eqb_spec y sid) as [->|Hn]; [eauto|].
    apply Hcl in Hin as [?|Hin]; [contradiction|]. apply (at_clients_conn _ A y Hin).
  - intros x cn t. rewrite Hco, aget_aset. destruct (N.eqb x c); intros H.
    + injection H as <-. intros _. exact Hce.
    + apply (at_expect _ A x cn t H).
  - rewrite Hco. apply nodup_aset, A.
  - intros y t Ht Hvt. rewrite Hg in Ht. destruct (N.eqb y sid); [injection Ht as <-; congruence|]. eapply (at_virtual_conn _ A); eauto.
  - intros y t Ht Hvt. rewrite Hg in Ht. destruct (N.eqb y sid); [injection Ht as <-; congruence|]. eapply (at_virtual_toks _ A); eauto.
  - intros tok p Hin. rewrite Hpe in Hin. destruct (at_pending _ A tok p Hin) as (t & Ht & Hvt). rewrite Hg.
    destruct (N.eqb (mp_owner p) sid); eauto.
Qed.

Lemma at_detach h sid s :
  AT h -> get_sess h sid = Some s ->
  AT (set_expired (set_clients (put_sess h sid (sess_conn s None)) (nrem sid (h_clients h))) (nadd sid (h_expired h))).
Proof.
  intros A Hs.
  set (h' := set_expired (set_clients (put_sess h sid (sess_conn s None)) (nrem sid (h_clients h))) (nadd sid (h_expired h))).
  assert (Hg : forall y, get_sess h' y = if N.eqb y sid then Some (sess_conn s None) else get_sess h y) by (intros y; apply gp).
  constructor.
  - intros y t c Ht Hc. rewrite Hg in Ht. destruct (N.eqb_spec y sid) as [->|Hn]; [injection Ht as <-; discriminate|].
    change (In y (nrem sid (h_clients h))). apply nmem_In. rewrite nmem_nrem.
    pose proof (at_in_clients _ A y t c Ht Hc) as Hin. apply nmem_In in Hin. rewrite Hin.
    destruct (N.eqb_spec y sid); [contradiction|reflexivity].
  - intros y t c Ht Hc Hin. rewrite Hg in Ht. destruct (N.eqb_spec y sid) as [->|Hn]; [injection Ht as <-; discriminate|].
    change (In y (nadd sid (h_expired h))) in Hin. apply in_nadd in Hin as [?|Hin]; [contradiction|].
    eapply (at_not_expiring _ A); eauto.
  - intros y Hin. change (In y (nrem sid (h_clients h))) in Hin. pose proof (in_nrem_ne _ _ _ Hin) as Hn. apply in_nrem in Hin.
    rewrite Hg. destruct (N.eqb_spec y sid); [contradiction|]. apply (at_clients_conn _ A y Hin).
  - apply (at_expect _ A).
  - apply (at_ckeys _ A).
  - intros y t Ht Hvt. rewrite Hg in Ht. destruct (N.eqb y sid); [injection Ht as <-; reflexivity|]. eapply (at_virtual_conn _ A); eauto.
  - intros y t Ht Hvt. rewrite Hg in Ht. destruct (N.eqb_spec y sid) as [->|].
    + injection Ht as <-. exact (at_virtual_toks _ A sid s Hs Hvt).
    + eapply (at_virtual_toks _ A); eauto.
  - intros tok p Hin. destruct (at_pending _ A tok p Hin) as (t & Ht & Hvt). rewrite Hg.
    destruct (N.eqb_spec (mp_owner p) sid) as [E|]; [|eauto]. rewrite E in Ht. rewrite Hs in Ht. injection Ht as <-.
    exists (sess_conn s None). auto.
Qed.

Lemma at_new_session h h' vs ns :
  AT h -> get_sess h vs = None ->
  (forall y, get_sess h' y = if N.eqb y vs then Some ns else get_sess h y) ->
  h_clients h' = h_clients h -> h_expired h' = h_expired h -> h_conns h' = h_conns h -> h_mcupending h' = h_mcupending h ->
  s_conn ns = None -> toks ns = [] -> AT h'.
Proof.
  intros A Hd Hg Ecl Eex Eco Epe Hc Ht.
  assert (Hlive : forall y t, get_sess h y = Some t -> get_sess h' y = Some t).
  { intros y t Hy. rewrite Hg. destruct (N.eqb_spec y vs) as [->|]; [congruence|exact Hy]. }
  constructor; rewrite ?Ecl, ?Eex, ?Eco, ?Epe; try apply A.
  - intros y t c Hy Hcy. rewrite Hg in Hy. destruct (N.eqb y vs); [injection Hy as <-; congruence|]. eapply (at_in_clients _ A); eauto.
  - intros y t c Hy Hcy. rewrite Hg in Hy. destruct (N.eqb y vs); [injection Hy as <-; congruence|]. eapply (at_not_expiring _ A); eauto.
  - intros y Hin. destruct (at_clients_conn _ A y Hin) as (t & c & Hy & Hcy). exists t, c. split; [now apply Hlive|exact Hcy].
  - intros y t Hy Hv. rewrite Hg in Hy. destruct (N.eqb y vs); [injection Hy as <-; exact Hc|]. eapply (at_virtual_conn _ A); eauto.
  - intros y t Hy Hv. rewrite Hg in Hy. destruct (N.eqb y vs); [injection Hy as <-; exact Ht|]. eapply (at_virtual_toks _ A); eauto.
  - intros tok p Hin. destruct (at_pending _ A tok p Hin) as (t & Hy & Hv). exists t. split; [now apply Hlive|exact Hv].
Qed.

(* the pending table changes *)
Lemma at_set_pending h t pend opn :
  AT h -> (forall tok p, In (tok, p) pend -> exists s, get_sess h (mp_owner p) = Some s /\ is_virtual (s_kind s) = false) ->
  AT (set_mcu h t pend opn).
Proof. intros A Hp. constructor; try apply A. exact Hp. Qed.

(* ------------------------------------------------------------------ hello *)
Lemma at_register h c cn b k u : WF h -> AT h -> is_virtual k = false -> AT (fst (register h c cn b k u)).
Proof.
  intros W A Hk. unfold register. cbv zeta.
  match goal with |- AT (fst (if ?X then _ else _)) => destruct X end.
  { cbn [fst]. apply (at_cr h); [exact A|]. eapply cr_trans with (set_nextsid h (next_id h)); [cr_ns|].
    apply (cr_set_conn_none (set_nextsid h (next_id h))). reflexivity. }
  cbn [fst].
  set (sid := next_id h). set (ns := new_session b k u c).
  match goal with |- AT ?hh => set (h5 := hh) end.
  assert (P : h_sessions h5 = aset (h_sessions h) sid ns /\ h_clients h5 = nadd sid (h_clients h) /\
              h_expired h5 = h_expired h /\ h_conns h5 = aset (h_conns h) c (mkconn (c_addr cn) (Some sid) false) /\
              h_mcupending h5 = h_mcupending h).
  { unfold h5. destruct (negb (is_internal k) && negb (N.eqb (limit_of h b) 0));
      destruct (N.eqb u 0 && negb (is_internal k)); try (repeat split; reflexivity);
      destruct k as [|f d|p v]; try (repeat split; reflexivity); destruct d; repeat split; reflexivity. }
  destruct P as (Ps & Pc & Pe & Pn & Pp).
  assert (Hfresh : get_sess h sid = None) by apply next_id_fresh.
  apply (at_attach h h5 sid ns c (mkconn (c_addr cn) (Some sid) false));
    [exact A| | | | |exact Pn|exact Pp|reflexivity| |reflexivity|reflexivity].
  - intros y. unfold get_sess. rewrite Ps. apply aget_aset.
  - intros y. rewrite Pc. split; [apply in_nadd|apply in_nadd_intro].
  - rewrite Pe. intros Hin. destruct (wf_expired _ _ h W sid Hin) as [t Ht]. congruence.
  - intros y. now rewrite Pe.
  - unfold ns, new_session. cbn [s_kind]. exact Hk.
Qed.

Lemma at_do_hello h c cn hl : WF h -> AT h -> AT (fst (do_hello h c cn hl)).
Proof.
  intros W A. unfold do_hello.
  assert (Hexp : forall hh, CR h hh -> AT (set_conns hh (aset (h_conns hh) c (mkconn (c_addr cn) None true)))).
  { intros hh R. apply (at_cr h); [exact A|]. eapply cr_trans; [exact R|]. now apply cr_set_conn_none. }
  destruct hl as [b u rej|b u t|b tok f d|i].
  - destruct (h_nb h <=? b); [cbn [fst]; apply Hexp, cr_refl|]. destruct rej; [cbn [fst]; apply Hexp, cr_refl|].
    destruct (register h c cn b KClient u) as [h1 o1] eqn:Hr. cbn [fst]. rewrite (fst_eq _ _ _ Hr). now apply at_register.
  - destruct (v2_check (h_nb h) b t); [now apply at_register|cbn [fst]; apply Hexp, cr_refl].
  - destruct (N.eqb tok 4); [cbn [fst]; apply Hexp, cr_refl|].
    destruct (throttled h (c_addr cn) ACT_INTERNAL); [cbn [fst]; apply Hexp, cr_refl|].
    destruct (negb (N.eqb tok 0)); [cbn [fst]; apply Hexp; cr_ns|].
    destruct (h_nb h <=? b); [cbn [fst]; apply Hexp; cr_ns|]. now apply at_register.
  - destruct (throttled h (c_addr cn) ACT_RESUME); [exact A|].
    destruct i as [n|n|k|n]; try (cbn [fst]; apply (at_cr h); [exact A|cr_ns]).
    destruct (get_sess h n) as [s|] eqn:Hs; [|exact A].
    destruct (is_virtual (s_kind s)) eqn:Hv; [exact A|].
    set (P := match s_conn s with
              | Some c' => if N.eqb c' c then (h, [])
                           else send_conn (match aget (h_conns h) c' with
                                           | Some cn' => set_conns h (aset (h_conns h) c' (mkconn (c_addr cn') None (c_expect cn')))
                                           | None => h end) c' (SBye B_session_resumed)
              | None => (h, []) end).
    assert (RP : CR h (fst P)).
    { unfold P. destruct (s_conn s) as [c'|]; [|apply cr_refl].
      destruct (N.eqb c' c); [apply cr_refl|].
      eapply cr_trans; [|apply cr_send_conn]. destruct (aget (h_conns h) c'); [now apply cr_set_conn_none|apply cr_refl]. }
    destruct P as [h1 outs1]. cbn [fst] in RP. cbn [fst].
    pose proof (at_cr _ _ A RP) as A1.
    set (s1 := sess_pending (sess_conn s (Some c)) []).
    match goal with |- AT (fst (if _ then _ else (?hh, _))) => set (h5 := hh) end.
    assert (A5 : AT h5).
    { apply (at_attach h1 h5 n s1 c (mkconn (c_addr cn) (Some n) false));
        [exact A1| | | | |reflexivity|reflexivity|reflexivity|exact Hv|reflexivity|reflexivity].
      - intros y. unfold h5. apply gp.
      - intros y. unfold h5. cbn [h_clients set_conns set_clients]. split; [apply in_nadd|apply in_nadd_intro].
      - unfold h5. cbn [h_expired set_conns set_clients set_expired]. intros Hin. apply in_nrem_ne in Hin. now apply Hin.
      - intros y. unfold h5. cbn [h_expired set_conns set_clients set_expired]. apply in_nrem. }
    destruct (queue_closes s); [|exact A5].
    match goal with |- context [close_conn ?hh c] => destruct (close_conn hh c) as [h6 o6] eqn:H6 end. cbn [fst].
    rewrite (fst_eq _ _ _ H6). apply (at_cr h5); [exact A5|apply cr_close_conn].
Qed.

(* ------------------------------------------------------------------ virtual sessions *)
Lemma at_do_internal h c sid s q : WF h -> AT h -> get_sess h sid = Some s -> AT (fst (do_internal h c sid s q)).
Proof.
  intros W A Hs. unfold do_internal.
  assert (Hcr : forall h', CR h h' -> AT h') by (intros h' R; now apply (at_cr h)).
  destruct q as [v rn user flags incall|v rn flags incall|v rn|ic].
  - set (k := (s_backend s, rn)). destruct (room_of h k) as [r|]; [|exact A].
    set (vs := next_id h). set (h0 := set_nextsid h vs).
    match goal with |- context [put_sess ?hh vs ?ss] => set (hr := hh); set (vsess := ss) end.
    set (h1 := put_sess hr vs vsess).
    assert (A1 : AT h1).
    { apply (at_new_session h h1 vs vsess); auto; try reflexivity.
      - apply next_id_fresh.
      - intros y. unfold h1. rewrite gp. reflexivity. }
    match goal with |- context [match pget (h_vtable h0) (sid, v) with Some pv => close_one ?hh pv | None => _ end] => set (h9 := hh) end.
    assert (R9 : CR h1 h9).
    { unfold h9. match goal with |- context [if ?X then _ else _] => destruct X end;
        repeat (eapply cr_trans; [|apply cr_publish]); (eapply cr_trans; [|apply cr_rs_set]); cr_ns. }
    pose proof (at_cr _ _ A1 R9) as A9.
    match goal with |- context [let '(h10, outs10) := ?X in _] => destruct X as [h10 o10] eqn:H10 end. cbn [fst].
    destruct (pget (h_vtable h0) (sid, v)) as [pv|]; [|injection H10 as <- <-; exact A9].
    rewrite (fst_eq _ _ _ H10). apply (at_cr h9); [exact A9|apply cr_close_one].
  - destruct (room_of h (s_backend s, rn)) as [r|]; [|exact A].
    destruct (pget (h_vtable h) (sid, v)) as [vs|]; [|exact A].
    destruct (get_sess h vs) as [t|] eqn:Ht; [|exact A]. cbn [fst]. apply Hcr.
    match goal with |- context [put_sess h vs ?ss] => set (t1 := ss) end.
    assert (R1 : CR h (put_sess h vs t1)) by (apply cr_put with t; [exact Ht|now apply skeep_same]).
    match goal with |- CR h (if ?X then _ else ?hh) => assert (R2 : CR h hh) end.
    { match goal with |- context [if ?X then _ else _] => destruct X end; [eapply cr_trans; [exact R1|apply cr_publish]|exact R1]. }
    match goal with |- context [if ?X then _ else _] => destruct X end; [|exact R2].
    eapply cr_trans; [|apply cr_publish]. eapply cr_trans; [exact R2|apply cr_set_incall].
  - destruct (room_of h (s_backend s, rn)) as [r|]; [|exact A].
    destruct (pget (h_vtable h) (sid, v)) as [vs|]; [|exact A]. apply Hcr.
    eapply cr_trans; [|apply cr_close_one]. cr_ns.
  - destruct (N.eqb ic (s_incall s)); [exact A|].
    match goal with |- context [put_sess h sid ?ss] => set (s1 := ss) end.
    assert (R1 : CR h (put_sess h sid s1)) by (apply cr_put with s; [exact Hs|now apply skeep_same]).
    destruct (s_room s) as [k|]; [|cbn [fst]; apply Hcr, R1].
    destruct (N.testbit ic 0).
    + cbn [fst]. apply Hcr. eapply cr_trans; [|apply cr_publish]. eapply cr_trans; [exact R1|apply cr_set_incall].
    + match goal with |- context [let '(h2, o2) := ?X in _] => destruct X as [h2 o2] eqn:H2 end. cbn [fst].
      apply Hcr. eapply cr_trans; [|apply cr_publish]. rewrite (fst_eq _ _ _ H2).
      eapply cr_trans; [exact R1|]. eapply cr_trans; [apply cr_set_incall|apply cr_leave_call].
Qed.

(* ------------------------------------------------------------------ media *)
Lemma cr_finish_create h tok p ok :
  (forall s, get_sess h (mp_owner p) = Some s -> is_virtual (s_kind s) = false) ->
  CR h (fst (finish_create h tok p ok)).
Proof.
  intros Hown. unfold finish_create.
  assert (Hsend : forall hh x m, CR h hh -> CR h (fst (send_session hh x m))).
  { intros hh x m E. eapply cr_trans; [exact E|apply cr_send_session]. }
  assert (Hcond : forall hh (b : bool) x m, CR h hh ->
            CR h (fst (if b then send_session hh x m else (hh, [])))).
  { intros hh b x m E. destruct b; [now apply Hsend|exact E]. }
  pose proof (cr_refl h) as R0.
  destruct ok; cbn [negb].
  2:{ destruct (send_session h (mp_errto p) (SError E_client_not_found)) as [h1 o1] eqn:H1. cbn [fst].
      rewrite (fst_eq _ _ _ H1). now apply Hsend. }
  destruct (get_sess h (mp_owner p)) as [s|] eqn:Hs; [|exact R0].
  pose proof (Hown s eq_refl) as Hv.
  destruct (negb (N.eqb (s_rel s) (mp_rel p))).
  { destruct (send_session h (mp_errto p) (SError E_client_not_found)) as [h1 o1] eqn:H1. cbn [fst].
    rewrite (fst_eq _ _ _ H1). now apply Hsend. }
  destruct (N.eqb (mp_kind p) 0 && negb (offer_allowed (s_perms s) (mp_stream p) (N.land (mp_media p) 3))).
  { destruct (send_session h (mp_errto p) (SError E_not_allowed)) as [h1 o1] eqn:H1. cbn [fst].
    rewrite (fst_eq _ _ _ H1). now apply Hsend. }
  destruct (N.eqb (mp_kind p) 0).
  - destruct (aget (s_pubs s) (mp_stream p)).
    + match goal with |- context [let '(h1, o1) := ?X in _] => destruct X as [h1 o1] eqn:H1 end. cbn [fst].
      rewrite (fst_eq _ _ _ H1). now apply Hcond.
    + match goal with |- context [let '(h3, o3) := ?X in _] => destruct X as [h3 o3] eqn:H3 end. cbn [fst].
      rewrite (fst_eq _ _ _ H3). apply Hcond.
      match goal with |- CR h (set_mcu (put_sess h ?o ?ss) _ _ _) => apply cr_trans with (put_sess h o ss); [|cr_ns] end.
      apply cr_put with s; [exact Hs|]. now apply skeep_client.
  - destruct (sub_get s (mp_pubof p) (mp_stream p)).
    + match goal with |- context [let '(h1, o1) := ?X in _] => destruct X as [h1 o1] eqn:H1 end. cbn [fst].
      rewrite (fst_eq _ _ _ H1). now apply Hcond.
    + match goal with |- context [let '(h3, o3) := ?X in _] => destruct X as [h3 o3] eqn:H3 end. cbn [fst].
      rewrite (fst_eq _ _ _ H3). apply Hcond.
      match goal with |- CR h (set_mcu (put_sess h ?o ?ss) _ _ _) => apply cr_trans with (put_sess h o ss); [|cr_ns] end.
      apply cr_put with s; [exact Hs|]. now apply skeep_client.
Qed.

Lemma at_start_create h p :
  AT h -> (exists s, get_sess h (mp_owner p) = Some s /\ is_virtual (s_kind s) = false) -> AT (fst (start_create h p)).
Proof.
  intros A (s & Hs & Hv). unfold start_create. destruct (h_gated h).
  - cbn [fst]. apply at_set_pending; [exact A|]. intros tok q Hin. apply in_app_or in Hin as [Hin|[E|[]]].
    + apply (at_pending _ A tok q Hin).
    + injection E as _ <-. eauto.
  - match goal with |- context [let '(h1, o1) := ?X in _] => destruct X as [h1 o1] eqn:H1 end. cbn [fst].
    rewrite (fst_eq _ _ _ H1). apply (at_cr h); [exact A|].
    eapply cr_trans; [|apply cr_finish_create].
    + cr_ns.
    + intros t Ht. change (get_sess h (mp_owner p) = Some t) in Ht. congruence.
Qed.

Lemma in_adel {V} (l : alist V) k e : In e (adel l k) -> In e l.
Proof.
  induction l as [|[k0 v0] r IH]; cbn; [tauto|]. destruct (N.eqb k k0); [intros H; right; auto|].
  intros [H|H]; [now left|right; auto].
Qed.
Lemma at_do_mcudone h tok ok : AT h -> AT (fst (do_mcudone h tok ok)).
Proof.
  intros A. unfold do_mcudone. destruct (aget (h_mcupending h) tok) as [p|] eqn:Hp; [|exact A].
  apply aget_In in Hp. destruct (at_pending _ A tok p Hp) as (s & Hs & Hv).
  apply (at_cr h); [exact A|]. eapply cr_trans; [|apply cr_finish_create].
  - constructor; auto.
    + intros sid s' Hs'. exists s'. split; [exact Hs'|apply skeep_refl].
    + apply conn_keep_refl.
    + intros e He. cbn [h_mcupending set_mcu] in He. apply in_adel in He. auto.
  - intros t Ht. change (get_sess h (mp_owner p) = Some t) in Ht. congruence.
Qed.

Lemma at_do_sendoffer h c x s i stream : AT h -> AT (fst (do_sendoffer h c x s i stream)).
Proof.
  intros A.
  unfold do_sendoffer.
  destruct i as [n|n|k|n]; try (destruct (negb (send_allowed (s_perms s) stream)); [exact A|exact A]).
  destruct (get_sess h n) as [t|] eqn:Ht; [|destruct (negb (send_allowed (s_perms s) stream)); [exact A|exact A]].
  destruct (N.eqb_spec (s_backend t) (s_backend s)) as [Hbt|]; cbn [negb]; [|exact A].
  destruct (N.eqb n x); [exact A|].
  destruct (negb (send_allowed (s_perms s) stream)); [exact A|].
  cbv zeta. set (r := match s_kind t with KVirtual p _ => p | _ => n end).
  destruct (get_sess h r) as [rs|] eqn:Hr; [|exact A].
  destruct (is_virtual (s_kind rs)) eqn:Hv; [exact A|].
  destruct (sub_get rs x stream); [apply (at_cr h); [exact A|apply cr_send_session]|apply at_start_create; [exact A|]; cbn [mp_owner]; exists rs; split; [exact Hr|exact Hv]].
Qed.

Lemma at_do_media h c sid s to mk stream media :
  AT h -> get_sess h sid = Some s -> is_virtual (s_kind s) = false -> AT (fst (do_media h c sid s to mk stream media)).
Proof.
  intros A Hs Hv. unfold do_media. destruct to as [i|u| |]; try exact A.
  assert (Hst : forall p, mp_owner p = sid -> AT (fst (start_create h p))).
  { intros p E. apply at_start_create; [exact A|]. rewrite E. eauto. }
  destruct (N.eqb mk 0).
  - destruct (negb (offer_allowed (s_perms s) stream _)); [exact A|].
    destruct (aget (s_pubs s) stream); [|now apply Hst].
    apply (at_cr h); [exact A|]. eapply cr_trans; [|apply cr_send_session]. apply cr_put with s; [exact Hs|now apply skeep_same].
  - destruct (N.eqb mk 1).
    + match goal with |- context [if ?c then _ else _] => destruct c end; [exact A|].
      destruct (negb (same_call h sid s _)); [exact A|].
      destruct (sub_get s _ stream); [apply (at_cr h); [exact A|apply cr_send_session]|now apply Hst].
    + destruct (is_cand mk); [|destruct (N.eqb mk 3); [now apply at_do_sendoffer|exact A]].
      match goal with |- context [if ?c then _ else _] => destruct c end.
      * destruct (negb (send_allowed (s_perms s) stream)); [exact A|]. destruct (aget (s_pubs s) stream); exact A.
      * destruct (sub_get s _ stream); exact A.
Qed.

(* ------------------------------------------------------------------ every step keeps the invariant *)
Theorem at_step h o : WF h -> AT h -> AT (fst (step h o)).
Proof.
  intros W A.
  assert (Hcr : forall h', CR h h' -> AT h') by (intros h' R; now apply (at_cr h)).
  assert (Hws : forall c (f : conn -> N -> session -> hub * list out),
            (forall cn sid s, aget (h_conns h) c = Some cn -> c_sess cn = Some sid -> get_sess h sid = Some s -> AT (fst (f cn sid s))) ->
            AT (fst (with_session h c f))).
  { intros c f Hf. unfold with_session. destruct (aget (h_conns h) c) as [cn|] eqn:Hc; [|exact A].
    destruct (c_sess cn) as [sid|] eqn:Hcs; [|exact A]. destruct (get_sess h sid) as [s|] eqn:Hs; [|exact A]. eauto. }
  destruct o as [c addr|c hl|c rn rs rep|c to tag|c to tag|c|c|secs|b signas room q|c q|c to mk stream media|tok ok|c kindn key val|pos|c hl late]; cbn [step].
  - destruct (aget (h_conns h) c); [exact A|]. cbn [fst]. apply Hcr. now apply cr_set_conn_none.
  - destruct (aget (h_conns h) c) as [cn|]; [|exact A]. destruct (c_sess cn); [exact A|].
    match goal with |- AT (fst (do_hello ?hh _ _ _)) => assert (W1 : WF hh) by (now apply wf_set_conn_nosess);
      assert (A1 : AT hh) by (apply Hcr; now apply cr_set_conn_none) end.
    now apply at_do_hello.
  - apply Hws. intros cn sid s Hc Hcs Hs.
    pose proof (cr_do_join h c sid s rn rs rep Hs) as R1.
    destruct (do_join h c sid s rn rs rep) as [h1 o1] eqn:H1. cbn [fst] in R1.
    destruct rep as [[pm|] su|code]; cbv iota beta; try (cbn [fst]; now apply Hcr).
    destruct (get_sess h1 sid) as [s1|]; cbv iota beta; [|cbn [fst]; now apply Hcr].
    match goal with |- context [if ?cnd then _ else _] => destruct cnd end; [|cbn [fst]; now apply Hcr].
    destruct (revoke h1 sid) as [h2 o2] eqn:H2. cbn [fst]. apply Hcr. eapply cr_trans; [exact R1|].
    rewrite (fst_eq _ _ _ H2). apply cr_revoke.
  - apply Hws. intros. apply Hcr, cr_do_message.
  - apply Hws. intros cn sid s _ _ _. destruct (allowed_control s); [apply Hcr, cr_do_message|exact A].
  - destruct (aget (h_conns h) c) as [cn|]; [|exact A]. destruct (c_sess cn); [apply Hcr, cr_send_conn|exact A].
  - destruct (aget (h_conns h) c) as [cn|]; [|exact A]. cbv zeta.
    set (h1 := set_conns h (adel (h_conns h) c)).
    assert (A1 : AT h1) by (apply Hcr, cr_del_conn).
    destruct (c_sess cn) as [sid|]; [|exact A1].
    destruct (get_sess h1 sid) as [s|] eqn:Hs; [|exact A1]. cbn [fst].
    exact (at_detach h1 sid s A1 Hs).
  - apply Hcr, cr_do_tick.
  - destruct (negb (N.eqb b signas) || (h_nb h <=? b)); [exact A|]. apply Hcr, cr_do_api.
  - apply Hws. intros cn sid s Hc Hcs Hs. destruct (is_internal (s_kind s)); [now apply at_do_internal|exact A].
  - apply Hws. intros cn sid s Hc Hcs Hs. apply at_do_media; [exact A|exact Hs|].
    destruct (wf_conns _ _ h W c cn sid Hc Hcs) as (s' & Hs' & Hconn). rewrite Hs in Hs'. injection Hs' as <-.
    destruct (is_virtual (s_kind s)) eqn:Hv; [|reflexivity].
    rewrite (at_virtual_conn _ A sid s Hs Hv) in Hconn. discriminate.
  - now apply at_do_mcudone.
  - apply Hws. intros cn sid s Hc Hcs Hs. destruct (s_room s) as [k|]; [|exact A].
    destruct (2 <=? kindn); [exact A|].
    destruct (negb (allowed_transient s)); [exact A|]. destruct (room_of h k) as [r|]; [|exact A].
    apply Hcr, cr_transient_update.
  - apply Hcr, cr_deliver_at.
  - destruct (aget (h_conns h) c) as [cn|]; [|exact A]. destruct (c_sess cn); [exact A|].
    destruct hl as [b u rej|b u t|b tok f d|i]; try exact A.
    + destruct rej; [exact A|]. destruct (h_nb h <=? b); [exact A|].
      match goal with |- context [close_conn ?hh c] => destruct (close_conn hh c) as [h2 o2] eqn:H2 end. cbn [fst].
      rewrite (fst_eq _ _ _ H2). apply Hcr.
      match goal with |- CR _ (fst (close_conn ?hh c)) => apply cr_trans with hh; [destruct late; [cr_ns|apply cr_refl]|apply cr_close_conn] end.
    + apply Hcr, cr_close_conn.
Qed.

Lemma at_drain fuel : forall h, AT h -> AT (fst (drain fuel h)).
Proof.
  induction fuel as [|f IH]; intros h A; cbn [drain]; [exact A|].
  destruct (h_bus h); [exact A|].
  destruct (deliver_at h 0) as [h1 o1] eqn:H1. destruct (drain f h1) as [h2 o2] eqn:H2. cbn [fst].
  rewrite (fst_eq _ _ _ H2). apply IH. rewrite (fst_eq _ _ _ H1). apply (at_cr h); [exact A|apply cr_deliver_at].
Qed.
Theorem at_qstep h o : WF h -> AT h -> AT (fst (qstep h o)).
Proof.
  intros W A. unfold qstep. destruct (step h o) as [h1 o1] eqn:H1. destruct (drain 500 h1) as [h2 o2] eqn:H2. cbn [fst].
  rewrite (fst_eq _ _ _ H2). apply at_drain. rewrite (fst_eq _ _ _ H1). now apply at_step.
Qed.
Theorem at_run ops : forall h, WF h -> AT h -> AT (run h ops).
Proof. induction ops as [|o r IH]; intros h W A; cbn [run]; [exact A|]. apply IH; [now apply wf_step|now apply at_step]. Qed.
Theorem at_qrun ops : forall h, WF h -> AT h -> AT (qrun h ops).
Proof. induction ops as [|o r IH]; intros h W A; cbn [qrun]; [exact A|]. apply IH; [now apply wf_qstep|now apply at_qstep]. Qed.
Theorem at_reachable h : Hub_own.reachable h -> AT h.
Proof. intros (l & g & ops & [->| ->]); [apply at_run|apply at_qrun]; try apply wf_init; apply at_init. Qed.

(* ------------------------------------------------------------------ reachable states: the statements *)
Lemma bij_reachable h : Hub_own.reachable h -> Bij h.
Proof. intros (l & g & ops & [->| ->]); [apply ti_reachable|apply ti_reachable_q]. Qed.
Lemma keys_reachable h : Hub_own.reachable h -> NoDup (map fst (h_sessions h)).
Proof. intros (l & g & ops & [->| ->]); [apply (t_keys _ (proj1 (ti_reachable l g ops)))|apply (t_keys _ (proj1 (ti_reachable_q l g ops)))]. Qed.

(* a session that has a connection: the connection exists, is attached to exactly that session and does not
   wait for a hello; the session is in the clients table and not in the expiry list *)
Theorem attached_not_expiring h sid s c :
  Hub_own.reachable h -> get_sess h sid = Some s -> s_conn s = Some c ->
  In sid (h_clients h) /\ ~ In sid (h_expired h) /\
  exists cn, aget (h_conns h) c = Some cn /\ c_sess cn = Some sid /\ c_expect cn = false.
Proof.
  intros R Hs Hc. pose proof (at_reachable h R) as A. pose proof (bij_reachable h R) as B.
  split; [eapply (at_in_clients _ A); eauto|]. split; [eapply (at_not_expiring _ A); eauto|].
  destruct (B sid c) as (cn & Hcn & Hcs); [exists s; auto|]. exists cn. split; [exact Hcn|]. split; [exact Hcs|].
  apply (at_expect _ A c cn sid Hcn Hcs).
Qed.

(* a session in the expiry list is live and has no connection *)
Theorem expiring_unattached_state h sid :
  Hub_own.reachable h -> In sid (h_expired h) -> exists s, get_sess h sid = Some s /\ s_conn s = None.
Proof.
  intros R Hin. pose proof (at_reachable h R) as A. destruct (wf_expired _ _ h (reachable_wf h R) sid Hin) as [s Hs].
  exists s. split; [exact Hs|]. destruct (s_conn s) as [c|] eqn:Hc; [|reflexivity].
  exfalso. eapply (at_not_expiring _ A); eauto.
Qed.

(* the clients table names only live sessions, each with a connection that exists and is attached to exactly that session *)
Theorem clients_table_exact h sid :
  Hub_own.reachable h -> In sid (h_clients h) ->
  exists s c cn, get_sess h sid = Some s /\ s_conn s = Some c /\ aget (h_conns h) c = Some cn /\ c_sess cn = Some sid.
Proof.
  intros R Hin. pose proof (at_reachable h R) as A. destruct (at_clients_conn _ A sid Hin) as (s & c & Hs & Hc).
  destruct (bij_reachable h R sid c) as (cn & Hcn & Hcs); [exists s; auto|]. exists s, c, cn. auto.
Qed.
(* ... and the other way round: which sessions it names *)
Theorem clients_table_iff h sid :
  Hub_own.reachable h -> (In sid (h_clients h) <-> exists s c, get_sess h sid = Some s /\ s_conn s = Some c).
Proof.
  intros R. pose proof (at_reachable h R) as A. split; [apply (at_clients_conn _ A)|].
  intros (s & c & Hs & Hc). eapply (at_in_clients _ A); eauto.
Qed.

(* a connection that is attached to a session: that session is live and writes to this connection *)
Theorem connection_session_agree h c cn sid :
  Hub_own.reachable h -> aget (h_conns h) c = Some cn -> c_sess cn = Some sid ->
  exists s, get_sess h sid = Some s /\ s_conn s = Some c /\ is_virtual (s_kind s) = false /\ c_expect cn = false.
Proof.
  intros R Hc Hs. pose proof (at_reachable h R) as A. destruct (wf_conns _ _ h (reachable_wf h R) c cn sid Hc Hs) as (s & Hg & Hco).
  exists s. split; [exact Hg|]. split; [exact Hco|]. split; [|apply (at_expect _ A c cn sid Hc Hs)].
  destruct (is_virtual (s_kind s)) eqn:Hv; [|reflexivity]. rewrite (at_virtual_conn _ A sid s Hg Hv) in Hco. discriminate.
Qed.

(* ------------------------------------------------------------------ a connected session survives a tick *)
Definition AN (h h' : hub) : Prop := incl (h_anonymous h') (h_anonymous h).
Lemma rs_set_anonymous h sid rs : h_anonymous (rs_set h sid rs) = h_anonymous h.
Proof.
  unfold rs_set. destruct (N.eqb rs 0).
  - destruct (aget (h_rs1 h) sid); reflexivity.
  - destruct (aget (h_rs1 h) sid) as [prev|]; [destruct (N.eqb prev rs)|]; reflexivity.
Qed.
Lemma room_remove_anonymous h k x : h_anonymous (room_remove h k x) = h_anonymous h.
Proof. rewrite (eq_anonymous _ _ (room_remove_equiv h k x)). reflexivity. Qed.
Lemma leave_room_anonymous h x n : h_anonymous (fst (leave_room h x n)) = h_anonymous h.
Proof.
  unfold leave_room. destruct (get_sess h x) as [s|]; [|reflexivity]. destruct (s_room s) as [k|]; [|reflexivity].
  destruct (is_virtual (s_kind s)).
  - cbn [fst]. rewrite room_remove_anonymous. cbn [h_anonymous put_sess set_sessions]. apply rs_set_anonymous.
  - match goal with |- context [release_mcu ?hh x] => pose proof (eq_anonymous _ _ (equiv_release_mcu hh x)) as E; destruct (release_mcu hh x) as [h3 o2] end.
    cbn [fst] in *. rewrite room_remove_anonymous, E. cbn [h_anonymous put_sess set_sessions]. apply rs_set_anonymous.
Qed.
Lemma an_close_one h x : AN h (fst (close_one h x)).
Proof.
  unfold AN. destruct (get_sess h x) as [s|] eqn:Hs; [|rewrite (close_one_dead h x Hs); apply incl_refl].
  rewrite (close_one_eq h x s Hs), after_close_anonymous, (eq_anonymous _ _ (equiv_release_mcu _ x)), leave_room_anonymous.
  intros y Hy. eapply in_nrem; eauto.
Qed.
Lemma an_close_session h x : AN h (fst (close_session h x)).
Proof.
  unfold close_session. destruct (close_one h x) as [h1 o1] eqn:Hc.
  apply (fold_acc_inv (fun hh => AN h hh) close_one).
  - intros hh k R. eapply incl_tran; [apply an_close_one|exact R].
  - cbn [fst]. rewrite (fst_eq _ _ _ Hc). apply an_close_one.
Qed.
Lemma an_close_conn h c : AN h (fst (close_conn h c)).
Proof.
  unfold close_conn. destruct (aget (h_conns h) c) as [cn|]; [|apply incl_refl].
  destruct (c_sess cn) as [x|]; [|cbn [fst]; apply incl_refl].
  match goal with |- context [close_session ?hh x] => pose proof (an_close_session hh x) as R; destruct (close_session hh x) as [h3 outs] end.
  cbn [fst] in *. eapply incl_tran; [exact R|]. destruct (get_sess (set_conns h (adel (h_conns h) c)) x); apply incl_refl.
Qed.

Section Survive.
  Context (x : N) (sx : session).
  Context (Hnv : is_virtual (s_kind sx) = false).

  (* the session x is there, with the room, kind and connection of sx *)
  Definition same_x (hh : hub) : Prop := option_map core (get_sess hh x) = Some (core sx).

  Lemma same_x_get hh : same_x hh -> exists s, get_sess hh x = Some s /\ s_room s = s_room sx /\ s_kind s = s_kind sx /\ s_conn s = s_conn sx.
  Proof.
    unfold same_x. intros H. destruct (get_sess hh x) as [s|]; [|discriminate]. cbn in H. apply core_some_eq in H. eauto.
  Qed.

  Lemma same_x_close_one hh e : same_x hh -> e <> x -> same_x (fst (close_one hh e)).
  Proof. intros P Hne. unfold same_x. rewrite close_one_core by (intros E; now apply Hne). exact P. Qed.

  Lemma same_x_fold_close kids : forall acc, ~ In x kids -> same_x (fst acc) ->
    same_x (fst (fold_left (fun acc k => let '(hh, oo) := acc in let '(hh', oo') := close_one hh k in (hh', oo ++ oo')) kids acc)).
  Proof.
    induction kids as [|k kids IH]; intros [hh oo] Hn P; cbn [fold_left]; [exact P|].
    apply IH; [intros H; apply Hn; now right|].
    destruct (close_one hh k) as [hh' oo'] eqn:E. cbn [fst] in *. rewrite (fst_eq _ _ _ E).
    apply same_x_close_one; [exact P|]. intros ->. apply Hn. now left.
  Qed.

  Lemma same_x_close_session hh e : same_x hh -> e <> x -> same_x (fst (close_session hh e)).
  Proof.
    intros P Hne. unfold close_session.
    assert (Hkids : ~ In x (children hh e)).
    { intros Hin. apply in_children in Hin as (_ & s & v & Hs & Hk).
      destruct (same_x_get hh P) as (s0 & Hs0 & _ & Hk0 & _). rewrite Hs in Hs0. injection Hs0 as <-.
      rewrite Hk0 in Hk. rewrite Hk in Hnv. discriminate. }
    destruct (close_one hh e) as [h1 o1] eqn:Hc.
    apply same_x_fold_close; [exact Hkids|]. cbn [fst]. rewrite (fst_eq _ _ _ Hc). now apply same_x_close_one.
  Qed.

  Lemma same_x_close_conn hh c : same_x hh ->
    (forall cn, aget (h_conns hh) c = Some cn -> c_sess cn <> Some x) -> same_x (fst (close_conn hh c)).
  Proof.
    intros P Hc. unfold close_conn. destruct (aget (h_conns hh) c) as [cn|]; [|exact P].
    destruct (c_sess cn) as [e|] eqn:He; [|exact P].
    assert (Hne : e <> x) by (intros ->; now apply (Hc cn eq_refl)).
    set (h1 := set_conns hh (adel (h_conns hh) c)).
    match goal with |- context [close_session ?h2 e] => assert (P2 : same_x h2) end.
    { destruct (get_sess h1 e) as [s|]; [|exact P]. unfold same_x. rewrite gp.
      destruct (N.eqb_spec x e) as [E|]; [now contradiction Hne|exact P]. }
    match goal with |- context [close_session ?h2 e] => pose proof (same_x_close_session h2 e P2 Hne) as P3; destruct (close_session h2 e) as [h3 outs] end.
    exact P3.
  Qed.
End Survive.

(* what is kept along a tick *)
Record TQ (h : hub) (x : N) (sx : session) (hh : hub) : Prop := {
  tq_wf : WF hh;
  tq_bij : Bij hh;
  tq_cr : CR h hh;
  tq_an : AN h hh;
  tq_x : same_x x sx hh;
}.

Section Tick.
  Context (h : hub) (x : N) (sx : session) (cx : N).
  Context (A : AT h).
  Context (Hcx : s_conn sx = Some cx).

  Lemma tq_nonvirtual hh : TQ h x sx hh -> is_virtual (s_kind sx) = false.
  Proof.
    intros Q. destruct (same_x_get x sx hh (tq_x _ _ _ _ Q)) as (s & Hs & _ & Hk & Hc).
    pose proof (at_cr _ _ A (tq_cr _ _ _ _ Q)) as Ah.
    destruct (is_virtual (s_kind sx)) eqn:Hv; [|reflexivity].
    rewrite <- Hk in Hv. rewrite (at_virtual_conn _ Ah x s Hs Hv) in Hc. congruence.
  Qed.

  Lemma tq_close_session hh e : TQ h x sx hh -> e <> x -> TQ h x sx (fst (close_session hh e)).
  Proof.
    intros Q Hne. pose proof (tq_nonvirtual hh Q) as Hnv. destruct Q as [W B R N P]. constructor.
    - now apply wf_close_session.
    - now apply bij_close_session.
    - eapply cr_trans; [exact R|apply cr_close_session].
    - eapply incl_tran; [apply an_close_session|exact N].
    - now apply same_x_close_session.
  Qed.

  (* a connection other than the one of x is closed *)
  Lemma tq_close_conn hh c : TQ h x sx hh -> c <> cx -> TQ h x sx (fst (close_conn hh c)).
  Proof.
    intros Q Hne. pose proof (tq_nonvirtual hh Q) as Hnv. destruct Q as [W B R N P]. constructor.
    - now apply wf_close_conn.
    - now apply bij_close_conn.
    - eapply cr_trans; [exact R|apply cr_close_conn].
    - eapply incl_tran; [apply an_close_conn|exact N].
    - apply same_x_close_conn; [exact Hnv|exact P|]. intros cn Hc Hs.
      destruct (wf_conns _ _ hh W c cn x Hc Hs) as (s & Hg & Hco).
      destruct (same_x_get x sx hh P) as (s0 & Hg0 & _ & _ & Hc0). rewrite Hg in Hg0. injection Hg0 as <-. congruence.
  Qed.
  Lemma tq_send_bye hh c r : TQ h x sx hh -> c <> cx -> TQ h x sx (fst (send_conn hh c (SBye r))).
  Proof.
    intros Q Hne. unfold send_conn. destruct (aget (h_conns hh) c); [|exact Q]. cbn [is_closing].
    pose proof (tq_close_conn hh c Q Hne) as Q2. destruct (close_conn hh c) as [h2 o2]. exact Q2.
  Qed.

  Lemma tq_fold hh l f : TQ h x sx hh ->
    (forall h0 y, In y l -> TQ h x sx h0 -> TQ h x sx (fst (f h0 y))) -> TQ h x sx (fst (fold_sessions hh l f)).
  Proof.
    intros Q Hf. unfold fold_sessions.
    assert (G : forall l' acc, incl l' l -> TQ h x sx (fst acc) ->
              TQ h x sx (fst (fold_left (fun acc y => let '(h0, oo) := acc in let '(h0', oo') := f h0 y in (h0', oo ++ oo')) l' acc))).
    { induction l' as [|y l' IH]; intros [h0 oo] Hi Q0; cbn [fold_left]; [exact Q0|].
      apply IH; [intros z Hz; apply Hi; now right|].
      destruct (f h0 y) as [h0' oo'] eqn:E. cbn [fst] in *. rewrite (fst_eq _ _ _ E). apply Hf; [apply Hi; now left|exact Q0]. }
    apply G; [apply incl_refl|exact Q].
  Qed.

  Theorem tq_do_tick secs :
    WF h -> Bij h -> get_sess h x = Some sx -> ~ In x (h_anonymous h) -> TQ h x sx (fst (do_tick h secs)).
  Proof.
    intros W B Hx Han.
    assert (Q0 : TQ h x sx h).
    { constructor; auto; [apply cr_refl|apply incl_refl|]. unfold same_x. rewrite Hx. reflexivity. }
    unfold do_tick.
    match goal with |- context [let '(h1, o1) := ?X in _] => destruct X as [h1 o1] eqn:H1 end.
    assert (Q1 : TQ h x sx h1).
    { destruct (hub_expire_s <? secs); [|injection H1 as <- <-; exact Q0].
      rewrite (fst_eq _ _ _ H1). apply tq_fold; [exact Q0|]. intros h0 e He Q. apply tq_close_session; [exact Q|].
      intros ->. eapply (at_not_expiring _ A); eauto. }
    match goal with |- context [let '(h2, o2) := ?X in _] => destruct X as [h2 o2] eqn:H2 end.
    assert (Q2 : TQ h x sx h2).
    { destruct (hub_anonymous_s <? secs); [|injection H2 as <- <-; exact Q1].
      rewrite (fst_eq _ _ _ H2). apply tq_fold; [exact Q1|]. intros h0 e He Q.
      assert (Hne : e <> x) by (intros ->; apply Han, (tq_an _ _ _ _ Q1), He).
      destruct (get_sess h0 e) as [s|] eqn:Hs; [|exact Q].
      match goal with |- context [let '(h3, o3) := ?X in _] => destruct X as [h3 o3] eqn:H3 end.
      assert (Q3 : TQ h x sx h3).
      { destruct (s_conn s) as [c|] eqn:Hc; [|injection H3 as <- <-; exact Q]. rewrite (fst_eq _ _ _ H3).
        apply tq_send_bye; [exact Q|]. intros ->.
        destruct (same_x_get x sx h0 (tq_x _ _ _ _ Q)) as (s0 & Hg0 & _ & _ & Hc0).
        apply Hne. apply (attached_fun h0 cx); apply (tq_bij _ _ _ _ Q); [exists s; auto|exists s0; split; [exact Hg0|congruence]]. }
      destruct (close_session h3 e) as [h4 o4] eqn:H4. cbn [fst]. rewrite (fst_eq _ _ _ H4). now apply tq_close_session. }
    match goal with |- context [let '(h3, o3) := ?X in _] => destruct X as [h3 o3] eqn:H3 end.
    cbn [fst]. destruct (hub_hello_s <? secs); [|injection H3 as <- <-; exact Q2].
    rewrite (fst_eq _ _ _ H3). apply tq_fold; [exact Q2|]. intros h0 c Hin Q. apply tq_send_bye; [exact Q|].
    (* the connection of x does not wait for a hello *)
    intros ->. apply in_map_iff in Hin as [[c0 cn0] [E Hin]]. cbn [fst] in E. subst c0.
    apply filter_In in Hin as [Hin Hexp]. cbn [snd] in Hexp.
    pose proof (at_cr _ _ A (tq_cr _ _ _ _ Q2)) as A2.
    pose proof (aget_in_nodup _ _ _ (at_ckeys _ A2) Hin) as Hget.
    destruct (same_x_get x sx h2 (tq_x _ _ _ _ Q2)) as (s0 & Hg0 & _ & _ & Hc0).
    destruct (tq_bij _ _ _ _ Q2 x cx) as (cn & Hcn & Hcs); [exists s0; split; [exact Hg0|congruence]|].
    rewrite Hget in Hcn. injection Hcn as <-. rewrite (at_expect _ A2 cx cn0 x Hget Hcs) in Hexp. discriminate.
  Qed.
End Tick.

(* C06: a connected session that is not in the anonymous list survives a housekeeping tick, whatever the
   number of seconds: it is live afterwards, with the same connection and in the same room *)
Theorem connected_survives_tick h secs sid s c :
  Hub_own.reachable h -> get_sess h sid = Some s -> s_conn s = Some c -> ~ In sid (h_anonymous h) ->
  exists s', get_sess (fst (step h (OTick secs))) sid = Some s' /\ s_conn s' = Some c /\ s_room s' = s_room s /\
             s_kind s' = s_kind s.
Proof.
  intros R Hs Hc Han. cbn [step].
  pose proof (tq_do_tick h sid s c (at_reachable h R) Hc secs (reachable_wf h R) (bij_reachable h R) Hs Han) as Q.
  destruct (same_x_get sid s _ (tq_x _ _ _ _ Q)) as (s' & Hs' & Hr & Hk & Hco).
  exists s'. split; [exact Hs'|]. split; [congruence|]. split; [exact Hr|exact Hk].
Qed.

(* ------------------------------------------------------------------ the clauses of the trace predicates *)
(* corr/Hub_preds.v reads the digest; on the digest of every reachable model state the two clauses hold *)
From Verif Require corr.Hub_preds proofs.Hub_routing.

Lemma has_conn_sd h sid s : Hub_preds.has_conn (Run_Hub.sd_of h (sid, s)) = match s_conn s with Some _ => true | None => false end.
Proof. reflexivity. Qed.
Lemma is_virtual_d_sd h sid s : Hub_preds.is_virtual_d (Run_Hub.sd_of h (sid, s)) = is_virtual (s_kind s).
Proof. unfold Hub_preds.is_virtual_d. cbn [Run_Hub.sd_of Run_Hub.d_kind]. destruct (s_kind s); reflexivity. Qed.

Theorem expiring_unattached_digest h : Hub_own.reachable h -> Hub_preds.expiring_unattached (Run_Hub.digest_of h) = true.
Proof.
  intros R. unfold Hub_preds.expiring_unattached. apply forallb_forall. intros sid Hin.
  change (In sid (h_expired h)) in Hin. rewrite Hub_routing.find_sd_digest.
  destruct (expiring_unattached_state h sid R Hin) as (s & Hs & Hc). rewrite Hs. cbn [option_map].
  rewrite has_conn_sd, Hc. reflexivity.
Qed.

Theorem clients_attached_digest h : Hub_own.reachable h -> Hub_preds.clients_attached (Run_Hub.digest_of h) = true.
Proof.
  intros R. pose proof (at_reachable h R) as A. unfold Hub_preds.clients_attached. apply andb_true_intro. split.
  - apply forallb_forall. intros sid Hin. change (In sid (h_clients h)) in Hin. rewrite Hub_routing.find_sd_digest.
    destruct (at_clients_conn _ A sid Hin) as (s & c & Hs & Hc). rewrite Hs. cbn [option_map]. rewrite has_conn_sd, Hc. reflexivity.
  - apply forallb_forall. intros d Hin. change (In d (map (Run_Hub.sd_of h) (h_sessions h))) in Hin.
    apply in_map_iff in Hin as [[sid s] [<- Hin]].
    pose proof (aget_in_nodup _ _ _ (keys_reachable h R) Hin) as Hs. fold (get_sess h sid) in Hs.
    rewrite is_virtual_d_sd, has_conn_sd. change (Run_Hub.d_sid (Run_Hub.sd_of h (sid, s))) with sid.
    change (Run_Hub.g_clients (Run_Hub.digest_of h)) with (h_clients h).
    destruct (s_conn s) as [c|] eqn:Hc; [|apply orb_true_iff; left; apply orb_true_r].
    apply orb_true_iff. right. apply nmem_In. eapply (at_in_clients _ A); eauto.
Qed.

(* the third clause step_C06 adds for a tick, on the digests before and after the model's step *)
Theorem tick_clause_digest h secs :
  Hub_own.reachable h ->
  forallb (fun d => Hub_preds.is_virtual_d d || negb (Hub_preds.has_conn d) || nmem (Run_Hub.d_sid d) (Run_Hub.g_anonymous (Run_Hub.digest_of h)) ||
                    match Hub_preds.find_sd (Run_Hub.digest_of (fst (step h (OTick secs)))) (Run_Hub.d_sid d) with
                    | Some y => Run_Hub.optN_eqb (Run_Hub.d_conn y) (Run_Hub.d_conn d) && opt_pair_eqb (Run_Hub.d_room y) (Run_Hub.d_room d)
                    | None => false end) (Run_Hub.g_sessions (Run_Hub.digest_of h)) = true.
Proof.
  intros R. apply forallb_forall. intros d Hin. change (In d (map (Run_Hub.sd_of h) (h_sessions h))) in Hin.
  apply in_map_iff in Hin as [[sid s] [<- Hin]].
  pose proof (aget_in_nodup _ _ _ (keys_reachable h R) Hin) as Hs. fold (get_sess h sid) in Hs.
  rewrite is_virtual_d_sd, has_conn_sd. change (Run_Hub.d_sid (Run_Hub.sd_of h (sid, s))) with sid.
  change (Run_Hub.g_anonymous (Run_Hub.digest_of h)) with (h_anonymous h).
  destruct (s_conn s) as [c|] eqn:Hc; [|rewrite orb_true_r; reflexivity].
  destruct (nmem sid (h_anonymous h)) eqn:Han; [rewrite orb_true_r; reflexivity|].
  assert (Han' : ~ In sid (h_anonymous h)) by (intros H; apply nmem_In in H; congruence).
  destruct (connected_survives_tick h secs sid s c R Hs Hc Han') as (s' & Hs' & Hc' & Hr' & _).
  rewrite Hub_routing.find_sd_digest, Hs'. cbn [option_map].
  change (Run_Hub.d_conn (Run_Hub.sd_of ?hh (sid, ?t))) with (s_conn t).
  change (Run_Hub.d_room (Run_Hub.sd_of ?hh (sid, ?t))) with (s_room t).
  rewrite Hc', Hc, Hr'. cbn [Run_Hub.optN_eqb]. rewrite N.eqb_refl. cbn [andb].
  destruct (s_room s) as [k|]; cbn [opt_pair_eqb]; [rewrite pair_eqb_refl|]; apply orb_true_r.
Qed.

(* ------------------------------------------------------------------ not vacuous *)
(* two clients in room 1; the connection of session 2 is cut: session 2 waits for expiry, without connection, out of
   the clients table; a tick of 20 s leaves everything as it is; session 2 resumes on connection 3: in the clients
   table, not expiring, connection 3 attached to it; a tick of 40 s: both connected sessions are still there with
   their connections, in their room.  Without the resume the tick of 40 s ends session 2; and a connected session that
   is in the anonymous list (user 0, in no room) is ended by it: the exception in connected_survives_tick *)
Definition at_ops : list op :=
  [OConnect 1 0; OConnect 2 0; OHello 1 (HV1 0 1 false); OHello 2 (HV1 0 2 false); OJoin 1 1 1 (RepOk None 0);
   OJoin 2 1 2 (RepOk None 0); ODrop 2].
Definition at_resume : list op := [OTick 20; OConnect 3 0; OHello 3 (HResume (IdPriv 2))].
Definition at_view (h : hub) :=
  (h_clients h, h_expired h, h_anonymous h, map (fun e => (fst e, c_sess (snd e), c_expect (snd e))) (h_conns h),
   map (fun e => (fst e, s_conn (snd e), s_room (snd e))) (h_sessions h)).
Example at_example :
  at_view (run (init [0; 0] false) at_ops) =
    ([1], [2], [], [(1, Some 1, false)], [(1, Some 1, Some (0, 1)); (2, None, Some (0, 1))]) /\
  at_view (run (init [0; 0] false) (at_ops ++ [OTick 20])) = at_view (run (init [0; 0] false) at_ops) /\
  at_view (run (init [0; 0] false) (at_ops ++ at_resume)) =
    ([1; 2], [], [], [(1, Some 1, false); (3, Some 2, false)], [(1, Some 1, Some (0, 1)); (2, Some 3, Some (0, 1))]) /\
  at_view (run (init [0; 0] false) (at_ops ++ at_resume ++ [OTick 40])) = at_view (run (init [0; 0] false) (at_ops ++ at_resume)) /\
  at_view (run (init [0; 0] false) (at_ops ++ [OTick 40])) =
    ([1], [], [], [(1, Some 1, false)], [(1, Some 1, Some (0, 1))]) /\
  at_view (run (init [0; 0] false) (at_ops ++ [OConnect 5 0; OHello 5 (HV1 0 0 false)])) =
    ([1; 3], [2], [3], [(1, Some 1, false); (5, Some 3, false)], [(1, Some 1, Some (0, 1)); (2, None, Some (0, 1)); (3, Some 5, None)]) /\
  at_view (run (init [0; 0] false) (at_ops ++ [OConnect 5 0; OHello 5 (HV1 0 0 false); OTick 40])) =
    ([1], [], [], [(1, Some 1, false)], [(1, Some 1, Some (0, 1))]).
Proof. vm_compute. repeat split; reflexivity. Qed.
