(* Frame theorem for the "transient" server messages of the hub model: the only places that write an
   STransient message to a connection are join_room (the initial data), transient_update (reached from
   OTransient and from the delivery of an ATransient room request) and the flush of a pending queue at a
   resume.  The bus never carries a transient message (BusNT, an invariant of every reachable state). *)
From Coq Require Import List NArith Bool Lia.
From Verif Require Import model.Hub proofs.Hub_basics proofs.Hub_wf.
Import ListNotations.
Open Scope N_scope.

Definition is_trans (m : smsg) : bool := match m with STransient _ => true | _ => false end.
Definition no_trans (outs : list out) : Prop := forall c t, ~ In (ToConn c (STransient t)) outs.
Definition ntpub (p : pub) : Prop :=
  match p.(p_msg) with AEvent m _ _ | ARoomEvent m => is_trans m = false | _ => True end.
Definition BusNT (h : hub) : Prop := forall p, In p h.(h_bus) -> ntpub p.

(* every transient message written satisfies P *)
Definition sat (P : N -> tmsg -> Prop) (outs : list out) : Prop :=
  forall c t, In (ToConn c (STransient t)) outs -> P c t.
Definition PF : N -> tmsg -> Prop := fun _ _ => False.
Definition res (P : N -> tmsg -> Prop) (r : hub * list out) : Prop := BusNT (fst r) /\ sat P (snd r).

Lemma sat_no_trans outs : sat PF outs <-> no_trans outs.
Proof. unfold sat, no_trans, PF. split; intros H c t; [intros Hin; exact (H c t Hin)|apply H]. Qed.

Lemma sat_nil (P : N -> tmsg -> Prop) : sat P [].
Proof. intros c t []. Qed.
Lemma sat_app (P : N -> tmsg -> Prop) a b : sat P a -> sat P b -> sat P (a ++ b).
Proof. intros Ha Hb c t Hin. apply in_app_or in Hin as [Hin|Hin]; auto. Qed.
Lemma sat_app_inv (P : N -> tmsg -> Prop) a b : sat P (a ++ b) -> sat P a /\ sat P b.
Proof. intros H. split; intros c t Hin; apply H, in_or_app; auto. Qed.
Lemma sat_cons (P : N -> tmsg -> Prop) x l : (forall c t, x = ToConn c (STransient t) -> P c t) -> sat P l -> sat P (x :: l).
Proof. intros Hx Hl c t [Hin|Hin]; auto. Qed.
Lemma sat_mono (P Q : N -> tmsg -> Prop) l : (forall c t, P c t -> Q c t) -> sat P l -> sat Q l.
Proof. intros HPQ H c t Hin. auto. Qed.
Lemma sat_F (P : N -> tmsg -> Prop) l : sat PF l -> sat P l.
Proof. apply sat_mono. intros ? ? []. Qed.
Lemma sat_map (P : N -> tmsg -> Prop) {A} (f : A -> out) l : (forall a c t, f a <> ToConn c (STransient t)) -> sat P (map f l).
Proof. intros Hf c t Hin. apply in_map_iff in Hin as [a [E _]]. now apply Hf in E. Qed.
Lemma sat_T l : sat (fun _ _ => True) l.
Proof. intros c t _. exact I. Qed.
Lemma res_F (P : N -> tmsg -> Prop) r : res PF r -> res P r.
Proof. intros [B S]. split; [exact B|now apply sat_F]. Qed.
Lemma res_mono (P Q : N -> tmsg -> Prop) r : (forall c t, P c t -> Q c t) -> res P r -> res Q r.
Proof. intros HPQ [B S]. split; [exact B|eapply sat_mono; eauto]. Qed.

Lemma snd_eq {A B} (p : A * B) a b : p = (a, b) -> b = snd p.
Proof. intros ->. reflexivity. Qed.

(* ---- the bus under the functions that return a hub ---- *)
Lemma busnt_eq h h' : h_bus h' = h_bus h -> BusNT h -> BusNT h'.
Proof. unfold BusNT. intros ->. auto. Qed.
Lemma busnt_publish h subj m :
  BusNT h -> match m with AEvent x _ _ | ARoomEvent x => is_trans x = false | _ => True end -> BusNT (publish h subj m).
Proof.
  intros B Hm p. unfold publish. cbn [h_bus set_clock set_bus]. intros Hin.
  apply in_app_or in Hin as [Hin|[<-|[]]]; [now apply B|exact Hm].
Qed.
Lemma busnt_set_bus h l : (forall p, In p l -> In p (h_bus h)) -> BusNT h -> BusNT (set_bus h l).
Proof. intros Hl B p Hin. apply B, Hl, Hin. Qed.

Lemma rs_set_bus h sid rs : h_bus (rs_set h sid rs) = h_bus h.
Proof.
  unfold rs_set. destruct (N.eqb rs 0); destruct (aget (h_rs1 h) sid); try reflexivity.
  destruct (N.eqb n rs); reflexivity.
Qed.
Lemma remove_room_if_empty_bus h k : h_bus (remove_room_if_empty h k) = h_bus h.
Proof. unfold remove_room_if_empty. destruct (room_of h k) as [r|]; [destruct (r_members r)|]; reflexivity. Qed.
Lemma detach_conn_bus h oc : h_bus (detach_conn h oc) = h_bus h.
Proof. unfold detach_conn. destruct oc; [destruct (aget (h_conns h) n)|]; reflexivity. Qed.
Lemma drop_vt_bus h k sid : h_bus (drop_vt h k sid) = h_bus h.
Proof.
  unfold drop_vt. destruct k; try reflexivity.
  destruct (pget (h_vtable h) (parent, vid)); [destruct (N.eqb n sid)|]; reflexivity.
Qed.
Lemma set_incall_bus h k sid on : h_bus (set_incall h k sid on) = h_bus h.
Proof.
  unfold set_incall. destruct (room_of h k) as [r|]; [|reflexivity].
  destruct (on && negb (nmem sid (r_members r))); reflexivity.
Qed.

Lemma busnt_room_remove h k sid : BusNT h -> BusNT (room_remove h k sid).
Proof.
  intros B. unfold room_remove. destruct (room_of h k) as [r|]; [|exact B].
  destruct (nmem sid (r_members r)); [|exact B].
  apply busnt_publish; [|reflexivity]. eapply busnt_eq; [apply remove_room_if_empty_bus|]. exact B.
Qed.
Lemma busnt_fold_left {A} (f : hub -> A -> hub) l : forall h,
  BusNT h -> (forall hh x, BusNT hh -> BusNT (f hh x)) -> BusNT (fold_left f l h).
Proof. intros h. apply (wf_fold_left_hub BusNT). Qed.

Ltac ntp := first [exact I | reflexivity | assumption].

Ltac busnt :=
  first
  [ assumption
  | lazymatch goal with
    | |- BusNT (publish _ _ _) => apply busnt_publish; [busnt | ntp]
    | |- BusNT (room_remove _ _ _) => apply busnt_room_remove; busnt
    | |- BusNT (rs_set ?h _ _) => apply (busnt_eq h); [apply rs_set_bus | busnt]
    | |- BusNT (rs_del ?h _) => apply (busnt_eq h); [apply rs_set_bus | busnt]
    | |- BusNT (remove_room_if_empty ?h _) => apply (busnt_eq h); [apply remove_room_if_empty_bus | busnt]
    | |- BusNT (detach_conn ?h _) => apply (busnt_eq h); [apply detach_conn_bus | busnt]
    | |- BusNT (drop_vt ?h _ _) => apply (busnt_eq h); [apply drop_vt_bus | busnt]
    | |- BusNT (set_incall ?h _ _ _) => apply (busnt_eq h); [apply set_incall_bus | busnt]
    | |- BusNT (scrub ?h _) => apply (busnt_eq h); [reflexivity | busnt]
    | |- BusNT (record_failure ?h _ _) => apply (busnt_eq h); [reflexivity | busnt]
    | |- BusNT (fold_left _ _ _) => apply busnt_fold_left; [busnt | intros; busnt]
    | |- BusNT (match ?x with _ => _ end) => destruct x; busnt
    | |- BusNT (?f ?h _ _ _) => change (BusNT h); busnt
    | |- BusNT (?f ?h _ _) => change (BusNT h); busnt
    | |- BusNT (?f ?h _) => change (BusNT h); busnt
    end ].

Create HintDb okdb.
#[export] Hint Extern 1 (BusNT _) => busnt : okdb.
#[export] Hint Extern 1 (is_trans _ = false) => first [reflexivity | assumption] : okdb.

Ltac satsolve :=
  repeat first
   [ apply sat_nil
   | assumption
   | apply sat_F; assumption
   | apply sat_app
   | apply sat_map; intros; discriminate
   | apply sat_T
   | apply sat_cons; [let E := fresh in intros ? ? E; first [discriminate E | injection E as ? ?; subst; first [discriminate | reflexivity | eauto]] | ]
   | match goal with |- sat _ (match ?b with _ => _ end) => destruct b end ].

Ltac call X :=
  let H := fresh "Hc" in
  eassert (H : res _ X) by (solve [eauto 3 with okdb nocore]);
  try (match type of H with res ?P _ => is_evar P; unify P PF end);
  destruct X as [? ?]; cbn [fst snd] in H; destruct H as [? ?].

Ltac leaf := split; cbn [fst snd]; [try busnt | try satsolve].

Ltac go :=
  cbv beta iota zeta;
  lazymatch goal with
  | |- res _ (match (match ?Y with _ => _ end) with _ => _ end) => destruct Y; go
  | |- res _ (match ?X with _ => _ end) => first [ call X | destruct X ]; go
  | |- res _ (_, _) => leaf
  | |- res _ _ => first [ solve [eauto 3 with okdb nocore] | apply res_F; solve [eauto 3 with okdb nocore] | idtac ]
  end.

(* ---- media objects, leaving a room, closing ---- *)
Lemma ok_close_tokens h toks : BusNT h -> res PF (close_tokens h toks).
Proof. intros B. unfold close_tokens. go. Qed.
#[export] Hint Resolve ok_close_tokens : okdb.

Lemma ok_release_mcu h sid : BusNT h -> res PF (release_mcu h sid).
Proof. intros B. unfold release_mcu. go. Qed.
#[export] Hint Resolve ok_release_mcu : okdb.

Lemma ok_leave_room h sid notify : BusNT h -> res PF (leave_room h sid notify).
Proof. intros B. unfold leave_room. go. Qed.
#[export] Hint Resolve ok_leave_room : okdb.

Lemma ok_close_one h sid : BusNT h -> res PF (close_one h sid).
Proof. intros B. unfold close_one. go. Qed.
#[export] Hint Resolve ok_close_one : okdb.

Lemma ok_close_all kids : forall hh oo, BusNT hh -> sat PF oo -> res PF (close_all kids (hh, oo)).
Proof.
  induction kids as [|k kids IH]; intros hh oo B S; unfold close_all; cbn [fold_left]; [split; assumption|].
  pose proof (ok_close_one hh k B) as [B1 S1]. destruct (close_one hh k) as [h1 o1]. cbn [fst snd] in *.
  apply IH; [exact B1|now apply sat_app].
Qed.

Lemma ok_close_session h sid : BusNT h -> res PF (close_session h sid).
Proof.
  intros B. unfold close_session.
  pose proof (ok_close_one h sid B) as [B1 S1]. destruct (close_one h sid) as [h1 o1]. cbn [fst snd] in *.
  now apply ok_close_all.
Qed.
#[export] Hint Resolve ok_close_session : okdb.

Lemma ok_close_conn h c : BusNT h -> res PF (close_conn h c).
Proof. intros B. unfold close_conn. go. Qed.
#[export] Hint Resolve ok_close_conn : okdb.

Lemma ok_fold_sessions (P : N -> tmsg -> Prop) l f : forall h,
  (forall hh x, BusNT hh -> res P (f hh x)) -> BusNT h -> res P (fold_sessions h l f).
Proof.
  induction l as [|x l IH]; intros h Hf B; [split; [exact B|apply sat_nil]|].
  rewrite fold_sessions_cons.
  pose proof (Hf h x B) as [B1 S1]. destruct (f h x) as [h1 o1]. cbn [fst snd] in *.
  pose proof (IH h1 Hf B1) as [B2 S2]. destruct (fold_sessions h1 l f) as [h2 o2]. cbn [fst snd] in *.
  split; [exact B2|now apply sat_app].
Qed.

(* ---- sending ---- *)
Lemma ok_deliver_to_session h sid m : BusNT h -> res (fun _ t => m = STransient t) (deliver_to_session h sid m).
Proof. intros B. unfold deliver_to_session. go. Qed.
#[export] Hint Resolve ok_deliver_to_session : okdb.

Lemma ok_send_session h sid m : BusNT h -> res (fun _ t => m = STransient t) (send_session h sid m).
Proof. intros B. unfold send_session. go. Qed.

Lemma ok_send_session_nt h sid m : is_trans m = false -> BusNT h -> res PF (send_session h sid m).
Proof.
  intros Hm B. eapply res_mono; [|apply ok_send_session; exact B].
  cbn beta. intros c t E. subst m. discriminate Hm.
Qed.
#[export] Hint Resolve ok_send_session_nt | 1 : okdb.
#[export] Hint Resolve ok_send_session | 5 : okdb.

Lemma ok_send_conn h c m : is_trans m = false -> BusNT h -> res PF (send_conn h c m).
Proof. intros Hm B. unfold send_conn. go. Qed.
#[export] Hint Resolve ok_send_conn : okdb.

(* ---- hello ---- *)
Definition PT : N -> tmsg -> Prop := fun _ _ => True.

Lemma ok_register h c cn b k u : BusNT h -> res PF (register h c cn b k u).
Proof. intros B. unfold register. go. Qed.
#[export] Hint Resolve ok_register : okdb.

Lemma ok_do_hello h c cn hl :
  match hl with HResume _ => False | _ => True end -> BusNT h -> res PF (do_hello h c cn hl).
Proof. intros Hh B. unfold do_hello. destruct hl; [| | |destruct Hh]; go. Qed.

Lemma busnt_do_hello h c cn hl : BusNT h -> res PT (do_hello h c cn hl).
Proof.
  intros B. destruct hl; try (apply res_F, ok_do_hello; [exact I|exact B]).
  unfold do_hello. go.
Qed.

(* ---- joining ---- *)
Lemma ok_kick_room_session h rs : BusNT h -> res PF (kick_room_session h rs).
Proof. intros B. unfold kick_room_session. go. Qed.
#[export] Hint Resolve ok_kick_room_session : okdb.

Definition PInit : N -> tmsg -> Prop := fun _ t => exists d, t = TInit d.

Lemma ok_join_room h c sid k rs perms su : BusNT h -> res PInit (join_room h c sid k rs perms su).
Proof.
  intros B. unfold join_room. go.
  all: eapply sat_mono; [|eassumption]; cbn beta; intros ? ? E; injection E as <-; eexists; reflexivity.
Qed.
#[export] Hint Resolve ok_join_room : okdb.

Lemma ok_do_join h c sid s rn rs rep : BusNT h -> res PInit (do_join h c sid s rn rs rep).
Proof. intros B. unfold do_join. go. Qed.
#[export] Hint Resolve ok_do_join : okdb.

Lemma ok_revoke h sid : BusNT h -> res PF (revoke h sid).
Proof. intros B. unfold revoke. go. Qed.
#[export] Hint Resolve ok_revoke : okdb.

(* ---- messages, delivery ---- *)
Lemma ok_do_message h sid s kindn to tag cb : BusNT h -> res PF (do_message h sid s kindn to tag cb).
Proof. intros B. unfold do_message. go. Qed.
#[export] Hint Resolve ok_do_message : okdb.

Lemma ok_recv_event h sid m sender co re t : is_trans m = false -> BusNT h -> res PF (recv_event h sid m sender co re t).
Proof. intros Hm B. unfold recv_event. go. Qed.
#[export] Hint Resolve ok_recv_event : okdb.

Lemma ok_leave_call h sid : BusNT h -> res PF (leave_call h sid).
Proof. intros B. unfold leave_call. go. Qed.
#[export] Hint Resolve ok_leave_call : okdb.

Lemma ok_delete_member h m : BusNT h -> res PF (delete_member h m).
Proof. intros B. unfold delete_member. go. Qed.
#[export] Hint Resolve ok_delete_member : okdb.

Lemma ok_fold_sessions' (P : N -> tmsg -> Prop) l f h :
  BusNT h -> (forall hh x, BusNT hh -> res P (f hh x)) -> res P (fold_sessions h l f).
Proof. intros B Hf. now apply ok_fold_sessions. Qed.

Ltac folds := apply ok_fold_sessions'; [busnt | cbv beta; intros; go].
#[export] Hint Extern 2 (res _ (fold_sessions _ _ _)) => folds : okdb.

Lemma busnt_send_session h sid m : BusNT h -> res PT (send_session h sid m).
Proof. intros B. eapply res_mono; [|apply ok_send_session; exact B]. intros; exact I. Qed.
#[export] Hint Resolve busnt_send_session | 6 : okdb.

Lemma busnt_transient_update h k r del key val : BusNT h -> res PT (transient_update h k r del key val).
Proof. intros B. unfold transient_update, transient_notify. go. Qed.

Lemma ok_fold_left_acc {A} (P : N -> tmsg -> Prop) (f : hub * list out -> A -> hub * list out) l :
  (forall hh oo a, BusNT hh -> sat P oo -> res P (f (hh, oo) a)) ->
  forall hh oo, BusNT hh -> sat P oo -> res P (fold_left f l (hh, oo)).
Proof.
  intros Hf. induction l as [|a l IH]; intros hh oo B S; cbn [fold_left]; [split; assumption|].
  pose proof (Hf hh oo a B S) as [B1 S1]. destruct (f (hh, oo) a) as [h1 o1]. now apply IH.
Qed.

Lemma ok_room_request h k q :
  match q with ATransient _ _ _ => False | _ => True end -> BusNT h -> res PF (room_request h k q).
Proof.
  intros Hq B. unfold room_request. destruct (room_of h k) as [r|]; [|go].
  destruct q; try destruct Hq; try (go; fail).
  - match goal with |- res _ (let '(h1, outs) := ?X in _) =>
      assert (Hc : res PF X) by (apply ok_fold_left_acc; [intros; go|exact B|apply sat_nil]);
      destruct X as [h1 outs]; destruct Hc end.
    go.
Qed.

Lemma busnt_room_request h k q : BusNT h -> res PT (room_request h k q).
Proof.
  intros B. destruct q; try (apply res_F, ok_room_request; [exact I|exact B]).
  unfold room_request. destruct (room_of h k); [apply busnt_transient_update; exact B|go].
Qed.

Definition not_transient_req (p : pub) : Prop :=
  match p.(p_subj), p.(p_msg) with SubjBackendRoom _ _, ARoomReq (ATransient _ _ _) => False | _, _ => True end.

Lemma ok_deliver_pub h p : ntpub p -> not_transient_req p -> BusNT h -> res PF (deliver_pub h p).
Proof.
  intros Hp Hq B. destruct p as [subj msg t]. unfold ntpub, not_transient_req in *. cbn [p_subj p_msg] in *.
  unfold deliver_pub. cbn [p_subj p_msg p_time].
  destruct subj; destruct msg; try (go; fail).
  apply ok_room_request; [destruct q; auto|exact B].
Qed.

Lemma busnt_deliver_pub h p : ntpub p -> BusNT h -> res PT (deliver_pub h p).
Proof.
  intros Hp B. destruct p as [subj msg t]. 
  destruct subj; try (apply res_F, ok_deliver_pub; [exact Hp|exact I|exact B]).
  destruct msg; try (apply res_F, ok_deliver_pub; [exact Hp|exact I|exact B]).
  unfold deliver_pub. cbn [p_subj p_msg p_time]. apply busnt_room_request, B.
Qed.

Lemma take_nth_In {A} (n : nat) : forall (l : list A) x rest, take_nth n l = Some (x, rest) ->
  In x l /\ forall y, In y rest -> In y l.
Proof.
  induction n as [|n IH]; intros [|a l] x rest H; cbn [take_nth] in H; try discriminate.
  - injection H as <- <-. split; [now left|intros y Hy; now right].
  - destruct (take_nth n l) as [[y r']|] eqn:E; [|discriminate]. injection H as <- <-.
    destruct (IH l y r' E) as [H1 H2]. split; [now right|].
    intros z [<-|Hz]; [now left|right; auto].
Qed.

Lemma busnt_deliver_at h pos : BusNT h -> res PT (deliver_at h pos).
Proof.
  intros B. unfold deliver_at. destruct (take_nth pos (h_bus h)) as [[p rest]|] eqn:E; [|go].
  destruct (take_nth_In _ _ _ _ E) as [Hp Hrest].
  apply busnt_deliver_pub; [apply B, Hp|]. apply busnt_set_bus; assumption.
Qed.

(* ---- room API, housekeeping, virtual sessions, media ---- *)
Lemma ok_do_api h b room q : BusNT h -> res PF (do_api h b room q).
Proof. intros B. unfold do_api. go. Qed.

Lemma ok_do_tick h secs : BusNT h -> res PF (do_tick h secs).
Proof. intros B. unfold do_tick. go. Qed.

Lemma ok_do_internal h c sid s q : BusNT h -> res PF (do_internal h c sid s q).
Proof. intros B. unfold do_internal. go. Qed.

Lemma ok_finish_create h tok p ok : BusNT h -> res PF (finish_create h tok p ok).
Proof. intros B. unfold finish_create. go. Qed.
#[export] Hint Resolve ok_finish_create : okdb.

Lemma ok_start_create h p : BusNT h -> res PF (start_create h p).
Proof. intros B. unfold start_create. go. Qed.
#[export] Hint Resolve ok_start_create : okdb.

Lemma ok_do_mcudone h tok ok : BusNT h -> res PF (do_mcudone h tok ok).
Proof. intros B. unfold do_mcudone. go. Qed.

Lemma ok_do_sendoffer h c sid s i stream : BusNT h -> res PF (do_sendoffer h c sid s i stream).
Proof. intros B. unfold do_sendoffer. go. Qed.
#[export] Hint Resolve ok_do_sendoffer : okdb.

Lemma ok_do_media h c sid s to mk stream media : BusNT h -> res PF (do_media h c sid s to mk stream media).
Proof. intros B. unfold do_media. go. Qed.

Lemma ok_with_session (P : N -> tmsg -> Prop) h c f :
  (forall cn sid s, aget (h_conns h) c = Some cn -> c_sess cn = Some sid -> get_sess h sid = Some s -> res P (f cn sid s)) ->
  BusNT h -> res P (with_session h c f).
Proof.
  intros Hf B. unfold with_session.
  destruct (aget (h_conns h) c) as [cn|] eqn:E1; [|go].
  destruct (c_sess cn) as [sid|] eqn:E2; [|go].
  destruct (get_sess h sid) as [s|] eqn:E3; [|go].
  now apply Hf.
Qed.

(* ------------------------------------------------------------------ the steps *)
Definition plain_op (o : op) : Prop :=
  match o with
  | OHello _ (HResume _) | OJoin _ _ _ _ | OTransient _ _ _ _ | ODeliver _ => False
  | _ => True
  end.

Lemma step_plain h o : plain_op o -> BusNT h -> res PF (step h o).
Proof.
  intros Ho B. destruct o; try destruct Ho; unfold step.
  - go.
  - destruct (aget (h_conns h) c) as [cn|]; [|go]. destruct (c_sess cn); [go|].
    apply ok_do_hello; [destruct h0; try exact I; destruct Ho|busnt].
  - apply ok_with_session; [|exact B]. intros. go.
  - apply ok_with_session; [|exact B]. intros. go.
  - go.
  - go.
  - apply ok_do_tick, B.
  - destruct (negb (b =? signas) || (h_nb h <=? b)); [go|apply ok_do_api, B].
  - apply ok_with_session; [|exact B]. intros. destruct (is_internal (s_kind s)); [apply ok_do_internal, B|go].
  - apply ok_with_session; [|exact B]. intros. apply ok_do_media, B.
  - apply ok_do_mcudone, B.
  - go.
Qed.

Lemma step_join h c rn rs rep : BusNT h -> res PInit (step h (OJoin c rn rs rep)).
Proof. intros B. unfold step. apply ok_with_session; [|exact B]. intros. go. Qed.

Lemma step_res h o : BusNT h -> res PT (step h o).
Proof.
  intros B.
  assert (Hplain : plain_op o -> res PT (step h o)) by (intros Ho; apply res_F, step_plain; assumption).
  destruct o; try (apply Hplain; exact I).
  - destruct h0; try (apply Hplain; exact I).
    unfold step. destruct (aget (h_conns h) c) as [cn|]; [|go]. destruct (c_sess cn); [go|].
    apply busnt_do_hello. busnt.
  - eapply res_mono; [|apply step_join, B]. intros; exact I.
  - unfold step. apply ok_with_session; [|exact B]. intros cn sid s _ _ _.
    destruct (s_room s) as [k|]; [|go]. destruct (2 <=? kind); [go|]. destruct (negb (allowed_transient s)); [go|].
    destruct (room_of h k) as [r|]; [|go]. apply busnt_transient_update, B.
  - unfold step. apply busnt_deliver_at, B.
Qed.

(* the bus never carries a transient message: preserved by every step, true of every reachable state *)
Theorem busnt_step h o : BusNT h -> BusNT (fst (step h o)).
Proof. intros B. apply (step_res h o B). Qed.

Lemma busnt_init limits gated : BusNT (init limits gated).
Proof. intros p []. Qed.

Theorem busnt_run ops : forall h, BusNT h -> BusNT (run h ops).
Proof. induction ops as [|o r IH]; intros h B; cbn [run]; [exact B|]. apply IH. now apply busnt_step. Qed.

Corollary busnt_reachable limits gated ops : BusNT (run (init limits gated) ops).
Proof. apply busnt_run, busnt_init. Qed.

Lemma busnt_drain fuel : forall h, BusNT h -> BusNT (fst (drain fuel h)).
Proof.
  induction fuel as [|f IH]; intros h B; cbn [drain]; [exact B|].
  destruct (h_bus h) eqn:E; [exact B|]. clear E.
  pose proof (busnt_deliver_at h 0 B) as [B1 _]. destruct (deliver_at h 0) as [h1 o1]. cbn [fst] in B1.
  specialize (IH h1 B1). destruct (drain f h1) as [h2 o2]. exact IH.
Qed.

Theorem busnt_qstep h o : BusNT h -> BusNT (fst (qstep h o)).
Proof.
  intros B. unfold qstep. pose proof (busnt_step h o B) as B1. destruct (step h o) as [h1 o1]. cbn [fst] in B1.
  pose proof (busnt_drain 500 h1 B1) as B2. destruct (drain 500 h1) as [h2 o2]. exact B2.
Qed.

Theorem busnt_qrun ops : forall h, BusNT h -> BusNT (qrun h ops).
Proof. induction ops as [|o r IH]; intros h B; cbn [qrun]; [exact B|]. apply IH. now apply busnt_qstep. Qed.

(* ------------------------------------------------------------------ the frame *)
Lemma frame_transient_op h c kindn key val c' t :
  In (ToConn c' (STransient t)) (snd (step h (OTransient c kindn key val))) ->
  exists cn sid s k r,
    aget h.(h_conns) c = Some cn /\ cn.(c_sess) = Some sid /\ get_sess h sid = Some s /\ s.(s_room) = Some k /\
    room_of h k = Some r /\ kindn < 2 /\ allowed_transient s = true /\
    In (ToConn c' (STransient t)) (snd (transient_update h k r (N.eqb kindn 1) key val)).
Proof.
  unfold step, with_session.
  destruct (aget (h_conns h) c) as [cn|] eqn:E1; [|intros []].
  destruct (c_sess cn) as [sid|] eqn:E2; [|intros [E|[]]; discriminate E].
  destruct (get_sess h sid) as [s|] eqn:E3; [|intros [E|[]]; discriminate E].
  destruct (s_room s) as [k|] eqn:E4; [|intros [E|[]]; discriminate E].
  destruct (N.leb_spec 2 kindn) as [L|L]; [intros [E|[]]; discriminate E|].
  destruct (allowed_transient s) eqn:E5; cbn [negb]; [|intros [E|[]]; discriminate E].
  destruct (room_of h k) as [r|] eqn:E6; [|intros []].
  intros Hin. exists cn, sid, s, k, r. repeat split; assumption.
Qed.

Lemma frame_deliver_op h pos c' t : BusNT h ->
  In (ToConn c' (STransient t)) (snd (step h (ODeliver pos))) ->
  exists p rest b rn r del key val,
    take_nth (N.to_nat pos) h.(h_bus) = Some (p, rest) /\ p.(p_subj) = SubjBackendRoom b rn /\
    p.(p_msg) = ARoomReq (ATransient del key val) /\ room_of (set_bus h rest) (b, rn) = Some r /\
    In (ToConn c' (STransient t)) (snd (transient_update (set_bus h rest) (b, rn) r del key val)).
Proof.
  intros B. unfold step, deliver_at.
  destruct (take_nth (N.to_nat pos) (h_bus h)) as [[p rest]|] eqn:E; [|intros []].
  destruct (take_nth_In _ _ _ _ E) as [Hp Hrest]. apply B in Hp.
  assert (Bs : BusNT (set_bus h rest)) by (apply busnt_set_bus; assumption).
  intros Hin.
  assert (D : not_transient_req p \/
              exists b rn del key val, p_subj p = SubjBackendRoom b rn /\ p_msg p = ARoomReq (ATransient del key val)).
  { unfold not_transient_req. destruct (p_subj p); auto. destruct (p_msg p); auto. destruct q; auto. right; eauto 10. }
  destruct D as [D|(b & rn & del & key & val & Es & Em)].
  - exfalso. pose proof (ok_deliver_pub (set_bus h rest) p Hp D Bs) as [_ S]. exact (S _ _ Hin).
  - unfold deliver_pub in Hin. rewrite Es, Em in Hin. unfold room_request in Hin.
    destruct (room_of (set_bus h rest) (b, rn)) as [r|] eqn:Er; [|destruct Hin].
    exists p, rest, b, rn, r, del, key, val. repeat split; assumption.
Qed.

Theorem trans_frame h o : BusNT h ->
  match o with
  | OHello _ (HResume _) => True
  | OJoin c _ _ _ =>
      forall c' t, In (ToConn c' (STransient t)) (snd (step h o)) -> exists d, t = TInit d
  | OTransient c kindn key val =>
      forall c' t, In (ToConn c' (STransient t)) (snd (step h o)) ->
        exists cn sid s k r,
          aget h.(h_conns) c = Some cn /\ cn.(c_sess) = Some sid /\ get_sess h sid = Some s /\ s.(s_room) = Some k /\
          room_of h k = Some r /\ kindn < 2 /\ allowed_transient s = true /\
          In (ToConn c' (STransient t)) (snd (transient_update h k r (N.eqb kindn 1) key val))
  | ODeliver pos =>
      forall c' t, In (ToConn c' (STransient t)) (snd (step h o)) ->
        exists p rest b rn r del key val,
          take_nth (N.to_nat pos) h.(h_bus) = Some (p, rest) /\ p.(p_subj) = SubjBackendRoom b rn /\
          p.(p_msg) = ARoomReq (ATransient del key val) /\ room_of (set_bus h rest) (b, rn) = Some r /\
          In (ToConn c' (STransient t)) (snd (transient_update (set_bus h rest) (b, rn) r del key val))
  | _ => no_trans (snd (step h o))
  end.
Proof.
  intros B.
  assert (Hplain : plain_op o -> no_trans (snd (step h o))).
  { intros Ho. apply sat_no_trans. apply (step_plain h o Ho B). }
  destruct o; try (apply Hplain; exact I).
  - destruct h0; try (apply Hplain; exact I). exact I.
  - intros c' t Hin. exact (proj2 (step_join h c room rs rep B) c' t Hin).
  - intros c' t. apply frame_transient_op.
  - intros c' t. now apply frame_deliver_op.
Qed.
