(* Proofs about the model of the mcuJanus bookkeeping (model/Janus.v).  Exported as C09J_* by props/C09.v. *)
From Coq Require Import List NArith Bool Lia.
From Verif Require Import model.Janus corr.Run_C09J.
Import ListNotations.
Open Scope N_scope.

(* ---- lists ------------------------------------------------------------------------------------ *)
Lemma memN_In : forall x l, memN x l = true <-> In x l.
Proof.
  induction l; simpl; [split; [discriminate | tauto]|].
  rewrite orb_true_iff, IHl, N.eqb_eq. split; intros [H | H]; auto.
Qed.
Lemma memN_app1 : forall x l d, memN x (l ++ [d]) = memN x l || N.eqb x d.
Proof. induction l; simpl; intros; [now rewrite orb_false_r | now rewrite IHl, orb_assoc]. Qed.
Lemma memN_removeN : forall x d l, memN x (removeN d l) = memN x l && negb (N.eqb d x).
Proof.
  unfold removeN. induction l; simpl; [reflexivity|].
  destruct (N.eqb d a) eqn:E; simpl.
  - apply N.eqb_eq in E; subst a. rewrite IHl. destruct (N.eqb x d) eqn:F; simpl; [|reflexivity].
    apply N.eqb_eq in F; subst x. rewrite N.eqb_refl. simpl. now rewrite andb_false_r.
  - rewrite IHl. destruct (N.eqb x a) eqn:F; simpl; [|reflexivity].
    apply N.eqb_eq in F; subst x. now rewrite E.
Qed.
Lemma removeN_idem : forall d l, removeN d (removeN d l) = removeN d l.
Proof.
  unfold removeN. induction l; simpl; [reflexivity|].
  destruct (N.eqb d a) eqn:E; simpl; [assumption | now rewrite E, IHl].
Qed.
Lemma countN_app1 : forall x l d, countN x (l ++ [d]) = countN x l + (if N.eqb x d then 1 else 0).
Proof. induction l; simpl; intros; [lia | rewrite IHl; lia]. Qed.
Lemma countN_remove1_le : forall x d l, countN x (remove1 d l) <= countN x l.
Proof.
  induction l; simpl; [lia|]. destruct (N.eqb d a); simpl; [destruct (N.eqb x a); lia | destruct (N.eqb x a); lia].
Qed.

(* ---- looking up and updating client objects ------------------------------------------------------- *)
Definition fobj (l : list client) (c : N) : option client := find (fun x => N.eqb (c_id x) c) l.
Lemma get_obj_fobj : forall st c, get_obj st c = fobj (m_objs st) c.
Proof. reflexivity. Qed.
Lemma fobj_id : forall l c x, fobj l c = Some x -> c_id x = c.
Proof. intros l c x H. apply find_some in H. now apply N.eqb_eq. Qed.
Lemma fobj_upd : forall f d l c, (forall x, c_id (f x) = c_id x) ->
  fobj (upd_obj f d l) c = if N.eqb c d then option_map f (fobj l c) else fobj l c.
Proof.
  intros f d l c Hf. unfold fobj, upd_obj. induction l as [|a l IH]; simpl.
  - now destruct (N.eqb c d).
  - destruct (N.eqb (c_id a) d) eqn:E.
    + rewrite Hf. destruct (N.eqb (c_id a) c) eqn:F.
      * apply N.eqb_eq in E, F. subst. now rewrite N.eqb_refl.
      * exact IH.
    + destruct (N.eqb (c_id a) c) eqn:F.
      * apply N.eqb_eq in F. subst c. now rewrite E.
      * exact IH.
Qed.

(* ---- Close unregisters, whatever the gateway answers --------------------------------------------- *)
(* A publisher that has a handle and a room, and every subscriber, is out of mcu.clients after Close -- with the
   gateway up or down, "destroy" / "detach" answered or refused.  (This is the line the seeded change C09-5 makes
   conditional on the answer to "destroy".) *)
Lemma close_unregisters : forall st c x rd rt,
  get_obj st c = Some x ->
  (c_kind x = Pub -> c_handle x <> HNone /\ c_room x <> HNone) ->
  memN c (m_clients (fst (close st c rd rt))) = false.
Proof.
  intros st c x rd rt G HP. unfold close. rewrite G.
  assert (Hid : c_id x = c) by (rewrite get_obj_fobj in G; eapply fobj_id; eauto).
  destruct (c_kind x) eqn:K.
  - destruct (HP eq_refl) as [Hh Hr]. unfold close_pub.
    destruct (c_handle x) eqn:EH; [congruence | |]; (destruct (c_room x) eqn:ER; [congruence | |]); simpl;
      unfold close_client; rewrite EH; simpl;
      repeat match goal with |- context [if ?b then _ else _] => destruct b end; simpl;
      rewrite Hid, memN_removeN, N.eqb_refl; simpl; now rewrite andb_false_r.
  - unfold close_sub, close_client.
    destruct (hs_is_none (c_handle x)); simpl;
      repeat match goal with |- context [if ?b then _ else _] => destruct b end; simpl;
      rewrite Hid, memN_removeN, N.eqb_refl; simpl; now rewrite andb_false_r.
Qed.

(* ... and the publisher no longer holds its stream key: no key of mcu.publishers with its stream is left *)
Lemma del_key_gone : forall pubs k e, In e (del_key pubs k) -> key_eqb (pkey e) k = false.
Proof. intros pubs k e H. unfold del_key in H. apply filter_In in H. destruct H as [_ H]. now apply negb_true_iff in H. Qed.

Lemma close_pub_frees_key : forall st c x rd rt,
  get_obj st c = Some x -> c_kind x = Pub -> c_handle x <> HNone -> c_room x <> HNone ->
  pub_of (m_pubs (fst (close st c rd rt))) (ckey x) = None.
Proof.
  intros st c x rd rt G K Hh Hr. unfold close. rewrite G, K. unfold close_pub.
  assert (E : forall pubs, pub_of (del_key pubs (ckey x)) (ckey x) = None).
  { intros pubs. unfold pub_of. destruct (find _ _) eqn:F; [|reflexivity].
    apply find_some in F. destruct F as [F1 F2]. apply del_key_gone in F1. congruence. }
  destruct (c_handle x) eqn:EH; [congruence | |]; (destruct (c_room x) eqn:ER; [congruence | |]); simpl;
    unfold close_client; rewrite EH; simpl;
    repeat match goal with |- context [if ?b then _ else _] => destruct b end; simpl; apply E.
Qed.

(* ---- a Close while the gateway does not answer ---------------------------------------------------- *)
(* Nothing changes at the gateway: exactly the handle and the room the client had stay there (until the gateway
   forgets the session: wipe).  The MCU's side is cleaned as with a reachable gateway (close_unregisters). *)
Lemma close_while_down_gateway_unchanged : forall st c rd rt,
  reachable st = false ->
  let st' := fst (close st c rd rt) in
  g_handles st' = g_handles st /\ g_rooms st' = g_rooms st /\ g_up st' = g_up st /\ g_sess st' = g_sess st.
Proof.
  intros st c rd rt R. unfold close. destruct (get_obj st c) as [x|]; [|simpl; auto].
  destruct (c_kind x).
  - unfold close_pub, close_client, handle_ok. rewrite R. simpl.
    destruct (hs_is_none (c_handle x)) eqn:EH; destruct (hs_is_none (c_room x)) eqn:ER; simpl;
      unfold handle_ok, reachable; simpl; fold (reachable st); try rewrite R; simpl; auto.
  - unfold close_sub, close_client, handle_ok. rewrite R. simpl.
    destruct (hs_is_none (c_handle x)); simpl; auto.
Qed.

(* and with the gateway reachable and nothing refused, the handle and the room of the client are taken away *)
Lemma close_while_up_removes : forall st c x,
  get_obj st c = Some x -> reachable st = true -> c_kind x = Pub -> c_handle x = HLive -> c_room x = HLive ->
  let st' := fst (close st c false false) in
  g_handles st' = remove1 c (g_handles st) /\ g_rooms st' = remove1 c (g_rooms st).
Proof.
  intros st c x G R K EH ER. unfold close. rewrite G, K.
  assert (Hid : c_id x = c) by (rewrite get_obj_fobj in G; eapply fobj_id; eauto).
  unfold close_pub, close_client, handle_ok. rewrite EH, ER, R. simpl.
  unfold reachable in *. simpl. rewrite R. simpl. rewrite Hid. auto.
Qed.

(* what the next reconnect leaves of it: the gateway is emptied before anything is re-created *)
Lemma wipe_forgets : forall st up sess hs, g_rooms (wipe st up sess hs) = [] /\ g_handles (wipe st up sess hs) = hs.
Proof. intros; simpl; auto. Qed.

(* ---- Close is idempotent ---------------------------------------------------------------------------- *)
(* Close of a client that is closed (no handle, closed, not registered) changes nothing in any table -- the
   listener of a subscriber is told SubscriberClosed again (kept from the code), a publisher's is not. *)
Lemma upd_obj_id : forall f c l, (forall y, In y l -> c_id y = c -> f y = y) -> upd_obj f c l = l.
Proof.
  intros f c l H. unfold upd_obj. rewrite <- (map_id l) at 2. apply map_ext_in. intros a Ha.
  destruct (N.eqb (c_id a) c) eqn:E; [|reflexivity]. apply N.eqb_eq in E. auto.
Qed.
Lemma removeN_notin : forall c l, memN c l = false -> removeN c l = l.
Proof.
  unfold removeN. induction l; simpl; intros H; [reflexivity|].
  apply orb_false_iff in H. destruct H as [H1 H2]. rewrite H1. simpl. now rewrite IHl.
Qed.
Lemma close_closed_noop : forall st c rd rt,
  (forall y, In y (m_objs st) -> c_id y = c -> c_closed y = true /\ c_handle y = HNone) ->
  memN c (m_clients st) = false ->
  fst (close st c rd rt) = st.
Proof.
  intros st c rd rt H M. unfold close. destruct (get_obj st c) as [x|] eqn:G; [|reflexivity].
  rewrite get_obj_fobj in G. pose proof (fobj_id _ _ _ G) as Hid.
  apply find_some in G. destruct G as [Gin _]. destruct (H x Gin Hid) as [Hc Hh].
  assert (U : upd_obj set_closed (c_id x) (m_objs st) = m_objs st).
  { apply upd_obj_id. intros y Hy Ey. rewrite Hid in Ey. destruct (H y Hy Ey) as [Yc _].
    destruct y; simpl in *. now subst. }
  destruct (c_kind x).
  - unfold close_pub, close_client. rewrite Hh. simpl. rewrite U. destruct st; reflexivity.
  - unfold close_sub, close_client. rewrite Hh. simpl. rewrite U. rewrite Hid, removeN_notin by exact M.
    destruct st; reflexivity.
Qed.

(* ---- mcuJanus itself does not keep "one publisher per session and stream type" ----------------------- *)
Definition registered_pubs_with (st : state) (k : N * N) : list N :=
  map c_id (filter (fun x => is_pub (c_kind x) && key_eqb (ckey x) k && memN (c_id x) (m_clients st)) (m_objs st)).
Lemma second_publisher_refuted : exists ops k,
  (2 <=? N.of_nat (length (registered_pubs_with (run ops) k))) = true.
Proof. exists [ONewPub 1 0 false; ONewPub 1 0 false], (1, 0). vm_compute. reflexivity. Qed.
(* ... and closing the first takes the key of the second away: the second is registered and open, but nobody can
   subscribe to it (getPublisher does not find it) *)
Lemma second_publisher_loses_key : exists ops,
  memN 2 (m_clients (run ops)) = true /\ pub_of (m_pubs (run ops)) (1, 0) = None /\
  snd (fst (step (run ops) (ONewSub 3 1 0))) = RErrTimeout.
Proof. exists [ONewPub 1 0 false; ONewPub 1 0 false; OClose 1 false false]. vm_compute. auto. Qed.

(* ---- for every history: a client that is out of mcu.clients never comes back, nothing is created for it --- *)
(* shrinks c st st': going from st to st', client c is not newly registered, and its handles and rooms at the gateway
   do not become more *)
Definition shrinks (c : N) (st st' : state) : Prop :=
  (memN c (m_clients st) = false -> memN c (m_clients st') = false) /\
  countN c (g_handles st') <= countN c (g_handles st) /\
  countN c (g_rooms st') <= countN c (g_rooms st) /\
  m_next st <= m_next st'.
Lemma shrinks_refl : forall c st, shrinks c st st.
Proof. intros; unfold shrinks; repeat split; auto; lia. Qed.
Lemma shrinks_trans : forall c a b d, shrinks c a b -> shrinks c b d -> shrinks c a d.
Proof. unfold shrinks. intros c a b d (A1 & A2 & A3 & A4) (B1 & B2 & B3 & B4). repeat split; auto; lia. Qed.

Ltac shr :=
  unfold shrinks; simpl; repeat split; intros;
  repeat rewrite memN_removeN; repeat rewrite memN_app1; repeat rewrite countN_app1;
  try match goal with H : memN _ _ = false |- _ => rewrite H end; simpl; auto;
  try (etransitivity; [apply countN_remove1_le|]); try lia.

Lemma close_client_shrinks : forall c st x rt, shrinks c st (fst (close_client st x rt)).
Proof.
  intros c st x rt. unfold close_client. destruct (hs_is_none (c_handle x)); [apply shrinks_refl|].
  destruct (handle_ok st x && negb rt); shr; apply countN_remove1_le.
Qed.
Lemma close_sub_shrinks : forall c st x rt, shrinks c st (fst (close_sub st x rt)).
Proof.
  intros c st x rt. unfold close_sub. pose proof (close_client_shrinks c st x rt) as H.
  destruct (close_client st x rt) as [st1 b]. simpl in *. destruct H as (H1 & H2 & H3 & H4).
  unfold shrinks; simpl; repeat split; auto. intros M. rewrite memN_removeN, (H1 M). reflexivity.
Qed.
Lemma close_pub_shrinks : forall c st x rd rt, shrinks c st (fst (close_pub st x rd rt)).
Proof.
  intros c st x rd rt. unfold close_pub.
  set (p := if negb (hs_is_none (c_handle x)) && negb (hs_is_none (c_room x)) then _ else _).
  assert (Hp : shrinks c st (fst p)).
  { subst p. destruct (negb (hs_is_none (c_handle x)) && negb (hs_is_none (c_room x))); [|apply shrinks_refl].
    destruct (handle_ok st x && hs_is_live (c_room x) && negb rd); shr; apply countN_remove1_le. }
  destruct p as [st1 notify]. simpl in Hp.
  pose proof (close_client_shrinks c st1 x rt) as H. destruct (close_client st1 x rt) as [st2 b]. simpl in H.
  pose proof (shrinks_trans _ _ _ _ Hp H) as (H1 & H2 & H3 & H4).
  destruct notify; unfold shrinks; simpl; repeat split; auto.
  intros M. rewrite memN_removeN, (H1 M). reflexivity.
Qed.
Lemma close_shrinks : forall c st c' rd rt, shrinks c st (fst (close st c' rd rt)).
Proof.
  intros. unfold close. destruct (get_obj st c') as [x|]; [|apply shrinks_refl].
  destruct (c_kind x); [apply close_pub_shrinks | apply close_sub_shrinks].
Qed.
Lemma close_list_shrinks : forall c l st, shrinks c st (fst (close_list st l)).
Proof.
  induction l; intros st; simpl; [apply shrinks_refl|].
  pose proof (close_shrinks c st a false false) as H. destruct (close st a false false) as [st1 e1]. simpl in H.
  pose proof (IHl st1) as H2. destruct (close_list st1 l) as [st2 e2]. simpl in *. eapply shrinks_trans; eauto.
Qed.
Lemma notify_shrinks : forall c fail st c', c' <> c -> shrinks c st (fst (notify_reconnected fail st c')).
Proof.
  intros c fail st c' Hne. unfold notify_reconnected. destruct (get_obj st c') as [x|]; [|apply shrinks_refl].
  assert (E : N.eqb c c' = false) by (apply N.eqb_neq; congruence).
  destruct (c_kind x).
  - destruct (negb (reachable st)); [apply shrinks_refl|].
    destruct (mem_key (ckey x) fail); [apply shrinks_refl|].
    unfold shrinks; simpl. rewrite !countN_app1, E. repeat split; auto; lia.
  - destruct (pub_of (m_pubs st) (ckey x)); [|apply close_sub_shrinks].
    destruct (negb (reachable st)); [apply close_sub_shrinks|].
    unfold shrinks; simpl. rewrite !countN_app1, E. repeat split; auto; lia.
Qed.
Lemma notify_all_shrinks : forall c fail l st, memN c l = false -> shrinks c st (fst (notify_all fail st l)).
Proof.
  induction l; intros st M; simpl; [apply shrinks_refl|].
  simpl in M. apply orb_false_iff in M. destruct M as [M1 M2].
  assert (Hne : a <> c) by (intros ->; rewrite N.eqb_refl in M1; discriminate).
  pose proof (notify_shrinks c fail st a Hne) as H. destruct (notify_reconnected fail st a) as [st1 e1]. simpl in H.
  pose proof (IHl st1 M2) as H2. destruct (notify_all fail st1 l) as [st2 e2]. simpl in *. eapply shrinks_trans; eauto.
Qed.

(* one step: for a client id that was handed out (below mcu.clientId), is not the MCU's own handle and is not registered *)
Lemma step_shrinks : forall st o c,
  c <> 0 -> c < m_next st -> memN c (m_clients st) = false -> shrinks c st (step_st st o).
Proof.
  intros st o c H0 Hlt M. unfold step_st.
  assert (E : N.eqb c (m_next st) = false) by (apply N.eqb_neq; lia).
  destruct o as [s t rc | ow s t | c' rd rt | ow | w | | fail]; simpl.
  - unfold new_pub. destruct (negb (reachable st)); [apply shrinks_refl|]. destruct rc; [apply shrinks_refl|].
    unfold shrinks; simpl. rewrite memN_app1, !countN_app1, E, M. repeat split; auto; lia.
  - unfold new_sub. destruct (pub_of (m_pubs st) (s, t)); [|apply shrinks_refl].
    destruct (negb (reachable st)); [apply shrinks_refl|].
    unfold shrinks; simpl. rewrite memN_app1, !countN_app1, E, M. repeat split; auto; lia.
  - pose proof (close_shrinks c st c' rd rt) as H. destruct (close st c' rd rt). exact H.
  - pose proof (close_list_shrinks c (owned_open st ow) st) as H. destruct (close_list st (owned_open st ow)). exact H.
  - destruct w; unfold shrinks; simpl; repeat split; auto; lia.
  - unfold shrinks; simpl; repeat split; auto; lia.
  - unfold reconnect.
    set (st1 := with_pubs (wipe st true true [0]) []).
    assert (S1 : shrinks c st st1).
    { unfold shrinks; simpl. assert (N.eqb c 0 = false) as -> by (apply N.eqb_neq; exact H0). repeat split; auto; lia. }
    pose proof (notify_all_shrinks c fail (m_clients st1) st1 M) as H.
    destruct (notify_all fail st1 (m_clients st1)) as [st2 e2]. simpl in *. eapply shrinks_trans; eauto.
Qed.

Lemma never_again : forall ops st c,
  c <> 0 -> c < m_next st -> memN c (m_clients st) = false ->
  let st' := run_from st ops in
  memN c (m_clients st') = false /\
  countN c (g_handles st') <= countN c (g_handles st) /\ countN c (g_rooms st') <= countN c (g_rooms st).
Proof.
  induction ops as [|o ops IH]; intros st c H0 Hlt M; simpl; [repeat split; auto; lia|].
  destruct (step_shrinks st o c H0 Hlt M) as (S1 & S2 & S3 & S4).
  destruct (IH (step_st st o) c H0 ltac:(lia) (S1 M)) as (I1 & I2 & I3).
  repeat split; auto; lia.
Qed.

(* once nothing of it is at the gateway, nothing ever is again *)
Lemma never_again_nothing : forall ops st c,
  c <> 0 -> c < m_next st -> memN c (m_clients st) = false ->
  memN c (g_handles st) = false -> memN c (g_rooms st) = false ->
  memN c (g_handles (run_from st ops)) = false /\ memN c (g_rooms (run_from st ops)) = false.
Proof.
  intros ops st c H0 Hlt M Hh Hr.
  assert (Z : forall l, memN c l = false <-> countN c l = 0).
  { induction l as [|a l IHl]; [simpl; tauto|]. cbn [memN countN]. destruct (N.eqb c a).
    - rewrite orb_true_l. split; [discriminate | intros; exfalso; lia].
    - rewrite orb_false_l, IHl. split; lia. }
  destruct (never_again ops st c H0 Hlt M) as (_ & I2 & I3).
  apply Z in Hh, Hr. split; apply Z; lia.
Qed.

(* ---- after a reconnect ------------------------------------------------------------------------------- *)
Lemma memN_count0 : forall c l, memN c l = false <-> countN c l = 0.
Proof.
  induction l as [|a l IHl]; [simpl; tauto|]. cbn [memN countN]. destruct (N.eqb c a).
  - rewrite orb_true_l. split; [discriminate | intros; exfalso; lia].
  - rewrite orb_false_l, IHl. split; lia.
Qed.
(* every handle and every room the gateway holds after doReconnect is the MCU's own handle or was made for a client
   that was registered when the reconnect began: whatever a client that is out of mcu.clients had left there is gone,
   and nothing is made for it *)
Lemma reconnect_only_registered : forall st fail c,
  let st' := fst (reconnect st fail) in
  (In c (g_handles st') -> c = 0 \/ In c (m_clients st)) /\ (In c (g_rooms st') -> In c (m_clients st)).
Proof.
  intros st fail c. unfold reconnect.
  set (st1 := with_pubs (wipe st true true [0]) []).
  destruct (memN c (m_clients st)) eqn:M.
  - apply memN_In in M. simpl. auto.
  - pose proof (notify_all_shrinks c fail (m_clients st1) st1 M) as (_ & H2 & H3 & _).
    destruct (notify_all fail st1 (m_clients st1)) as [st2 e2]. simpl in *.
    split; intros Hin; apply memN_In in Hin.
    + destruct (N.eqb c 0) eqn:E0; [apply N.eqb_eq in E0; auto|]. exfalso.
      assert (countN c (g_handles st2) = 0) by lia. apply memN_count0 in H. congruence.
    + exfalso. assert (countN c (g_rooms st2) = 0) by lia. apply memN_count0 in H. congruence.
Qed.
