(* P_C09J (corr/Run_C09J.v) holds on every trace of the model (model/Janus.v) from init; nothing outlives its owner at
   the gateway.  Uses the invariant of proofs/Janus_inv.v.  Exported as C09J_* by props/C09.v. *)
From Coq Require Import List NArith Bool Lia.
From Verif Require Import model.Janus corr.Run_C09J proofs.Janus_proofs proofs.Janus_inv.
Import ListNotations.
Open Scope N_scope.

(* ---- stream keys ---------------------------------------------------------------------------------------- *)
Lemma key_eqb_eq : forall a b, key_eqb a b = true <-> a = b.
Proof.
  intros [a1 a2] [b1 b2]. unfold key_eqb. simpl. rewrite andb_true_iff, !N.eqb_eq.
  split; [intros [-> ->]; auto | intros E; inversion E; auto].
Qed.
Lemma mem_key_In : forall k l, mem_key k l = true <-> In k l.
Proof.
  induction l as [|a l IH]; simpl; [split; [discriminate | tauto]|].
  rewrite orb_true_iff, IH, key_eqb_eq. split; intros [H | H]; auto.
Qed.
Lemma mem_key_app1 : forall k l a, mem_key k (l ++ [a]) = mem_key k l || key_eqb k a.
Proof. induction l; simpl; intros; [now rewrite orb_false_r | now rewrite IHl, orb_assoc]. Qed.
Lemma nodup_keys_mono : forall w w' l, (forall k, In k w -> In k w') -> nodup_keys w l = true -> nodup_keys w' l = true.
Proof.
  induction l as [|a l IH]; simpl; auto. intros Hw H. apply andb_true_iff in H. destruct H as [H1 H2].
  apply andb_true_iff. split; [|auto]. apply orb_true_iff in H1. apply orb_true_iff.
  destruct H1 as [H1 | H1]; [left; apply mem_key_In, Hw, mem_key_In, H1 | right; exact H1].
Qed.
Lemma nodup_keys_snoc : forall k l w w', (forall k', In k' w -> In k' w') -> (In k l -> In k w') ->
  nodup_keys w l = true -> nodup_keys w' (l ++ [k]) = true.
Proof.
  induction l as [|a l IH]; simpl; intros w w' Hw Hk H.
  - now rewrite orb_true_r.
  - apply andb_true_iff in H. destruct H as [H1 H2]. apply andb_true_iff. split; [|apply (IH w w'); auto].
    rewrite mem_key_app1. destruct (mem_key a w) eqn:Ma.
    + apply mem_key_In, Hw, mem_key_In in Ma. now rewrite Ma.
    + simpl in H1. apply negb_true_iff in H1. rewrite H1. simpl.
      destruct (key_eqb a k) eqn:E; [|apply orb_true_r].
      apply key_eqb_eq in E. subst a. assert (In k w') by auto. apply mem_key_In in H. now rewrite H.
Qed.

(* the keys of the registered publishers, in the order of the objects *)
Fixpoint rk (cl : list N) (l : list client) : list (N * N) :=
  match l with
  | [] => []
  | x :: r => if is_pub (c_kind x) && memN (c_id x) cl then ckey x :: rk cl r else rk cl r
  end.
Lemma reg_pub_keys_digest : forall st, reg_pub_keys (digest_of st) = rk (m_clients st) (m_objs st).
Proof.
  intros st. unfold reg_pub_keys. simpl. induction (m_objs st) as [|a l IH]; simpl; [reflexivity|].
  destruct (is_pub (c_kind a) && memN (c_id a) (m_clients st)); simpl; now rewrite IH.
Qed.
Lemma rk_mem_sub : forall cl cl' l l', Forall2 static_eq l l' -> (forall c, memN c cl' = true -> memN c cl = true) ->
  forall k, mem_key k (rk cl' l') = true -> mem_key k (rk cl l) = true.
Proof.
  intros cl cl' l l' F Hc k. induction F as [|x y l l' S F IH]; simpl; auto.
  destruct S as (E1 & E2 & _ & E4 & E5). rewrite <- E1, <- E2.
  assert (Ek : ckey y = ckey x) by (unfold ckey; now rewrite E4, E5). rewrite Ek.
  destruct (is_pub (c_kind x)); simpl; auto.
  destruct (memN (c_id x) cl') eqn:M; simpl.
  - rewrite (Hc _ M). simpl. intros H. apply orb_true_iff in H. apply orb_true_iff. tauto.
  - intros H. destruct (memN (c_id x) cl); simpl; auto. rewrite (IH H). apply orb_true_r.
Qed.
Lemma rk_sub : forall w cl cl' l l', Forall2 static_eq l l' -> (forall c, memN c cl' = true -> memN c cl = true) ->
  nodup_keys w (rk cl l) = true -> nodup_keys w (rk cl' l') = true.
Proof.
  intros w cl cl' l l' F Hc. induction F as [|x y l l' S F IH]; simpl; auto.
  pose proof (rk_mem_sub cl cl' l l' F Hc) as Hm.
  destruct S as (E1 & E2 & _ & E4 & E5). rewrite <- E1, <- E2.
  assert (Ek : ckey y = ckey x) by (unfold ckey; now rewrite E4, E5). rewrite Ek.
  destruct (is_pub (c_kind x)); simpl; auto.
  destruct (memN (c_id x) cl') eqn:M; simpl.
  - rewrite (Hc _ M). simpl. intros H. apply andb_true_iff in H. destruct H as [H1 H2].
    apply andb_true_iff. split; [|auto]. apply orb_true_iff in H1. apply orb_true_iff.
    destruct H1 as [H1 | H1]; [auto | right].
    apply negb_true_iff in H1. apply negb_true_iff.
    destruct (mem_key (ckey x) (rk cl' l')) eqn:Q; [|reflexivity]. apply Hm in Q. congruence.
  - destruct (memN (c_id x) cl); simpl; auto. intros H. apply andb_true_iff in H. tauto.
Qed.
Lemma rk_snoc_old : forall cl c l, (forall y, In y l -> c_id y <> c) -> rk (cl ++ [c]) l = rk cl l.
Proof.
  induction l as [|a l IH]; simpl; intros H; [reflexivity|].
  rewrite memN_app1. assert (N.eqb (c_id a) c = false) as -> by (apply N.eqb_neq, H; auto).
  rewrite orb_false_r, IH by auto. reflexivity.
Qed.
Lemma rk_app : forall cl a b, rk cl (a ++ b) = rk cl a ++ rk cl b.
Proof.
  induction a as [|x a IH]; simpl; intros; [reflexivity|].
  destruct (is_pub (c_kind x) && memN (c_id x) cl); simpl; now rewrite IH.
Qed.

(* ---- objects keep their static part --------------------------------------------------------------------- *)
Lemma static_refl : forall l, Forall2 static_eq l l.
Proof. induction l; constructor; auto. unfold static_eq; auto. Qed.
Lemma static_map : forall g l, (forall y, static_eq y (g y)) -> Forall2 static_eq l (map g l).
Proof. induction l; simpl; constructor; auto. Qed.
Lemma static_trans : forall a b c, Forall2 static_eq a b -> Forall2 static_eq b c -> Forall2 static_eq a c.
Proof.
  intros a b c H. revert c. induction H; intros c0 H2; inversion H2; subst; constructor; auto.
  unfold static_eq in *. intuition congruence.
Qed.
Lemma static_upd : forall f c l, (forall y, static_eq y (f y)) -> Forall2 static_eq l (upd_obj f c l).
Proof.
  intros f c l Hf. unfold upd_obj. apply static_map. intros y. destruct (N.eqb (c_id y) c); [apply Hf|].
  unfold static_eq; auto.
Qed.

(* ---- facts about Close on states satisfying the invariant ------------------------------------------------------ *)
Lemma registered_open : forall st c, JInv st -> memN c (m_clients st) = true ->
  exists x, get_obj st c = Some x /\ In x (m_objs st) /\ c_id x = c /\ c_closed x = false.
Proof.
  intros st c J M. apply memN_In in M.
  destruct (J_has_obj st c J (J_cl st J c M)) as (x & Hx & Hid).
  exists x. repeat split; auto.
  - rewrite get_obj_fobj, <- Hid. apply nodup_fobj; [apply (J_ids st J) | exact Hx].
  - destruct (J_obj st J x Hx) as (_ & _ & O3 & _). apply memN_In in M. rewrite Hid, M in O3.
    destruct (c_closed x); [discriminate | reflexivity].
Qed.
Lemma unregistered_closed : forall st x, JInv st -> In x (m_objs st) ->
  (memN (c_id x) (m_clients st) = false <-> c_closed x = true).
Proof.
  intros st x J Hx. destruct (J_obj st J x Hx) as (_ & _ & O3 & _). rewrite O3.
  destruct (c_closed x); simpl; intuition congruence.
Qed.

(* every case of Close on a state satisfying the invariant *)
Lemma close_cases : forall st c rd rt, JInv st ->
  (get_obj st c = None /\ close st c rd rt = (st, [])) \/
  (exists x, get_obj st c = Some x /\ In x (m_objs st) /\ c_id x = c /\ c_closed x = true /\
             fst (close st c rd rt) = st /\ memN c (m_clients st) = false) \/
  (exists x, get_obj st c = Some x /\ In x (m_objs st) /\ c_id x = c /\ c_closed x = false /\
             close st c rd rt = (close_result st x rd rt, [close_event x]) /\ memN c (m_clients st) = true).
Proof.
  intros st c rd rt J. destruct (get_obj st c) as [x|] eqn:G.
  - destruct (get_obj_In _ _ _ G) as [Hx Hid]. right.
    destruct (J_obj st J x Hx) as (_ & _ & O3 & _). rewrite Hid in O3.
    destruct (c_closed x) eqn:Hc.
    + left. exists x. repeat split; auto. eapply close_closed; eauto.
    + right. exists x. repeat split; auto.
      destruct (open_has_handle st x (J_obj st J x Hx) Hc) as [Hh Hr]. now apply close_open.
  - left. split; [reflexivity|]. unfold close. now rewrite G.
Qed.

Lemma close_events_ids : forall st c rd rt e, JInv st ->
  In e (closed_events (snd (close st c rd rt))) -> e = c /\ get_obj st c <> None.
Proof.
  intros st c rd rt e J. unfold close. destruct (get_obj st c) as [x|] eqn:G; [|simpl; tauto].
  destruct (get_obj_In _ _ _ G) as [Hx Hid]. intros H. split; [|discriminate].
  destruct (c_kind x).
  - unfold close_pub in H.
    destruct (negb (hs_is_none (c_handle x)) && negb (hs_is_none (c_room x))); simpl in H;
      destruct (close_client _ x rt); simpl in H; intuition congruence.
  - unfold close_sub in H. destruct (close_client st x rt). simpl in H. intuition congruence.
Qed.
Lemma close_unreg : forall st c rd rt, JInv st -> get_obj st c <> None ->
  memN c (m_clients (fst (close st c rd rt))) = false.
Proof.
  intros st c rd rt J G. destruct (close_cases st c rd rt J) as [[G' _] | [(x & _ & _ & _ & _ & E & M) | (x & _ & _ & Hid & _ & E & _)]].
  - congruence.
  - now rewrite E.
  - rewrite E. simpl. rewrite Hid, memN_removeN, N.eqb_refl. apply andb_false_r.
Qed.
Lemma close_frame : forall st a rd rt c, JInv st -> c <> a ->
  memN c (m_clients (fst (close st a rd rt))) = memN c (m_clients st).
Proof.
  intros st a rd rt c J Ne. destruct (close_cases st a rd rt J) as [[_ E] | [(x & _ & _ & _ & _ & E & _) | (x & _ & _ & Hid & _ & E & _)]];
    rewrite E; simpl; auto.
  rewrite Hid, memN_removeN. assert (N.eqb a c = false) as -> by (apply N.eqb_neq; congruence). apply andb_true_r.
Qed.
Lemma close_reach : forall st a rd rt, JInv st -> reachable (fst (close st a rd rt)) = reachable st.
Proof.
  intros st a rd rt J. destruct (close_cases st a rd rt J) as [[_ E] | [(x & _ & _ & _ & _ & E & _) | (x & _ & _ & Hid & _ & E & _)]];
    rewrite E; reflexivity.
Qed.
Lemma close_next : forall st a rd rt, JInv st -> m_next (fst (close st a rd rt)) = m_next st.
Proof.
  intros st a rd rt J. destruct (close_cases st a rd rt J) as [[_ E] | [(x & _ & _ & _ & _ & E & _) | (x & _ & _ & Hid & _ & E & _)]];
    rewrite E; reflexivity.
Qed.
Lemma close_static : forall st a rd rt, JInv st -> Forall2 static_eq (m_objs st) (m_objs (fst (close st a rd rt))).
Proof.
  intros st a rd rt J. destruct (close_cases st a rd rt J) as [[_ E] | [(x & _ & _ & _ & _ & E & _) | (x & _ & _ & Hid & _ & E & _)]];
    rewrite E; try apply static_refl.
  simpl. apply static_upd. intros y. unfold static_eq; auto.
Qed.

(* with the gateway answering and nothing refused, nothing of the client is left there *)
Lemma close_clean : forall st c, JInv st -> reachable st = true -> memN c (m_clients st) = true ->
  let st' := fst (close st c false false) in
  memN c (g_handles st') = false /\ memN c (g_rooms st') = false.
Proof.
  intros st c J R M st'. destruct (registered_open st c J M) as (x & G & Hx & Hid & Hc).
  destruct (J_obj st J x Hx) as (_ & _ & _ & _ & _ & O6 & O7 & O8 & O9).
  destruct (open_has_handle st x (J_obj st J x Hx) Hc) as [Hh Hr].
  unfold st'. rewrite (close_open st c x false false G Hh Hr). simpl.
  specialize (O7 Hc). specialize (O8 Hc). rewrite !memN_count0.
  unfold handle_ok. rewrite R. simpl. rewrite !andb_true_r. rewrite Hid in *. split.
  - destruct (hs_is_live (c_handle x)); [|exact O7]. rewrite countN_remove1, N.eqb_refl, O7. reflexivity.
  - destruct (c_kind x) eqn:K; simpl in *.
    + destruct (O9 eq_refl) as [_ E]. rewrite E in *.
      destruct (hs_is_live (c_room x)); simpl; [|exact O8]. rewrite countN_remove1, N.eqb_refl, O8. reflexivity.
    + apply O6. reflexivity.
Qed.

(* ---- Close of a list (OCloseAll) --------------------------------------------------------------------------- *)
Lemma close_list_step : forall st a l, close_list st (a :: l) =
  (fst (close_list (fst (close st a false false)) l),
   snd (close st a false false) ++ snd (close_list (fst (close st a false false)) l)).
Proof. intros. simpl. destruct (close st a false false) as [st1 e1]. simpl. destruct (close_list st1 l). reflexivity. Qed.

Lemma close_list_props : forall l st, JInv st ->
  let st' := fst (close_list st l) in
  reachable st' = reachable st /\ m_next st' = m_next st /\ Forall2 static_eq (m_objs st) (m_objs st') /\
  (forall c, ~ In c l -> memN c (m_clients st') = memN c (m_clients st)) /\
  (forall c, In c l -> get_obj st c <> None -> memN c (m_clients st') = false) /\
  (forall e, In e (closed_events (snd (close_list st l))) -> In e l /\ get_obj st e <> None) /\
  (forall c, In c l -> reachable st = true -> memN c (m_clients st) = true ->
             memN c (g_handles st') = false /\ memN c (g_rooms st') = false).
Proof.
  induction l as [|a l IH]; intros st J.
  - simpl. conjs; auto; try tauto. apply static_refl.
  - rewrite close_list_step. cbv zeta. simpl fst. simpl snd.
    set (st1 := fst (close st a false false)).
    pose proof (close_inv st a false false J) as J1. fold st1 in J1.
    destruct (IH st1 J1) as (I1 & I2 & I3 & I4 & I5 & I6 & I7).
    assert (GO : forall c, get_obj st c <> None -> get_obj st1 c <> None).
    { intros c G. rewrite get_obj_fobj in *. rewrite fobj_none in *.
      pose proof (close_static st a false false J) as S. fold st1 in S.
      assert (E : map c_id (m_objs st1) = map c_id (m_objs st)).
      { clear - S. induction S; simpl; [reflexivity|]. destruct H as [-> _]. now rewrite IHS. }
      now rewrite E. }
    conjs.
    + rewrite I1. apply close_reach, J.
    + rewrite I2. apply close_next, J.
    + eapply static_trans; [apply close_static, J | exact I3].
    + intros c Hn. simpl in Hn. rewrite I4 by tauto. apply close_frame; [exact J | intros ->; tauto].
    + intros c Hin G. destruct (in_dec N.eq_dec c l) as [Hl | Hl]; [apply I5; auto|].
      destruct Hin as [-> | Hin]; [|tauto]. rewrite I4 by exact Hl. apply close_unreg; auto.
    + intros e He. unfold closed_events in He. rewrite flat_map_app in He. apply in_app_iff in He.
      destruct He as [He | He].
      * apply (close_events_ids st a false false e J) in He. destruct He as [-> G]. simpl. auto.
      * apply I6 in He. destruct He as [He G]. split; [simpl; auto|].
        intros G0. apply G. clear - G0 J. unfold st1.
        destruct (close_cases st a false false J) as [[_ E] | [(x & _ & _ & _ & _ & E & _) | (x & _ & _ & Hid & _ & E & _)]];
          rewrite E; auto.
        simpl. rewrite get_obj_fobj in *. unfold close_result. simpl. rewrite fobj_upd by reflexivity.
        rewrite G0. destruct (N.eqb e (c_id x)); reflexivity.
    + intros c Hin R M. destruct (N.eq_dec c a) as [-> | Ne].
      * destruct (close_clean st a J R M) as [C1 C2]. fold st1 in C1, C2.
        assert (M1 : memN a (m_clients st1) = false).
        { apply close_unreg; auto. destruct (registered_open st a J M) as (x & G & _). congruence. }
        assert (B : 0 < a < m_next st1).
        { unfold st1. rewrite close_next by exact J. apply (J_cl st J). now apply memN_In. }
        pose proof (close_list_shrinks a l st1) as (_ & S2 & S3 & _).
        apply memN_count0 in C1, C2. split; apply memN_count0; lia.
      * destruct Hin as [-> | Hin]; [congruence|]. apply I7; auto.
        -- unfold st1. now rewrite close_reach.
        -- unfold st1. rewrite close_frame; auto.
Qed.

(* ---- the predicate's state against the model's state --------------------------------------------------------- *)
Record PInv (ps : pstate) (st : state) : Prop := {
  PI_closed : forall c, In c (p_closed ps) -> 0 < c < m_next st /\ memN c (m_clients st) = false;
  PI_left : forall x, In x (m_objs st) -> c_closed x = true ->
            memN (c_id x) (p_exempt ps) = true \/
            (memN (c_id x) (g_handles st) = false /\ memN (c_id x) (g_rooms st) = false);
  PI_keys : nodup_keys (p_waived ps) (rk (m_clients st) (m_objs st)) = true
}.
Lemma PInv_init : PInv pstate0 init.
Proof. constructor; simpl; auto; intros; tauto. Qed.

Lemma owned_ok_model : forall ps' st', JInv st' -> PInv ps' st' -> forall c, 0 < c < m_next st' ->
  memN c (g_handles st') = true \/ memN c (g_rooms st') = true -> owned_ok ps' (digest_of st') c = true.
Proof.
  intros ps' st' J P c B Hin. unfold owned_ok. simpl.
  destruct (J_has_obj st' c J B) as (x & Hx & Hid).
  destruct (c_closed x) eqn:Hc.
  - destruct (PI_left _ _ P x Hx Hc) as [E | [E1 E2]]; rewrite Hid in *; [now rewrite E|].
    destruct Hin; congruence.
  - destruct (J_obj st' J x Hx) as (_ & _ & O3 & _). rewrite Hid, Hc in O3. rewrite O3. simpl.
    destruct (memN c (p_closed ps')) eqn:M; [|apply orb_true_r].
    apply memN_In in M. destruct (PI_closed _ _ P c M) as [_ M']. simpl in O3. congruence.
Qed.

Lemma checks_ok : forall ps' st st', JInv st' -> PInv ps' st' ->
  (forall c, In c (p_closed ps') -> countN c (g_handles st') <= countN c (g_handles st) /\
                                     countN c (g_rooms st') <= countN c (g_rooms st)) ->
  chk_a ps' (digest_of st') && chk_b ps' (digest_of st') && chk_c ps' (digest_of st) (digest_of st') &&
  chk_d ps' (digest_of st') && chk_e ps' (digest_of st') = true.
Proof.
  intros ps' st st' J P C. repeat (apply andb_true_iff; split).
  - unfold chk_a. apply forallb_forall. intros c Hc. simpl. destruct (PI_closed _ _ P c Hc) as [B M].
    rewrite M. simpl. apply negb_true_iff, memN_false. intros Hin. apply in_map_iff in Hin.
    destruct Hin as ([k c'] & E & Hin). simpl in E. subst c'.
    destruct (J_pubs st' J k c Hin) as (x & Hx & Hid & _ & _ & Hcl).
    destruct (J_obj st' J x Hx) as (_ & _ & O3 & _). rewrite Hid, Hcl in O3. simpl in O3. congruence.
  - unfold chk_b. apply forallb_forall. intros c Hc. simpl. destruct (PI_closed _ _ P c Hc) as [B M].
    destruct (J_has_obj st' c J B) as (x & Hx & Hid).
    assert (Hcl : c_closed x = true) by (apply (unregistered_closed st' x J Hx); now rewrite Hid).
    destruct (PI_left _ _ P x Hx Hcl) as [E | [E1 E2]]; rewrite Hid in *; [now rewrite E|].
    rewrite E1, E2. apply orb_true_r.
  - unfold chk_c. apply forallb_forall. intros c Hc. simpl. destruct (C c Hc) as [C1 C2].
    apply andb_true_iff. split; apply N.leb_le; assumption.
  - unfold chk_d. rewrite reg_pub_keys_digest. apply (PI_keys _ _ P).
  - unfold chk_e. simpl d_up. destruct (reachable st'); [|reflexivity]. apply andb_true_iff. split.
    + apply forallb_forall. intros c Hc. simpl in Hc. destruct (N.eqb c 0) eqn:E0; [reflexivity|]. simpl.
      apply N.eqb_neq in E0. apply owned_ok_model; auto.
      * pose proof (J_gh st' J c Hc). lia.
      * left. now apply memN_In.
    + apply forallb_forall. intros c Hc. simpl in Hc. apply owned_ok_model; auto.
      * apply (J_gr st' J c Hc).
      * right. now apply memN_In.
Qed.

(* ---- one step of the model against the predicate ----------------------------------------------------------------- *)
Definition ob_of (st : state) (o : op) : obs := obs_of (snd (fst (step st o))) (snd (step st o)).
Lemma trace_from_cons : forall st o r,
  trace_from st (o :: r) = (o, ob_of st o, digest_of (step_st st o)) :: trace_from (step_st st o) r.
Proof. intros. unfold ob_of, step_st. simpl. destruct (step st o) as [[st' res] ev]. reflexivity. Qed.

Definition counts_le (c : N) (st st' : state) : Prop :=
  countN c (g_handles st') <= countN c (g_handles st) /\ countN c (g_rooms st') <= countN c (g_rooms st).

Lemma old_closed_step : forall ps st o c, JInv st -> PInv ps st -> In c (p_closed ps) ->
  (0 < c < m_next (step_st st o) /\ memN c (m_clients (step_st st o)) = false) /\ counts_le c st (step_st st o).
Proof.
  intros ps st o c J P Hc. destruct (PI_closed _ _ P c Hc) as [B M].
  destruct (step_shrinks st o c ltac:(lia) ltac:(lia) M) as (S1 & S2 & S3 & S4).
  unfold counts_le. repeat split; auto; lia.
Qed.
Lemma old_left_step : forall ps st o ex', JInv st -> PInv ps st ->
  (forall k, memN k (p_exempt ps) = true -> memN k ex' = true) ->
  forall c, 0 < c < m_next st -> memN c (m_clients st) = false ->
  memN c ex' = true \/ (memN c (g_handles (step_st st o)) = false /\ memN c (g_rooms (step_st st o)) = false).
Proof.
  intros ps st o ex' J P Hex c B M.
  destruct (J_has_obj st c J B) as (x & Hx & Hid).
  assert (Hcl : c_closed x = true) by (apply (unregistered_closed st x J Hx); now rewrite Hid).
  destruct (PI_left _ _ P x Hx Hcl) as [E | [E1 E2]]; rewrite Hid in *; [left; auto | right].
  destruct (step_shrinks st o c ltac:(lia) ltac:(lia) M) as (_ & S2 & S3 & _).
  apply memN_count0 in E1, E2. split; apply memN_count0; lia.
Qed.
Lemma memN_app_l : forall k a b, memN k a = true -> memN k (a ++ b) = true.
Proof. intros k a b H. apply memN_In. apply in_app_iff. left. now apply memN_In. Qed.
Lemma memN_app_r : forall k a b, memN k b = true -> memN k (a ++ b) = true.
Proof. intros k a b H. apply memN_In. apply in_app_iff. right. now apply memN_In. Qed.
Lemma sub_clients : forall st st', (forall c, shrinks c st st') -> forall c, memN c (m_clients st') = true -> memN c (m_clients st) = true.
Proof. intros st st' H c M. destruct (memN c (m_clients st)) eqn:E; [reflexivity|]. destruct (H c) as (S1 & _). rewrite (S1 E) in M. discriminate. Qed.

(* a step that registers and unregisters nobody and creates no object *)
Lemma quiet_step : forall ps st o closed' ex' w', JInv st -> PInv ps st ->
  m_clients (step_st st o) = m_clients st -> m_next (step_st st o) = m_next st ->
  Forall2 static_eq (m_objs st) (m_objs (step_st st o)) ->
  (forall c, In c closed' -> In c (p_closed ps)) ->
  (forall k, memN k (p_exempt ps) = true -> memN k ex' = true) ->
  (forall k, In k (p_waived ps) -> In k w') ->
  let ps' := {| p_closed := closed'; p_exempt := ex'; p_waived := w' |} in
  PInv ps' (step_st st o) /\ (forall c, In c (p_closed ps') -> counts_le c st (step_st st o)).
Proof.
  intros ps st o closed' ex' w' J P Ecl Enx St Hc Hex Hw ps'.
  pose proof (step_inv st o J) as J'. split; [constructor|]; simpl.
  - intros c Hin. apply (old_closed_step ps st o c J P (Hc c Hin)).
  - intros x' Hx' Hcl. destruct (J_obj _ J' x' Hx') as (O1 & O2 & _).
    apply (old_left_step ps st o ex' J P Hex); [rewrite <- Enx; lia|].
    rewrite <- Ecl. now apply (unregistered_closed _ x' J' Hx').
  - apply (nodup_keys_mono (p_waived ps)); [exact Hw|].
    apply (rk_sub _ (m_clients st) _ (m_objs st)); [exact St | rewrite Ecl; auto | apply (PI_keys _ _ P)].
  - intros c Hin. apply (old_closed_step ps st o c J P (Hc c Hin)).
Qed.

(* ---- the digest's view of the objects ---------------------------------------------------------------------- *)
Lemma has_obj_digest : forall st c, has_obj (digest_of st) c = true <-> get_obj st c <> None.
Proof.
  intros st c. unfold has_obj, get_obj. simpl. induction (m_objs st) as [|a l IH]; simpl.
  - split; [discriminate | congruence].
  - destruct (N.eqb (c_id a) c); simpl; [split; [discriminate | reflexivity] | exact IH].
Qed.
Lemma ids_of_owner_digest : forall st ow c,
  In c (ids_of_owner (digest_of st) ow) <-> exists x, In x (m_objs st) /\ c_id x = c /\ c_owner x = ow.
Proof.
  intros st ow c. unfold ids_of_owner. simpl. induction (m_objs st) as [|a l IH]; simpl.
  - split; [tauto | intros (x & [] & _)].
  - destruct (N.eqb (c_owner a) ow) eqn:E; simpl.
    + apply N.eqb_eq in E. rewrite IH. split.
      * intros [H | (x & Hx & H)]; [exists a; auto | exists x; auto].
      * intros (x & [<- | Hx] & Hid & Ho); [auto | right; exists x; auto].
    + apply N.eqb_neq in E. rewrite IH. split.
      * intros (x & Hx & H). exists x; auto.
      * intros (x & [<- | Hx] & Hid & Ho); [congruence | exists x; auto].
Qed.
Lemma owned_open_In : forall st ow c,
  In c (owned_open st ow) <-> exists x, In x (m_objs st) /\ c_id x = c /\ c_owner x = ow /\ c_closed x = false.
Proof.
  intros st ow c. unfold owned_open. rewrite in_map_iff. split.
  - intros (x & Hid & Hx). apply filter_In in Hx. destruct Hx as [Hx Hf]. apply andb_true_iff in Hf.
    destruct Hf as [H1 H2]. apply N.eqb_eq in H1. apply negb_true_iff in H2. exists x; auto.
  - intros (x & Hx & Hid & Ho & Hc). exists x. split; [exact Hid|]. apply filter_In. split; [exact Hx|].
    rewrite Ho, N.eqb_refl, Hc. reflexivity.
Qed.
Lemma closed_events_subs : forall l, closed_events (map ESubClosed l) = l.
Proof. induction l; simpl; [reflexivity | now rewrite IHl]. Qed.
Lemma get_obj_of_In : forall st x, JInv st -> In x (m_objs st) -> get_obj st (c_id x) = Some x.
Proof. intros st x J Hx. rewrite get_obj_fobj. apply nodup_fobj; [apply (J_ids st J) | exact Hx]. Qed.

Definition step_good (ps : pstate) (st : state) (o : op) : Prop :=
  PInv (pnext ps (digest_of st) o (ob_of st o)) (step_st st o) /\
  forall c, In c (p_closed (pnext ps (digest_of st) o (ob_of st o))) -> counts_le c st (step_st st o).

(* creation *)
Lemma create_good : forall ps st o x w', JInv st -> PInv ps st ->
  step_st st o = add_result st x -> c_id x = m_next st -> c_closed x = false ->
  pnext ps (digest_of st) o (ob_of st o) = {| p_closed := p_closed ps ++ []; p_exempt := p_exempt ps ++ []; p_waived := w' |} ->
  nodup_keys w' (rk (m_clients st ++ [c_id x]) (m_objs st ++ [x])) = true ->
  step_good ps st o.
Proof.
  intros ps st o x w' J P E Hid Hc Ep Hk. unfold step_good. rewrite Ep.
  pose proof (step_inv st o J) as J'.
  assert (OLD : forall c, In c (p_closed ps ++ []) ->
                (0 < c < m_next (step_st st o) /\ memN c (m_clients (step_st st o)) = false) /\ counts_le c st (step_st st o)).
  { intros c Hin. rewrite app_nil_r in Hin. apply (old_closed_step ps st o c J P Hin). }
  split; [constructor|]; simpl.
  - intros c Hin. apply OLD, Hin.
  - intros x' Hx' Hcl. rewrite E in Hx'. simpl in Hx'. apply in_app_iff in Hx'.
    destruct Hx' as [Hy | [<- | []]]; [|congruence].
    destruct (J_obj st J x' Hy) as (O1 & O2 & _).
    apply (old_left_step ps st o (p_exempt ps ++ []) J P); [intros k; now rewrite app_nil_r | lia|].
    now apply (unregistered_closed st x' J Hy).
  - rewrite E. simpl. exact Hk.
  - intros c Hin. apply OLD, Hin.
Qed.

Lemma quiet_good : forall ps st o w', JInv st -> PInv ps st ->
  m_clients (step_st st o) = m_clients st -> m_next (step_st st o) = m_next st ->
  Forall2 static_eq (m_objs st) (m_objs (step_st st o)) ->
  pnext ps (digest_of st) o (ob_of st o) = {| p_closed := p_closed ps ++ []; p_exempt := p_exempt ps ++ []; p_waived := w' |} ->
  (forall k, In k (p_waived ps) -> In k w') ->
  step_good ps st o.
Proof.
  intros ps st o w' J P E1 E2 St Ep Hw. unfold step_good. rewrite Ep.
  apply (quiet_step ps st o (p_closed ps ++ []) (p_exempt ps ++ []) w'); auto.
  - intros c. now rewrite app_nil_r.
  - intros k. now rewrite app_nil_r.
Qed.

Lemma waived_mono : forall (b : bool) (k : N * N) w k', In k' w -> In k' (if b then k :: w else w).
Proof. intros b k w k' H. destruct b; simpl; auto. Qed.

Lemma newpub_good : forall ps st s t rc, JInv st -> PInv ps st -> step_good ps st (ONewPub s t rc).
Proof.
  intros ps st s t rc J P.
  assert (Q : negb (reachable st) || rc = true -> step_good ps st (ONewPub s t rc)).
  { intros F.
    assert (Es : step st (ONewPub s t rc) = (st, RErrGateway, [])).
    { simpl. unfold new_pub. destruct (reachable st); simpl in *; [now rewrite F | reflexivity]. }
    apply (quiet_good ps st _ (if mem_key (s, t) (reg_pub_keys (digest_of st)) then (s, t) :: p_waived ps else p_waived ps)); auto.
    - unfold step_st. now rewrite Es.
    - unfold step_st. now rewrite Es.
    - unfold step_st. rewrite Es. apply static_refl.
    - unfold pnext, ob_of. rewrite Es. reflexivity.
    - intros k. apply waived_mono. }
  destruct (reachable st) eqn:R; [|apply Q; reflexivity]. destruct rc; [apply Q; reflexivity|]. clear Q.
  set (x := {| c_id := m_next st; c_kind := Pub; c_owner := s; c_sid := s; c_stream := t;
               c_handle := HLive; c_room := HLive; c_closed := false |}).
  assert (Es : step st (ONewPub s t false) = (add_result st x, ROk (m_next st), [])).
  { simpl. unfold new_pub. rewrite R. reflexivity. }
  apply (create_good ps st _ x (if mem_key (s, t) (reg_pub_keys (digest_of st)) then (s, t) :: p_waived ps else p_waived ps)); auto.
  - unfold step_st. now rewrite Es.
  - unfold pnext, ob_of. rewrite Es. reflexivity.
  - rewrite rk_app, rk_snoc_old.
    2:{ intros y Hy. destruct (J_obj st J y Hy) as (_ & O2 & _). simpl. lia. }
    simpl. rewrite memN_app1, N.eqb_refl, orb_true_r. simpl.
    apply (nodup_keys_snoc (s, t) _ (p_waived ps)).
    + intros k. apply waived_mono.
    + intros Hin. rewrite reg_pub_keys_digest. apply mem_key_In in Hin. rewrite Hin. simpl. auto.
    + apply (PI_keys _ _ P).
Qed.

Lemma newsub_good : forall ps st ow s t, JInv st -> PInv ps st -> step_good ps st (ONewSub ow s t).
Proof.
  intros ps st ow s t J P.
  assert (Q : forall r, step st (ONewSub ow s t) = (st, r, []) -> step_good ps st (ONewSub ow s t)).
  { intros r Es. apply (quiet_good ps st _ (p_waived ps)); auto.
    - unfold step_st. now rewrite Es.
    - unfold step_st. now rewrite Es.
    - unfold step_st. rewrite Es. apply static_refl.
    - unfold pnext, ob_of. rewrite Es. reflexivity. }
  destruct (pub_of (m_pubs st) (s, t)) eqn:Pb; [|apply (Q RErrTimeout); simpl; unfold new_sub; now rewrite Pb].
  destruct (reachable st) eqn:R; [|apply (Q RErrGateway); simpl; unfold new_sub; now rewrite Pb, R].
  clear Q.
  set (x := {| c_id := m_next st; c_kind := Sub; c_owner := ow; c_sid := s; c_stream := t;
               c_handle := HLive; c_room := HLive; c_closed := false |}).
  assert (Es : step st (ONewSub ow s t) = (add_result st x, ROk (m_next st), [])).
  { simpl. unfold new_sub. rewrite Pb, R. reflexivity. }
  apply (create_good ps st _ x (p_waived ps)); auto.
  - unfold step_st. now rewrite Es.
  - unfold pnext, ob_of. rewrite Es. reflexivity.
  - rewrite rk_app, rk_snoc_old.
    2:{ intros y Hy. destruct (J_obj st J y Hy) as (_ & O2 & _). simpl. lia. }
    simpl. rewrite app_nil_r. apply (PI_keys _ _ P).
Qed.

Lemma gw_good : forall ps st o, JInv st -> PInv ps st ->
  (o = OGwUp \/ exists w, o = OGwDown w) -> step_good ps st o.
Proof.
  intros ps st o J P Ho. apply (quiet_good ps st o (p_waived ps)); auto.
  - destruct Ho as [-> | [[|] ->]]; reflexivity.
  - destruct Ho as [-> | [[|] ->]]; reflexivity.
  - destruct Ho as [-> | [[|] ->]]; unfold step_st; simpl; try apply static_refl.
    apply static_map. intros y. unfold static_eq; auto.
  - destruct Ho as [-> | [[|] ->]]; reflexivity.
Qed.

Lemma close_good : forall ps st c0 rd rt, JInv st -> PInv ps st -> step_good ps st (OClose c0 rd rt).
Proof.
  intros ps st c0 rd rt J P. unfold step_good.
  pose proof (step_inv st (OClose c0 rd rt) J) as J'.
  assert (Est : step_st st (OClose c0 rd rt) = fst (close st c0 rd rt)) by apply step_st_close.
  assert (Eev : o_events (ob_of st (OClose c0 rd rt)) = snd (close st c0 rd rt)).
  { unfold ob_of. simpl. destruct (close st c0 rd rt); reflexivity. }
  set (st' := step_st st (OClose c0 rd rt)) in *.
  assert (NEW : forall c, In c (closes (digest_of st) (OClose c0 rd rt) ++ closed_events (snd (close st c0 rd rt))) ->
                c = c0 /\ get_obj st c0 <> None).
  { intros c Hin. apply in_app_iff in Hin. destruct Hin as [Hin | Hin].
    - simpl in Hin. destruct (has_obj (digest_of st) c0) eqn:H; [|destruct Hin].
      apply has_obj_digest in H. destruct Hin as [<- | []]. auto.
    - apply (close_events_ids st c0 rd rt c J Hin). }
  assert (SH : forall c, shrinks c st st') by (intros c; rewrite Est; apply close_shrinks).
  assert (CL : forall c, In c (p_closed ps ++ closes (digest_of st) (OClose c0 rd rt) ++ closed_events (snd (close st c0 rd rt))) ->
               (0 < c < m_next st' /\ memN c (m_clients st') = false) /\ counts_le c st st').
  { intros c Hin. apply in_app_iff in Hin. destruct Hin as [Hin | Hin]; [apply (old_closed_step ps st _ c J P Hin)|].
    destruct (NEW c Hin) as [-> G]. split; [split|].
    - rewrite Est, close_next by exact J. destruct (get_obj st c0) as [x|] eqn:G'; [|congruence].
      destruct (get_obj_In _ _ _ G') as [Hx Hid]. destruct (J_obj st J x Hx) as (O1 & O2 & _). lia.
    - rewrite Est. apply close_unreg; auto.
    - destruct (SH c0) as (_ & S2 & S3 & _). split; assumption. }
  unfold pnext. rewrite Eev. split; [constructor|]; simpl.
  - intros c Hin. apply CL, Hin.
  - intros x' Hx' Hcl.
    destruct (J_obj st' J' x' Hx') as (O1 & O2 & _).
    assert (B : 0 < c_id x' < m_next st) by (rewrite Est, close_next in O2 by exact J; lia).
    destruct (memN (c_id x') (m_clients st)) eqn:M.
    + assert (H : c_id x' = c0).
      { destruct (N.eq_dec (c_id x') c0) as [|Ne]; auto. exfalso.
        assert (E : memN (c_id x') (m_clients st') = memN (c_id x') (m_clients st)) by (rewrite Est; apply close_frame; auto).
        apply (unregistered_closed st' x' J' Hx') in Hcl. congruence. }
      destruct (rd || rt || negb (reachable st)) eqn:F.
      * left. apply memN_app_r. simpl. rewrite H, N.eqb_refl. reflexivity.
      * right. apply orb_false_iff in F. destruct F as [F1 F3]. apply orb_false_iff in F1. destruct F1 as [-> ->].
        apply negb_false_iff in F3. rewrite H, Est. apply close_clean; auto. now rewrite <- H.
    + apply (old_left_step ps st _ _ J P); auto. intros k. apply memN_app_l.
  - apply (rk_sub _ (m_clients st) _ (m_objs st));
      [rewrite Est; apply close_static, J | apply sub_clients, SH | apply (PI_keys _ _ P)].
  - intros c Hin. apply CL, Hin.
Qed.

Lemma closeall_good : forall ps st ow, JInv st -> PInv ps st -> step_good ps st (OCloseAll ow).
Proof.
  intros ps st ow J P. unfold step_good.
  pose proof (step_inv st (OCloseAll ow) J) as J'.
  assert (Est : step_st st (OCloseAll ow) = fst (close_list st (owned_open st ow))) by apply step_st_closeall.
  assert (Eev : o_events (ob_of st (OCloseAll ow)) = snd (close_list st (owned_open st ow))).
  { unfold ob_of. simpl. destruct (close_list st (owned_open st ow)); reflexivity. }
  set (st' := step_st st (OCloseAll ow)) in *.
  destruct (close_list_props (owned_open st ow) st J) as (I1 & I2 & I3 & I4 & I5 & I6 & I7).
  rewrite <- Est in I1, I2, I3, I4, I5, I7.
  assert (SH : forall c, shrinks c st st') by (intros c; rewrite Est; apply close_list_shrinks).
  assert (CL : forall c, In c (p_closed ps ++ closes (digest_of st) (OCloseAll ow) ++ closed_events (snd (close_list st (owned_open st ow)))) ->
               (0 < c < m_next st' /\ memN c (m_clients st') = false) /\ counts_le c st st').
  { intros c Hin. apply in_app_iff in Hin. destruct Hin as [Hin | Hin]; [apply (old_closed_step ps st _ c J P Hin)|].
    assert (X : exists x, In x (m_objs st) /\ c_id x = c /\ (In c (owned_open st ow) \/ c_closed x = true)).
    { apply in_app_iff in Hin. destruct Hin as [Hin | Hin].
      - simpl in Hin. apply ids_of_owner_digest in Hin. destruct Hin as (x & Hx & Hid & Ho).
        exists x. repeat split; auto. destruct (c_closed x) eqn:Hc; [auto | left].
        apply owned_open_In. exists x; auto.
      - apply I6 in Hin. destruct Hin as [Hin G]. destruct (get_obj st c) as [x|] eqn:G'; [|congruence].
        destruct (get_obj_In _ _ _ G') as [Hx Hid]. exists x; auto. }
    destruct X as (x & Hx & Hid & Hor).
    destruct (J_obj st J x Hx) as (O1 & O2 & _).
    split; [split|].
    - rewrite I2. lia.
    - destruct (in_dec N.eq_dec c (owned_open st ow)) as [Hl | Hl].
      + apply I5; auto. rewrite <- Hid, (get_obj_of_In st x J Hx). discriminate.
      + rewrite I4 by exact Hl. destruct Hor as [Hl' | Hc]; [tauto|].
        rewrite <- Hid. now apply (unregistered_closed st x J Hx).
    - destruct (SH c) as (_ & S2 & S3 & _). split; assumption. }
  unfold pnext. rewrite Eev. split; [constructor|]; simpl.
  - intros c Hin. apply CL, Hin.
  - intros x' Hx' Hcl.
    destruct (J_obj st' J' x' Hx') as (O1 & O2 & _).
    assert (B : 0 < c_id x' < m_next st) by (rewrite I2 in O2; lia).
    destruct (memN (c_id x') (m_clients st)) eqn:M.
    + assert (H : In (c_id x') (owned_open st ow)).
      { destruct (in_dec N.eq_dec (c_id x') (owned_open st ow)) as [|Hn]; auto. exfalso.
        apply (unregistered_closed st' x' J' Hx') in Hcl. rewrite I4 in Hcl by exact Hn. congruence. }
      destruct (reachable st) eqn:R; simpl.
      * right. apply I7; auto.
      * left. apply memN_app_r. apply memN_In. apply ids_of_owner_digest.
        apply owned_open_In in H. destruct H as (x & Hx & Hid & Ho & _). exists x; auto.
    + apply (old_left_step ps st _ _ J P); auto. intros k. apply memN_app_l.
  - apply (rk_sub _ (m_clients st) _ (m_objs st)); [exact I3 | apply sub_clients, SH | apply (PI_keys _ _ P)].
  - intros c Hin. apply CL, Hin.
Qed.

Lemma reconnect_good : forall ps st fail, JInv st -> PInv ps st -> step_good ps st (OReconnect fail).
Proof.
  intros ps st fail J P. unfold step_good.
  pose proof (step_inv st (OReconnect fail) J) as J'.
  assert (Est : step_st st (OReconnect fail) = fst (reconnect st fail)) by apply step_st_reconnect.
  assert (Eev : o_events (ob_of st (OReconnect fail)) = snd (reconnect st fail)).
  { unfold ob_of. simpl. destruct (reconnect st fail); reflexivity. }
  set (st' := step_st st (OReconnect fail)) in *.
  destruct (reconnect_exact st fail J) as (H1 & H2 & H3 & H4 & H5 & H6 & H7 & H8).
  destruct (reconnect_post st fail J) as [_ _ _ Hnx _ _ _ _ Hobjs _].
  rewrite <- Est in H1, H2, H3, H4, H5, H6, H7, Hnx, Hobjs. simpl in Hnx.
  assert (SC : forall c, memN c (m_clients st') = true -> memN c (m_clients st) = true).
  { intros c M. apply memN_In in M. apply H6 in M. apply memN_In. tauto. }
  assert (CL : forall c, In c (p_closed ps ++ closed_events (snd (reconnect st fail))) ->
               (0 < c < m_next st' /\ memN c (m_clients st') = false) /\ counts_le c st st').
  { intros c Hin. apply in_app_iff in Hin. destruct Hin as [Hin | Hin]; [apply (old_closed_step ps st _ c J P Hin)|].
    rewrite H8, closed_events_subs in Hin. apply filter_In in Hin. destruct Hin as [Hc Hs].
    pose proof (J_cl st J c Hc) as B.
    assert (NR : ~ In c (g_rooms st')).
    { rewrite H4. intros Hin. apply filter_In in Hin. destruct Hin as [_ Hr]. unfold recreated in Hr. unfold is_sub_id in Hs.
      destruct (get_obj st c) as [x|]; [|discriminate]. destruct (is_pub (c_kind x)); discriminate. }
    split; [split|].
    - rewrite Hnx. exact B.
    - apply memN_false. intros Hin. apply H6 in Hin. destruct Hin as [_ Hin]. congruence.
    - unfold counts_le. rewrite H3. simpl. assert (N.eqb c 0 = false) as -> by (apply N.eqb_neq; lia).
      rewrite (countN_notin _ _ NR). lia. }
  unfold pnext. rewrite Eev. split; [constructor|]; simpl.
  - intros c Hin. apply CL, Hin.
  - intros x' Hx' Hcl. right.
    destruct (J_obj st' J' x' Hx') as (O1 & _).
    apply (unregistered_closed st' x' J' Hx') in Hcl. apply memN_false in Hcl.
    destruct (reconnect_nothing_else st fail (c_id x') J) as [N1 N2]. rewrite <- Est in N1, N2.
    split; apply memN_false; intros Hin; [apply N1 in Hin; destruct Hin; tauto | apply N2 in Hin; tauto].
  - apply (rk_sub _ (m_clients st) _ (m_objs st)); [|exact SC | apply (PI_keys _ _ P)].
    rewrite Hobjs. simpl. eapply static_trans; [apply (static_map forget_obj) | apply static_map].
    + intros y. unfold static_eq; auto.
    + intros y. unfold recon_obj, static_eq. destruct (memN (c_id y) (m_clients st)); [|auto].
      destruct (c_kind y) eqn:K; [destruct (mem_key (ckey y) fail)|]; simpl; auto.
  - intros c Hin. apply CL, Hin.
Qed.

(* ---- (2) P_C09J holds on every trace of the model ----------------------------------------------------------- *)
Lemma step_good_all : forall ps st o, JInv st -> PInv ps st -> step_good ps st o.
Proof.
  intros ps st o J P. destruct o.
  - now apply newpub_good.
  - now apply newsub_good.
  - now apply close_good.
  - now apply closeall_good.
  - apply gw_good; eauto.
  - apply gw_good; auto.
  - now apply reconnect_good.
Qed.
Lemma P_from_model : forall ops ps st, JInv st -> PInv ps st -> P_from ps (digest_of st) (trace_from st ops) = true.
Proof.
  induction ops as [|o ops IH]; intros ps st J P; [reflexivity|].
  rewrite trace_from_cons. cbn [P_from]. destruct (step_good_all ps st o J P) as [P' C].
  pose proof (step_inv st o J) as J'.
  apply andb_true_iff. split; [|apply IH; auto].
  unfold chk_step. apply checks_ok; auto.
Qed.
Theorem P_on_every_model_trace : forall ops, P_C09J (trace_of ops) = true.
Proof. intros ops. apply (P_from_model ops pstate0 init JInv_init PInv_init). Qed.

(* ---- (4) nothing outlives its owner at the gateway -------------------------------------------------------------- *)
(* An id handed out that is out of mcu.clients stays out, for every continuation; and nothing of it is at the gateway
   at the end when nothing of it was there at the start, or when the continuation contains a reconnect. *)
Lemma bounds_kept : forall a st c, JInv st -> 0 < c < m_next st -> memN c (m_clients st) = false ->
  0 < c < m_next (run_from st a).
Proof.
  induction a as [|o a IH]; intros st c J B M; simpl; [exact B|].
  destruct (step_shrinks st o c ltac:(lia) ltac:(lia) M) as (S1 & _ & _ & S4).
  apply IH; [apply step_inv, J | lia | auto].
Qed.
Lemma gone_forever : forall ops st c, JInv st -> 0 < c < m_next st -> memN c (m_clients st) = false ->
  memN c (m_clients (run_from st ops)) = false /\
  ((memN c (g_handles st) = false /\ memN c (g_rooms st) = false) \/ (exists f, In (OReconnect f) ops) ->
   memN c (g_handles (run_from st ops)) = false /\ memN c (g_rooms (run_from st ops)) = false).
Proof.
  intros ops st c J B M. destruct (never_again ops st c ltac:(lia) ltac:(lia) M) as (N1 & _). split; [exact N1|].
  intros [[E1 E2] | (f & Hin)]; [apply never_again_nothing; auto; lia|].
  apply in_split in Hin. destruct Hin as (a & b & ->).
  rewrite run_from_app. set (sa := run_from st a).
  assert (Ja : JInv sa) by (apply run_from_inv, J).
  destruct (never_again a st c ltac:(lia) ltac:(lia) M) as (Ma & _). fold sa in Ma.
  assert (Ba : 0 < c < m_next sa) by (apply bounds_kept; auto).
  change (run_from sa (OReconnect f :: b)) with (run_from (step_st sa (OReconnect f)) b).
  set (sr := step_st sa (OReconnect f)).
  destruct (step_shrinks sa (OReconnect f) c ltac:(lia) ltac:(lia) Ma) as (S1 & _ & _ & S4). fold sr in S1, S4.
  destruct (reconnect_only_registered sa f c) as [R1 R2].
  assert (Er : sr = fst (reconnect sa f)) by apply step_st_reconnect. rewrite <- Er in R1, R2.
  pose proof (S1 Ma) as Mr. apply memN_false in Ma.
  apply never_again_nothing; auto; try lia.
  - apply memN_false. intros H. apply R1 in H. destruct H; [lia | tauto].
  - apply memN_false. intros H. apply R2 in H. tauto.
Qed.

(* OCloseAll: every client the owner had when it was executed is out of the MCU's tables at every later point, and
   nothing of it is at the gateway at any later point -- provided the gateway answered when OCloseAll was executed and
   the client was still open then (its Close was carried out), or there has been a reconnect since. *)
Theorem closeall_nothing_outlives : forall ops1 ow ops2 x,
  let st0 := run ops1 in let st2 := run (ops1 ++ OCloseAll ow :: ops2) in
  In x (m_objs st0) -> c_owner x = ow ->
  memN (c_id x) (m_clients st2) = false /\ (forall k, ~ In (k, c_id x) (m_pubs st2)) /\
  ((reachable st0 = true /\ c_closed x = false) \/ (exists f, In (OReconnect f) ops2) ->
   memN (c_id x) (g_handles st2) = false /\ memN (c_id x) (g_rooms st2) = false).
Proof.
  intros ops1 ow ops2 x st0 st2 Hx Ho.
  pose proof (reachable_inv ops1) as J0. fold st0 in J0.
  assert (E2 : st2 = run_from (step_st st0 (OCloseAll ow)) ops2) by (unfold st2; rewrite run_app; reflexivity).
  set (st1 := step_st st0 (OCloseAll ow)) in *.
  assert (J1 : JInv st1) by (apply step_inv, J0).
  assert (Est : st1 = fst (close_list st0 (owned_open st0 ow))) by apply step_st_closeall.
  destruct (close_list_props (owned_open st0 ow) st0 J0) as (I1 & I2 & I3 & I4 & I5 & I6 & I7).
  rewrite <- Est in I1, I2, I3, I4, I5, I7.
  destruct (J_obj st0 J0 x Hx) as (O1 & O2 & O3 & _).
  assert (M1 : memN (c_id x) (m_clients st1) = false).
  { destruct (c_closed x) eqn:Hc.
    - destruct (in_dec N.eq_dec (c_id x) (owned_open st0 ow)) as [Hl | Hl].
      + apply I5; auto. rewrite (get_obj_of_In st0 x J0 Hx). discriminate.
      + rewrite I4 by exact Hl. now rewrite O3.
    - apply I5; [apply owned_open_In; exists x; auto | rewrite (get_obj_of_In st0 x J0 Hx); discriminate]. }
  assert (B1 : 0 < c_id x < m_next st1) by (rewrite I2; lia).
  destruct (gone_forever ops2 st1 (c_id x) J1 B1 M1) as [G1 G2]. rewrite <- E2 in G1, G2.
  split; [exact G1|]. split.
  - intros k Hin. assert (J2 : JInv st2) by (rewrite E2; apply run_from_inv, J1).
    destruct (J_pubs st2 J2 k _ Hin) as (y & Hy & Hid & _ & _ & Hc).
    destruct (J_obj st2 J2 y Hy) as (_ & _ & Y3 & _). rewrite Hid, Hc, G1 in Y3. discriminate.
  - intros [[R Hc] | Hr]; apply G2; [left | right; exact Hr].
    apply I7; auto; [apply owned_open_In; exists x; auto | now rewrite O3, Hc].
Qed.

(* OClose c: likewise for the one client *)
Theorem close_nothing_outlives : forall ops1 c rd rt ops2,
  let st0 := run ops1 in let st2 := run (ops1 ++ OClose c rd rt :: ops2) in
  get_obj st0 c <> None ->
  memN c (m_clients st2) = false /\ (forall k, ~ In (k, c) (m_pubs st2)) /\
  ((reachable st0 = true /\ rd = false /\ rt = false /\ memN c (m_clients st0) = true) \/ (exists f, In (OReconnect f) ops2) ->
   memN c (g_handles st2) = false /\ memN c (g_rooms st2) = false).
Proof.
  intros ops1 c rd rt ops2 st0 st2 G.
  pose proof (reachable_inv ops1) as J0. fold st0 in J0.
  assert (E2 : st2 = run_from (step_st st0 (OClose c rd rt)) ops2) by (unfold st2; rewrite run_app; reflexivity).
  set (st1 := step_st st0 (OClose c rd rt)) in *.
  assert (J1 : JInv st1) by (apply step_inv, J0).
  assert (Est : st1 = fst (close st0 c rd rt)) by apply step_st_close.
  assert (M1 : memN c (m_clients st1) = false) by (rewrite Est; now apply close_unreg).
  assert (B1 : 0 < c < m_next st1).
  { rewrite Est, close_next by exact J0. destruct (get_obj st0 c) as [x|] eqn:G'; [|congruence].
    destruct (get_obj_In _ _ _ G') as [Hx Hid]. destruct (J_obj st0 J0 x Hx) as (O1 & O2 & _). lia. }
  destruct (gone_forever ops2 st1 c J1 B1 M1) as [G1 G2]. rewrite <- E2 in G1, G2.
  split; [exact G1|]. split.
  - intros k Hin. assert (J2 : JInv st2) by (rewrite E2; apply run_from_inv, J1).
    destruct (J_pubs st2 J2 k _ Hin) as (y & Hy & Hid & _ & _ & Hc).
    destruct (J_obj st2 J2 y Hy) as (_ & _ & Y3 & _). rewrite Hid, Hc, G1 in Y3. discriminate.
  - intros [(R & -> & -> & M) | Hr]; apply G2; [left | right; exact Hr].
    rewrite Est. now apply close_clean.
Qed.

(* The condition "the client was still open" cannot be dropped: a client closed earlier while the gateway did not answer
   keeps its handle and room there; a later OCloseAll of its owner, executed while the gateway answers, does not touch
   them (Close of a closed client does nothing), and they stay until the next reconnect or restart. *)
Definition leftover_history : list op :=
  [ONewPub 1 0 false; OGwDown false; OClose 1 false false; OGwUp].
Lemma closeall_while_up_all_clients_refuted :
  reachable (run leftover_history) = true /\
  (exists x, In x (m_objs (run leftover_history)) /\ c_owner x = 1 /\ c_id x = 1) /\
  let st2 := run (leftover_history ++ [OCloseAll 1]) in
  reachable st2 = true /\ memN 1 (g_handles st2) = true /\ memN 1 (g_rooms st2) = true /\ memN 1 (m_clients st2) = false.
Proof. vm_compute. repeat split; auto. eexists. split; [left; reflexivity | auto]. Qed.
