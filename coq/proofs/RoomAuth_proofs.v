(* Proofs about model/Checksum.v and model/RoomAuth.v. *)
From Coq Require Import List ZArith NArith Bool String Ascii Arith Lia Permutation.
From Verif Require Import gen.Params model.Checksum model.Throttle model.RoomAuth.
Import ListNotations.
Open Scope Z_scope.
Local Open Scope string_scope.   (* ++ is string concatenation in this file *)

(* ---- the numbers and names in the source are the ones of the protocol ---- *)
Lemma c02_params_ok :
  HeaderBackendSignalingRandom = "Spreed-Signaling-Random"%string /\
  HeaderBackendSignalingChecksum = "Spreed-Signaling-Checksum"%string /\
  HeaderBackendServer = "Spreed-Signaling-Backend"%string /\
  maxBodySize = 256 * 1024.
Proof. repeat split; reflexivity. Qed.

(* ======================= hex ======================= *)
Lemma unhex_hex_byte c r : unhex (hex_byte c r) = String c (unhex r).
Proof.
  destruct c as [[] [] [] [] [] [] [] []]; reflexivity.
Qed.

Lemma unhex_hex s : unhex (hex s) = s.
Proof.
  induction s as [|c r IH]; [reflexivity|].
  cbn [hex]. rewrite unhex_hex_byte. now rewrite IH.
Qed.

Lemma hex_inj a b : hex a = hex b -> a = b.
Proof. intros H. rewrite <- (unhex_hex a), <- (unhex_hex b). now rewrite H. Qed.

Lemma hex_length s : String.length (hex s) = (2 * String.length s)%nat.
Proof. induction s as [|c r IH]; [reflexivity|]. cbn [hex hex_byte String.length]. lia. Qed.

Lemma is_empty_false s : is_empty s = false <-> s <> EmptyString.
Proof. destruct s; cbn; split; congruence. Qed.
Lemma is_empty_true s : is_empty s = true <-> s = EmptyString.
Proof. destruct s; cbn; split; congruence. Qed.

Lemma app_shift s c r : ((s ++ String c EmptyString) ++ r = s ++ String c r)%string.
Proof. induction s as [|d s IH]; cbn; [reflexivity|]. now rewrite IH. Qed.

(* (random, body) cannot be recovered from the MAC input random ++ body *)
Lemma concat_not_injective :
  exists r1 b1 r2 b2 : bytes, (r1, b1) <> (r2, b2) /\ (r1 ++ b1 = r2 ++ b2)%string.
Proof. exists "a"%string, "b"%string, "ab"%string, ""%string. split; [congruence|reflexivity]. Qed.

(* ======================= checksum ======================= *)
Section ChecksumFacts.
  Context (hmac : bytes -> bytes -> bytes).

  Lemma validb_spec chk rnd body secret :
    validb hmac chk rnd body secret = true <-> valid hmac chk rnd body secret.
  Proof.
    unfold validb, valid, calculate. rewrite String.eqb_eq. split; congruence.
  Qed.

  Lemma validb_false chk rnd body secret :
    validb hmac chk rnd body secret = false <-> ~ valid hmac chk rnd body secret.
  Proof.
    rewrite <- validb_spec. destruct (validb hmac chk rnd body secret); split; congruence.
  Qed.
End ChecksumFacts.

(* ======================= outgoing ======================= *)
Lemma string_of_list_length l : String.length (string_of_list_ascii l) = List.length l.
Proof. induction l as [|c l IH]; cbn; congruence. Qed.

Lemma rand_read_length rand n : String.length (rand_read rand n) = n.
Proof. unfold rand_read. now rewrite string_of_list_length, map_length, seq_length. Qed.

Lemma new_random_string_length rand len :
  String.length (new_random_string rand len) = (2 * (len / 2))%nat.
Proof. unfold new_random_string. now rewrite hex_length, rand_read_length. Qed.

Lemma outgoing_checksum hmac rand body secret :
  let '(rnd, chk) := add_backend_checksum hmac rand body secret in
  valid hmac chk rnd body secret /\
  validb hmac chk rnd body secret = true /\
  rnd = hex (rand_read rand 32) /\
  String.length rnd = 64%nat /\ (32 <= String.length rnd)%nat.
Proof.
  unfold add_backend_checksum. cbv zeta.
  assert (HL : String.length (new_random_string rand outgoing_random_len) = 64%nat)
    by (rewrite new_random_string_length; reflexivity).
  split; [reflexivity|]. split; [apply validb_spec; reflexivity|]. split; [reflexivity|].
  split; [exact HL|]. rewrite HL. lia.
Qed.

Lemma string_of_list_inj l1 l2 : string_of_list_ascii l1 = string_of_list_ascii l2 -> l1 = l2.
Proof.
  intros H. rewrite <- (list_ascii_of_string_of_list_ascii l1), <- (list_ascii_of_string_of_list_ascii l2).
  now rewrite H.
Qed.

Lemma map_seq_ext {A} (f g : nat -> A) n s :
  map f (seq s n) = map g (seq s n) -> forall i, (s <= i < s + n)%nat -> f i = g i.
Proof.
  revert s. induction n as [|n IH]; intros s H i Hi; [lia|].
  cbn in H. injection H as H0 H1.
  destruct (Nat.eq_dec i s) as [->|Hne]; [exact H0|].
  apply (IH (S s) H1). lia.
Qed.

(* the header is an injective image of the 32 bytes read from the randomness source *)
Lemma outgoing_random_injective rand1 rand2 :
  new_random_string rand1 outgoing_random_len = new_random_string rand2 outgoing_random_len ->
  forall i, (i < 32)%nat -> rand1 i = rand2 i.
Proof.
  unfold new_random_string, rand_read. intros H i Hi.
  apply hex_inj, string_of_list_inj in H.
  apply (map_seq_ext rand1 rand2 _ 0%nat H). change (outgoing_random_len / 2)%nat with 32%nat. lia.
Qed.

(* ======================= room API front part ======================= *)
Lemma precheck_none q :
  precheck q = None ->
  q_post q = true /\ q_clen q <> -1 /\ q_clen q <= maxBodySize /\
  prefix "application/json" (q_ctype q) = true /\
  q_rnd q <> EmptyString /\ q_chk q <> EmptyString.
Proof.
  unfold precheck.
  destruct (q_post q); cbn [negb]; [|discriminate].
  destruct (Z.eqb_spec (q_clen q) (-1)); [discriminate|].
  destruct (Z.gtb_spec (q_clen q) maxBodySize); [discriminate|].
  destruct (prefix "application/json" (q_ctype q)); cbn [negb]; [|discriminate].
  destruct (is_empty (q_rnd q)) eqn:Hr; cbn [orb]; [discriminate|].
  destruct (is_empty (q_chk q)) eqn:Hc; [discriminate|].
  intros _. apply is_empty_false in Hr. apply is_empty_false in Hc.
  repeat split; auto; lia.
Qed.

Lemma precheck_none_intro q :
  q_post q = true -> q_clen q <> -1 -> q_clen q <= maxBodySize ->
  prefix "application/json" (q_ctype q) = true ->
  q_rnd q <> EmptyString -> q_chk q <> EmptyString -> precheck q = None.
Proof.
  intros Hp Hl Hm Hc Hr Hk. unfold precheck. rewrite Hp, Hc. cbn [negb].
  destruct (Z.eqb_spec (q_clen q) (-1)); [contradiction|].
  destruct (Z.gtb_spec (q_clen q) maxBodySize); [lia|].
  apply is_empty_false in Hr. apply is_empty_false in Hk. now rewrite Hr, Hk.
Qed.

Lemma precheck_some q r :
  precheck q = Some r -> (exists s, r = RPre s) \/ r = RNoHeaders.
Proof.
  unfold precheck.
  repeat match goal with
         | |- context [if ?c then _ else _] => destruct c
         end; intros H; inversion H; eauto.
Qed.

(* a request that passed the pre-checks but lacks nothing is answered 403 without headers only
   when a header is empty *)
Lemma precheck_noheaders q :
  precheck q = Some RNoHeaders -> q_rnd q = EmptyString \/ q_chk q = EmptyString.
Proof.
  unfold precheck.
  destruct (negb (q_post q)); [discriminate|].
  destruct (q_clen q =? -1)%Z; [discriminate|].
  destruct (q_clen q >? maxBodySize)%Z; [discriminate|].
  destruct (negb (prefix "application/json" (q_ctype q))); [discriminate|].
  destruct (is_empty (q_rnd q)) eqn:Hr; cbn [orb].
  - intros _. left. now apply is_empty_true.
  - destruct (is_empty (q_chk q)) eqn:Hc; [|discriminate]. intros _. right. now apply is_empty_true.
Qed.

Section RoomAuthFacts.
  Context (hmac : bytes -> bytes -> bytes).
  Context {url : Type} (url_parse : bytes -> option url) (get_backend : url -> option backend).
  Context (body_kind : bytes -> bkind).

  Notation checks' := (checks hmac).
  Notation resolve' := (resolve hmac url_parse get_backend).
  Notation authenticate' := (authenticate hmac url_parse get_backend).
  Notation handle' := (handle hmac url_parse get_backend).

  (* the property's acceptance condition for request q and backend b *)
  Definition mac_eq (q : request) (b : backend) : Prop :=
    q_chk q = hex (hmac (b_secret b) (q_rnd q ++ q_body q)).

  Lemma checks_spec q b : checks' q b = true <-> mac_eq q b.
  Proof. unfold checks, mac_eq. apply validb_spec. Qed.

  (* where a resolved backend comes from *)
  Definition configured (cfg : config) (q : request) (b : backend) : Prop :=
    (q_bhdr q = EmptyString /\
     (cfg_compat cfg = Some b \/ (cfg_compat cfg = None /\ In b (cfg_backends cfg))))
    \/ (q_bhdr q <> EmptyString /\
        exists u, url_parse (q_bhdr q) = Some u /\ get_backend u = Some b).

  Lemma resolve_configured cfg q b : resolve' cfg q = Some b -> configured cfg q b.
  Proof.
    unfold resolve, configured, named_backend.
    destruct (is_empty (q_bhdr q)) eqn:He.
    - apply is_empty_true in He. intros H. left. split; [exact He|].
      destruct (cfg_compat cfg) as [c|].
      + left. congruence.
      + right. split; [reflexivity|]. apply find_some in H. tauto.
    - apply is_empty_false in He. intros H. right. split; [exact He|].
      destruct (url_parse (q_bhdr q)) as [u|]; [|discriminate]. eauto.
  Qed.

  Lemma authenticate_spec cfg q b :
    authenticate' cfg q = Some b <-> resolve' cfg q = Some b /\ mac_eq q b.
  Proof.
    unfold authenticate. destruct (resolve' cfg q) as [b0|].
    - destruct (checks' q b0) eqn:Hc.
      + apply checks_spec in Hc. split.
        * intros H. injection H as <-. tauto.
        * intros [H _]. exact H.
      + split; [discriminate|]. intros [H Hm]. injection H as <-.
        apply checks_spec in Hm. congruence.
    - split; [discriminate|]. intros [H _]. discriminate.
  Qed.

  Definition blocked (th : Throttle.state) (t : Z) (a : addr) : Prop :=
    snd (Throttle.step th (OCheck t a act_room_auth)) = VBlocked.

  Lemma check_out th t a :
    snd (Throttle.step th (OCheck t a act_room_auth)) = VBlocked \/
    snd (Throttle.step th (OCheck t a act_room_auth)) = VAllowed.
  Proof. cbn. destruct (Throttle.blocked _ _); cbn; auto. Qed.

  (* complete case analysis of the handler *)
  Lemma handle_cases cfg th t a q :
    (exists r, precheck q = Some r /\ handle' cfg th t a q = (th, r)) \/
    (precheck q = None /\ blocked th t a /\ snd (handle' cfg th t a q) = RThrottled) \/
    (precheck q = None /\ ~ blocked th t a /\
     exists b, authenticate' cfg q = Some b /\
               handle' cfg th t a q = (fst (Throttle.step th (OCheck t a act_room_auth)), RAuth b)) \/
    (precheck q = None /\ ~ blocked th t a /\ authenticate' cfg q = None /\
     exists d, handle' cfg th t a q =
               (fst (Throttle.step (fst (Throttle.step th (OCheck t a act_room_auth))) (OFail t a act_room_auth)),
                RForbidden d)).
  Proof.
    unfold handle, blocked.
    destruct (precheck q) as [r|] eqn:Hp; [left; eauto|right].
    destruct (Throttle.step th (OCheck t a act_room_auth)) as [th1 v] eqn:Hs. cbn [fst snd].
    destruct (check_out th t a) as [Hb|Hb]; rewrite Hs in Hb; cbn [snd] in Hb; subst v.
    - left. auto.
    - right. destruct (authenticate' cfg q) as [b|] eqn:Ha.
      + left. repeat split; [discriminate|]. eauto.
      + right. repeat split; [discriminate|].
        destruct (Throttle.step th1 (OFail t a act_room_auth)) as [th2 v2] eqn:Hf. cbn [fst]. eauto.
  Qed.

  Lemma handle_auth_inv cfg th t a q th' b :
    handle' cfg th t a q = (th', RAuth b) ->
    precheck q = None /\ ~ blocked th t a /\ authenticate' cfg q = Some b.
  Proof.
    intros H. destruct (handle_cases cfg th t a q) as [(r & Hp & Hh)|[(Hp & Hb & Hh)|[(Hp & Hb & b' & Ha & Hh)|(Hp & Hb & Ha & d & Hh)]]].
    - rewrite Hh in H. injection H as _ ->. apply precheck_some in Hp. destruct Hp as [[s Hs]|Hs]; discriminate.
    - rewrite H in Hh. discriminate.
    - rewrite Hh in H. injection H as _ ->. auto.
    - rewrite Hh in H. discriminate.
  Qed.

  (* C02: acceptance implies the MAC equation under the secret of the resolved, configured backend *)
  Lemma room_api_accept_sound cfg th t a q th' b :
    handle' cfg th t a q = (th', RAuth b) ->
    q_post q = true /\ q_rnd q <> EmptyString /\ q_chk q <> EmptyString /\
    resolve' cfg q = Some b /\ configured cfg q b /\
    q_chk q = hex (hmac (b_secret b) (q_rnd q ++ q_body q)).
  Proof.
    intros H. apply handle_auth_inv in H. destruct H as (Hp & _ & Ha).
    apply precheck_none in Hp. apply authenticate_spec in Ha. destruct Ha as [Hr Hm].
    repeat split; try tauto. now apply resolve_configured.
  Qed.

  Lemma resolve_named cfg q u :
    q_bhdr q <> EmptyString -> url_parse (q_bhdr q) = Some u -> resolve' cfg q = get_backend u.
  Proof.
    intros He Hu. unfold resolve, named_backend. apply is_empty_false in He. now rewrite He, Hu.
  Qed.

  Lemma named_backend_binds_secret cfg th t a q th' b u B :
    q_bhdr q <> EmptyString -> url_parse (q_bhdr q) = Some u -> get_backend u = Some B ->
    handle' cfg th t a q = (th', RAuth b) ->
    b = B /\ q_chk q = hex (hmac (b_secret B) (q_rnd q ++ q_body q)).
  Proof.
    intros He Hu Hg H. apply room_api_accept_sound in H. destruct H as (_ & _ & _ & Hr & _ & Hm).
    rewrite (resolve_named cfg q u He Hu), Hg in Hr. injection Hr as ->. auto.
  Qed.

  (* a checksum made with another secret is accepted for B only if the two MACs coincide *)
  Lemma other_secret_needs_collision cfg th t a q th' b u B secretA :
    q_bhdr q <> EmptyString -> url_parse (q_bhdr q) = Some u -> get_backend u = Some B ->
    handle' cfg th t a q = (th', RAuth b) ->
    q_chk q = hex (hmac secretA (q_rnd q ++ q_body q)) ->
    hmac secretA (q_rnd q ++ q_body q) = hmac (b_secret B) (q_rnd q ++ q_body q).
  Proof.
    intros He Hu Hg H HA.
    destruct (named_backend_binds_secret cfg th t a q th' b u B He Hu Hg H) as [_ HB].
    apply hex_inj. congruence.
  Qed.

  Lemma unknown_backend_refused cfg th t a q :
    q_bhdr q <> EmptyString ->
    (url_parse (q_bhdr q) = None \/ exists u, url_parse (q_bhdr q) = Some u /\ get_backend u = None) ->
    forall b, snd (handle' cfg th t a q) <> RAuth b.
  Proof.
    intros He Hn b Hs.
    destruct (handle' cfg th t a q) as [th' r] eqn:H. cbn in Hs. subst r.
    apply room_api_accept_sound in H. destruct H as (_ & _ & _ & Hr & _).
    destruct Hn as [Hn|(u & Hu & Hg)].
    - unfold resolve, named_backend in Hr. apply is_empty_false in He. rewrite He, Hn in Hr. discriminate.
    - rewrite (resolve_named cfg q u He Hu), Hg in Hr. discriminate.
  Qed.

  (* exactly when a request is accepted *)
  Lemma accept_iff cfg th t a q b :
    precheck q = None -> ~ blocked th t a ->
    (snd (handle' cfg th t a q) = RAuth b <-> resolve' cfg q = Some b /\ mac_eq q b).
  Proof.
    intros Hp Hb. rewrite <- authenticate_spec.
    destruct (handle_cases cfg th t a q) as [(r & Hp' & _)|[(_ & Hb' & _)|[(_ & _ & b' & Ha & Hh)|(_ & _ & Ha & d & Hh)]]].
    - congruence.
    - contradiction.
    - rewrite Hh, Ha. cbn. split; congruence.
    - rewrite Hh, Ha. cbn. split; discriminate.
  Qed.

  (* C02: everything that is not accepted is silent, and is a 403 unless it failed a
     check that precedes authentication or the address is already blocked (C17) *)
  Lemma reject_is_403_and_silent cfg th t a q th' r :
    handle' cfg th t a q = (th', r) -> (forall b, r <> RAuth b) ->
    published body_kind r (q_body q) = None /\ client_event body_kind r (q_body q) = None /\
    (q_post q = true -> q_clen q <> -1 -> q_clen q <= maxBodySize ->
     prefix "application/json" (q_ctype q) = true -> r <> RThrottled ->
     status_of body_kind r (q_body q) = 403%N).
  Proof.
    intros H Hn. split; [|split].
    - destruct r; try reflexivity. exfalso. eapply Hn. reflexivity.
    - destruct r; try reflexivity. exfalso. eapply Hn. reflexivity.
    - intros Hp Hl Hm Hc Ht.
      destruct (handle_cases cfg th t a q) as [(r' & Hp' & Hh)|[(_ & _ & Hh)|[(_ & _ & b' & _ & Hh)|(_ & _ & _ & d & Hh)]]].
      + rewrite Hh in H. injection H as _ <-.
        destruct (precheck_some q r' Hp') as [[s ->] | ->]; [|reflexivity].
        exfalso. revert Hp'. unfold precheck. rewrite Hp, Hc. cbn [negb].
        destruct (Z.eqb_spec (q_clen q) (-1)); [contradiction|].
        destruct (Z.gtb_spec (q_clen q) maxBodySize); [lia|].
        destruct (is_empty (q_rnd q) || is_empty (q_chk q)); discriminate.
      + rewrite H in Hh. cbn in Hh. contradiction.
      + rewrite Hh in H. injection H as _ <-. exfalso. eapply Hn. reflexivity.
      + rewrite Hh in H. injection H as _ <-. reflexivity.
  Qed.

  (* whatever is published or reaches a client was authenticated *)
  Lemma event_needs_mac cfg th t a q th' r b :
    handle' cfg th t a q = (th', r) ->
    published body_kind r (q_body q) = Some b \/ client_event body_kind r (q_body q) = Some b ->
    r = RAuth b /\ resolve' cfg q = Some b /\
    q_chk q = hex (hmac (b_secret b) (q_rnd q ++ q_body q)).
  Proof.
    intros H E.
    assert (R : r = RAuth b).
    { destruct r as [s| | |d|b0]; cbn in E; try (destruct E; discriminate).
      destruct (body_kind (q_body q)); destruct E as [E|E]; try discriminate; now injection E as ->. }
    subst r. apply room_api_accept_sound in H. tauto.
  Qed.

  (* a refused checksum feeds the throttler; missing headers and pre-check failures do not *)
  Lemma reject_recorded cfg th t a q th' d :
    handle' cfg th t a q = (th', RForbidden d) ->
    th' = fst (Throttle.step (fst (Throttle.step th (OCheck t a act_room_auth))) (OFail t a act_room_auth)).
  Proof.
    intros H.
    destruct (handle_cases cfg th t a q) as [(r' & Hp' & Hh)|[(_ & _ & Hh)|[(_ & _ & b' & _ & Hh)|(_ & _ & _ & d' & Hh)]]].
    - rewrite Hh in H. injection H as _ ->. apply precheck_some in Hp'. destruct Hp' as [[s Hs]|Hs]; discriminate.
    - rewrite H in Hh. discriminate.
    - rewrite Hh in H. discriminate.
    - rewrite Hh in H. now injection H as <- _.
  Qed.

  (* ---- tampering ---- *)
  Definition hmac_collision : Prop :=
    exists k1 m1 k2 m2 : bytes, (k1, m1) <> (k2, m2) /\ hmac k1 m1 = hmac k2 m2.

  Lemma tamper cfg1 cfg2 th1 th2 t1 t2 a1 a2 q1 q2 th1' th2' b1 b2 :
    handle' cfg1 th1 t1 a1 q1 = (th1', RAuth b1) ->
    handle' cfg2 th2 t2 a2 q2 = (th2', RAuth b2) ->
    q_chk q1 = q_chk q2 ->
    hmac (b_secret b1) (q_rnd q1 ++ q_body q1) = hmac (b_secret b2) (q_rnd q2 ++ q_body q2).
  Proof.
    intros H1 H2 Hc.
    apply room_api_accept_sound in H1. apply room_api_accept_sound in H2.
    destruct H1 as (_ & _ & _ & _ & _ & E1). destruct H2 as (_ & _ & _ & _ & _ & E2).
    apply hex_inj. congruence.
  Qed.

  Lemma tamper_collision cfg1 cfg2 th1 th2 t1 t2 a1 a2 q1 q2 th1' th2' b1 b2 :
    handle' cfg1 th1 t1 a1 q1 = (th1', RAuth b1) ->
    handle' cfg2 th2 t2 a2 q2 = (th2', RAuth b2) ->
    q_chk q1 = q_chk q2 ->
    (b_secret b1, (q_rnd q1 ++ q_body q1)%string) <> (b_secret b2, (q_rnd q2 ++ q_body q2)%string) ->
    hmac_collision.
  Proof.
    intros H1 H2 Hc Hne. exists (b_secret b1), (q_rnd q1 ++ q_body q1)%string, (b_secret b2), (q_rnd q2 ++ q_body q2)%string.
    split; [exact Hne|]. eapply tamper; eauto.
  Qed.

  (* the known finding: moving the first byte of the body to the end of the random
     leaves the MAC input, hence the verdict, unchanged *)
  Definition shift (q : request) (c : ascii) (rest : bytes) : request :=
    {| q_post := q_post q; q_clen := q_clen q; q_ctype := q_ctype q;
       q_rnd := (q_rnd q ++ String c EmptyString)%string; q_chk := q_chk q; q_bhdr := q_bhdr q;
       q_body := rest |}.

  Lemma checks_shift q c rest b :
    q_body q = String c rest -> checks' (shift q c rest) b = checks' q b.
  Proof.
    intros Hb. unfold checks, validb, calculate. cbn [q_chk q_rnd q_body shift].
    now rewrite app_shift, Hb.
  Qed.

  Lemma find_ext {A} (f g : A -> bool) l : (forall x, f x = g x) -> find f l = find g l.
  Proof. intros H. induction l as [|x l IH]; cbn; [reflexivity|]. now rewrite H, IH. Qed.

  Lemma append_nonempty s c : (s ++ String c EmptyString)%string <> EmptyString.
  Proof. destruct s; cbn; discriminate. Qed.

  Lemma boundary_shift_accepted cfg th t a q c rest th' b :
    q_body q = String c rest ->
    handle' cfg th t a q = (th', RAuth b) ->
    handle' cfg th t a (shift q c rest) = (th', RAuth b) /\
    q_chk (shift q c rest) = q_chk q /\
    (q_rnd (shift q c rest), q_body (shift q c rest)) <> (q_rnd q, q_body q).
  Proof.
    intros Hb H. split; [|split; [reflexivity|]].
    - pose proof (handle_auth_inv _ _ _ _ _ _ _ H) as (Hp & Hbl & Ha).
      assert (Hp' : precheck (shift q c rest) = None).
      { apply precheck_none in Hp. destruct Hp as (P1 & P2 & P3 & P4 & P5 & P6).
        apply precheck_none_intro; cbn [shift q_post q_clen q_ctype q_rnd q_chk]; auto.
        apply append_nonempty. }
      assert (Ha' : authenticate' cfg (shift q c rest) = Some b).
      { revert Ha. unfold authenticate, resolve. cbn [shift q_bhdr].
        rewrite (find_ext (checks' (shift q c rest)) (checks' q)) by (intro; now apply checks_shift).
        destruct (if is_empty (q_bhdr q) then _ else _) as [b0|]; [|auto].
        now rewrite (checks_shift q c rest b0 Hb). }
      destruct (handle_cases cfg th t a (shift q c rest)) as [(r & Hq & _)|[(_ & Hq & _)|[(_ & _ & b' & Hq & Hh)|(_ & _ & Hq & _)]]];
        try congruence; try contradiction.
      destruct (handle_cases cfg th t a q) as [(r & Hq0 & _)|[(_ & Hq0 & _)|[(_ & _ & b0 & Hq0 & Hh0)|(_ & _ & Hq0 & _)]]];
        try congruence; try contradiction.
    - cbn [shift q_rnd q_body]. rewrite Hb. intros E. injection E as _ E.
      apply (f_equal String.length) in E. cbn in E. lia.
  Qed.

  (* ---- the order of GetBackends() does not matter when at most one secret validates ---- *)
  Lemma find_none_intro {A} (f : A -> bool) l : (forall x, In x l -> f x = false) -> find f l = None.
  Proof.
    induction l as [|x l IH]; cbn; [reflexivity|]. intros H.
    rewrite (H x (or_introl eq_refl)). apply IH. intros y Hy. apply H. now right.
  Qed.

  Lemma fallback_order_irrelevant q l l' :
    Permutation l l' ->
    (forall b b', In b l -> In b' l -> checks' q b = true -> checks' q b' = true -> b = b') ->
    find (checks' q) l = find (checks' q) l'.
  Proof.
    intros HP Hu.
    destruct (find (checks' q) l) as [b|] eqn:F.
    - apply find_some in F. destruct F as [Hin Hc].
      destruct (find (checks' q) l') as [b'|] eqn:F'.
      + apply find_some in F'. destruct F' as [Hin' Hc'].
        f_equal. apply Hu; auto. eapply Permutation_in; [apply Permutation_sym; exact HP|exact Hin'].
      + exfalso. eapply find_none in F'; [|eapply Permutation_in; eauto]. congruence.
    - symmetry. apply find_none_intro. intros x Hx.
      eapply find_none in F; [exact F|]. eapply Permutation_in; [apply Permutation_sym; exact HP|exact Hx].
  Qed.
End RoomAuthFacts.

(* ---- the pairwise reading of "any change to body or random yields 403" does not hold:
        a witness, computed, with a MAC that has no collisions on the strings involved ---- *)
Definition toy_hmac (k m : bytes) : bytes := (k ++ "|" ++ m)%string.
Definition wit_backend : backend := {| b_id := 1; b_secret := "s3cret" |}.
Definition wit_cfg : config := {| cfg_compat := None; cfg_backends := [wit_backend] |}.
Definition wit_q1 : request :=
  {| q_post := true; q_clen := 2; q_ctype := "application/json"; q_rnd := "0123456789abcdef0123456789abcdef";
     q_chk := hex (toy_hmac "s3cret" "0123456789abcdef0123456789abcdef{}"); q_bhdr := ""; q_body := "{}" |}.
Definition wit_q2 : request :=
  {| q_post := true; q_clen := 1; q_ctype := "application/json"; q_rnd := "0123456789abcdef0123456789abcdef{";
     q_chk := q_chk wit_q1; q_bhdr := ""; q_body := "}" |}.

Lemma tamper_pairwise_refuted :
  exists (hm : bytes -> bytes -> bytes) cfg q1 q2 b,
    (q_rnd q1, q_body q1) <> (q_rnd q2, q_body q2) /\ q_chk q1 = q_chk q2 /\
    snd (handle hm (fun _ : bytes => @None unit) (fun _ => None) cfg Throttle.init 0 (A4 1) q1) = RAuth b /\
    snd (handle hm (fun _ : bytes => @None unit) (fun _ => None) cfg Throttle.init 0 (A4 1) q2) = RAuth b /\
    (* the two MAC inputs are the same string: no collision is involved *)
    (q_rnd q1 ++ q_body q1 = q_rnd q2 ++ q_body q2)%string.
Proof.
  exists toy_hmac, wit_cfg, wit_q1, wit_q2, wit_backend.
  split; [vm_compute; congruence|]. repeat split; vm_compute; reflexivity.
Qed.
