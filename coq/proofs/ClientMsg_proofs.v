(* Lemmas about model/ClientMsg.v: what CheckValid guarantees, that the repaired
   dispatch never dereferences nil, the witnesses for the code as found, what a
   connection without session can reach, what the handlers may rely on. *)
From Coq Require Import List ZArith NArith String Bool Ascii Lia.
From Verif Require Import gen.Params gen.Schema lib.Json lib.Decode model.ClientMsg proofs.Decode_proofs.
Import ListNotations.
Open Scope string_scope.
Open Scope list_scope.

(* ---- the types are what the generated schema resolves to ---------------------------------------- *)
Definition recipient_fields : list (string * string * gty) :=
  [("Type", "type", TString); ("SessionId", "sessionid", TString); ("UserId", "userid", TString)].
Definition message_fields : list (string * string * gty) :=
  [("Recipient", "recipient", TStruct recipient_fields); ("Data", "data", TRaw)].
Definition int_t : gty := TInt (-9223372036854775808) 9223372036854775807.
Definition u32_t : gty := TInt 0 4294967295.
Definition client_fields : list (string * string * gty) :=
  [("Id", "id", TString); ("Type", "type", TString);
   ("Hello", "hello", TPtr (TStruct
      [("Version", "version", TString); ("ResumeId", "resumeid", TString); ("Features", "features", TSlice TString);
       ("Auth", "auth", TPtr (TStruct [("Type", "type", TString); ("Params", "params", TRaw); ("Url", "url", TString)]))]));
   ("Bye", "bye", TPtr (TStruct []));
   ("Room", "room", TPtr (TStruct
      [("RoomId", "roomid", TString); ("SessionId", "sessionid", TString);
       ("Federation", "federation", TPtr (TStruct
          [("SignalingUrl", "signaling", TString); ("NextcloudUrl", "url", TString); ("RoomId", "roomid", TString); ("Token", "token", TString)]))]));
   ("Message", "message", TPtr (TStruct message_fields));
   ("Control", "control", TPtr (TStruct message_fields));
   ("Internal", "internal", TPtr (TStruct
      [("Type", "type", TString);
       ("AddSession", "addsession", TPtr (TStruct
          [("SessionId", "sessionid", TString); ("RoomId", "roomid", TString); ("UserId", "userid", TString); ("User", "user", TRaw);
           ("Flags", "flags", u32_t); ("InCall", "incall", TPtr int_t);
           ("Options", "options", TPtr (TStruct [("ActorId", "actorId", TString); ("ActorType", "actorType", TString)]))]));
       ("UpdateSession", "updatesession", TPtr (TStruct
          [("SessionId", "sessionid", TString); ("RoomId", "roomid", TString); ("Flags", "flags", TPtr u32_t); ("InCall", "incall", TPtr int_t)]));
       ("RemoveSession", "removesession", TPtr (TStruct
          [("SessionId", "sessionid", TString); ("RoomId", "roomid", TString); ("UserId", "userid", TString)]));
       ("InCall", "incall", TPtr (TStruct [("InCall", "incall", int_t)]));
       ("Dialout", "dialout", TPtr (TStruct
          [("Type", "type", TString); ("RoomId", "roomid", TString);
           ("Error", "error", TPtr (TStruct [("Code", "code", TString); ("Message", "message", TString); ("Details", "details", TRaw)]));
           ("Status", "status", TPtr (TStruct
              [("CallId", "callid", TString); ("Status", "status", TString); ("Cause", "cause", TString); ("Code", "code", int_t);
               ("Message", "message", TString)]))]))]));
   ("TransientData", "transient", TPtr (TStruct
      [("Type", "type", TString); ("Key", "key", TString); ("Value", "value", TRaw); ("TTL", "ttl", int_t)]))].

Lemma ty_client_eq : ty_client = TStruct client_fields.
Proof. vm_compute. reflexivity. Qed.

Lemma ty_params_eq :
  ty_v2params = TStruct [("Token", "token", TString)] /\
  ty_fedparams = TStruct [("Token", "token", TString)] /\
  ty_intparams = TStruct [("Random", "random", TString); ("Token", "token", TString); ("Backend", "backend", TString)] /\
  ty_mcudata = TStruct [("Type", "type", TString); ("Sid", "sid", TString); ("RoomType", "roomType", TString);
                        ("Payload", "payload", TMap TIface); ("Bitrate", "bitrate", int_t);
                        ("AudioCodec", "audiocodec", TString); ("VideoCodec", "videocodec", TString);
                        ("VP9Profile", "vp9profile", TString); ("H264Profile", "h264profile", TString)].
Proof. vm_compute. repeat split; reflexivity. Qed.

Lemma size_limit_eq : c10_maxMessageSize = 65536%Z.
Proof. reflexivity. Qed.

(* ---- small tactics ------------------------------------------------------------------------------------ *)
Ltac dgoal :=
  match goal with
  | |- context [match ?x with _ => _ end] => destruct x eqn:?
  end.
Ltac dhyp H :=
  match type of H with
  | context [match ?x with _ => _ end] => destruct x eqn:?
  end.

Lemma eqs_true : forall a b, eqs a b = true -> a = b.
Proof. intros a b H. now apply String.eqb_eq. Qed.
Lemma eqs_refl : forall a, eqs a a = true.
Proof. intros. apply String.eqb_refl. Qed.

Section Facts.
  Context (url_ok requri_ok sdp_ok : string -> bool).
  Notation check_valid := (check_valid url_ok requri_ok).
  Notation check_hello := (check_hello url_ok requri_ok).
  Notation check_room := (check_room url_ok).
  Notation check_federation := (check_federation url_ok).
  Notation classify := (classify url_ok requri_ok sdp_ok).
  Notation dispatch := (dispatch sdp_ok).

  (* ---- CheckValid: the sub-object of the type is there and has been checked ---------------------- *)
  Lemma check_sub_ok : forall f chk v p, check_sub f chk v = COk p ->
    exists s, deref (fld f v) = Some s /\ chk s = COk p.
  Proof. unfold check_sub. intros f chk v p H. destruct (deref (fld f v)) as [s|]; [eauto | discriminate]. Qed.

  Lemma cv_type_nonempty : forall m p, check_valid m = COk p -> sfld "Type" m <> "".
  Proof.
    intros m p H E. unfold ClientMsg.check_valid in H. rewrite E in H. cbn in H. discriminate.
  Qed.

  Ltac cv_case ty :=
    intros m p H E; apply eqs_true in E; unfold ClientMsg.check_valid in H; rewrite E in H; cbn in H;
    now apply check_sub_ok in H.

  Lemma cv_hello : forall m p, check_valid m = COk p -> eqs (sfld "Type" m) "hello" = true ->
    exists h, deref (fld "Hello" m) = Some h /\ check_hello h = COk p.
  Proof. cv_case "hello". Qed.
  Lemma cv_room : forall m p, check_valid m = COk p -> eqs (sfld "Type" m) "room" = true ->
    exists r, deref (fld "Room" m) = Some r /\ check_room r = COk p.
  Proof. cv_case "room". Qed.
  Lemma cv_message : forall m p, check_valid m = COk p -> eqs (sfld "Type" m) "message" = true ->
    exists x, deref (fld "Message" m) = Some x /\ check_message x = COk p.
  Proof. cv_case "message". Qed.
  Lemma cv_control : forall m p, check_valid m = COk p -> eqs (sfld "Type" m) "control" = true ->
    exists x, deref (fld "Control" m) = Some x /\ check_message x = COk p.
  Proof. cv_case "control". Qed.
  Lemma cv_internal : forall m p, check_valid m = COk p -> eqs (sfld "Type" m) "internal" = true ->
    exists x, deref (fld "Internal" m) = Some x /\ check_internal x = COk p.
  Proof. cv_case "internal". Qed.
  Lemma cv_transient : forall m p, check_valid m = COk p -> eqs (sfld "Type" m) "transient" = true ->
    exists x, deref (fld "TransientData" m) = Some x /\ check_transient x = COk p.
  Proof. cv_case "transient". Qed.

  (* ---- what check_hello establishes ---------------------------------------------------------------------- *)
  Lemma check_token_params_fields : forall t params p q, check_token_params t params p = COk q ->
    p_auth_type q = p_auth_type p /\ p_url q = p_url p /\ p_backend q = p_backend p /\ sfld "Token" (p_params q) <> "".
  Proof.
    unfold check_token_params. intros t params p q H.
    destruct (std_unmarshal t params) as [v|]; [|discriminate].
    destruct (eqs (sfld "Token" v) "") eqn:E; [discriminate|].
    inversion H; subst; cbn. repeat split; auto. intros E'. rewrite E' in E. cbn in E. discriminate.
  Qed.

  Definition hello_ok (h : gval) (p : parsed) : Prop :=
    (sfld "Version" h = "1.0" \/ sfld "Version" h = "2.0") /\
    (sfld "ResumeId" h = "" ->
     exists a, deref (fld "Auth" h) = Some a /\ (exists params, as_raw (fld "Params" a) = Some params) /\
       ((p_auth_type p = "client" \/ p_auth_type p = "federation") /\ p_url p = true /\
        sfld "Url" a <> "" /\ requri_ok (sfld "Url" a) = true /\
        (sfld "Version" h = "2.0" -> sfld "Token" (p_params p) <> "")
        \/
        p_auth_type p = "internal" /\ p_backend p = true /\
        sfld "Backend" (p_params p) <> "" /\ url_ok (sfld "Backend" (p_params p)) = true)).

  Lemma version_cases : forall v, negb (eqs v "1.0" || eqs v "2.0") = false -> v = "1.0" \/ v = "2.0".
  Proof.
    intros v H. apply negb_false_iff, orb_true_iff in H as [H|H]; apply eqs_true in H; auto.
  Qed.

  Lemma neq_of_eqs_false : forall a b, eqs a b = false -> a <> b.
  Proof. intros a b H E. subst. rewrite eqs_refl in H. discriminate. Qed.

  Lemma check_hello_ok : forall h p, check_hello h = COk p -> hello_ok h p.
  Proof.
    unfold ClientMsg.check_hello, hello_ok. intros h p H.
    destruct (negb (eqs (sfld "Version" h) "1.0" || eqs (sfld "Version" h) "2.0")) eqn:Ev; [discriminate|].
    apply version_cases in Ev. split; [exact Ev|]. intros Er.
    rewrite Er in H. cbn [eqs String.eqb negb] in H.
    destruct (deref (fld "Auth" h)) as [a|]; [|discriminate].
    destruct (as_raw (fld "Params" a)) as [params|] eqn:Ep; [|discriminate].
    exists a. split; [reflexivity|]. split; [eauto|].
    set (ty := if eqs (sfld "Type" a) "" then "client" else sfld "Type" a) in *.
    destruct (eqs ty "client" || eqs ty "federation") eqn:Ecf.
    - left.
      destruct (eqs (sfld "Url" a) "") eqn:Eu; [discriminate|].
      destruct (negb (requri_ok (sfld "Url" a))) eqn:Eq; [discriminate|].
      apply negb_false_iff in Eq. apply neq_of_eqs_false in Eu.
      assert (Hty : ty = "client" \/ ty = "federation").
      { apply orb_true_iff in Ecf as [E|E]; apply eqs_true in E; auto. }
      destruct (eqs (sfld "Version" h) "1.0") eqn:E1.
      + inversion H; subst; cbn. repeat split; auto.
        intros E2. apply eqs_true in E1. rewrite E1 in E2. discriminate.
      + destruct (eqs ty "client");
          apply check_token_params_fields in H as (Ha & Hu & Hb & Ht); cbn in Ha, Hu, Hb;
          rewrite Ha, Hu; repeat split; auto.
    - right.
      destruct (eqs ty "internal") eqn:Ei; [|discriminate].
      destruct (std_unmarshal ty_intparams params) as [v|]; [|discriminate].
      destruct (eqs (sfld "Backend" v) "") eqn:Eb; [discriminate|].
      destruct (negb (url_ok (sfld "Backend" v))) eqn:Eo; [discriminate|].
      inversion H; subst; cbn. apply eqs_true in Ei. apply negb_false_iff in Eo. apply neq_of_eqs_false in Eb.
      repeat split; auto.
  Qed.

  Lemma check_federation_ok : forall f p, check_federation f = COk p ->
    p_fed_sig p = true /\ p_fed_nc p = true /\ sfld "SignalingUrl" f <> "" /\
    p_signaling p = with_slash (sfld "SignalingUrl" f) /\ url_ok (p_signaling p) = true /\
    sfld "NextcloudUrl" f <> "" /\ url_ok (sfld "NextcloudUrl" f) = true /\ sfld "Token" f <> "".
  Proof.
    unfold ClientMsg.check_federation. intros f p H.
    destruct (eqs (sfld "SignalingUrl" f) "") eqn:E1; [discriminate|].
    destruct (negb (url_ok (with_slash (sfld "SignalingUrl" f)))) eqn:E2; [discriminate|].
    destruct (eqs (sfld "NextcloudUrl" f) "") eqn:E3; [discriminate|].
    destruct (negb (url_ok (sfld "NextcloudUrl" f))) eqn:E4; [discriminate|].
    destruct (eqs (sfld "Token" f) "") eqn:E5; [discriminate|].
    inversion H; subst; cbn.
    apply negb_false_iff in E2, E4. apply neq_of_eqs_false in E1, E3, E5. repeat split; auto.
  Qed.

  Lemma check_room_ok : forall r p f, check_room r = COk p -> deref (fld "Federation" r) = Some f ->
    check_federation f = COk p.
  Proof. unfold ClientMsg.check_room. intros r p f H E. now rewrite E in H. Qed.

  Definition recipient_ok (ty sid uid : string) : Prop :=
    ty = "room" \/ ty = "call" \/ (ty = "session" /\ sid <> "") \/ (ty = "user" /\ uid <> "").

  Lemma check_message_ok : forall x p, check_message x = COk p ->
    (exists d, as_raw (fld "Data" x) = Some d) /\
    recipient_ok (sfld "Type" (fld "Recipient" x)) (sfld "SessionId" (fld "Recipient" x)) (sfld "UserId" (fld "Recipient" x)).
  Proof.
    unfold check_message, recipient_ok. intros x p H.
    destruct (as_raw (fld "Data" x)) as [d|]; [|discriminate]. split; [eauto|].
    set (rc := fld "Recipient" x) in *.
    destruct (eqs (sfld "Type" rc) "room" || eqs (sfld "Type" rc) "call") eqn:E1.
    { apply orb_true_iff in E1 as [E|E]; apply eqs_true in E; auto. }
    destruct (eqs (sfld "Type" rc) "session") eqn:E2.
    { destruct (eqs (sfld "SessionId" rc) "") eqn:E; [discriminate|].
      apply eqs_true in E2. apply neq_of_eqs_false in E. auto. }
    destruct (eqs (sfld "Type" rc) "user") eqn:E3; [|discriminate].
    destruct (eqs (sfld "UserId" rc) "") eqn:E; [discriminate|].
    apply eqs_true in E3. apply neq_of_eqs_false in E. auto 6.
  Qed.

  Lemma check_common_ok : forall s p, check_common s = COk p -> sfld "SessionId" s <> "" /\ sfld "RoomId" s <> "".
  Proof.
    unfold check_common. intros s p H.
    destruct (eqs (sfld "SessionId" s) "") eqn:E1; [discriminate|].
    destruct (eqs (sfld "RoomId" s) "") eqn:E2; [discriminate|].
    split; now apply neq_of_eqs_false.
  Qed.

  Definition dialout_ok (d : gval) : Prop :=
    sfld "Type" d <> "" /\
    (sfld "Type" d = "error" -> exists e, deref (fld "Error" d) = Some e) /\
    (sfld "Type" d = "status" -> exists s, deref (fld "Status" d) = Some s).

  Lemma check_dialout_ok : forall d p, check_dialout d = COk p -> dialout_ok d.
  Proof.
    unfold check_dialout, dialout_ok. intros d p H.
    destruct (eqs (sfld "Type" d) "") eqn:E0; [discriminate|]. apply neq_of_eqs_false in E0.
    destruct (eqs (sfld "Type" d) "error") eqn:E1.
    { apply eqs_true in E1. destruct (deref (fld "Error" d)) as [e|]; [|discriminate].
      repeat split; eauto. intros E. rewrite E1 in E. discriminate. }
    destruct (eqs (sfld "Type" d) "status") eqn:E2.
    { apply eqs_true in E2. destruct (deref (fld "Status" d)) as [s|]; [|discriminate].
      repeat split; eauto. intros E. rewrite E2 in E. discriminate. }
    apply neq_of_eqs_false in E1, E2. repeat split; auto; intros E; contradiction.
  Qed.

  (* the sub-object the switch of processInternalMsg dereferences *)
  Definition internal_ok (i : gval) : Prop :=
    sfld "Type" i <> "" /\
    (sfld "Type" i = "addsession" -> exists s, deref (fld "AddSession" i) = Some s /\ sfld "SessionId" s <> "" /\ sfld "RoomId" s <> "") /\
    (sfld "Type" i = "updatesession" -> exists s, deref (fld "UpdateSession" i) = Some s /\ sfld "SessionId" s <> "" /\ sfld "RoomId" s <> "") /\
    (sfld "Type" i = "removesession" -> exists s, deref (fld "RemoveSession" i) = Some s /\ sfld "SessionId" s <> "" /\ sfld "RoomId" s <> "") /\
    (sfld "Type" i = "incall" -> exists s, deref (fld "InCall" i) = Some s) /\
    (sfld "Type" i = "dialout" -> exists d, deref (fld "Dialout" i) = Some d /\ dialout_ok d).

  Lemma check_internal_ok : forall i p, check_internal i = COk p -> internal_ok i.
  Proof.
    unfold check_internal, internal_ok. intros i p H.
    destruct (eqs (sfld "Type" i) "") eqn:E0; [discriminate|]. apply neq_of_eqs_false in E0.
    split; [exact E0|].
    destruct (eqs (sfld "Type" i) "addsession") eqn:E1.
    { apply eqs_true in E1. apply check_sub_ok in H as (s & Hs & Hc). apply check_common_ok in Hc as [].
      rewrite E1. repeat split; intros E; try discriminate. eauto. }
    destruct (eqs (sfld "Type" i) "updatesession") eqn:E2.
    { apply eqs_true in E2. apply check_sub_ok in H as (s & Hs & Hc). apply check_common_ok in Hc as [].
      rewrite E2. repeat split; intros E; try discriminate. eauto. }
    destruct (eqs (sfld "Type" i) "removesession") eqn:E3.
    { apply eqs_true in E3. apply check_sub_ok in H as (s & Hs & Hc). apply check_common_ok in Hc as [].
      rewrite E3. repeat split; intros E; try discriminate. eauto. }
    destruct (eqs (sfld "Type" i) "incall") eqn:E4.
    { apply eqs_true in E4. apply check_sub_ok in H as (s & Hs & Hc).
      rewrite E4. repeat split; intros E; try discriminate. eauto. }
    destruct (eqs (sfld "Type" i) "dialout") eqn:E5.
    { apply eqs_true in E5. apply check_sub_ok in H as (s & Hs & Hc). apply check_dialout_ok in Hc.
      rewrite E5. repeat split; intros E; try discriminate. eauto. }
    apply neq_of_eqs_false in E1, E2, E3, E4, E5. repeat split; intros E; contradiction.
  Qed.

  Lemma check_transient_ok : forall t p, check_transient t = COk p ->
    (sfld "Type" t = "set" \/ sfld "Type" t = "remove") -> sfld "Key" t <> "".
  Proof.
    unfold check_transient. intros t p H Hty.
    assert (E : eqs (sfld "Type" t) "set" || eqs (sfld "Type" t) "remove" = true).
    { destruct Hty as [-> | ->]; reflexivity. }
    rewrite E in H. destruct (eqs (sfld "Key" t) "") eqn:Ek; [discriminate|]. now apply neq_of_eqs_false.
  Qed.

  (* ---- the handlers do not dereference nil after CheckValid ----------------------------------------------- *)
  Lemma enter_hello_safe : forall m p, check_valid m = COk p -> eqs (sfld "Type" m) "hello" = true ->
    enter_hello m p <> VPanic.
  Proof.
    intros m p Hcv Ety. destruct (cv_hello m p Hcv Ety) as (h & Hh & Hc).
    apply check_hello_ok in Hc as (Hv & Hauth).
    unfold enter_hello. rewrite Hh.
    destruct (negb (eqs (sfld "ResumeId" h) "")) eqn:Er; [discriminate|].
    apply negb_false_iff, eqs_true in Er. destruct (Hauth Er) as (a & Ha & _ & Hcase). rewrite Ha.
    destruct Hcase as [([E|E] & Hu & _) | (E & Hb & _)]; rewrite E; cbn [eqs String.eqb orb Ascii.eqb Bool.eqb andb];
      try rewrite Hu; try rewrite Hb; cbn [negb];
      destruct (negb (eqs (sfld "Version" h) "1.0" || eqs (sfld "Version" h) "2.0")); discriminate.
  Qed.

  Lemma enter_room_safe : forall m p, check_valid m = COk p -> eqs (sfld "Type" m) "room" = true ->
    enter_room m p <> VPanic.
  Proof.
    intros m p Hcv Ety. destruct (cv_room m p Hcv Ety) as (r & Hr & Hc).
    unfold enter_room. rewrite Hr.
    destruct (eqs (sfld "RoomId" r) ""); [discriminate|].
    destruct (deref (fld "Federation" r)) as [f|] eqn:Ef; [|discriminate].
    apply (check_room_ok r p f Hc) in Ef. apply check_federation_ok in Ef as (Hs & _). rewrite Hs. discriminate.
  Qed.

  (* storePendingMessage -> IsChatRefresh: data.Chat is only dereferenced when it is not nil *)
  Lemma is_chat_refresh_some : forall data, exists r, is_chat_refresh data = Some r.
  Proof.
    intros data. unfold is_chat_refresh.
    destruct (std_unmarshal ty_srvdata data) as [d|]; [|eauto].
    destruct (negb (eqs (sfld "Type" d) "chat") || is_nil (fld "Chat" d)) eqn:E; [eauto|].
    apply orb_false_iff in E as [_ E].
    destruct (fld "Chat" d) eqn:Ef; cbn in E; try discriminate; cbn [deref]; eauto.
  Qed.

  Lemma forward_safe : forall st rtype sid uid data c, forward st rtype sid uid data c <> VPanic.
  Proof.
    intros. unfold forward. destruct (is_chat_refresh_some data) as [r ->].
    destruct (reaches_offline st rtype sid uid && delivered rtype data); discriminate.
  Qed.

  Lemma enter_message_safe : forall st m p, check_valid m = COk p -> eqs (sfld "Type" m) "message" = true ->
    enter_message sdp_ok st m <> VPanic.
  Proof.
    intros st m p Hcv Ety. destruct (cv_message m p Hcv Ety) as (x & Hx & _).
    unfold enter_message. rewrite Hx. repeat dgoal; try discriminate; apply forward_safe.
  Qed.

  Lemma enter_control_safe : forall st m p, check_valid m = COk p -> eqs (sfld "Type" m) "control" = true ->
    enter_control st m <> VPanic.
  Proof.
    intros st m p Hcv Ety. destruct (cv_control m p Hcv Ety) as (x & Hx & _).
    unfold enter_control. rewrite Hx. repeat dgoal; discriminate.
  Qed.

  Lemma internal_switch_safe : forall m i pre, deref (fld "Internal" m) = Some i -> internal_ok i ->
    internal_switch m pre <> VPanic.
  Proof.
    intros m i pre Hi (H0 & Ha & Hu & Hr & Hc & Hd). unfold internal_switch. rewrite Hi.
    destruct (eqs (sfld "Type" i) "addsession") eqn:E1.
    { apply eqs_true in E1. destruct (Ha E1) as (s & -> & _). discriminate. }
    destruct (eqs (sfld "Type" i) "updatesession") eqn:E2.
    { apply eqs_true in E2. destruct (Hu E2) as (s & -> & _). discriminate. }
    destruct (eqs (sfld "Type" i) "removesession") eqn:E3.
    { apply eqs_true in E3. destruct (Hr E3) as (s & -> & _). discriminate. }
    destruct (eqs (sfld "Type" i) "incall") eqn:E4.
    { apply eqs_true in E4. destruct (Hc E4) as (s & ->). discriminate. }
    destruct (eqs (sfld "Type" i) "dialout") eqn:E5.
    { apply eqs_true in E5. destruct (Hd E5) as (d & -> & (_ & _ & Hs)).
      destruct (eqs (sfld "Type" d) "status") eqn:E6; [|discriminate].
      apply eqs_true in E6. destruct (Hs E6) as (s & ->). discriminate. }
    destruct pre; discriminate.
  Qed.

  Lemma response_handler_fixed : forall m i, deref (fld "Internal" m) = Some i ->
    exists r, response_handler true m = Some r /\
      (forall d c, r = (Some d, c) -> sfld "Type" i = "dialout" /\ d = fld "Dialout" i /\ exists dv, deref d = Some dv).
  Proof.
    intros m i Hi. unfold response_handler. rewrite Hi. cbn [andb].
    destruct (negb (eqs (sfld "Type" i) "dialout")) eqn:Et; cbn [orb].
    { eexists; split; [reflexivity|]. intros d c E. discriminate. }
    apply negb_false_iff, eqs_true in Et.
    destruct (deref (fld "Dialout" i)) as [dv|] eqn:Ed.
    - eexists; split; [reflexivity|]. intros d c E. inversion E; subst. eauto.
    - eexists; split; [reflexivity|]. intros d c E. discriminate.
  Qed.

  Lemma enter_internal_safe : forall st m p, check_valid m = COk p -> eqs (sfld "Type" m) "internal" = true ->
    enter_internal true st m <> VPanic.
  Proof.
    intros st m p Hcv Ety. destruct (cv_internal m p Hcv Ety) as (i & Hi & Hc).
    apply check_internal_ok in Hc. unfold enter_internal.
    destruct (ss_kind st); try discriminate.
    destruct (negb (eqs (msg_id m) "") && mem (msg_id m) (ss_pending st)).
    - destruct (response_handler_fixed m i Hi) as (r & -> & _).
      destruct r as [[d|] [|]]; try discriminate; now apply internal_switch_safe with i.
    - now apply internal_switch_safe with i.
  Qed.

  Lemma enter_transient_safe : forall st m p, check_valid m = COk p -> eqs (sfld "Type" m) "transient" = true ->
    enter_transient st m <> VPanic.
  Proof.
    intros st m p Hcv Ety. destruct (cv_transient m p Hcv Ety) as (x & Hx & _).
    unfold enter_transient. rewrite Hx. destruct (negb (ss_inroom st)); discriminate.
  Qed.

  Lemma enter_proxy_safe : forall m p, check_valid m = COk p -> enter_proxy m <> VPanic.
  Proof.
    intros m p Hcv. unfold enter_proxy.
    destruct (eqs (sfld "Type" m) "message") eqn:E; [|discriminate].
    destruct (cv_message m p Hcv E) as (x & -> & _). discriminate.
  Qed.

  Lemma dispatch_safe : forall st m p, check_valid m = COk p -> dispatch true st m p <> VPanic.
  Proof.
    intros st m p Hcv. unfold ClientMsg.dispatch.
    destruct (ss_kind st) eqn:Ek.
    - destruct (eqs (sfld "Type" m) "hello") eqn:E; [now apply enter_hello_safe | discriminate].
    - destruct (negb (eqs (sfld "Type" m) "room" || eqs (sfld "Type" m) "hello" || eqs (sfld "Type" m) "bye") && ss_federated st).
      { now apply enter_proxy_safe with p. }
      destruct (eqs (sfld "Type" m) "room") eqn:E1; [now apply enter_room_safe|].
      destruct (eqs (sfld "Type" m) "message") eqn:E2; [now apply enter_message_safe with p|].
      destruct (eqs (sfld "Type" m) "control") eqn:E3; [now apply enter_control_safe with p|].
      destruct (eqs (sfld "Type" m) "internal") eqn:E4; [now apply enter_internal_safe with p|].
      destruct (eqs (sfld "Type" m) "transient") eqn:E5; [now apply enter_transient_safe with p|].
      destruct (eqs (sfld "Type" m) "bye"); discriminate.
    - destruct (negb (eqs (sfld "Type" m) "room" || eqs (sfld "Type" m) "hello" || eqs (sfld "Type" m) "bye") && ss_federated st).
      { now apply enter_proxy_safe with p. }
      destruct (eqs (sfld "Type" m) "room") eqn:E1; [now apply enter_room_safe|].
      destruct (eqs (sfld "Type" m) "message") eqn:E2; [now apply enter_message_safe with p|].
      destruct (eqs (sfld "Type" m) "control") eqn:E3; [now apply enter_control_safe with p|].
      destruct (eqs (sfld "Type" m) "internal") eqn:E4; [now apply enter_internal_safe with p|].
      destruct (eqs (sfld "Type" m) "transient") eqn:E5; [now apply enter_transient_safe with p|].
      destruct (eqs (sfld "Type" m) "bye"); discriminate.
  Qed.

  Theorem no_panic : forall st i, classify repaired st i <> VPanic.
  Proof.
    intros st [| | |j]; unfold ClientMsg.classify; try discriminate.
    destruct (negb (skipped_ok ty_client j)); [discriminate|].
    destruct (decode ty_client (zero ty_client) j) as [m|]; [|discriminate].
    destruct (check_valid m) as [p|c] eqn:Hcv; [|discriminate].
    cbn [repaired fx_label fx_dialout negb andb].
    now apply dispatch_safe.
  Qed.

  (* ---- invalid input is inert ---------------------------------------------------------------------------------- *)
  Definition rejected (j : json) : option (string * string) :=
    if negb (skipped_ok ty_client j) then Some ("invalid_format", "")
    else match decode ty_client (zero ty_client) j with
         | Err _ => Some ("invalid_format", "")
         | Ok m => match check_valid m with
                   | CErr c => Some (code_text c, msg_id m)
                   | COk _ => None
                   end
         end.

  Theorem invalid_is_inert : forall fx st j r, rejected j = Some r ->
    effect_of (classify fx st (IDoc j)) = {| e_replies := [r]; e_calls := []; e_exit := false; e_closed := false |}.
  Proof.
    intros fx st j r H. unfold rejected in H. cbn [ClientMsg.classify].
    destruct (negb (skipped_ok ty_client j)); [inversion H; reflexivity|].
    destruct (decode ty_client (zero ty_client) j) as [m|]; [|inversion H; reflexivity].
    destruct (check_valid m) as [p|c]; [discriminate|]. inversion H; reflexivity.
  Qed.

  Theorem undecodable_is_inert : forall fx st i, i = IBad \/ i = IBinary ->
    effect_of (classify fx st i) = {| e_replies := [("invalid_format", "")]; e_calls := []; e_exit := false; e_closed := false |}.
  Proof. intros fx st i [-> | ->]; reflexivity. Qed.

  (* valid input is never answered by this layer itself, except with the two
     errors of the session state (hello_expected, not_in_room), the media payload
     validation and the two unreachable defaults *)
  Theorem accepted_not_rejected : forall fx st j, rejected j = None ->
    exists m p, decode ty_client (zero ty_client) j = Ok m /\ check_valid m = COk p /\
      classify fx st (IDoc j) =
        (if negb (fx_label fx) && negb (utf8_valid (sfld "Type" m)) then VPanic else dispatch (fx_dialout fx) st m p).
  Proof.
    intros fx st j H. unfold rejected in H. cbn [ClientMsg.classify].
    destruct (negb (skipped_ok ty_client j)); [discriminate|].
    destruct (decode ty_client (zero ty_client) j) as [m|]; [|discriminate].
    destruct (check_valid m) as [p|c] eqn:E; [|discriminate]. exists m, p. auto.
  Qed.

  (* ---- before hello ---------------------------------------------------------------------------------------------- *)
  Definition prehello_verdict (v : verdict) : Prop :=
    match v with
    | VTooLarge | VDecodeError | VError _ _ => True
    | VDispatch [CHello _ _ _] => True
    | _ => False
    end.

  Theorem prehello_only_hello : forall st i, ss_kind st = SNone -> prehello_verdict (classify repaired st i).
  Proof.
    intros st [| | |j] Hk; unfold ClientMsg.classify; try exact I.
    destruct (negb (skipped_ok ty_client j)); [exact I|].
    destruct (decode ty_client (zero ty_client) j) as [m|]; [|exact I].
    destruct (check_valid m) as [p|c] eqn:Hcv; [|exact I].
    cbn [repaired fx_label fx_dialout negb andb].
    unfold ClientMsg.dispatch. rewrite Hk.
    destruct (eqs (sfld "Type" m) "hello") eqn:E; [|exact I].
    pose proof (enter_hello_safe m p Hcv E) as Hsafe.
    unfold enter_hello in *. repeat dgoal; cbn; auto.
  Qed.

  Theorem prehello_hello_type : forall st j cs, ss_kind st = SNone ->
    classify repaired st (IDoc j) = VDispatch cs ->
    exists m, decode ty_client (zero ty_client) j = Ok m /\ sfld "Type" m = "hello".
  Proof.
    intros st j cs Hk H. unfold ClientMsg.classify in H.
    destruct (negb (skipped_ok ty_client j)); [discriminate|].
    destruct (decode ty_client (zero ty_client) j) as [m|]; [|discriminate].
    destruct (check_valid m) as [p|c]; [|discriminate].
    cbn [repaired fx_label fx_dialout negb andb] in H.
    unfold ClientMsg.dispatch in H. rewrite Hk in H.
    destruct (eqs (sfld "Type" m) "hello") eqn:E; [|discriminate].
    exists m. split; [reflexivity|]. now apply eqs_true.
  Qed.

  (* ---- what the handlers may rely on ------------------------------------------------------------------------------- *)
  Definition hello_req_ok (version : string) (h : hello_req) : Prop :=
    match h with
    | HResume id => id <> ""
    | HClient v2 fed url params token =>
        url <> "" /\ requri_ok url = true /\ (v2 = true <-> version = "2.0") /\ (v2 = true -> token <> "")
    | HInternal random token backend => backend <> "" /\ url_ok backend = true
    end.

  Definition call_ok (c : call) : Prop :=
    match c with
    | CHello version _ h => (version = "1.0" \/ version = "2.0") /\ hello_req_ok version h
    | CRoom roomid _ (Some (sig, nc, _, token)) =>
        roomid <> "" /\ sig <> "" /\ last_char sig = Some "/"%char /\ url_ok sig = true /\ nc <> "" /\ url_ok nc = true /\ token <> ""
    | CRoom _ _ None => True
    | CMessage ty sid uid _ mcu =>
        recipient_ok ty sid uid /\
        match mcu with Some d => check_mcudata sdp_ok d = None | None => True end
    | CControl ty sid uid _ => recipient_ok ty sid uid
    | CInternal ty sub =>
        ty <> "" /\
        (ty = "addsession" \/ ty = "updatesession" \/ ty = "removesession" -> sfld "SessionId" sub <> "" /\ sfld "RoomId" sub <> "") /\
        (ty = "dialout" -> dialout_ok sub)
    | CResponse id d => id <> "" /\ exists dv, deref d = Some dv /\ dialout_ok dv
    | CTransient ty key _ _ => ty = "set" \/ ty = "remove" -> key <> ""
    | CBye | CProxy _ | CStore _ => True
    end.

  Lemma with_slash_last : forall s, s <> "" -> last_char (with_slash s) = Some "/"%char.
  Proof.
    intros s Hs. unfold with_slash. destruct (last_char s) as [c|] eqn:E.
    - destruct (Ascii.eqb c "/"%char) eqn:Ec; [apply Ascii.eqb_eq in Ec; now subst|].
      clear E Ec Hs. induction s as [|a r IH]; [reflexivity|].
      cbn [append last_char]. destruct r; [reflexivity|]. cbn [append] in *. exact IH.
    - destruct s as [|a r]; [contradiction|]. exfalso. clear Hs. revert a E.
      induction r as [|b r IH]; intros a E; cbn in E; [discriminate|]. now apply (IH b).
  Qed.

  Lemma with_slash_nonempty : forall s, s <> "" -> with_slash s <> "".
  Proof.
    intros s Hs E. apply with_slash_last in Hs. rewrite E in Hs. discriminate.
  Qed.

  Lemma enter_hello_complete : forall m p cs, check_valid m = COk p -> eqs (sfld "Type" m) "hello" = true ->
    enter_hello m p = VDispatch cs -> Forall call_ok cs.
  Proof.
    intros m p cs Hcv Ety H. destruct (cv_hello m p Hcv Ety) as (h & Hh & Hc).
    apply check_hello_ok in Hc as (Hv & Hauth).
    unfold enter_hello in H. rewrite Hh in H.
    destruct (negb (eqs (sfld "ResumeId" h) "")) eqn:Er.
    { inversion H; subst. constructor; [|constructor]. cbn. split; [exact Hv|].
      apply negb_true_iff in Er. now apply neq_of_eqs_false. }
    apply negb_false_iff, eqs_true in Er. destruct (Hauth Er) as (a & Ha & _ & Hcase). rewrite Ha in H.
    destruct Hcase as [(Hty & Hu & Hurl & Hq & Htok) | (E & Hb & Hbk & Hbo)].
    - assert (Ecf : eqs (p_auth_type p) "client" || eqs (p_auth_type p) "federation" = true).
      { destruct Hty as [-> | ->]; reflexivity. }
      rewrite Ecf, Hu in H.
      destruct (negb (eqs (sfld "Version" h) "1.0" || eqs (sfld "Version" h) "2.0")); [discriminate|].
      cbn [negb] in H. inversion H; subst. constructor; [|constructor]. cbn. split; [exact Hv|].
      repeat split; auto.
      + intros E. now apply eqs_true.
      + intros ->. reflexivity.
      + intros E. apply eqs_true in E. auto.
    - rewrite E in H. cbn [eqs String.eqb orb Ascii.eqb Bool.eqb andb] in H. rewrite Hb in H. cbn [negb] in H.
      inversion H; subst. constructor; [|constructor]. cbn. auto.
  Qed.

  Lemma enter_room_complete : forall m p cs, check_valid m = COk p -> eqs (sfld "Type" m) "room" = true ->
    enter_room m p = VDispatch cs -> Forall call_ok cs.
  Proof.
    intros m p cs Hcv Ety H. destruct (cv_room m p Hcv Ety) as (r & Hr & Hc).
    unfold enter_room in H. rewrite Hr in H.
    destruct (eqs (sfld "RoomId" r) "") eqn:Eid.
    { inversion H; subst. repeat constructor. }
    destruct (deref (fld "Federation" r)) as [f|] eqn:Ef.
    - pose proof (check_room_ok r p f Hc Ef) as Hf. apply check_federation_ok in Hf as (Hs & _ & H1 & H2 & H3 & H4 & H5 & H6).
      rewrite Hs in H. cbn [negb] in H. inversion H; subst. constructor; [|constructor]. cbn.
      apply neq_of_eqs_false in Eid. rewrite H2 in *. repeat split; auto.
      + now apply with_slash_nonempty.
      + now apply with_slash_last.
    - inversion H; subst. repeat constructor.
  Qed.

  Lemma forward_complete : forall st rtype sid uid data c cs, call_ok c ->
    forward st rtype sid uid data c = VDispatch cs -> Forall call_ok cs.
  Proof.
    intros st rtype sid uid data c cs Hc H. unfold forward in H.
    destruct (reaches_offline st rtype sid uid && delivered rtype data).
    - destruct (is_chat_refresh data); [|discriminate]. inversion H; subst. repeat constructor. exact Hc.
    - inversion H; subst. repeat constructor. exact Hc.
  Qed.

  Lemma enter_message_complete : forall st m p cs, check_valid m = COk p -> eqs (sfld "Type" m) "message" = true ->
    enter_message sdp_ok st m = VDispatch cs -> Forall call_ok cs.
  Proof.
    intros st m p cs Hcv Ety H. destruct (cv_message m p Hcv Ety) as (x & Hx & Hc).
    apply check_message_ok in Hc as (_ & Hrc).
    unfold enter_message in H. rewrite Hx in H.
    repeat dhyp H; try discriminate;
      first [ apply forward_complete in H; [exact H | cbn; auto]
            | inversion H; subst; constructor; try constructor; cbn; auto ].
  Qed.

  Lemma enter_control_complete : forall st m p cs, check_valid m = COk p -> eqs (sfld "Type" m) "control" = true ->
    enter_control st m = VDispatch cs -> Forall call_ok cs.
  Proof.
    intros st m p cs Hcv Ety H. destruct (cv_control m p Hcv Ety) as (x & Hx & Hc).
    apply check_message_ok in Hc as (_ & Hrc).
    unfold enter_control in H. rewrite Hx in H.
    destruct (to_self _ _ _ _) in H; [discriminate|].
    destruct (reaches_offline _ _ _ _ && delivered _ _) in H; inversion H; subst;
      repeat first [apply Forall_nil | apply Forall_cons]; first [exact Hrc | exact I].
  Qed.

  Lemma internal_switch_complete : forall m i pre cs, deref (fld "Internal" m) = Some i -> internal_ok i ->
    Forall call_ok pre -> internal_switch m pre = VDispatch cs -> Forall call_ok cs.
  Proof.
    intros m i pre cs Hi (H0 & Ha & Hu & Hr & Hc & Hd) Hpre H. unfold internal_switch in H. rewrite Hi in H.
    assert (Hadd : forall ty sub, (ty = "addsession" \/ ty = "updatesession" \/ ty = "removesession" -> sfld "SessionId" sub <> "" /\ sfld "RoomId" sub <> "") ->
                   ty <> "" -> ty <> "dialout" -> Forall call_ok (pre ++ [CInternal ty sub])).
    { intros ty sub Hs Hne Hnd. apply Forall_app. split; [exact Hpre|]. constructor; [|constructor].
      unfold call_ok. split; [exact Hne|]. split; [exact Hs|]. intros E. contradiction. }
    destruct (eqs (sfld "Type" i) "addsession") eqn:E1.
    { apply eqs_true in E1. destruct (Ha E1) as (s & Hs & Hk). rewrite Hs in H. inversion H; subst.
      rewrite E1. apply Hadd; [intros _; exact Hk | discriminate | discriminate]. }
    destruct (eqs (sfld "Type" i) "updatesession") eqn:E2.
    { apply eqs_true in E2. destruct (Hu E2) as (s & Hs & Hk). rewrite Hs in H. inversion H; subst.
      rewrite E2. apply Hadd; [intros _; exact Hk | discriminate | discriminate]. }
    destruct (eqs (sfld "Type" i) "removesession") eqn:E3.
    { apply eqs_true in E3. destruct (Hr E3) as (s & Hs & Hk). rewrite Hs in H. inversion H; subst.
      rewrite E3. apply Hadd; [intros _; exact Hk | discriminate | discriminate]. }
    destruct (eqs (sfld "Type" i) "incall") eqn:E4.
    { apply eqs_true in E4. destruct (Hc E4) as (s & Hs). rewrite Hs in H. inversion H; subst.
      rewrite E4. apply Hadd; [intros HH; destruct HH as [E|[E|E]]; discriminate E | discriminate | discriminate]. }
    destruct (eqs (sfld "Type" i) "dialout") eqn:E5.
    { apply eqs_true in E5. destruct (Hd E5) as (d & Hdd & Hok). rewrite Hdd in H.
      assert (Hres : Forall call_ok (pre ++ [CInternal (sfld "Type" i) d])).
      { apply Forall_app. split; [exact Hpre|]. constructor; [|constructor]. unfold call_ok. rewrite E5.
        split; [discriminate|]. split; [intros HH; destruct HH as [E|[E|E]]; discriminate E | intros _; exact Hok]. }
      destruct (eqs (sfld "Type" d) "status").
      - destruct (deref (fld "Status" d)); [|discriminate]. inversion H; subst. exact Hres.
      - inversion H; subst. exact Hres. }
    destruct pre; [discriminate|]. inversion H; subst. exact Hpre.
  Qed.

  Lemma enter_internal_complete : forall st m p cs, check_valid m = COk p -> eqs (sfld "Type" m) "internal" = true ->
    enter_internal true st m = VDispatch cs -> Forall call_ok cs.
  Proof.
    intros st m p cs Hcv Ety H. destruct (cv_internal m p Hcv Ety) as (i & Hi & Hc).
    apply check_internal_ok in Hc. unfold enter_internal in H.
    destruct (ss_kind st); try discriminate.
    destruct (negb (eqs (msg_id m) "") && mem (msg_id m) (ss_pending st)) eqn:Ep.
    - apply andb_true_iff in Ep as [Eid _]. apply negb_true_iff, neq_of_eqs_false in Eid.
      destruct (response_handler_fixed m i Hi) as (r & Hr & Hspec). rewrite Hr in H.
      destruct r as [[d|] c].
      + destruct (Hspec d c eq_refl) as (Et & -> & dv & Hdv).
        destruct Hc as (H0 & Ha & Hu & Hrm & Hic & Hd). destruct (Hd Et) as (d' & Hd' & Hok).
        rewrite Hd' in Hdv. inversion Hdv; subst d'.
        assert (Hresp : Forall call_ok [CResponse (msg_id m) (fld "Dialout" i)]).
        { constructor; [|constructor]. cbn. split; [exact Eid|]. eauto. }
        destruct c.
        * inversion H; subst. exact Hresp.
        * eapply internal_switch_complete; eauto. repeat split; auto.
      + eapply internal_switch_complete; eauto.
    - eapply internal_switch_complete; eauto.
  Qed.

  Lemma enter_transient_complete : forall st m p cs, check_valid m = COk p -> eqs (sfld "Type" m) "transient" = true ->
    enter_transient st m = VDispatch cs -> Forall call_ok cs.
  Proof.
    intros st m p cs Hcv Ety H. destruct (cv_transient m p Hcv Ety) as (x & Hx & Hc).
    unfold enter_transient in H. rewrite Hx in H. destruct (negb (ss_inroom st)); [discriminate|].
    inversion H; subst. constructor; [|constructor]. cbn. now apply check_transient_ok with p.
  Qed.

  Lemma enter_proxy_complete : forall m cs, enter_proxy m = VDispatch cs -> Forall call_ok cs.
  Proof.
    intros m cs H. unfold enter_proxy in H. repeat dhyp H; try discriminate; inversion H; subst; repeat constructor.
  Qed.

  Theorem dispatch_complete : forall st i cs, classify repaired st i = VDispatch cs -> Forall call_ok cs.
  Proof.
    intros st [| | |j] cs H; unfold ClientMsg.classify in H; try discriminate.
    destruct (negb (skipped_ok ty_client j)); [discriminate|].
    destruct (decode ty_client (zero ty_client) j) as [m|]; [|discriminate].
    destruct (check_valid m) as [p|c] eqn:Hcv; [|discriminate].
    cbn [repaired fx_label fx_dialout negb andb] in H.
    unfold ClientMsg.dispatch in H.
    assert (Hrest : (if negb (eqs (sfld "Type" m) "room" || eqs (sfld "Type" m) "hello" || eqs (sfld "Type" m) "bye") && ss_federated st
                     then enter_proxy m
                     else if eqs (sfld "Type" m) "room" then enter_room m p
                     else if eqs (sfld "Type" m) "message" then enter_message sdp_ok st m
                     else if eqs (sfld "Type" m) "control" then enter_control st m
                     else if eqs (sfld "Type" m) "internal" then enter_internal true st m
                     else if eqs (sfld "Type" m) "transient" then enter_transient st m
                     else if eqs (sfld "Type" m) "bye" then VDispatch [CBye] else VIgnored) = VDispatch cs -> Forall call_ok cs).
    { intros H'.
      destruct (negb (eqs (sfld "Type" m) "room" || eqs (sfld "Type" m) "hello" || eqs (sfld "Type" m) "bye") && ss_federated st).
      { now apply enter_proxy_complete with m. }
      destruct (eqs (sfld "Type" m) "room") eqn:E1; [now apply enter_room_complete with m p|].
      destruct (eqs (sfld "Type" m) "message") eqn:E2; [now apply enter_message_complete with st m p|].
      destruct (eqs (sfld "Type" m) "control") eqn:E3; [now apply enter_control_complete with st m p|].
      destruct (eqs (sfld "Type" m) "internal") eqn:E4; [now apply enter_internal_complete with st m p|].
      destruct (eqs (sfld "Type" m) "transient") eqn:E5; [now apply enter_transient_complete with st m p|].
      destruct (eqs (sfld "Type" m) "bye"); [|discriminate]. inversion H'; subst. repeat constructor. }
    destruct (ss_kind st).
    - destruct (eqs (sfld "Type" m) "hello") eqn:E; [now apply enter_hello_complete with m p | discriminate].
    - now apply Hrest.
    - now apply Hrest.
  Qed.

  (* ---- nothing is looped back to the sender ---------------------------------------------------------------------------
     Whatever the tree (any fixes), the state and the frame: a call that reaches the forwarding part of
     processMessageMsg / processControlMsg never names the sender itself as recipient (own session id, own
     non-empty user id) - such frames end in VIgnored (or in the error of the media validation) before any
     table of the hub is consulted.  The one exception is what the code does on purpose: media signalling
     addressed to the own session id is handed to the media server (publishing). *)
  Definition not_to_self (st : session_state) (c : call) : Prop :=
    match c with
    | CControl rt sid uid _ => to_self st rt sid uid = false
    | CMessage rt sid uid _ None => to_self st rt sid uid = false
    | CMessage rt sid uid _ (Some d) => to_self st rt sid uid = false \/ eqs rt "session" && mcu_direct d = true
    | _ => True
    end.

  Lemma enter_message_nts : forall st m cs, enter_message sdp_ok st m = VDispatch cs -> Forall (not_to_self st) cs.
  Proof.
    intros st m cs H. unfold enter_message, forward in H. cbv zeta in H.
    repeat dhyp H; try discriminate; inversion H; subst; repeat first [apply Forall_cons | apply Forall_nil]; cbn; auto.
  Qed.

  Lemma enter_control_nts : forall st m cs, enter_control st m = VDispatch cs -> Forall (not_to_self st) cs.
  Proof.
    intros st m cs H. unfold enter_control in H. cbv zeta in H.
    repeat dhyp H; try discriminate; inversion H; subst; repeat constructor; cbn; auto.
  Qed.

  Lemma internal_switch_nts : forall st m pre cs, Forall (not_to_self st) pre ->
    internal_switch m pre = VDispatch cs -> Forall (not_to_self st) cs.
  Proof.
    intros st m pre cs Hp H. unfold internal_switch in H. cbv zeta in H.
    repeat dhyp H; try discriminate; inversion H; subst;
      first [ assumption | apply Forall_app; split; [assumption | repeat constructor] ].
  Qed.

  Lemma enter_internal_nts : forall fixed st m cs, enter_internal fixed st m = VDispatch cs -> Forall (not_to_self st) cs.
  Proof.
    intros fixed st m cs H. unfold enter_internal in H. cbv zeta in H.
    repeat dhyp H; try discriminate;
      first [ apply (internal_switch_nts st m _ cs) in H;
                [exact H | first [apply Forall_nil | apply Forall_cons; [exact I | apply Forall_nil]]]
            | inversion H; subst; apply Forall_cons; [exact I | apply Forall_nil] ].
  Qed.

  Lemma simple_nts : forall st cs, Forall (fun c => match c with CMessage _ _ _ _ _ | CControl _ _ _ _ => False | _ => True end) cs ->
    Forall (not_to_self st) cs.
  Proof.
    intros st cs H. induction H as [|c l Hc _ IH]; constructor; [|exact IH]. destruct c; cbn; auto; contradiction.
  Qed.

  Theorem not_looped : forall fx st i cs, classify fx st i = VDispatch cs -> Forall (not_to_self st) cs.
  Proof.
    intros fx st [| | |j] cs H; unfold ClientMsg.classify in H; try discriminate.
    destruct (negb (skipped_ok ty_client j)); [discriminate|].
    destruct (decode ty_client (zero ty_client) j) as [m|]; [|discriminate].
    destruct (check_valid m) as [p|c] eqn:Hcv; [|discriminate].
    destruct (negb (fx_label fx) && negb (utf8_valid (sfld "Type" m))); [discriminate|].
    unfold ClientMsg.dispatch in H.
    assert (Hrest : (if negb (eqs (sfld "Type" m) "room" || eqs (sfld "Type" m) "hello" || eqs (sfld "Type" m) "bye") && ss_federated st
                     then enter_proxy m
                     else if eqs (sfld "Type" m) "room" then enter_room m p
                     else if eqs (sfld "Type" m) "message" then enter_message sdp_ok st m
                     else if eqs (sfld "Type" m) "control" then enter_control st m
                     else if eqs (sfld "Type" m) "internal" then enter_internal (fx_dialout fx) st m
                     else if eqs (sfld "Type" m) "transient" then enter_transient st m
                     else if eqs (sfld "Type" m) "bye" then VDispatch [CBye] else VIgnored) = VDispatch cs -> Forall (not_to_self st) cs).
    { intros H'.
      destruct (negb (eqs (sfld "Type" m) "room" || eqs (sfld "Type" m) "hello" || eqs (sfld "Type" m) "bye") && ss_federated st).
      { apply simple_nts. unfold enter_proxy in H'. repeat dhyp H'; try discriminate; inversion H'; subst; repeat constructor. }
      destruct (eqs (sfld "Type" m) "room").
      { apply simple_nts. unfold enter_room in H'. repeat dhyp H'; try discriminate; inversion H'; subst; repeat constructor. }
      destruct (eqs (sfld "Type" m) "message"); [now apply enter_message_nts with m|].
      destruct (eqs (sfld "Type" m) "control"); [now apply enter_control_nts with m|].
      destruct (eqs (sfld "Type" m) "internal"); [now apply enter_internal_nts with (fx_dialout fx) m|].
      destruct (eqs (sfld "Type" m) "transient").
      { apply simple_nts. unfold enter_transient in H'. repeat dhyp H'; try discriminate; inversion H'; subst; repeat constructor. }
      destruct (eqs (sfld "Type" m) "bye"); [|discriminate]. inversion H'; subst. repeat constructor. }
    destruct (ss_kind st).
    - destruct (eqs (sfld "Type" m) "hello"); [|discriminate].
      apply simple_nts. unfold enter_hello in H. cbv zeta in H. repeat dhyp H; try discriminate; inversion H; subst; repeat constructor.
    - now apply Hrest.
    - now apply Hrest.
  Qed.

  (* the other direction, at the handlers: a control message to the sender itself is dropped whatever else it says;
     a message to the sender itself is dropped, refused by the media validation, or handed to the media server *)
  Lemma self_control_dropped : forall st m c,
    deref (fld "Control" m) = Some c ->
    to_self st (sfld "Type" (fld "Recipient" c)) (sfld "SessionId" (fld "Recipient" c)) (sfld "UserId" (fld "Recipient" c)) = true ->
    enter_control st m = VIgnored.
  Proof. intros st m c Hc Hs. unfold enter_control. rewrite Hc. cbv zeta. rewrite Hs. reflexivity. Qed.

  Lemma self_message_dropped : forall st m mm,
    deref (fld "Message" m) = Some mm ->
    to_self st (sfld "Type" (fld "Recipient" mm)) (sfld "SessionId" (fld "Recipient" mm)) (sfld "UserId" (fld "Recipient" mm)) = true ->
    match enter_message sdp_ok st m with
    | VIgnored | VError _ _ => True
    | VDispatch [CMessage rt _ _ _ (Some d)] => ss_mcu st = true /\ eqs rt "session" && mcu_direct d = true
    | _ => False
    end.
  Proof.
    intros st m mm Hm Hs. unfold enter_message. rewrite Hm. cbv zeta. rewrite Hs.
    destruct (ss_mcu st && _) eqn:Hl; [|exact I].
    destruct (std_unmarshal ty_mcudata _) as [d|]; [|exact I].
    destruct (check_mcudata sdp_ok d); [exact I|].
    destruct (eqs _ "session" && mcu_direct d) eqn:Hd; [|exact I].
    split; [|exact Hd]. apply andb_prop in Hl. tauto.
  Qed.

  (* ---- the request waiting for the dialout response is always answered ------------------------------------------------ *)
  Lemma api_outcome_ok : forall d dv, deref d = Some dv -> dialout_ok dv -> exists c, api_outcome d = AStatus c.
  Proof.
    intros d dv Hd (_ & _ & Hs). unfold api_outcome. rewrite Hd.
    destruct (eqs (sfld "Type" dv) "error"); [eauto|].
    destruct (eqs (sfld "Type" dv) "status") eqn:E; [|eauto].
    apply eqs_true in E. destruct (Hs E) as (s & ->). destruct (eqs (sfld "Status" s) "accepted"); eauto.
  Qed.

  Theorem api_answered : forall st i cs id d, classify repaired st i = VDispatch cs -> In (CResponse id d) cs ->
    exists c, api_outcome d = AStatus c.
  Proof.
    intros st i cs id d H Hin. apply dispatch_complete in H. rewrite Forall_forall in H.
    specialize (H _ Hin). cbn in H. destruct H as (_ & dv & Hd & Hok). now apply api_outcome_ok with dv.
  Qed.
End Facts.

(* ---- the code as found ------------------------------------------------------------------------------------------------------ *)
Definition any_ok (_ : string) : bool := true.
Definition st_pending : session_state :=
  {| ss_kind := SInternal; ss_federated := false; ss_pending := ["PENDING"]; ss_mcu := true; ss_inroom := false;
     ss_self := "int1"; ss_self_user := "";
     ss_offline := []; ss_offline_users := []; ss_offline_room := false; ss_offline_call := false |}.
Definition st_fresh : session_state :=
  {| ss_kind := SNone; ss_federated := false; ss_pending := []; ss_mcu := true; ss_inroom := false;
     ss_self := ""; ss_self_user := "";
     ss_offline := []; ss_offline_users := []; ss_offline_room := false; ss_offline_call := false |}.

(* {"id":"PENDING","type":"internal","internal":{"type":"incall","incall":{"incall":1}}} *)
Definition w_dialout : input :=
  IDoc (JObj [("id", JStr "PENDING"); ("type", JStr "internal");
              ("internal", JObj [("type", JStr "incall"); ("incall", JObj [("incall", JNum 1)])])]).
(* the same with an unvalidated "dialout":{"type":"status"} next to it *)
Definition w_status : input :=
  IDoc (JObj [("id", JStr "PENDING"); ("type", JStr "internal");
              ("internal", JObj [("type", JStr "incall"); ("incall", JObj [("incall", JNum 1)]);
                                 ("dialout", JObj [("type", JStr "status")])])]).
(* {"type":"\xff"}: a message of an unknown type whose name is not valid UTF-8 *)
Definition w_label : input := IDoc (JObj [("type", JStr (String (ascii_of_nat 255) ""))]).

Lemma w_dialout_panics :
  classify any_ok any_ok any_ok {| fx_dialout := false; fx_label := true |} st_pending w_dialout = VPanic.
Proof. vm_compute. reflexivity. Qed.

Lemma w_label_panics :
  classify any_ok any_ok any_ok {| fx_dialout := true; fx_label := false |} st_fresh w_label = VPanic.
Proof. vm_compute. reflexivity. Qed.

Lemma w_status_no_reply : exists id d cs,
  classify any_ok any_ok any_ok {| fx_dialout := false; fx_label := true |} st_pending w_status = VDispatch (CResponse id d :: cs) /\
  api_outcome d = ANoReply.
Proof. do 3 eexists. split; vm_compute; reflexivity. Qed.

Lemma witnesses_repaired :
  classify any_ok any_ok any_ok repaired st_pending w_dialout = VDispatch [CInternal "incall" (GStruct [("InCall", GInt 1)])] /\
  classify any_ok any_ok any_ok repaired st_pending w_status = VDispatch [CInternal "incall" (GStruct [("InCall", GInt 1)])] /\
  classify any_ok any_ok any_ok repaired st_fresh w_label = VError EHelloExpected "".
Proof. repeat split; vm_compute; reflexivity. Qed.

(* ---- non-vacuity ---------------------------------------------------------------------------------------------------------------- *)
Definition st_room : session_state :=
  {| ss_kind := SClient; ss_federated := false; ss_pending := []; ss_mcu := true; ss_inroom := true;
     ss_self := "me"; ss_self_user := "u1";
     ss_offline := ["gone"]; ss_offline_users := ["u9"]; ss_offline_room := true; ss_offline_call := false |}.
Definition ex_message : json :=
  JObj [("id", JStr "m1"); ("type", JStr "message");
        ("message", JObj [("recipient", JObj [("type", JStr "session"); ("sessionid", JStr "abc")]); ("data", JObj [("x", JNum 1)])])].
Definition ex_hello : json :=
  JObj [("id", JStr "h"); ("type", JStr "hello");
        ("hello", JObj [("version", JStr "2.0"); ("auth", JObj [("url", JStr "https://cloud/"); ("params", JObj [("token", JStr "a.b.c")])])])].
Definition ex_invalid : list json :=
  [JNull; JObj []; JObj [("type", JStr "room")]; JObj [("type", JNum 1)];
   JObj [("type", JStr "message"); ("message", JObj [("recipient", JObj [("type", JStr "session")]); ("data", JNum 1)])];
   JObj [("type", JStr "hello"); ("hello", JObj [("version", JStr "3.0")])];
   JObj [("type", JStr "bye"); ("x", Nat.iter 10001 (fun j => JArr [j]) JNull)]].

Lemma examples_ok :
  classify any_ok any_ok any_ok repaired st_room (IDoc ex_message) =
    VDispatch [CMessage "session" "abc" "" (JObj [("x", JNum 1)])
                 (Some (GStruct [("Type", GStr ""); ("Sid", GStr ""); ("RoomType", GStr ""); ("Payload", GMap []);
                                 ("Bitrate", GInt 0); ("AudioCodec", GStr ""); ("VideoCodec", GStr "");
                                 ("VP9Profile", GStr ""); ("H264Profile", GStr "")]))] /\
  classify any_ok any_ok any_ok repaired st_fresh (IDoc ex_hello) =
    VDispatch [CHello "2.0" [] (HClient true false "https://cloud/" (JObj [("token", JStr "a.b.c")]) "a.b.c")] /\
  map (rejected any_ok any_ok) ex_invalid =
    [Some ("invalid_format", ""); Some ("invalid_format", ""); Some ("invalid_format", ""); Some ("invalid_format", "");
     Some ("invalid_format", ""); Some ("invalid_hello_version", ""); Some ("invalid_format", "")].
Proof. repeat split; vm_compute; reflexivity. Qed.

(* frames that address the sender itself (st_room: own session id "me", own user "u1"): control and plain
   messages are dropped, media signalling to the own session id goes to the media server, the same control
   message to somebody else is forwarded; none of them is invalid *)
Definition ex_to rkind (rc : list (string * json)) (data : json) : json :=
  JObj [("id", JStr "s"); ("type", JStr rkind); (rkind, JObj [("recipient", JObj rc); ("data", data)])].
Definition ex_self : list json :=
  [ex_to "control" [("type", JStr "session"); ("sessionid", JStr "me")] (JObj [("x", JNum 1)]);
   ex_to "control" [("type", JStr "user"); ("userid", JStr "u1")] (JBool false);
   ex_to "message" [("type", JStr "session"); ("sessionid", JStr "me")] (JObj [("x", JNum 1)]);
   ex_to "message" [("type", JStr "user"); ("userid", JStr "u1"); ("sessionid", JStr "abc")] (JStr "x");
   ex_to "message" [("type", JStr "session"); ("sessionid", JStr "me")] (JObj [("type", JStr "sendoffer"); ("roomType", JStr "video")])].
Definition ex_self_offer : json :=
  ex_to "message" [("type", JStr "session"); ("sessionid", JStr "me")]
    (JObj [("type", JStr "offer"); ("roomType", JStr "video"); ("payload", JObj [("sdp", JStr "v=0")])]).
Definition ex_control_other : json :=
  ex_to "control" [("type", JStr "session"); ("sessionid", JStr "abc")] (JObj [("x", JNum 1)]).

Lemma self_examples :
  map (fun j => classify any_ok any_ok any_ok repaired st_room (IDoc j)) ex_self = [VIgnored; VIgnored; VIgnored; VIgnored; VIgnored] /\
  (exists d, classify any_ok any_ok any_ok repaired st_room (IDoc ex_self_offer) =
               VDispatch [CMessage "session" "me" "" (JObj [("type", JStr "offer"); ("roomType", JStr "video"); ("payload", JObj [("sdp", JStr "v=0")])]) (Some d)]) /\
  classify any_ok any_ok any_ok repaired st_room (IDoc ex_control_other) = VDispatch [CControl "session" "abc" "" (JObj [("x", JNum 1)])] /\
  map (rejected any_ok any_ok) (ex_self ++ [ex_self_offer; ex_control_other]) = [None; None; None; None; None; None; None].
Proof. repeat split; try (eexists; vm_compute; reflexivity); vm_compute; reflexivity. Qed.
