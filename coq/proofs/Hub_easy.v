(* Direct consequences of the definition of one step: gates and refusals.
   (C01 pre-hello, C06 resume, C08 gates and decision tables, C19 gate) *)
From Coq Require Import List NArith ZArith Bool Lia.
From Verif Require Import model.Hub proofs.Hub_basics.
Import ListNotations.
Open Scope N_scope.

(* ---- connection states ---- *)
Definition conn_unauth (h : hub) (c : N) : Prop :=
  exists cn, aget h.(h_conns) c = Some cn /\ cn.(c_sess) = None.
Definition conn_session (h : hub) (c sid : N) (s : session) : Prop :=
  exists cn, aget h.(h_conns) c = Some cn /\ cn.(c_sess) = Some sid /\ get_sess h sid = Some s.

Definition is_hello (o : op) : bool := match o with OHello _ _ => true | _ => false end.
Definition client_op (o : op) (c : N) : Prop :=
  match o with
  | OJoin c' _ _ _ | OMsg c' _ _ | OCtl c' _ _ | OBye c' | OInternal c' _ | OMedia c' _ _ _ _ | OTransient c' _ _ _ => c' = c
  | _ => False
  end.

(* C01: before a successful hello every other request is answered with an error and changes nothing *)
Lemma prehello_inert h o c :
  client_op o c -> conn_unauth h c -> step h o = (h, [ToConn c (SError E_hello_expected)]).
Proof.
  intros Hop [cn [Hc Hs]].
  destruct o; cbn in Hop; try contradiction; subst; cbn [step]; unfold with_session; rewrite Hc, Hs; reflexivity.
Qed.

Fixpoint run_steps (h : hub) (ops : list op) : hub * list out :=
  match ops with
  | [] => (h, [])
  | o :: r => let '(h1, o1) := step h o in let '(h2, o2) := run_steps h1 r in (h2, o1 ++ o2)
  end.

Lemma prehello_inert_run h c ops :
  conn_unauth h c -> Forall (fun o => client_op o c) ops ->
  fst (run_steps h ops) = h /\
  Forall (fun x => x = ToConn c (SError E_hello_expected)) (snd (run_steps h ops)).
Proof.
  intros Hu Hall. induction Hall as [|o r Ho Hr IH]; cbn [run_steps].
  - split; [reflexivity|constructor].
  - rewrite (prehello_inert h o c Ho Hu). destruct (run_steps h r) as [h2 o2]. cbn [fst snd] in *.
    destruct IH as [-> IH2]. split; [reflexivity|]. constructor; [reflexivity|assumption].
Qed.

(* C01: a backend URL that is not configured is refused, no session is created *)
Lemma unconfigured_backend_refused h c cn u rej :
  aget h.(h_conns) c = Some cn -> cn.(c_sess) = None -> h.(h_nb) <=? 0 + (h.(h_nb)) = true ->
  forall b, h.(h_nb) <=? b = true ->
  snd (step h (OHello c (HV1 b u rej))) = [ToConn c (SError E_invalid_backend)] /\
  h_sessions (fst (step h (OHello c (HV1 b u rej)))) = h_sessions h.
Proof.
  intros Hc Hs _ b Hb. cbn [step]. rewrite Hc, Hs. cbn [do_hello]. hsimpl. rewrite Hb. hsimpl. split; reflexivity.
Qed.

Lemma unconfigured_backend_refused_internal h c cn tok f1 f2 :
  aget h.(h_conns) c = Some cn -> cn.(c_sess) = None ->
  forall b, h.(h_nb) <=? b = true ->
  (forall m, In (ToConn c m) (snd (step h (OHello c (HInternal b tok f1 f2)))) -> exists e, m = SError e) /\
  h_sessions (fst (step h (OHello c (HInternal b tok f1 f2)))) = h_sessions h.
Proof.
  intros Hc Hs b Hb. cbn [step]. rewrite Hc, Hs. cbn [do_hello]. unfold throttled, fail_count. hsimpl.
  destruct (N.eqb tok 4); hsimpl; [split; [intros m [H|[]]; injection H as <-; eauto|reflexivity]|].
  destruct (10 <=? _); hsimpl; [split; [intros m [H|[]]; injection H as <-; eauto|reflexivity]|].
  destruct (N.eqb tok 0); cbn [negb]; hsimpl.
  - rewrite Hb. unfold record_failure. hsimpl. split; [intros m [H|[]]; injection H as <-; eauto|reflexivity].
  - unfold record_failure. hsimpl. split; [intros m [H|[]]; injection H as <-; eauto|reflexivity].
Qed.

(* C01: an internal hello with a bad token never creates a session *)
Lemma internal_bad_token_refused h c cn b tok f1 f2 :
  aget h.(h_conns) c = Some cn -> cn.(c_sess) = None -> tok <> 0 ->
  h_sessions (fst (step h (OHello c (HInternal b tok f1 f2)))) = h_sessions h /\
  (forall m, In (ToConn c m) (snd (step h (OHello c (HInternal b tok f1 f2)))) -> exists e, m = SError e).
Proof.
  intros Hc Hs Ht. cbn [step]. rewrite Hc, Hs. cbn [do_hello]. unfold throttled, fail_count. hsimpl.
  destruct (N.eqb tok 4); hsimpl; [split; [reflexivity|intros m [H|[]]; injection H as <-; eauto]|].
  destruct (10 <=? _); hsimpl; [split; [reflexivity|intros m [H|[]]; injection H as <-; eauto]|].
  destruct (N.eqb_spec tok 0); [contradiction|]. cbn [negb]. unfold record_failure. hsimpl.
  split; [reflexivity|intros m [H|[]]; injection H as <-; eauto].
Qed.

(* C06: the public id (or any other string) never works as a resume id; the connection stays without session *)
Lemma resume_needs_private_id h c cn i :
  aget h.(h_conns) c = Some cn -> cn.(c_sess) = None -> (forall n, i <> IdPriv n) ->
  let '(h', outs) := step h (OHello c (HResume i)) in
  (outs = [ToConn c (SError E_no_such_session)] \/ outs = [ToConn c (SError E_too_many_requests)]) /\
  h_sessions h' = h_sessions h /\
  (exists cn', aget h'.(h_conns) c = Some cn' /\ cn'.(c_sess) = None).
Proof.
  intros Hc Hs Hi. cbn [step]. rewrite Hc, Hs. cbn [do_hello]. unfold throttled, fail_count. hsimpl.
  destruct (10 <=? _); hsimpl.
  - split; [now right|]. split; [reflexivity|]. rewrite aget_aset_same. eexists; split; [reflexivity|reflexivity].
  - destruct i as [n|n|k|n]; try (specialize (Hi n); congruence);
      unfold record_failure; hsimpl; (split; [now left|]); (split; [reflexivity|]);
      rewrite aget_aset_same; eexists; split; reflexivity.
Qed.

(* C06: the resume id of a session that is gone (bye, expiry, kick) is refused with no_such_session *)
Lemma resume_of_ended_session_refused h c cn n :
  aget h.(h_conns) c = Some cn -> cn.(c_sess) = None -> get_sess h n = None ->
  let '(h', outs) := step h (OHello c (HResume (IdPriv n))) in
  (outs = [ToConn c (SError E_no_such_session)] \/ outs = [ToConn c (SError E_too_many_requests)]) /\
  h_sessions h' = h_sessions h.
Proof.
  intros Hc Hs Hn. cbn [step]. rewrite Hc, Hs. cbn [do_hello]. unfold throttled, fail_count. hsimpl.
  destruct (10 <=? _); hsimpl; [split; [now right|reflexivity]|].
  unfold get_sess in Hn. hsimpl. rewrite Hn. split; [now left|reflexivity].
Qed.

(* the messages that close the connection they are written to (is_closing), for a session in `room`:
   a bye, and a disinvite from the room the session is in *)
Definition closing_in (room : option (N * N)) (m : smsg) : bool :=
  match m with
  | SBye _ => true
  | SDisinvite r => match room with Some k => N.eqb (snd k) r | None => false end
  | _ => false
  end.
Lemma queue_closes_eq s : queue_closes s = existsb (closing_in (s_room s)) (s_pending s).
Proof. reflexivity. Qed.
Lemma upto_closing_cons room m l :
  upto_closing room (m :: l) = if closing_in room m then [m] else m :: upto_closing room l.
Proof. reflexivity. Qed.
(* no closing message: the whole queue *)
Lemma upto_closing_id room l : existsb (closing_in room) l = false -> upto_closing room l = l.
Proof.
  induction l as [|m l IH]; [reflexivity|]. cbn [existsb]. intros H. apply orb_false_iff in H as [H1 H2].
  rewrite upto_closing_cons, H1, (IH H2). reflexivity.
Qed.
Lemma upto_closing_none s : queue_closes s = false -> upto_closing (s_room s) (s_pending s) = s_pending s.
Proof. rewrite queue_closes_eq. apply upto_closing_id. Qed.
Lemma upto_closing_incl room l m : In m (upto_closing room l) -> In m l.
Proof.
  induction l as [|x l IH]; [intros []|]. rewrite upto_closing_cons.
  destruct (closing_in room x); intros [E|H]; [now left|destruct H|now left|right; now apply IH].
Qed.
(* otherwise: the prefix of the queue that ends with the first closing message *)
Lemma upto_closing_spec room l : existsb (closing_in room) l = true ->
  exists pre m post, l = pre ++ m :: post /\ upto_closing room l = pre ++ [m] /\
                     closing_in room m = true /\ existsb (closing_in room) pre = false.
Proof.
  induction l as [|x l IH]; [discriminate|]. cbn [existsb]. intros H. rewrite upto_closing_cons.
  destruct (closing_in room x) eqn:Hx.
  - exists [], x, l. repeat split; auto.
  - cbn [orb] in H. destruct (IH H) as (pre & m & post & E & U & Hm & Hp).
    exists (x :: pre), m, post. cbn [app existsb]. rewrite Hx, Hp, U. repeat split; auto. now rewrite E.
Qed.

(* C06: resuming a disconnected session: same session id, then the queued messages in order, once;
   the session keeps its room; the queue is empty afterwards *)
Lemma resume_flushes_queue h c cn n s :
  aget h.(h_conns) c = Some cn -> cn.(c_sess) = None -> get_sess h n = Some s ->
  is_virtual s.(s_kind) = false -> s.(s_conn) = None -> throttled h cn.(c_addr) ACT_RESUME = false ->
  queue_closes s = false ->
  let '(h', outs) := step h (OHello c (HResume (IdPriv n))) in
  outs = ToConn c (SHello n (sess_userid h n s)) :: map (ToConn c) s.(s_pending) /\
  (exists s', get_sess h' n = Some s' /\ s'.(s_conn) = Some c /\ s'.(s_pending) = [] /\ s'.(s_room) = s.(s_room)) /\
  nmem n h'.(h_expired) = false.
Proof.
  intros Hc Hs Hn Hv Hcn Ht Hq. cbn [step]. rewrite Hc, Hs. cbn [do_hello]. hsimpl.
  assert (Ht' : throttled (set_conns h (aset (h_conns h) c (mkconn (c_addr cn) None (c_expect cn)))) (c_addr cn) ACT_RESUME = false) by exact Ht.
  rewrite Ht'. unfold get_sess in *. hsimpl. rewrite Hn, Hv, Hcn, Hq, (upto_closing_none s Hq). hsimpl.
  split; [reflexivity|]. split.
  - rewrite aget_aset_same. eexists. split; [reflexivity|]. hsimpl. auto.
  - rewrite nmem_nrem, N.eqb_refl. reflexivity.
Qed.

(* C08: control messages without the control permission (and not from an internal client) are dropped *)
Lemma control_gate h c sid s to tag :
  conn_session h c sid s -> allowed_control s = false -> step h (OCtl c to tag) = (h, []).
Proof.
  intros [cn [Hc [Hs Hg]]] Ha. cbn [step]. unfold with_session. rewrite Hc, Hs, Hg, Ha. reflexivity.
Qed.

(* C08: transient data writes (kindn 0 = set, 1 = remove) without the permission are refused and change nothing *)
Lemma transient_gate h c sid s k kindn key val :
  conn_session h c sid s -> s.(s_room) = Some k -> allowed_transient s = false -> (kindn <? 2) = true ->
  step h (OTransient c kindn key val) = (h, [ToConn c (SError E_not_allowed)]).
Proof.
  intros [cn [Hc [Hs Hg]]] Hr Ha Hk. cbn [step]. unfold with_session. rewrite Hc, Hs, Hg, Hr, Ha.
  rewrite N.leb_antisym, Hk. reflexivity.
Qed.

(* C19: virtual-session requests from ordinary clients do nothing *)
Lemma virtual_gate h c sid s q :
  conn_session h c sid s -> is_internal s.(s_kind) = false -> step h (OInternal c q) = (h, []).
Proof.
  intros [cn [Hc [Hs Hg]]] Hi. cbn [step]. unfold with_session. rewrite Hc, Hs, Hg, Hi. reflexivity.
Qed.

(* C08: the permission decision of an offer, spelled out *)
Lemma offer_allowed_iff p stream media :
  offer_allowed p stream media = true <->
  (stream = 2 /\ has_perm p P_SCREEN = true) \/
  (stream <> 2 /\
   (N.testbit media 0 = true -> has_perm p P_MEDIA = true \/ has_perm p P_AUDIO = true) /\
   (N.testbit media 1 = true -> has_perm p P_MEDIA = true \/ has_perm p P_VIDEO = true)).
Proof.
  unfold offer_allowed. destruct (N.eqb_spec stream 2) as [->|Hne].
  - split; [intros H; left; auto|]. intros [[_ H]|[H _]]; [assumption|congruence].
  - destruct (N.testbit media 0), (N.testbit media 1), (has_perm p P_MEDIA), (has_perm p P_AUDIO), (has_perm p P_VIDEO);
      cbn; split; intros H; try reflexivity; try discriminate;
      try (right; split; [assumption|]; split; intros; auto; discriminate);
      try (destruct H as [[E _]|[_ [H1 H2]]]; [congruence|]);
      try (destruct (H1 eq_refl); discriminate); try (destruct (H2 eq_refl); discriminate).
Qed.


(* C01: a hello reply carrying a session id is sent only for credentials that verify: protocol 1.0
   params the configured backend accepted, an internal token that matches (tok = 0 stands for
   "token = HMAC(secret, random), random long enough", established by the harness with the real
   HMAC), or the private resume id of a live session *)
(* what "a protocol 2.0 token signed with a key published by that configured backend" means for the
   token the driver built: an asymmetric method the parser is told to accept, of the family of the
   key backend b publishes; the signature made with the private half of exactly that key; issued
   (iat present, not in the future beyond the leeway), not before its nbf, not expired *)
Definition v2_verifies (b : N) (t : v2tok) : Prop :=
  v2_alg_valid t.(t_alg) = true /\ v2_alg_family t.(t_alg) = v2_key_family b /\ v2_alg_family t.(t_alg) < 3 /\
  t.(t_signer) = b + 1 /\
  (exists (i e : Z), t.(t_iat) = Some i /\ t.(t_exp) = Some e /\ (i <= v2_leeway)%Z /\ (i <= e)%Z /\ (0 - v2_leeway < e)%Z) /\
  (forall n : Z, t.(t_nbf) = Some n -> (n <= v2_leeway)%Z).

Lemma v2_check_accepts nb b t : v2_check nb b t = 0 -> (b <? nb) = true /\ v2_verifies b t.
Proof.
  unfold v2_check, v2_verifies.
  destruct (nb <=? b) eqn:Hb; [discriminate|].
  destruct (v2_alg_valid (t_alg t)) eqn:Hv; [|discriminate]. cbn [negb].
  destruct (3 <=? v2_alg_family (t_alg t)) eqn:Hf; [discriminate|].
  destruct (N.eqb_spec (v2_alg_family (t_alg t)) (v2_key_family b)) as [Hk|]; [|discriminate]. cbn [negb].
  destruct (N.eqb_spec (t_signer t) (b + 1)) as [Hsg|]; [|discriminate]. cbn [negb].
  destruct (t_nbf t) as [n|] eqn:Hn; destruct (t_iat t) as [i|] eqn:Hi; destruct (t_exp t) as [e|] eqn:He;
    repeat match goal with |- context [if ?c then _ else _] => destruct c eqn:? end; cbn [orb negb] in *; try discriminate;
    intros _; (split; [apply N.leb_gt in Hb; now apply N.ltb_lt|]);
    (split; [reflexivity|]); (split; [exact Hk|]); (split; [apply N.leb_gt in Hf; exact Hf|]); (split; [exact Hsg|]);
    (split; [exists i, e; repeat split; lia | intros n0 Hn0; try discriminate; try (injection Hn0 as <-); lia]).
Qed.

Definition credentials_verify (h : hub) (hl : hello) : Prop :=
  match hl with
  | HV1 b u reject => (b <? h.(h_nb)) = true /\ reject = false
  | HV2 b u t => (b <? h.(h_nb)) = true /\ v2_verifies b t
  | HInternal b tok _ _ => (b <? h.(h_nb)) = true /\ tok = 0
  | HResume (IdPriv n) => exists s, get_sess h n = Some s /\ is_virtual s.(s_kind) = false
  | HResume _ => False
  end.

Lemma register_outs h c cn b k u m :
  In (ToConn c m) (snd (register h c cn b k u)) -> (exists e, m = SError e) \/ (exists sid, m = SHello sid u).
Proof.
  unfold register. match goal with |- context [if ?cond then _ else _] => destruct cond end; cbn [snd].
  - intros [H|[]]. injection H as <-. left. eauto.
  - intros [H|[]]. injection H as <-. right. eauto.
Qed.

Lemma hello_reply_sound h c cn hl sid u :
  aget h.(h_conns) c = Some cn -> cn.(c_sess) = None ->
  In (ToConn c (SHello sid u)) (snd (step h (OHello c hl))) -> credentials_verify h hl.
Proof.
  intros Hc Hs. cbn [step]. rewrite Hc, Hs.
  set (h' := set_conns h (aset (h_conns h) c (mkconn (c_addr cn) None (match hl with HResume _ => c_expect cn | _ => false end)))).
  assert (Hnb : h_nb h' = h_nb h) by reflexivity.
  unfold do_hello. destruct hl as [b u0 rej|b u0 t|b tok f d|i]; cbn [credentials_verify].
  - destruct (h_nb h' <=? b) eqn:Hb; cbn [snd].
    { intros [H|[]]. discriminate. }
    destruct rej; cbn [snd].
    { intros [H|[H|[]]]; discriminate. }
    intros _. split; [|reflexivity]. rewrite Hnb in Hb. apply N.leb_gt in Hb. now apply N.ltb_lt.
  - destruct (v2_check (h_nb h') b t) eqn:Hv.
    + intros _. rewrite Hnb in Hv. now apply v2_check_accepts.
    + cbn [snd]. intros [H|[]]. discriminate.
  - destruct (N.eqb tok 4); cbn [snd]; [intros [H|[]]; discriminate|].
    destruct (throttled h' (c_addr cn) ACT_INTERNAL); cbn [snd]; [intros [H|[]]; discriminate|].
    destruct (N.eqb_spec tok 0) as [->|]; cbn [negb snd]; [|intros [H|[]]; discriminate].
    destruct (h_nb h' <=? b) eqn:Hb; cbn [snd]; [intros [H|[]]; discriminate|].
    intros _. split; [|reflexivity]. rewrite Hnb in Hb. apply N.leb_gt in Hb. now apply N.ltb_lt.
  - destruct (throttled h' (c_addr cn) ACT_RESUME); cbn [snd]; [intros [H|[]]; discriminate|].
    destruct i as [n|n|k|n]; cbn [snd]; try (intros [H|[]]; discriminate).
    assert (Hg : get_sess h' n = get_sess h n) by reflexivity. rewrite Hg.
    destruct (get_sess h n) as [s|]; cbn [snd]; [|intros [H|[]]; discriminate].
    destruct (is_virtual (s_kind s)) eqn:Hv; cbn [snd]; [intros [H|[]]; discriminate|].
    intros _. eauto.
Qed.
