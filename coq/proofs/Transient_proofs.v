(* Invariants and lemmas about model/Transient.v (the model of transient_data.go)
   against the specification and the trace predicate of corr/Run_C14.v. *)
From Coq Require Import List ZArith NArith Bool Lia Arith.
From Verif Require Import model.Transient corr.Run_C14.
Import ListNotations.
Open Scope Z_scope.

(* ================================================================== basics *)

Lemma json_eqb_refl a : json_eqb a a = true.
Proof.
  induction a; cbn [json_eqb]; auto using Bool.eqb_reflx, Z.eqb_refl, N.eqb_refl.
  - now rewrite IHa1, IHa2.
  - now rewrite N.eqb_refl, IHa1, IHa2.
Qed.

Lemma json_eqb_eq a : forall b, json_eqb a b = true -> a = b.
Proof.
  induction a; intros b' H; destruct b'; cbn [json_eqb] in H; try discriminate; auto.
  - apply Bool.eqb_prop in H. now subst.
  - apply Z.eqb_eq in H. now subst.
  - apply N.eqb_eq in H. now subst.
  - apply N.eqb_eq in H. now subst.
  - apply andb_true_iff in H as [H1 H2]. f_equal; auto.
  - apply andb_true_iff in H as [H1 H3]. apply andb_true_iff in H1 as [H1 H2].
    apply N.eqb_eq in H1. subst. f_equal; auto.
Qed.

Lemma opt_json_eqb_refl a : opt_json_eqb a a = true.
Proof. destruct a; cbn; auto using json_eqb_refl. Qed.

Lemma upd_same {A} (f : key -> option A) k v : upd f k v k = v.
Proof. unfold upd. now rewrite N.eqb_refl. Qed.
Lemma upd_other {A} (f : key -> option A) k v k' : k' <> k -> upd f k v k' = f k'.
Proof. intros H. unfold upd. destruct (N.eqb_spec k' k); [contradiction|reflexivity]. Qed.

(* ---- the store --------------------------------------------------------------- *)
Lemma dget_dset_same m k v : dget (dset m k v) k = Some v.
Proof.
  induction m as [|[k' v'] r IH]; cbn [dset dget].
  - now rewrite N.eqb_refl.
  - destruct (N.ltb k k'); [cbn [dget]; now rewrite N.eqb_refl|].
    destruct (N.eqb_spec k k') as [->|Hne]; cbn [dget].
    + now rewrite N.eqb_refl.
    + destruct (N.eqb_spec k k'); [contradiction|exact IH].
Qed.
Lemma dget_dset_other m k v k' : k' <> k -> dget (dset m k v) k' = dget m k'.
Proof.
  intros Hne. induction m as [|[k1 v1] r IH]; cbn [dset dget].
  - destruct (N.eqb_spec k' k); [contradiction|reflexivity].
  - destruct (N.ltb k k1).
    + cbn [dget]. destruct (N.eqb_spec k' k); [contradiction|reflexivity].
    + destruct (N.eqb_spec k k1) as [->|Hk]; cbn [dget].
      * destruct (N.eqb_spec k' k1); [contradiction|reflexivity].
      * destruct (N.eqb k' k1); [reflexivity|exact IH].
Qed.
Lemma dget_dset m k v k' : dget (dset m k v) k' = if N.eqb k' k then Some v else dget m k'.
Proof.
  destruct (N.eqb_spec k' k) as [->|H]; [apply dget_dset_same|now apply dget_dset_other].
Qed.

(* filtering by a predicate on keys *)
Lemma dget_filter (f : key -> bool) m k :
  dget (filter (fun e => f (fst e)) m) k = if f k then dget m k else None.
Proof.
  induction m as [|[k1 v1] r IH]; cbn [filter dget fst].
  - now destruct (f k).
  - destruct (f k1) eqn:F1; cbn [dget].
    + destruct (N.eqb_spec k k1) as [->|Hne]; [now rewrite F1|exact IH].
    + destruct (N.eqb_spec k k1) as [->|Hne]; [rewrite IH; now rewrite F1|exact IH].
Qed.
Lemma dget_ddel m k k' : dget (ddel m k) k' = if N.eqb k' k then None else dget m k'.
Proof.
  unfold ddel. rewrite (dget_filter (fun x => negb (N.eqb k x))).
  rewrite (N.eqb_sym k k'). now destruct (N.eqb k' k).
Qed.
Lemma dget_ddel_same m k : dget (ddel m k) k = None.
Proof. rewrite dget_ddel. now rewrite N.eqb_refl. Qed.
Lemma dget_ddel_other m k k' : k' <> k -> dget (ddel m k) k' = dget m k'.
Proof. intros H. rewrite dget_ddel. destruct (N.eqb_spec k' k); [contradiction|reflexivity]. Qed.

Lemma dget_in_keys m k v : dget m k = Some v -> In k (map fst m).
Proof.
  induction m as [|[k1 v1] r IH]; cbn [dget map fst]; [discriminate|].
  destruct (N.eqb_spec k k1) as [->|Hne]; intros H; [now left|right; auto].
Qed.
Lemma in_keys_dget m k : In k (map fst m) -> exists v, dget m k = Some v.
Proof.
  induction m as [|[k1 v1] r IH]; cbn [dget map fst]; [contradiction|].
  intros [->|H]; [rewrite N.eqb_refl; eauto|].
  destruct (N.eqb k k1); eauto.
Qed.

Lemma dmap_sim_ext a b : (forall k, dget a k = dget b k) -> dmap_sim a b = true.
Proof.
  intros H. unfold dmap_sim. apply forallb_forall. intros k _. rewrite H. apply opt_json_eqb_refl.
Qed.
Lemma dmap_sim_refl a : dmap_sim a a = true.
Proof. now apply dmap_sim_ext. Qed.

(* ---- timers ------------------------------------------------------------------- *)
Lemma set_state_same i x l t : nth_error l i = Some t ->
  nth_error (set_state i x l) i = Some (mkTimer (t_key t) (t_val t) (t_deadline t) x).
Proof.
  revert i; induction l as [|a r IH]; intros i H; destruct i; cbn in *; try discriminate.
  - injection H as ->. reflexivity.
  - auto.
Qed.
Lemma set_state_other i x l j : j <> i -> nth_error (set_state i x l) j = nth_error l j.
Proof. revert i j; induction l as [|a r IH]; intros i j H; destruct i, j; cbn; auto; try lia; try (apply IH; lia). Qed.
Lemma set_state_length i x l : length (set_state i x l) = length l.
Proof. revert i; induction l as [|a r IH]; intros i; destruct i; cbn; auto. Qed.

Lemma stop_other i l j : j <> i -> nth_error (stop i l) j = nth_error l j.
Proof. intros H. unfold stop. destruct (nth_error l i) as [t|]; [|reflexivity]. destruct (t_state t); auto using set_state_other. Qed.
Lemma stop_length i l : length (stop i l) = length l.
Proof. unfold stop. destruct (nth_error l i) as [t|]; [|reflexivity]. destruct (t_state t); auto using set_state_length. Qed.
Lemma stop_armed i l t : nth_error l i = Some t -> t_state t = Armed ->
  nth_error (stop i l) i = Some (mkTimer (t_key t) (t_val t) (t_deadline t) Stopped).
Proof. intros H Ha. unfold stop. rewrite H, Ha. now apply set_state_same. Qed.
Lemma stop_not_armed i l t : nth_error l i = Some t -> t_state t <> Armed -> stop i l = l.
Proof. intros H Ha. unfold stop. rewrite H. destruct (t_state t); congruence. Qed.
Lemma stop_opt_length o l : length (stop_opt o l) = length l.
Proof. destruct o; cbn; auto using stop_length. Qed.

(* ---- listeners ----------------------------------------------------------------- *)
Lemma ladd_in l ls x : In x (ladd l ls) <-> x = l \/ In x ls.
Proof.
  induction ls as [|y r IH]; cbn [ladd].
  - cbn. intuition.
  - destruct (N.eqb_spec l y) as [->|Hne]; cbn [In]; [intuition|]. rewrite IH. intuition.
Qed.
Lemma ladd_nodup l ls : NoDup ls -> NoDup (ladd l ls).
Proof.
  induction 1 as [|y r Hy Hr IH]; cbn [ladd].
  - constructor; [intros []|constructor].
  - destruct (N.eqb_spec l y) as [->|Hne]; [now constructor|].
    constructor; [|exact IH]. rewrite ladd_in. intros [->|H]; [congruence|contradiction].
Qed.
Lemma lremove_in l ls x : In x (lremove l ls) <-> x <> l /\ In x ls.
Proof.
  unfold lremove. rewrite filter_In. split.
  - intros [H1 H2]. split; [|exact H1]. intros ->. rewrite N.eqb_refl in H2. discriminate.
  - intros [H1 H2]. split; [exact H2|]. destruct (N.eqb_spec l x); [congruence|reflexivity].
Qed.
Lemma lremove_nodup l ls : NoDup ls -> NoDup (lremove l ls).
Proof. apply NoDup_filter. Qed.

(* ---- messages ------------------------------------------------------------------- *)
Lemma msgs_for_app l a b : msgs_for l (a ++ b) = msgs_for l a ++ msgs_for l b.
Proof. unfold msgs_for. now rewrite filter_app, map_app. Qed.
Lemma apply_all_app r a b : apply_all r (a ++ b) = apply_all (apply_all r a) b.
Proof. unfold apply_all. apply fold_left_app. Qed.

Lemma msgs_for_map_in l m ls : NoDup ls -> In l ls -> msgs_for l (map (fun x => (x, m)) ls) = [m].
Proof.
  unfold msgs_for. induction 1 as [|y r Hy Hr IH]; [contradiction|].
  cbn [map filter fst]. intros [->|Hin].
  - rewrite N.eqb_refl. cbn [map snd]. f_equal.
    clear IH Hr. induction r as [|z r IH]; [reflexivity|]. cbn [map filter fst].
    destruct (N.eqb_spec l z) as [->|Hne]; [exfalso; apply Hy; now left|].
    apply IH. intros H. apply Hy. now right.
  - destruct (N.eqb_spec l y) as [->|Hne]; [contradiction|]. now apply IH.
Qed.
Lemma msgs_for_map_notin l (m : msg) ls : ~ In l ls -> msgs_for l (map (fun x => (x, m)) ls) = [].
Proof.
  unfold msgs_for. induction ls as [|y r IH]; [reflexivity|].
  cbn [map filter fst]. intros H. destruct (N.eqb_spec l y) as [->|Hne]; [exfalso; apply H; now left|].
  apply IH. intros H1. apply H. now right.
Qed.

Lemma msgs_for_cons l e o :
  msgs_for l (e :: o) = if N.eqb l (fst e) then snd e :: msgs_for l o else msgs_for l o.
Proof. unfold msgs_for. cbn [filter]. destruct (N.eqb l (fst e)); reflexivity. Qed.
Lemma msgs_for_nil l : msgs_for l [] = [].
Proof. reflexivity. Qed.

Lemma msgs_for_ins l e o :
  msgs_for l (ins_out e o) = if N.eqb l (fst e) then snd e :: msgs_for l o else msgs_for l o.
Proof.
  induction o as [|x r IH]; cbn [ins_out].
  - now rewrite msgs_for_cons.
  - destruct (N.leb_spec (fst e) (fst x)) as [Hle|Hlt].
    + now rewrite msgs_for_cons.
    + rewrite !msgs_for_cons, IH.
      destruct (N.eqb_spec l (fst x)) as [Hx|Hx]; [|reflexivity].
      destruct (N.eqb_spec l (fst e)) as [He|He]; [exfalso; lia|reflexivity].
Qed.
Lemma msgs_for_sort l o : msgs_for l (sort_outs o) = msgs_for l o.
Proof.
  induction o as [|e r IH]; [reflexivity|]. cbn [sort_outs fold_right].
  change (fold_right ins_out [] r) with (sort_outs r). now rewrite msgs_for_ins, IH, msgs_for_cons.
Qed.
Lemma sort_outs_in e o : In e (sort_outs o) <-> In e o.
Proof.
  assert (Hins : forall x l, In e (ins_out x l) <-> e = x \/ In e l).
  { intros x l. induction l as [|y r IH]; cbn [ins_out]; [cbn; intuition|].
    destruct (N.leb (fst x) (fst y)); cbn [In]; [intuition|]. rewrite IH. intuition. }
  induction o as [|x r IH]; [reflexivity|]. cbn [sort_outs fold_right].
  change (fold_right ins_out [] r) with (sort_outs r). rewrite Hins, IH. cbn. intuition.
Qed.
Lemma in_msgs_for l m o : In (l, m) o -> In m (msgs_for l o).
Proof.
  intros H. unfold msgs_for. apply in_map_iff. exists (l, m). split; [reflexivity|].
  apply filter_In. split; [exact H|]. cbn. apply N.eqb_refl.
Qed.

(* ============================================= abstraction and invariant (repaired code) *)

(* the deadline that governs k: the one of the timer registered for k *)
Definition live_deadline (s : state) (k : key) : option Z :=
  match tmap s k with
  | Some i => match nth_error (timers s) i with
              | Some t => match t_state t with Armed => Some (t_deadline t) | _ => None end
              | None => None
              end
  | None => None
  end.
Definition abs (s : state) : spec := mkSpec (data s) (live_deadline s) (now s).

(* equality of specification states: the same maps *)
Definition speq (a b : spec) : Prop :=
  (forall k, dget (sdata a) k = dget (sdata b) k) /\ (forall k, sdl a k = sdl b k) /\ snow a = snow b.

Lemma speq_refl a : speq a a.
Proof. repeat split. Qed.
Lemma speq_trans a b c : speq a b -> speq b c -> speq a c.
Proof. intros (A1 & A2 & A3) (B1 & B2 & B3). repeat split; intros; congruence. Qed.
Lemma speq_sym a b : speq a b -> speq b a.
Proof. intros (A1 & A2 & A3). repeat split; intros; congruence. Qed.

(* T1: the timer registered for a key is armed, belongs to the key and carries the stored value
   T2: every armed timer is the one registered for its key (all others were stopped) *)
Definition T1at (s : state) (k : key) : Prop :=
  forall i, tmap s k = Some i ->
    exists t, nth_error (timers s) i = Some t /\ t_key t = k /\ t_state t = Armed /\ dget (data s) k = Some (t_val t).
Definition T1weak (s : state) (k : key) : Prop :=
  forall i, tmap s k = Some i ->
    exists t, nth_error (timers s) i = Some t /\ t_key t = k /\ t_state t = Armed.
Definition T2 (s : state) : Prop :=
  forall i t, nth_error (timers s) i = Some t -> t_state t = Armed -> tmap s (t_key t) = Some i.
Definition Inv (s : state) : Prop := (forall k, T1at s k) /\ T2 s /\ NoDup (listeners s).

Lemma T1at_weak s k : T1at s k -> T1weak s k.
Proof. intros H i Hi. destruct (H i Hi) as (t & A & B & C & _). eauto. Qed.

Lemma inv_init : Inv init.
Proof.
  split; [|split].
  - intros k i H. discriminate.
  - intros i t H. destruct i; discriminate.
  - constructor.
Qed.

Lemma live_deadline_armed s k i t :
  tmap s k = Some i -> nth_error (timers s) i = Some t -> t_state t = Armed ->
  live_deadline s k = Some (t_deadline t).
Proof. intros A B C. unfold live_deadline. now rewrite A, B, C. Qed.
Lemma live_deadline_none s k : tmap s k = None -> live_deadline s k = None.
Proof. intros A. unfold live_deadline. now rewrite A. Qed.
Lemma live_deadline_some s k d : live_deadline s k = Some d ->
  exists i t, tmap s k = Some i /\ nth_error (timers s) i = Some t /\ t_state t = Armed /\ t_deadline t = d.
Proof.
  unfold live_deadline. destruct (tmap s k) as [i|]; [|discriminate].
  destruct (nth_error (timers s) i) as [t|] eqn:Ht; [|discriminate].
  destruct (t_state t) eqn:Hs; try discriminate. intros H. injection H as <-. eauto 6.
Qed.
(* same registered timer, same timer contents: same deadline *)
Lemma live_deadline_same s s' k :
  tmap s' k = tmap s k ->
  (forall i, tmap s k = Some i -> nth_error (timers s') i = nth_error (timers s) i) ->
  live_deadline s' k = live_deadline s k.
Proof.
  intros A B. unfold live_deadline. rewrite A. destruct (tmap s k) as [i|]; [|reflexivity].
  now rewrite (B i eq_refl).
Qed.

(* ---- clearing and arming the timer of a key ------------------------------------- *)
Lemma clear_timer_ok s k :
  (forall k', k' <> k -> T1at s k') -> T1weak s k -> T2 s ->
  let s' := clear_timer s k in
  (forall k', T1at s' k') /\ T2 s' /\ tmap s' k = None /\
  (forall k', live_deadline s' k' = if N.eqb k' k then None else live_deadline s k').
Proof.
  intros H1 Hw H2 s'.
  assert (Hoth : forall k' j, k' <> k -> tmap s k' = Some j -> nth_error (timers s') j = nth_error (timers s) j).
  { intros k' j Hne Hj. cbn. destruct (tmap s k) as [i|] eqn:Hk; cbn [stop_opt]; [|reflexivity].
    apply stop_other. intros ->. destruct (H1 k' Hne i Hj) as (t & A & B & _). destruct (Hw i Hk) as (t' & A' & B' & _).
    rewrite A in A'. injection A' as <-. congruence. }
  split; [|split; [|split]].
  - intros k' j Hj. cbn in Hj. destruct (N.eq_dec k' k) as [->|Hne]; [rewrite upd_same in Hj; discriminate|].
    rewrite upd_other in Hj by auto. destruct (H1 k' Hne j Hj) as (t & A & B & C & D).
    exists t. rewrite (Hoth k' j Hne Hj). cbn [data clear_timer s']. auto.
  - intros j t Hj Ha. cbn in Hj |- *. destruct (tmap s k) as [i|] eqn:Hk; cbn [stop_opt] in Hj.
    + destruct (Hw i Hk) as (ti & Ai & Bi & Ci).
      destruct (Nat.eq_dec j i) as [->|Hji].
      * rewrite (stop_armed i _ ti Ai Ci) in Hj. injection Hj as <-. discriminate.
      * rewrite stop_other in Hj by auto. pose proof (H2 j t Hj Ha) as Hm.
        rewrite upd_other; [exact Hm|]. intros Heq. rewrite Heq, Hk in Hm. congruence.
    + pose proof (H2 j t Hj Ha) as Hm. rewrite upd_other; [exact Hm|]. intros Heq. rewrite Heq, Hk in Hm. discriminate.
  - cbn. apply upd_same.
  - intros k'. destruct (N.eqb_spec k' k) as [->|Hne].
    + apply live_deadline_none. cbn. apply upd_same.
    + apply live_deadline_same; [cbn; now apply upd_other|]. intros j Hj. now apply (Hoth k').
Qed.

Lemma arm_timer_ok s k v ttl :
  (forall k', T1at s k') -> T2 s -> tmap s k = None -> dget (data s) k = Some v ->
  let s' := arm_timer s k v ttl in
  (forall k', T1at s' k') /\ T2 s' /\
  (forall k', live_deadline s' k' = if N.eqb k' k then Some (now s + ttl) else live_deadline s k').
Proof.
  intros H1 H2 Hk Hd s'.
  assert (Hold : forall j, (j < length (timers s))%nat -> nth_error (timers s') j = nth_error (timers s) j).
  { intros j Hj. cbn. now rewrite nth_error_app1. }
  assert (Hnew : nth_error (timers s') (length (timers s)) = Some (mkTimer k v (now s + ttl) Armed)).
  { cbn. rewrite nth_error_app2 by lia. now rewrite Nat.sub_diag. }
  split; [|split].
  - intros k' j Hj. cbn in Hj. destruct (N.eq_dec k' k) as [->|Hne].
    + rewrite upd_same in Hj. injection Hj as <-. eexists. split; [exact Hnew|]. cbn. auto.
    + rewrite upd_other in Hj by auto. destruct (H1 k' j Hj) as (t & A & B & C & D).
      exists t. rewrite Hold; [cbn [data arm_timer s']; auto|]. apply nth_error_Some. congruence.
  - intros j t Hj Ha. destruct (Nat.lt_ge_cases j (length (timers s))) as [Hlt|Hge].
    + rewrite Hold in Hj by auto. pose proof (H2 j t Hj Ha) as Hm. cbn.
      rewrite upd_other; [exact Hm|]. intros Heq. rewrite Heq, Hk in Hm. discriminate.
    + assert (j = length (timers s)) as ->.
      { assert (j < length (timers s'))%nat by (apply nth_error_Some; congruence).
        cbn in H. rewrite app_length in H. cbn in H. lia. }
      rewrite Hnew in Hj. injection Hj as <-. cbn. apply upd_same.
  - intros k'. destruct (N.eqb_spec k' k) as [->|Hne].
    + rewrite (live_deadline_armed s' k (length (timers s)) _ (upd_same _ _ _) Hnew eq_refl). reflexivity.
    + apply live_deadline_same; [cbn; now apply upd_other|].
      intros j Hj. destruct (H1 k' j Hj) as (t & A & _). apply Hold. apply nth_error_Some. congruence.
Qed.

(* replacing the stored map keeps what is known about the other keys *)
Lemma T1at_data s d' k' :
  dget d' k' = dget (data s) k' -> T1at s k' ->
  T1at (mkSt d' (listeners s) (tmap s) (timers s) (now s)) k'.
Proof. intros Hd H i Hi. destruct (H i Hi) as (t & A & B & C & D). exists t. cbn. rewrite Hd. auto. Qed.
Lemma T1weak_data s d' k' :
  T1at s k' -> T1weak (mkSt d' (listeners s) (tmap s) (timers s) (now s)) k'.
Proof. intros H i Hi. destruct (H i Hi) as (t & A & B & C & D). exists t. cbn. auto. Qed.

(* a request that stores v under k (the map already updated to d') followed by its ttl part *)
Lemma put_ok s d' k v ttl u :
  Inv s -> (forall k', dget d' k' = if N.eqb k' k then Some v else dget (data s) k') ->
  let s' := set_ttl true u (mkSt d' (listeners s) (tmap s) (timers s) (now s)) k v ttl in
  Inv s' /\ speq (abs s') (spec_put (abs s) k v ttl) /\ listeners s' = listeners s /\ data s' = d'.
Proof.
  intros (H1 & H2 & H3) Hd s'.
  set (s1 := mkSt d' (listeners s) (tmap s) (timers s) (now s)) in *.
  assert (A1 : forall k', k' <> k -> T1at s1 k').
  { intros k' Hne. apply T1at_data; [|apply H1]. rewrite Hd. destruct (N.eqb_spec k' k); [contradiction|reflexivity]. }
  assert (A2 : T1weak s1 k) by (apply T1weak_data, H1).
  destruct (clear_timer_ok s1 k A1 A2 H2) as (C1 & C2 & C3 & C4).
  assert (Hdk : dget d' k = Some v) by (rewrite Hd; now rewrite N.eqb_refl).
  unfold s', set_ttl. destruct (ttl <=? 0) eqn:Httl.
  - split; [split; [exact C1|split; [exact C2|exact H3]]|]. split; [|split; reflexivity].
    split; [|split]; cbn [abs sdata sdl snow spec_put data now clear_timer].
    + intros k'. rewrite dget_dset. apply Hd.
    + intros k'. fold (clear_timer s1 k). rewrite C4. rewrite Httl. unfold upd. reflexivity.
    + reflexivity.
  - destruct (arm_timer_ok (clear_timer s1 k) k v ttl C1 C2 C3 Hdk) as (D1 & D2 & D3).
    split; [split; [exact D1|split; [exact D2|exact H3]]|]. split; [|split; reflexivity].
    split; [|split]; cbn [abs sdata sdl snow spec_put data now arm_timer clear_timer].
    + intros k'. rewrite dget_dset. apply Hd.
    + intros k'. fold (clear_timer s1 k). fold (arm_timer (clear_timer s1 k) k v ttl).
      rewrite D3, C4. rewrite Httl. unfold upd. cbn [now clear_timer s1]. destruct (N.eqb k' k); reflexivity.
    + reflexivity.
Qed.

(* removing k (the map already updated to d') *)
Lemma del_ok s d' k :
  Inv s -> (forall k', dget d' k' = if N.eqb k' k then None else dget (data s) k') ->
  let s' := mkSt d' (listeners s) (upd (tmap s) k None) (stop_opt (tmap s k) (timers s)) (now s) in
  Inv s' /\ speq (abs s') (spec_del (abs s) k).
Proof.
  intros (H1 & H2 & H3) Hd s'.
  set (s1 := mkSt d' (listeners s) (tmap s) (timers s) (now s)).
  assert (A1 : forall k', k' <> k -> T1at s1 k').
  { intros k' Hne. apply T1at_data; [|apply H1]. rewrite Hd. destruct (N.eqb_spec k' k); [contradiction|reflexivity]. }
  assert (A2 : T1weak s1 k) by (apply T1weak_data, H1).
  destruct (clear_timer_ok s1 k A1 A2 H2) as (C1 & C2 & C3 & C4).
  change s' with (clear_timer s1 k).
  split; [split; [exact C1|split; [exact C2|exact H3]]|].
  split; [|split]; cbn [abs sdata sdl snow spec_del data now clear_timer s1].
  - intros k'. rewrite dget_ddel. apply Hd.
  - intros k'. fold (clear_timer s1 k). rewrite C4. unfold upd. reflexivity.
  - reflexivity.
Qed.

(* nothing stored under k: removing it is no change *)
Lemma del_absent s k : Inv s -> dget (data s) k = None -> speq (abs s) (spec_del (abs s) k).
Proof.
  intros (H1 & _) Hk. split; [|split]; cbn [abs sdata sdl snow spec_del]; [| |reflexivity].
  - intros k'. rewrite dget_ddel. destruct (N.eqb_spec k' k) as [->|]; auto.
  - intros k'. unfold upd. destruct (N.eqb_spec k' k) as [->|]; [|reflexivity].
    unfold live_deadline. destruct (tmap s k) as [i|] eqn:Hi; [|reflexivity].
    destruct (H1 k i Hi) as (t & _ & _ & _ & D). congruence.
Qed.

(* ---- firing ------------------------------------------------------------------------ *)
Definition is_armed (t : timer) : bool := match t_state t with Armed => true | _ => false end.
Definition armed_count (ts : list timer) : nat := length (filter is_armed ts).

Lemma armed_count_le ts : (armed_count ts <= length ts)%nat.
Proof.
  unfold armed_count. induction ts as [|a r IH]; cbn; [lia|]. destruct (is_armed a); cbn; lia.
Qed.
Lemma armed_count_pos ts i t : nth_error ts i = Some t -> t_state t = Armed -> (0 < armed_count ts)%nat.
Proof.
  revert i. induction ts as [|a r IH]; intros i H Ha; destruct i; cbn in H; try discriminate.
  - injection H as ->. unfold armed_count, is_armed. cbn. rewrite Ha. cbn. lia.
  - unfold armed_count in *. cbn. specialize (IH i H Ha). destruct (is_armed a); cbn; lia.
Qed.
Lemma armed_count_set_state ts i t x : nth_error ts i = Some t -> t_state t = Armed -> x <> Armed ->
  S (armed_count (set_state i x ts)) = armed_count ts.
Proof.
  revert i. induction ts as [|a r IH]; intros i H Ha Hx; destruct i; cbn in H; try discriminate.
  - injection H as ->. unfold armed_count, is_armed. cbn. rewrite Ha. destruct x; try congruence; reflexivity.
  - unfold armed_count in *. cbn. specialize (IH i H Ha Hx). destruct (is_armed a); cbn; lia.
Qed.

Lemma next_due_some ts nw i d : next_due ts nw = Some (i, d) ->
  exists t, nth_error ts i = Some t /\ t_state t = Armed /\ t_deadline t <= nw.
Proof.
  revert i d. induction ts as [|a r IH]; intros i d H; cbn [next_due] in H; [discriminate|].
  destruct (next_due r nw) as [[j dj]|] eqn:Hr.
  - assert (Hrest : forall i' d', Some (S j, dj) = Some (i', d') ->
              exists t, nth_error (a :: r) i' = Some t /\ t_state t = Armed /\ t_deadline t <= nw).
    { intros i' d' E. injection E as <- <-. cbn. eapply IH. reflexivity. }
    destruct (t_state a) eqn:Ha; eauto.
    destruct (t_deadline a <=? nw) eqn:Hd; eauto.
    destruct (dj <? t_deadline a); eauto.
    injection H as <- <-. exists a. cbn. apply Z.leb_le in Hd. auto.
  - destruct (t_state a) eqn:Ha; try discriminate.
    destruct (t_deadline a <=? nw) eqn:Hd; try discriminate.
    injection H as <- <-. exists a. cbn. apply Z.leb_le in Hd. auto.
Qed.
Lemma next_due_none ts nw : next_due ts nw = None ->
  forall i t, nth_error ts i = Some t -> t_state t = Armed -> nw < t_deadline t.
Proof.
  induction ts as [|a r IH]; intros H i t Hi Ha; [destruct i; discriminate|].
  cbn [next_due] in H. destruct (next_due r nw) as [[j dj]|] eqn:Hr.
  - exfalso. destruct (t_state a); try discriminate.
    destruct (t_deadline a <=? nw); try discriminate. destruct (dj <? t_deadline a); discriminate.
  - destruct i; cbn in Hi.
    + injection Hi as ->. rewrite Ha in H. destruct (t_deadline t <=? nw) eqn:Hd; [discriminate|]. now apply Z.leb_gt in Hd.
    + eapply IH; eauto.
Qed.

(* the callback of the timer registered for its key removes the key *)
Lemma fire_armed_ok s i t :
  Inv s -> nth_error (timers s) i = Some t -> t_state t = Armed ->
  exists s', fire true s i t = (s', notify s (MRemove (t_key t) (t_val t))) /\
    Inv s' /\ speq (abs s') (spec_del (abs s) (t_key t)) /\
    listeners s' = listeners s /\ now s' = now s /\ data s' = ddel (data s) (t_key t) /\
    dget (data s) (t_key t) = Some (t_val t) /\ live_deadline s (t_key t) = Some (t_deadline t) /\
    S (armed_count (timers s')) = armed_count (timers s).
Proof.
  intros (H1 & H2 & H3) Hi Ha.
  pose proof (H2 i t Hi Ha) as Hm.
  destruct (H1 (t_key t) i Hm) as (t' & Hi' & _ & _ & Hd). rewrite Hi in Hi'. injection Hi' as <-.
  set (k := t_key t) in *.
  set (s' := mkSt (ddel (data s) k) (listeners s) (upd (tmap s) k None) (set_state i Fired (timers s)) (now s)).
  assert (Hfire : fire true s i t = (s', notify s (MRemove k (t_val t)))).
  { unfold fire, callback. cbn [tmap data]. fold k. rewrite Hm, Nat.eqb_refl. cbn [negb andb].
    unfold compare_and_remove. cbn [data]. rewrite Hd, json_eqb_refl. unfold do_remove. cbn [data listeners tmap timers now].
    rewrite Hm. cbn [stop_opt].
    rewrite (stop_not_armed i _ _ (set_state_same i Fired _ t Hi)) by (cbn; discriminate). reflexivity. }
  assert (Hoth : forall k' j, k' <> k -> tmap s k' = Some j -> j <> i).
  { intros k' j Hne Hj ->. destruct (H1 k' i Hj) as (t' & A & B & _). rewrite Hi in A. injection A as <-. apply Hne. symmetry. exact B. }
  exists s'. split; [exact Hfire|]. split; [|split; [|repeat split; auto]].
  - split; [|split; [|exact H3]].
    + intros k' j Hj. cbn in Hj. destruct (N.eq_dec k' k) as [->|Hne]; [rewrite upd_same in Hj; discriminate|].
      rewrite upd_other in Hj by auto. destruct (H1 k' j Hj) as (tj & A & B & C & D).
      exists tj. cbn. rewrite set_state_other by (eapply Hoth; eauto). rewrite dget_ddel_other by auto. auto.
    + intros j tj Hj Haj. cbn in Hj |- *. destruct (Nat.eq_dec j i) as [->|Hji].
      * rewrite (set_state_same i Fired _ t Hi) in Hj. injection Hj as <-. discriminate.
      * rewrite set_state_other in Hj by auto. pose proof (H2 j tj Hj Haj) as Hmj.
        rewrite upd_other; [exact Hmj|]. intros Heq. rewrite Heq, Hm in Hmj. congruence.
  - split; [|split]; cbn [abs sdata sdl snow spec_del data now s']; [reflexivity| |reflexivity].
    intros k'. unfold upd. destruct (N.eqb_spec k' k) as [->|Hne].
    + apply live_deadline_none. cbn. apply upd_same.
    + apply live_deadline_same; [cbn; now apply upd_other|]. intros j Hj. cbn. apply set_state_other. eapply Hoth; eauto.
  - eapply live_deadline_armed; eauto.
  - cbn [timers s']. eapply armed_count_set_state; eauto. discriminate.
Qed.

(* the callback of a stopped (superseded) timer changes nothing *)
Lemma fire_stopped_ok s i t :
  Inv s -> nth_error (timers s) i = Some t -> t_state t = Stopped ->
  let s' := mkSt (data s) (listeners s) (tmap s) (set_state i Fired (timers s)) (now s) in
  fire true s i t = (s', []) /\ Inv s' /\ speq (abs s') (abs s).
Proof.
  intros (H1 & H2 & H3) Hi Hs s'.
  assert (Hne : forall k j, tmap s k = Some j -> j <> i).
  { intros k j Hj ->. destruct (H1 k i Hj) as (t' & A & _ & C & _). rewrite Hi in A. injection A as <-. congruence. }
  split; [|split].
  - unfold fire, callback. cbn [tmap]. destruct (tmap s (t_key t)) as [j|] eqn:Hj.
    + destruct (Nat.eqb_spec j i) as [->|Hji]; [exfalso; eapply Hne; eauto|]. reflexivity.
    + reflexivity.
  - split; [|split; [|exact H3]].
    + intros k j Hj. cbn in Hj. destruct (H1 k j Hj) as (tj & A & B & C & D). exists tj. cbn.
      rewrite set_state_other by (eapply Hne; eauto). auto.
    + intros j tj Hj Haj. cbn in Hj |- *. destruct (Nat.eq_dec j i) as [->|Hji].
      * rewrite (set_state_same i Fired _ t Hi) in Hj. injection Hj as <-. discriminate.
      * rewrite set_state_other in Hj by auto. eauto.
  - split; [|split]; cbn [abs sdata sdl snow data now s']; [reflexivity| |reflexivity].
    intros k. apply live_deadline_same; [reflexivity|]. intros j Hj. cbn. apply set_state_other. eapply Hne; eauto.
Qed.

(* what a run of due timers does to one key *)
Definition unchanged_at (s s' : state) (k : key) : Prop :=
  dget (data s') k = dget (data s) k /\ live_deadline s' k = live_deadline s k.
Definition expired_at (s s' : state) (o : outs) (k : key) : Prop :=
  exists d v, live_deadline s k = Some d /\ d <= now s /\ dget (data s) k = Some v /\
    dget (data s') k = None /\ live_deadline s' k = None /\
    forall l, In l (listeners s) -> In (l, MRemove k v) o.

Lemma fire_all_ok fuel : forall s, Inv s ->
  exists s' o, fire_all true fuel s = (s', o) /\ Inv s' /\ now s' = now s /\ listeners s' = listeners s /\
    (forall k, unchanged_at s s' k \/ expired_at s s' o k) /\
    ((armed_count (timers s) <= fuel)%nat -> next_due (timers s') (now s') = None).
Proof.
  induction fuel as [|f IH]; intros s HI.
  - exists s, []. cbn [fire_all].
    split; [reflexivity|]. split; [exact HI|]. split; [reflexivity|]. split; [reflexivity|]. split.
    + intros k. left. split; reflexivity.
    + intros Hc. destruct (next_due (timers s) (now s)) as [[i d]|] eqn:Hn; [|reflexivity].
      destruct (next_due_some _ _ _ _ Hn) as (t & A & B & _). pose proof (armed_count_pos _ _ _ A B). lia.
  - cbn [fire_all]. destruct (next_due (timers s) (now s)) as [[i d]|] eqn:Hn.
    + destruct (next_due_some _ _ _ _ Hn) as (t & Hi & Ha & Hdue). rewrite Hi.
      destruct (fire_armed_ok s i t HI Hi Ha) as (s1 & F1 & I1 & (E1 & E2 & E3) & L1 & N1 & D1 & V1 & LD1 & C1).
      destruct (IH s1 I1) as (s2 & o2 & F2 & I2 & N2 & L2 & K2 & Q2).
      rewrite F1, F2. exists s2, (notify s (MRemove (t_key t) (t_val t)) ++ o2).
      split; [reflexivity|]. split; [exact I2|]. split; [congruence|]. split; [congruence|]. split.
      * intros k. destruct (N.eq_dec k (t_key t)) as [->|Hne].
        -- right. exists (t_deadline t), (t_val t).
           assert (Hd1 : dget (data s1) (t_key t) = None) by (rewrite D1; apply dget_ddel_same).
           assert (Hl1 : live_deadline s1 (t_key t) = None).
           { specialize (E2 (t_key t)). cbn [abs sdl spec_del] in E2. rewrite E2. apply upd_same. }
           destruct (K2 (t_key t)) as [[U1 U2]|(d' & v' & X & _)]; [|congruence].
           repeat split; auto; try congruence.
           intros l Hl. apply in_or_app. left. unfold notify. apply in_map_iff. eauto.
        -- assert (Hd1 : dget (data s1) k = dget (data s) k) by (rewrite D1; now apply dget_ddel_other).
           assert (Hl1 : live_deadline s1 k = live_deadline s k).
           { specialize (E2 k). cbn [abs sdl spec_del] in E2. rewrite E2. now apply upd_other. }
           destruct (K2 k) as [[U1 U2]|(d' & v' & X1 & X2 & X3 & X4 & X5 & X6)].
           ++ left. split; congruence.
           ++ right. exists d', v'. repeat split; try congruence.
              intros l Hl. apply in_or_app. right. apply X6. congruence.
      * intros Hc. apply Q2. lia.
    + exists s, [].
      split; [reflexivity|]. split; [exact HI|]. split; [reflexivity|]. split; [reflexivity|]. split.
      * intros k. left. split; reflexivity.
      * intros _. exact Hn.
Qed.

(* ================================================ the refinement, one step *)

Lemma spec_put_speq a b k v ttl : speq a b -> speq (spec_put a k v ttl) (spec_put b k v ttl).
Proof.
  intros (A1 & A2 & A3). split; [|split]; cbn [spec_put sdata sdl snow]; [| |exact A3].
  - intros k'. rewrite !dget_dset. now rewrite A1.
  - intros k'. unfold upd. rewrite A3. now rewrite A2.
Qed.
Lemma spec_del_speq a b k : speq a b -> speq (spec_del a k) (spec_del b k).
Proof.
  intros (A1 & A2 & A3). split; [|split]; cbn [spec_del sdata sdl snow]; [| |exact A3].
  - intros k'. rewrite !dget_ddel. now rewrite A1.
  - intros k'. unfold upd. now rewrite A2.
Qed.
Lemma expired_speq a b t k : speq a b -> expired a t k = expired b t k.
Proof. intros (_ & A2 & _). unfold expired. now rewrite A2. Qed.

Lemma spec_step_speq a b o : speq a b -> speq (spec_step a o) (spec_step b o).
Proof.
  intros H. pose proof H as (A1 & A2 & A3).
  destruct o as [k [v|] ttl|k old [v|] ttl|k|k old|l|l|dt|i]; cbn [spec_step];
    auto using spec_put_speq, spec_del_speq.
  - rewrite A1. destruct (opt_json_eqb (dget (sdata b) k) old); auto using spec_put_speq.
  - destruct old as [o|]; [|exact H]. rewrite A1.
    destruct (opt_json_eqb (dget (sdata b) k) (Some o)); auto using spec_del_speq.
  - destruct old as [o|]; [|exact H]. rewrite A1.
    destruct (opt_json_eqb (dget (sdata b) k) (Some o)); auto using spec_del_speq.
  - destruct (dt <? 0); [exact H|]. rewrite A3.
    split; [|split]; cbn [sdata sdl snow]; [| |reflexivity].
    + intros k. rewrite (dget_filter (fun x => negb (expired a (snow b + dt) x))).
      rewrite (dget_filter (fun x => negb (expired b (snow b + dt) x))).
      rewrite (expired_speq a b _ _ H). now rewrite A1.
    + intros k. rewrite (expired_speq a b _ _ H). now rewrite A2.
Qed.

Lemma no_change_ok s : Inv s -> Inv s /\ speq (abs s) (abs s).
Proof. intros H. split; [exact H|apply speq_refl]. Qed.

Lemma do_set_ok s k v prev ttl :
  Inv s -> Inv (fst (do_set true s k v prev ttl)) /\
           speq (abs (fst (do_set true s k v prev ttl))) (spec_put (abs s) k v ttl).
Proof.
  intros HI. unfold do_set. cbn [fst].
  destruct (put_ok s (dset (data s) k v) k v ttl false HI) as (A & B & _).
  - intros k'. apply dget_dset.
  - split; assumption.
Qed.

Lemma do_remove_ok s k p :
  Inv s -> Inv (fst (do_remove s k p)) /\ speq (abs (fst (do_remove s k p))) (spec_del (abs s) k).
Proof.
  intros HI. unfold do_remove. cbn [fst]. apply del_ok; [exact HI|]. intros k'. apply dget_ddel.
Qed.

Lemma remove_ok s k :
  Inv s -> Inv (fst (remove s k)) /\ speq (abs (fst (remove s k))) (spec_del (abs s) k).
Proof.
  intros HI. unfold remove. destruct (dget (data s) k) as [p|] eqn:Hp.
  - now apply do_remove_ok.
  - cbn [fst]. split; [exact HI|]. now apply del_absent.
Qed.

Lemma compare_and_remove_ok s k o :
  Inv s -> Inv (fst (compare_and_remove s k (Some o))) /\
  speq (abs (fst (compare_and_remove s k (Some o))))
       (if opt_json_eqb (dget (data s) k) (Some o) then spec_del (abs s) k else abs s).
Proof.
  intros HI. unfold compare_and_remove. destruct (dget (data s) k) as [p|] eqn:Hp; cbn [opt_json_eqb].
  - destruct (json_eqb p o); [now apply do_remove_ok|now apply no_change_ok].
  - now apply no_change_ok.
Qed.

Lemma advance_ok s dt :
  Inv s -> 0 <= dt ->
  let s1 := mkSt (data s) (listeners s) (tmap s) (timers s) (now s + dt) in
  exists s' o, fire_all true (length (timers s)) s1 = (s', o) /\ Inv s' /\
    speq (abs s') (spec_step (abs s) (OAdvance dt)) /\ listeners s' = listeners s /\
    (forall k, unchanged_at s1 s' k \/ expired_at s1 s' o k).
Proof.
  intros HI Hdt s1.
  assert (I1 : Inv s1) by (destruct HI as (H1 & H2 & H3); split; [|split]; assumption).
  destruct (fire_all_ok (length (timers s)) s1 I1) as (s' & o & F & I' & N' & L' & K' & Q').
  exists s', o. split; [exact F|]. split; [exact I'|]. split; [|split; [exact L'|exact K']].
  assert (Hq : next_due (timers s') (now s') = None).
  { apply Q'. cbn [timers s1]. apply armed_count_le. }
  assert (Hld : forall k, live_deadline s1 k = live_deadline s k) by (intros k; reflexivity).
  cbn [spec_step]. destruct (Z.ltb_spec dt 0) as [|_]; [lia|].
  split; [|split]; cbn [abs sdata sdl snow]; [| |exact N'].
  - intros k. rewrite (dget_filter (fun x => negb (expired (abs s) (now s + dt) x))).
    unfold expired. cbn [abs sdl]. destruct (K' k) as [[U1 U2]|(d & v & X1 & X2 & X3 & X4 & X5 & _)].
    + rewrite U1. cbn [data s1]. destruct (live_deadline s k) as [d|] eqn:Hl; [|reflexivity].
      destruct (Z.leb_spec d (now s + dt)) as [Hle|Hgt]; [|reflexivity]. exfalso.
      rewrite Hld, Hl in U2. destruct (live_deadline_some _ _ _ U2) as (i & t & _ & B & C & D).
      pose proof (next_due_none _ _ Hq i t B C). rewrite N' in H. cbn [now s1] in H. lia.
    + rewrite X4. rewrite Hld in X1. rewrite X1. cbn [now s1] in X2.
      destruct (Z.leb_spec d (now s + dt)); [reflexivity|lia].
  - intros k. unfold expired. cbn [abs sdl]. destruct (K' k) as [[U1 U2]|(d & v & X1 & X2 & X3 & X4 & X5 & _)].
    + rewrite U2, Hld. destruct (live_deadline s k) as [d|] eqn:Hl; [|reflexivity].
      destruct (Z.leb_spec d (now s + dt)) as [Hle|Hgt]; [|reflexivity]. exfalso.
      rewrite Hld, Hl in U2. destruct (live_deadline_some _ _ _ U2) as (i & t & _ & B & C & D).
      pose proof (next_due_none _ _ Hq i t B C). rewrite N' in H. cbn [now s1] in H. lia.
    + rewrite X5. rewrite Hld in X1. rewrite X1. cbn [now s1] in X2.
      destruct (Z.leb_spec d (now s + dt)); [reflexivity|lia].
Qed.

Lemma inv_listeners s ls : Inv s -> NoDup ls ->
  let s' := mkSt (data s) ls (tmap s) (timers s) (now s) in Inv s' /\ speq (abs s') (abs s).
Proof.
  intros (H1 & H2 & H3) Hn s'. split; [split; [|split]; assumption|]. apply speq_refl.
Qed.

(* ttl_refines: every step of the repaired implementation is the step of the specification *)
Theorem step_refines s o :
  Inv s -> Inv (fst (step true s o)) /\ speq (abs (fst (step true s o))) (spec_step (abs s) o).
Proof.
  intros HI. destruct o as [k [v|] ttl|k old [v|] ttl|k|k old|l|l|dt|i]; cbn [step spec_step].
  - (* Set *)
    cbn [abs sdata]. destruct (dget (data s) k) as [p|] eqn:Hp.
    + destruct (json_eqb p v) eqn:Hpv; [|now apply do_set_ok].
      apply json_eqb_eq in Hpv. subst p. cbn [fst].
      destruct s as [d ls tm ts nw]. cbn [data] in Hp.
      destruct (put_ok (mkSt d ls tm ts nw) d k v ttl true HI) as (A & B & _).
      * intros k'. cbn [data]. destruct (N.eqb_spec k' k) as [->|]; auto.
      * cbn [data listeners tmap timers now] in A, B. split; assumption.
    + now apply do_set_ok.
  - now apply remove_ok.
  - (* compare-and-set *)
    cbn [abs sdata]. destruct old as [o|]; destruct (dget (data s) k) as [p|] eqn:Hp; cbn [opt_json_eqb].
    + destruct (json_eqb p o); [now apply do_set_ok|now apply no_change_ok].
    + now apply no_change_ok.
    + now apply no_change_ok.
    + now apply do_set_ok.
  - (* compare-and-set with a nil value = compare-and-remove *)
    destruct old as [o|]; [now apply compare_and_remove_ok|].
    unfold compare_and_remove. destruct (dget (data s) k); now apply no_change_ok.
  - now apply remove_ok.
  - destruct old as [o|]; [now apply compare_and_remove_ok|].
    unfold compare_and_remove. destruct (dget (data s) k); now apply no_change_ok.
  - cbn [fst]. apply inv_listeners; [exact HI|]. apply ladd_nodup. apply HI.
  - cbn [fst]. apply inv_listeners; [exact HI|]. apply lremove_nodup. apply HI.
  - (* Advance *)
    destruct (Z.ltb_spec dt 0) as [Hneg|Hpos].
    + cbn [fst]. now apply no_change_ok.
    + destruct (advance_ok s dt HI Hpos) as (s' & o & F & I' & E & _).
      rewrite F. cbn [fst]. split; [exact I'|].
      cbn [spec_step] in E. destruct (Z.ltb_spec dt 0); [lia|exact E].
  - (* FireLate *)
    destruct (nth_error (timers s) i) as [t|] eqn:Hi; [|now apply no_change_ok].
    destruct (t_state t) eqn:Hs; try now apply no_change_ok.
    destruct (fire_stopped_ok s i t HI Hi Hs) as (F & I' & E). rewrite F. cbn [fst]. split; assumption.
Qed.

Lemma run_from_app f s a b : run_from f s (a ++ b) = run_from f (run_from f s a) b.
Proof. revert s. induction a as [|o r IH]; intros s; cbn [run_from app]; auto. Qed.

Lemma inv_run_from ops : forall s, Inv s -> Inv (run_from true s ops).
Proof.
  induction ops as [|o r IH]; intros s HI; cbn [run_from]; [exact HI|]. apply IH. now apply step_refines.
Qed.
Lemma inv_run ops : Inv (run true ops).
Proof. apply inv_run_from, inv_init. Qed.

(* every history of the repaired implementation is a history of the specification *)
Fixpoint spec_run (a : spec) (ops : list op) : spec :=
  match ops with
  | [] => a
  | o :: r => spec_run (spec_step a o) r
  end.

Lemma run_refines ops : forall s a, Inv s -> speq (abs s) a ->
  speq (abs (run_from true s ops)) (spec_run a ops).
Proof.
  induction ops as [|o r IH]; intros s a HI Ha; cbn [run_from spec_run]; [exact Ha|].
  destruct (step_refines s o HI) as [HI' Hs]. apply IH; [exact HI'|].
  eapply speq_trans; [exact Hs|]. now apply spec_step_speq.
Qed.

Lemma abs_init : speq (abs init) spec_init.
Proof. split; [|split]; cbn; auto. Qed.
