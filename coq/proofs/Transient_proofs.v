(* Invariants and lemmas about model/Transient.v (the model of transient_data.go)
   against the specification and the trace predicate of corr/Run_C14.v. *)
From Coq Require Import List ZArith NArith Bool Lia Arith.
From Verif Require Import model.Transient corr.Run_C14.
Import ListNotations.
Open Scope Z_scope.

(* ================================================================== basics *)

Lemma json_eqb_refl a : json_eqb a a = true.
Proof.
  induction a; cbn [json_eqb]; auto using Bool.eqb_reflx, Z.eqb_refl, N.eqb_refl.
  - now rewrite IHa1, IHa2.
  - now rewrite N.eqb_refl, IHa1, IHa2.
Qed.

Lemma json_eqb_eq a : forall b, json_eqb a b = true -> a = b.
Proof.
  induction a; intros b' H; destruct b'; cbn [json_eqb] in H; try discriminate; auto.
  - apply Bool.eqb_prop in H. now subst.
  - apply Z.eqb_eq in H. now subst.
  - apply N.eqb_eq in H. now subst.
  - apply N.eqb_eq in H. now subst.
  - apply andb_true_iff in H as [H1 H2]. f_equal; auto.
  - apply andb_true_iff in H as [H1 H3]. apply andb_true_iff in H1 as [H1 H2].
    apply N.eqb_eq in H1. subst. f_equal; auto.
Qed.

Lemma opt_json_eqb_refl a : opt_json_eqb a a = true.
Proof. destruct a; cbn; auto using json_eqb_refl. Qed.

Lemma upd_same {A} (f : key -> option A) k v : upd f k v k = v.
Proof. unfold upd. now rewrite N.eqb_refl. Qed.
Lemma upd_other {A} (f : key -> option A) k v k' : k' <> k -> upd f k v k' = f k'.
Proof. intros H. unfold upd. destruct (N.eqb_spec k' k); [contradiction|reflexivity]. Qed.

(* ---- the store --------------------------------------------------------------- *)
Lemma dget_dset_same m k v : dget (dset m k v) k = Some v.
Proof.
  induction m as [|[k' v'] r IH]; cbn [dset dget].
  - now rewrite N.eqb_refl.
  - destruct (N.ltb k k'); [cbn [dget]; now rewrite N.eqb_refl|].
    destruct (N.eqb_spec k k') as [->|Hne]; cbn [dget].
    + now rewrite N.eqb_refl.
    + destruct (N.eqb_spec k k'); [contradiction|exact IH].
Qed.
Lemma dget_dset_other m k v k' : k' <> k -> dget (dset m k v) k' = dget m k'.
Proof.
  intros Hne. induction m as [|[k1 v1] r IH]; cbn [dset dget].
  - destruct (N.eqb_spec k' k); [contradiction|reflexivity].
  - destruct (N.ltb k k1).
    + cbn [dget]. destruct (N.eqb_spec k' k); [contradiction|reflexivity].
    + destruct (N.eqb_spec k k1) as [->|Hk]; cbn [dget].
      * destruct (N.eqb_spec k' k1); [contradiction|reflexivity].
      * destruct (N.eqb k' k1); [reflexivity|exact IH].
Qed.
Lemma dget_dset m k v k' : dget (dset m k v) k' = if N.eqb k' k then Some v else dget m k'.
Proof.
  destruct (N.eqb_spec k' k) as [->|H]; [apply dget_dset_same|now apply dget_dset_other].
Qed.

(* filtering by a predicate on keys *)
Lemma dget_filter (f : key -> bool) m k :
  dget (filter (fun e => f (fst e)) m) k = if f k then dget m k else None.
Proof.
  induction m as [|[k1 v1] r IH]; cbn [filter dget fst].
  - now destruct (f k).
  - destruct (f k1) eqn:F1; cbn [dget].
    + destruct (N.eqb_spec k k1) as [->|Hne]; [now rewrite F1|exact IH].
    + destruct (N.eqb_spec k k1) as [->|Hne]; [rewrite IH; now rewrite F1|exact IH].
Qed.
Lemma dget_ddel m k k' : dget (ddel m k) k' = if N.eqb k' k then None else dget m k'.
Proof.
  unfold ddel. rewrite (dget_filter (fun x => negb (N.eqb k x))).
  rewrite (N.eqb_sym k k'). now destruct (N.eqb k' k).
Qed.
Lemma dget_ddel_same m k : dget (ddel m k) k = None.
Proof. rewrite dget_ddel. now rewrite N.eqb_refl. Qed.
Lemma dget_ddel_other m k k' : k' <> k -> dget (ddel m k) k' = dget m k'.
Proof. intros H. rewrite dget_ddel. destruct (N.eqb_spec k' k); [contradiction|reflexivity]. Qed.

Lemma dget_in_keys m k v : dget m k = Some v -> In k (map fst m).
Proof.
  induction m as [|[k1 v1] r IH]; cbn [dget map fst]; [discriminate|].
  destruct (N.eqb_spec k k1) as [->|Hne]; intros H; [now left|right; auto].
Qed.
Lemma in_keys_dget m k : In k (map fst m) -> exists v, dget m k = Some v.
Proof.
  induction m as [|[k1 v1] r IH]; cbn [dget map fst]; [contradiction|].
  intros [->|H]; [rewrite N.eqb_refl; eauto|].
  destruct (N.eqb k k1); eauto.
Qed.

Lemma dmap_sim_ext a b : (forall k, dget a k = dget b k) -> dmap_sim a b = true.
Proof.
  intros H. unfold dmap_sim. apply forallb_forall. intros k _. rewrite H. apply opt_json_eqb_refl.
Qed.
Lemma dmap_sim_refl a : dmap_sim a a = true.
Proof. now apply dmap_sim_ext. Qed.

(* ---- timers ------------------------------------------------------------------- *)
Lemma set_state_same i x l t : nth_error l i = Some t ->
  nth_error (set_state i x l) i = Some (mkTimer (t_key t) (t_val t) (t_deadline t) x).
Proof.
  revert i; induction l as [|a r IH]; intros i H; destruct i; cbn in *; try discriminate.
  - injection H as ->. reflexivity.
  - auto.
Qed.
Lemma set_state_other i x l j : j <> i -> nth_error (set_state i x l) j = nth_error l j.
Proof. revert i j; induction l as [|a r IH]; intros i j H; destruct i, j; cbn; auto; try lia; try (apply IH; lia). Qed.
Lemma set_state_length i x l : length (set_state i x l) = length l.
Proof. revert i; induction l as [|a r IH]; intros i; destruct i; cbn; auto. Qed.

Lemma stop_other i l j : j <> i -> nth_error (stop i l) j = nth_error l j.
Proof. intros H. unfold stop. destruct (nth_error l i) as [t|]; [|reflexivity]. destruct (t_state t); auto using set_state_other. Qed.
Lemma stop_length i l : length (stop i l) = length l.
Proof. unfold stop. destruct (nth_error l i) as [t|]; [|reflexivity]. destruct (t_state t); auto using set_state_length. Qed.
Lemma stop_armed i l t : nth_error l i = Some t -> t_state t = Armed ->
  nth_error (stop i l) i = Some (mkTimer (t_key t) (t_val t) (t_deadline t) Stopped).
Proof. intros H Ha. unfold stop. rewrite H, Ha. now apply set_state_same. Qed.
Lemma stop_not_armed i l t : nth_error l i = Some t -> t_state t <> Armed -> stop i l = l.
Proof. intros H Ha. unfold stop. rewrite H. destruct (t_state t); congruence. Qed.
Lemma stop_opt_length o l : length (stop_opt o l) = length l.
Proof. destruct o; cbn; auto using stop_length. Qed.

(* ---- listeners ----------------------------------------------------------------- *)
Lemma ladd_in l ls x : In x (ladd l ls) <-> x = l \/ In x ls.
Proof.
  induction ls as [|y r IH]; cbn [ladd].
  - cbn. intuition.
  - destruct (N.eqb_spec l y) as [->|Hne]; cbn [In]; [intuition|]. rewrite IH. intuition.
Qed.
Lemma ladd_nodup l ls : NoDup ls -> NoDup (ladd l ls).
Proof.
  induction 1 as [|y r Hy Hr IH]; cbn [ladd].
  - constructor; [intros []|constructor].
  - destruct (N.eqb_spec l y) as [->|Hne]; [now constructor|].
    constructor; [|exact IH]. rewrite ladd_in. intros [->|H]; [congruence|contradiction].
Qed.
Lemma lremove_in l ls x : In x (lremove l ls) <-> x <> l /\ In x ls.
Proof.
  unfold lremove. rewrite filter_In. split.
  - intros [H1 H2]. split; [|exact H1]. intros ->. rewrite N.eqb_refl in H2. discriminate.
  - intros [H1 H2]. split; [exact H2|]. destruct (N.eqb_spec l x); [congruence|reflexivity].
Qed.
Lemma lremove_nodup l ls : NoDup ls -> NoDup (lremove l ls).
Proof. apply NoDup_filter. Qed.

(* ---- messages ------------------------------------------------------------------- *)
Lemma msgs_for_app l a b : msgs_for l (a ++ b) = msgs_for l a ++ msgs_for l b.
Proof. unfold msgs_for. now rewrite filter_app, map_app. Qed.
Lemma apply_all_app r a b : apply_all r (a ++ b) = apply_all (apply_all r a) b.
Proof. unfold apply_all. apply fold_left_app. Qed.

Lemma msgs_for_map_in l m ls : NoDup ls -> In l ls -> msgs_for l (map (fun x => (x, m)) ls) = [m].
Proof.
  unfold msgs_for. induction 1 as [|y r Hy Hr IH]; [contradiction|].
  cbn [map filter fst]. intros [->|Hin].
  - rewrite N.eqb_refl. cbn [map snd]. f_equal.
    clear IH Hr. induction r as [|z r IH]; [reflexivity|]. cbn [map filter fst].
    destruct (N.eqb_spec l z) as [->|Hne]; [exfalso; apply Hy; now left|].
    apply IH. intros H. apply Hy. now right.
  - destruct (N.eqb_spec l y) as [->|Hne]; [contradiction|]. now apply IH.
Qed.
Lemma msgs_for_map_notin l (m : msg) ls : ~ In l ls -> msgs_for l (map (fun x => (x, m)) ls) = [].
Proof.
  unfold msgs_for. induction ls as [|y r IH]; [reflexivity|].
  cbn [map filter fst]. intros H. destruct (N.eqb_spec l y) as [->|Hne]; [exfalso; apply H; now left|].
  apply IH. intros H1. apply H. now right.
Qed.

Lemma msgs_for_cons l e o :
  msgs_for l (e :: o) = if N.eqb l (fst e) then snd e :: msgs_for l o else msgs_for l o.
Proof. unfold msgs_for. cbn [filter]. destruct (N.eqb l (fst e)); reflexivity. Qed.
Lemma msgs_for_nil l : msgs_for l [] = [].
Proof. reflexivity. Qed.

Lemma msgs_for_ins l e o :
  msgs_for l (ins_out e o) = if N.eqb l (fst e) then snd e :: msgs_for l o else msgs_for l o.
Proof.
  induction o as [|x r IH]; cbn [ins_out].
  - now rewrite msgs_for_cons.
  - destruct (N.leb_spec (fst e) (fst x)) as [Hle|Hlt].
    + now rewrite msgs_for_cons.
    + rewrite !msgs_for_cons, IH.
      destruct (N.eqb_spec l (fst x)) as [Hx|Hx]; [|reflexivity].
      destruct (N.eqb_spec l (fst e)) as [He|He]; [exfalso; lia|reflexivity].
Qed.
Lemma msgs_for_sort l o : msgs_for l (sort_outs o) = msgs_for l o.
Proof.
  induction o as [|e r IH]; [reflexivity|]. cbn [sort_outs fold_right].
  change (fold_right ins_out [] r) with (sort_outs r). now rewrite msgs_for_ins, IH, msgs_for_cons.
Qed.
Lemma sort_outs_in e o : In e (sort_outs o) <-> In e o.
Proof.
  assert (Hins : forall x l, In e (ins_out x l) <-> e = x \/ In e l).
  { intros x l. induction l as [|y r IH]; cbn [ins_out]; [cbn; intuition|].
    destruct (N.leb (fst x) (fst y)); cbn [In]; [intuition|]. rewrite IH. intuition. }
  induction o as [|x r IH]; [reflexivity|]. cbn [sort_outs fold_right].
  change (fold_right ins_out [] r) with (sort_outs r). rewrite Hins, IH. cbn. intuition.
Qed.
Lemma in_msgs_for l m o : In (l, m) o -> In m (msgs_for l o).
Proof.
  intros H. unfold msgs_for. apply in_map_iff. exists (l, m). split; [reflexivity|].
  apply filter_In. split; [exact H|]. cbn. apply N.eqb_refl.
Qed.

(* ============================================= abstraction and invariant (repaired code) *)

(* the deadline that governs k: the one of the timer registered for k *)
Definition live_deadline (s : state) (k : key) : option Z :=
  match tmap s k with
  | Some i => match nth_error (timers s) i with
              | Some t => match t_state t with Armed => Some (t_deadline t) | _ => None end
              | None => None
              end
  | None => None
  end.
Definition abs (s : state) : spec := mkSpec (data s) (live_deadline s) (now s).

(* equality of specification states: the same maps *)
Definition speq (a b : spec) : Prop :=
  (forall k, dget (sdata a) k = dget (sdata b) k) /\ (forall k, sdl a k = sdl b k) /\ snow a = snow b.

Lemma speq_refl a : speq a a.
Proof. repeat split. Qed.
Lemma speq_trans a b c : speq a b -> speq b c -> speq a c.
Proof. intros (A1 & A2 & A3) (B1 & B2 & B3). repeat split; intros; congruence. Qed.
Lemma speq_sym a b : speq a b -> speq b a.
Proof. intros (A1 & A2 & A3). repeat split; intros; congruence. Qed.

(* T1: the timer registered for a key is armed, belongs to the key and carries the stored value
   T2: every armed timer is the one registered for its key (all others were stopped) *)
Definition T1at (s : state) (k : key) : Prop :=
  forall i, tmap s k = Some i ->
    exists t, nth_error (timers s) i = Some t /\ t_key t = k /\ t_state t = Armed /\ dget (data s) k = Some (t_val t).
Definition T1weak (s : state) (k : key) : Prop :=
  forall i, tmap s k = Some i ->
    exists t, nth_error (timers s) i = Some t /\ t_key t = k /\ t_state t = Armed.
Definition T2 (s : state) : Prop :=
  forall i t, nth_error (timers s) i = Some t -> t_state t = Armed -> tmap s (t_key t) = Some i.
Definition Inv (s : state) : Prop := (forall k, T1at s k) /\ T2 s /\ NoDup (listeners s).

Lemma T1at_weak s k : T1at s k -> T1weak s k.
Proof. intros H i Hi. destruct (H i Hi) as (t & A & B & C & _). eauto. Qed.

Lemma inv_init : Inv init.
Proof.
  split; [|split].
  - intros k i H. discriminate.
  - intros i t H. destruct i; discriminate.
  - constructor.
Qed.

Lemma live_deadline_armed s k i t :
  tmap s k = Some i -> nth_error (timers s) i = Some t -> t_state t = Armed ->
  live_deadline s k = Some (t_deadline t).
Proof. intros A B C. unfold live_deadline. now rewrite A, B, C. Qed.
Lemma live_deadline_none s k : tmap s k = None -> live_deadline s k = None.
Proof. intros A. unfold live_deadline. now rewrite A. Qed.
Lemma live_deadline_some s k d : live_deadline s k = Some d ->
  exists i t, tmap s k = Some i /\ nth_error (timers s) i = Some t /\ t_state t = Armed /\ t_deadline t = d.
Proof.
  unfold live_deadline. destruct (tmap s k) as [i|]; [|discriminate].
  destruct (nth_error (timers s) i) as [t|] eqn:Ht; [|discriminate].
  destruct (t_state t) eqn:Hs; try discriminate. intros H. injection H as <-. eauto 6.
Qed.
(* same registered timer, same timer contents: same deadline *)
Lemma live_deadline_same s s' k :
  tmap s' k = tmap s k ->
  (forall i, tmap s k = Some i -> nth_error (timers s') i = nth_error (timers s) i) ->
  live_deadline s' k = live_deadline s k.
Proof.
  intros A B. unfold live_deadline. rewrite A. destruct (tmap s k) as [i|]; [|reflexivity].
  now rewrite (B i eq_refl).
Qed.

(* ---- clearing and arming the timer of a key ------------------------------------- *)
Lemma clear_timer_ok s k :
  (forall k', k' <> k -> T1at s k') -> T1weak s k -> T2 s ->
  let s' := clear_timer s k in
  (forall k', T1at s' k') /\ T2 s' /\ tmap s' k = None /\
  (forall k', live_deadline s' k' = if N.eqb k' k then None else live_deadline s k').
Proof.
  intros H1 Hw H2 s'.
  assert (Hoth : forall k' j, k' <> k -> tmap s k' = Some j -> nth_error (timers s') j = nth_error (timers s) j).
  { intros k' j Hne Hj. cbn. destruct (tmap s k) as [i|] eqn:Hk; cbn [stop_opt]; [|reflexivity].
    apply stop_other. intros ->. destruct (H1 k' Hne i Hj) as (t & A & B & _). destruct (Hw i Hk) as (t' & A' & B' & _).
    rewrite A in A'. injection A' as <-. congruence. }
  split; [|split; [|split]].
  - intros k' j Hj. cbn in Hj. destruct (N.eq_dec k' k) as [->|Hne]; [rewrite upd_same in Hj; discriminate|].
    rewrite upd_other in Hj by auto. destruct (H1 k' Hne j Hj) as (t & A & B & C & D).
    exists t. rewrite (Hoth k' j Hne Hj). cbn [data clear_timer s']. auto.
  - intros j t Hj Ha. cbn in Hj |- *. destruct (tmap s k) as [i|] eqn:Hk; cbn [stop_opt] in Hj.
    + destruct (Hw i Hk) as (ti & Ai & Bi & Ci).
      destruct (Nat.eq_dec j i) as [->|Hji].
      * rewrite (stop_armed i _ ti Ai Ci) in Hj. injection Hj as <-. discriminate.
      * rewrite stop_other in Hj by auto. pose proof (H2 j t Hj Ha) as Hm.
        rewrite upd_other; [exact Hm|]. intros Heq. rewrite Heq, Hk in Hm. congruence.
    + pose proof (H2 j t Hj Ha) as Hm. rewrite upd_other; [exact Hm|]. intros Heq. rewrite Heq, Hk in Hm. discriminate.
  - cbn. apply upd_same.
  - intros k'. destruct (N.eqb_spec k' k) as [->|Hne].
    + apply live_deadline_none. cbn. apply upd_same.
    + apply live_deadline_same; [cbn; now apply upd_other|]. intros j Hj. now apply (Hoth k').
Qed.

Lemma arm_timer_ok s k v ttl :
  (forall k', T1at s k') -> T2 s -> tmap s k = None -> dget (data s) k = Some v ->
  let s' := arm_timer s k v ttl in
  (forall k', T1at s' k') /\ T2 s' /\
  (forall k', live_deadline s' k' = if N.eqb k' k then Some (now s + ttl) else live_deadline s k').
Proof.
  intros H1 H2 Hk Hd s'.
  assert (Hold : forall j, (j < length (timers s))%nat -> nth_error (timers s') j = nth_error (timers s) j).
  { intros j Hj. cbn. now rewrite nth_error_app1. }
  assert (Hnew : nth_error (timers s') (length (timers s)) = Some (mkTimer k v (now s + ttl) Armed)).
  { cbn. rewrite nth_error_app2 by lia. now rewrite Nat.sub_diag. }
  split; [|split].
  - intros k' j Hj. cbn in Hj. destruct (N.eq_dec k' k) as [->|Hne].
    + rewrite upd_same in Hj. injection Hj as <-. eexists. split; [exact Hnew|]. cbn. auto.
    + rewrite upd_other in Hj by auto. destruct (H1 k' j Hj) as (t & A & B & C & D).
      exists t. rewrite Hold; [cbn [data arm_timer s']; auto|]. apply nth_error_Some. congruence.
  - intros j t Hj Ha. destruct (Nat.lt_ge_cases j (length (timers s))) as [Hlt|Hge].
    + rewrite Hold in Hj by auto. pose proof (H2 j t Hj Ha) as Hm. cbn.
      rewrite upd_other; [exact Hm|]. intros Heq. rewrite Heq, Hk in Hm. discriminate.
    + assert (j = length (timers s)) as ->.
      { assert (j < length (timers s'))%nat by (apply nth_error_Some; congruence).
        cbn in H. rewrite app_length in H. cbn in H. lia. }
      rewrite Hnew in Hj. injection Hj as <-. cbn. apply upd_same.
  - intros k'. destruct (N.eqb_spec k' k) as [->|Hne].
    + rewrite (live_deadline_armed s' k (length (timers s)) _ (upd_same _ _ _) Hnew eq_refl). reflexivity.
    + apply live_deadline_same; [cbn; now apply upd_other|].
      intros j Hj. destruct (H1 k' j Hj) as (t & A & _). apply Hold. apply nth_error_Some. congruence.
Qed.

(* replacing the stored map keeps what is known about the other keys *)
Lemma T1at_data s d' k' :
  dget d' k' = dget (data s) k' -> T1at s k' ->
  T1at (mkSt d' (listeners s) (tmap s) (timers s) (now s)) k'.
Proof. intros Hd H i Hi. destruct (H i Hi) as (t & A & B & C & D). exists t. cbn. rewrite Hd. auto. Qed.
Lemma T1weak_data s d' k' :
  T1at s k' -> T1weak (mkSt d' (listeners s) (tmap s) (timers s) (now s)) k'.
Proof. intros H i Hi. destruct (H i Hi) as (t & A & B & C & D). exists t. cbn. auto. Qed.

(* a request that stores v under k (the map already updated to d') followed by its ttl part *)
Lemma put_ok s d' k v ttl u :
  Inv s -> (forall k', dget d' k' = if N.eqb k' k then Some v else dget (data s) k') ->
  let s' := set_ttl true u (mkSt d' (listeners s) (tmap s) (timers s) (now s)) k v ttl in
  Inv s' /\ speq (abs s') (spec_put (abs s) k v ttl) /\ listeners s' = listeners s /\ data s' = d'.
Proof.
  intros (H1 & H2 & H3) Hd s'.
  set (s1 := mkSt d' (listeners s) (tmap s) (timers s) (now s)) in *.
  assert (A1 : forall k', k' <> k -> T1at s1 k').
  { intros k' Hne. apply T1at_data; [|apply H1]. rewrite Hd. destruct (N.eqb_spec k' k); [contradiction|reflexivity]. }
  assert (A2 : T1weak s1 k) by (apply T1weak_data, H1).
  destruct (clear_timer_ok s1 k A1 A2 H2) as (C1 & C2 & C3 & C4).
  assert (Hdk : dget d' k = Some v) by (rewrite Hd; now rewrite N.eqb_refl).
  unfold s', set_ttl. destruct (ttl <=? 0) eqn:Httl.
  - split; [split; [exact C1|split; [exact C2|exact H3]]|]. split; [|split; reflexivity].
    split; [|split]; cbn [abs sdata sdl snow spec_put data now clear_timer].
    + intros k'. rewrite dget_dset. apply Hd.
    + intros k'. fold (clear_timer s1 k). rewrite C4. rewrite Httl. unfold upd. reflexivity.
    + reflexivity.
  - destruct (arm_timer_ok (clear_timer s1 k) k v ttl C1 C2 C3 Hdk) as (D1 & D2 & D3).
    split; [split; [exact D1|split; [exact D2|exact H3]]|]. split; [|split; reflexivity].
    split; [|split]; cbn [abs sdata sdl snow spec_put data now arm_timer clear_timer].
    + intros k'. rewrite dget_dset. apply Hd.
    + intros k'. fold (clear_timer s1 k). fold (arm_timer (clear_timer s1 k) k v ttl).
      rewrite D3, C4. rewrite Httl. unfold upd. cbn [now clear_timer s1]. destruct (N.eqb k' k); reflexivity.
    + reflexivity.
Qed.

(* removing k (the map already updated to d') *)
Lemma del_ok s d' k :
  Inv s -> (forall k', dget d' k' = if N.eqb k' k then None else dget (data s) k') ->
  let s' := mkSt d' (listeners s) (upd (tmap s) k None) (stop_opt (tmap s k) (timers s)) (now s) in
  Inv s' /\ speq (abs s') (spec_del (abs s) k).
Proof.
  intros (H1 & H2 & H3) Hd s'.
  set (s1 := mkSt d' (listeners s) (tmap s) (timers s) (now s)).
  assert (A1 : forall k', k' <> k -> T1at s1 k').
  { intros k' Hne. apply T1at_data; [|apply H1]. rewrite Hd. destruct (N.eqb_spec k' k); [contradiction|reflexivity]. }
  assert (A2 : T1weak s1 k) by (apply T1weak_data, H1).
  destruct (clear_timer_ok s1 k A1 A2 H2) as (C1 & C2 & C3 & C4).
  change s' with (clear_timer s1 k).
  split; [split; [exact C1|split; [exact C2|exact H3]]|].
  split; [|split]; cbn [abs sdata sdl snow spec_del data now clear_timer s1].
  - intros k'. rewrite dget_ddel. apply Hd.
  - intros k'. fold (clear_timer s1 k). rewrite C4. unfold upd. reflexivity.
  - reflexivity.
Qed.

(* nothing stored under k: removing it is no change *)
Lemma del_absent s k : Inv s -> dget (data s) k = None -> speq (abs s) (spec_del (abs s) k).
Proof.
  intros (H1 & _) Hk. split; [|split]; cbn [abs sdata sdl snow spec_del]; [| |reflexivity].
  - intros k'. rewrite dget_ddel. destruct (N.eqb_spec k' k) as [->|]; auto.
  - intros k'. unfold upd. destruct (N.eqb_spec k' k) as [->|]; [|reflexivity].
    unfold live_deadline. destruct (tmap s k) as [i|] eqn:Hi; [|reflexivity].
    destruct (H1 k i Hi) as (t & _ & _ & _ & D). congruence.
Qed.

(* ---- firing ------------------------------------------------------------------------ *)
Definition is_armed (t : timer) : bool := match t_state t with Armed => true | _ => false end.
Definition armed_count (ts : list timer) : nat := length (filter is_armed ts).

Lemma armed_count_le ts : (armed_count ts <= length ts)%nat.
Proof.
  unfold armed_count. induction ts as [|a r IH]; cbn; [lia|]. destruct (is_armed a); cbn; lia.
Qed.
Lemma armed_count_pos ts i t : nth_error ts i = Some t -> t_state t = Armed -> (0 < armed_count ts)%nat.
Proof.
  revert i. induction ts as [|a r IH]; intros i H Ha; destruct i; cbn in H; try discriminate.
  - injection H as ->. unfold armed_count, is_armed. cbn. rewrite Ha. cbn. lia.
  - unfold armed_count in *. cbn. specialize (IH i H Ha). destruct (is_armed a); cbn; lia.
Qed.
Lemma armed_count_set_state ts i t x : nth_error ts i = Some t -> t_state t = Armed -> x <> Armed ->
  S (armed_count (set_state i x ts)) = armed_count ts.
Proof.
  revert i. induction ts as [|a r IH]; intros i H Ha Hx; destruct i; cbn in H; try discriminate.
  - injection H as ->. unfold armed_count, is_armed. cbn. rewrite Ha. destruct x; try congruence; reflexivity.
  - unfold armed_count in *. cbn. specialize (IH i H Ha Hx). destruct (is_armed a); cbn; lia.
Qed.

Lemma next_due_some ts nw i d : next_due ts nw = Some (i, d) ->
  exists t, nth_error ts i = Some t /\ t_state t = Armed /\ t_deadline t <= nw.
Proof.
  revert i d. induction ts as [|a r IH]; intros i d H; cbn [next_due] in H; [discriminate|].
  destruct (next_due r nw) as [[j dj]|] eqn:Hr.
  - assert (Hrest : forall i' d', Some (S j, dj) = Some (i', d') ->
              exists t, nth_error (a :: r) i' = Some t /\ t_state t = Armed /\ t_deadline t <= nw).
    { intros i' d' E. injection E as <- <-. cbn. eapply IH. reflexivity. }
    destruct (t_state a) eqn:Ha; eauto.
    destruct (t_deadline a <=? nw) eqn:Hd; eauto.
    destruct (dj <? t_deadline a); eauto.
    injection H as <- <-. exists a. cbn. apply Z.leb_le in Hd. auto.
  - destruct (t_state a) eqn:Ha; try discriminate.
    destruct (t_deadline a <=? nw) eqn:Hd; try discriminate.
    injection H as <- <-. exists a. cbn. apply Z.leb_le in Hd. auto.
Qed.
Lemma next_due_none ts nw : next_due ts nw = None ->
  forall i t, nth_error ts i = Some t -> t_state t = Armed -> nw < t_deadline t.
Proof.
  induction ts as [|a r IH]; intros H i t Hi Ha; [destruct i; discriminate|].
  cbn [next_due] in H. destruct (next_due r nw) as [[j dj]|] eqn:Hr.
  - exfalso. destruct (t_state a); try discriminate.
    destruct (t_deadline a <=? nw); try discriminate. destruct (dj <? t_deadline a); discriminate.
  - destruct i; cbn in Hi.
    + injection Hi as ->. rewrite Ha in H. destruct (t_deadline t <=? nw) eqn:Hd; [discriminate|]. now apply Z.leb_gt in Hd.
    + eapply IH; eauto.
Qed.

(* the callback of the timer registered for its key removes the key *)
Lemma fire_armed_ok s i t :
  Inv s -> nth_error (timers s) i = Some t -> t_state t = Armed ->
  exists s', fire true s i t = (s', notify s (MRemove (t_key t) (t_val t))) /\
    Inv s' /\ speq (abs s') (spec_del (abs s) (t_key t)) /\
    listeners s' = listeners s /\ now s' = now s /\ data s' = ddel (data s) (t_key t) /\
    dget (data s) (t_key t) = Some (t_val t) /\ live_deadline s (t_key t) = Some (t_deadline t) /\
    S (armed_count (timers s')) = armed_count (timers s).
Proof.
  intros (H1 & H2 & H3) Hi Ha.
  pose proof (H2 i t Hi Ha) as Hm.
  destruct (H1 (t_key t) i Hm) as (t' & Hi' & _ & _ & Hd). rewrite Hi in Hi'. injection Hi' as <-.
  set (k := t_key t) in *.
  set (s' := mkSt (ddel (data s) k) (listeners s) (upd (tmap s) k None) (set_state i Fired (timers s)) (now s)).
  assert (Hfire : fire true s i t = (s', notify s (MRemove k (t_val t)))).
  { unfold fire, callback. cbn [tmap data]. fold k. rewrite Hm, Nat.eqb_refl. cbn [negb andb].
    unfold compare_and_remove. cbn [data]. rewrite Hd, json_eqb_refl. unfold do_remove. cbn [data listeners tmap timers now].
    rewrite Hm. cbn [stop_opt].
    rewrite (stop_not_armed i _ _ (set_state_same i Fired _ t Hi)) by (cbn; discriminate). reflexivity. }
  assert (Hoth : forall k' j, k' <> k -> tmap s k' = Some j -> j <> i).
  { intros k' j Hne Hj ->. destruct (H1 k' i Hj) as (t' & A & B & _). rewrite Hi in A. injection A as <-. apply Hne. symmetry. exact B. }
  exists s'. split; [exact Hfire|]. split; [|split; [|repeat split; auto]].
  - split; [|split; [|exact H3]].
    + intros k' j Hj. cbn in Hj. destruct (N.eq_dec k' k) as [->|Hne]; [rewrite upd_same in Hj; discriminate|].
      rewrite upd_other in Hj by auto. destruct (H1 k' j Hj) as (tj & A & B & C & D).
      exists tj. cbn. rewrite set_state_other by (eapply Hoth; eauto). rewrite dget_ddel_other by auto. auto.
    + intros j tj Hj Haj. cbn in Hj |- *. destruct (Nat.eq_dec j i) as [->|Hji].
      * rewrite (set_state_same i Fired _ t Hi) in Hj. injection Hj as <-. discriminate.
      * rewrite set_state_other in Hj by auto. pose proof (H2 j tj Hj Haj) as Hmj.
        rewrite upd_other; [exact Hmj|]. intros Heq. rewrite Heq, Hm in Hmj. congruence.
  - split; [|split]; cbn [abs sdata sdl snow spec_del data now s']; [reflexivity| |reflexivity].
    intros k'. unfold upd. destruct (N.eqb_spec k' k) as [->|Hne].
    + apply live_deadline_none. cbn. apply upd_same.
    + apply live_deadline_same; [cbn; now apply upd_other|]. intros j Hj. cbn. apply set_state_other. eapply Hoth; eauto.
  - eapply live_deadline_armed; eauto.
  - cbn [timers s']. eapply armed_count_set_state; eauto. discriminate.
Qed.

(* the callback of a stopped (superseded) timer changes nothing *)
Lemma fire_stopped_ok s i t :
  Inv s -> nth_error (timers s) i = Some t -> t_state t = Stopped ->
  let s' := mkSt (data s) (listeners s) (tmap s) (set_state i Fired (timers s)) (now s) in
  fire true s i t = (s', []) /\ Inv s' /\ speq (abs s') (abs s).
Proof.
  intros (H1 & H2 & H3) Hi Hs s'.
  assert (Hne : forall k j, tmap s k = Some j -> j <> i).
  { intros k j Hj ->. destruct (H1 k i Hj) as (t' & A & _ & C & _). rewrite Hi in A. injection A as <-. congruence. }
  split; [|split].
  - unfold fire, callback. cbn [tmap]. destruct (tmap s (t_key t)) as [j|] eqn:Hj.
    + destruct (Nat.eqb_spec j i) as [->|Hji]; [exfalso; eapply Hne; eauto|]. reflexivity.
    + reflexivity.
  - split; [|split; [|exact H3]].
    + intros k j Hj. cbn in Hj. destruct (H1 k j Hj) as (tj & A & B & C & D). exists tj. cbn.
      rewrite set_state_other by (eapply Hne; eauto). auto.
    + intros j tj Hj Haj. cbn in Hj |- *. destruct (Nat.eq_dec j i) as [->|Hji].
      * rewrite (set_state_same i Fired _ t Hi) in Hj. injection Hj as <-. discriminate.
      * rewrite set_state_other in Hj by auto. eauto.
  - split; [|split]; cbn [abs sdata sdl snow data now s']; [reflexivity| |reflexivity].
    intros k. apply live_deadline_same; [reflexivity|]. intros j Hj. cbn. apply set_state_other. eapply Hne; eauto.
Qed.

(* what a run of due timers does to one key *)
Definition unchanged_at (s s' : state) (k : key) : Prop :=
  dget (data s') k = dget (data s) k /\ live_deadline s' k = live_deadline s k.
Definition expired_at (s s' : state) (o : outs) (k : key) : Prop :=
  exists d v, live_deadline s k = Some d /\ d <= now s /\ dget (data s) k = Some v /\
    dget (data s') k = None /\ live_deadline s' k = None /\
    forall l, In l (listeners s) -> In (l, MRemove k v) o.

Lemma fire_all_ok fuel : forall s, Inv s ->
  exists s' o, fire_all true fuel s = (s', o) /\ Inv s' /\ now s' = now s /\ listeners s' = listeners s /\
    (forall k, unchanged_at s s' k \/ expired_at s s' o k) /\
    ((armed_count (timers s) <= fuel)%nat -> next_due (timers s') (now s') = None).
Proof.
  induction fuel as [|f IH]; intros s HI.
  - exists s, []. cbn [fire_all].
    split; [reflexivity|]. split; [exact HI|]. split; [reflexivity|]. split; [reflexivity|]. split.
    + intros k. left. split; reflexivity.
    + intros Hc. destruct (next_due (timers s) (now s)) as [[i d]|] eqn:Hn; [|reflexivity].
      destruct (next_due_some _ _ _ _ Hn) as (t & A & B & _). pose proof (armed_count_pos _ _ _ A B). lia.
  - cbn [fire_all]. destruct (next_due (timers s) (now s)) as [[i d]|] eqn:Hn.
    + destruct (next_due_some _ _ _ _ Hn) as (t & Hi & Ha & Hdue). rewrite Hi.
      destruct (fire_armed_ok s i t HI Hi Ha) as (s1 & F1 & I1 & (E1 & E2 & E3) & L1 & N1 & D1 & V1 & LD1 & C1).
      destruct (IH s1 I1) as (s2 & o2 & F2 & I2 & N2 & L2 & K2 & Q2).
      rewrite F1, F2. exists s2, (notify s (MRemove (t_key t) (t_val t)) ++ o2).
      split; [reflexivity|]. split; [exact I2|]. split; [congruence|]. split; [congruence|]. split.
      * intros k. destruct (N.eq_dec k (t_key t)) as [->|Hne].
        -- right. exists (t_deadline t), (t_val t).
           assert (Hd1 : dget (data s1) (t_key t) = None) by (rewrite D1; apply dget_ddel_same).
           assert (Hl1 : live_deadline s1 (t_key t) = None).
           { specialize (E2 (t_key t)). cbn [abs sdl spec_del] in E2. rewrite E2. apply upd_same. }
           destruct (K2 (t_key t)) as [[U1 U2]|(d' & v' & X & _)]; [|congruence].
           repeat split; auto; try congruence.
           intros l Hl. apply in_or_app. left. unfold notify. apply in_map_iff. eauto.
        -- assert (Hd1 : dget (data s1) k = dget (data s) k) by (rewrite D1; now apply dget_ddel_other).
           assert (Hl1 : live_deadline s1 k = live_deadline s k).
           { specialize (E2 k). cbn [abs sdl spec_del] in E2. rewrite E2. now apply upd_other. }
           destruct (K2 k) as [[U1 U2]|(d' & v' & X1 & X2 & X3 & X4 & X5 & X6)].
           ++ left. split; congruence.
           ++ right. exists d', v'. repeat split; try congruence.
              intros l Hl. apply in_or_app. right. apply X6. congruence.
      * intros Hc. apply Q2. lia.
    + exists s, [].
      split; [reflexivity|]. split; [exact HI|]. split; [reflexivity|]. split; [reflexivity|]. split.
      * intros k. left. split; reflexivity.
      * intros _. exact Hn.
Qed.

(* ================================================ the refinement, one step *)

Lemma spec_put_speq a b k v ttl : speq a b -> speq (spec_put a k v ttl) (spec_put b k v ttl).
Proof.
  intros (A1 & A2 & A3). split; [|split]; cbn [spec_put sdata sdl snow]; [| |exact A3].
  - intros k'. rewrite !dget_dset. now rewrite A1.
  - intros k'. unfold upd. rewrite A3. now rewrite A2.
Qed.
Lemma spec_del_speq a b k : speq a b -> speq (spec_del a k) (spec_del b k).
Proof.
  intros (A1 & A2 & A3). split; [|split]; cbn [spec_del sdata sdl snow]; [| |exact A3].
  - intros k'. rewrite !dget_ddel. now rewrite A1.
  - intros k'. unfold upd. now rewrite A2.
Qed.
Lemma expired_speq a b t k : speq a b -> expired a t k = expired b t k.
Proof. intros (_ & A2 & _). unfold expired. now rewrite A2. Qed.

Lemma spec_step_speq a b o : speq a b -> speq (spec_step a o) (spec_step b o).
Proof.
  intros H. pose proof H as (A1 & A2 & A3).
  destruct o as [k [v|] ttl|k old [v|] ttl|k|k old|l|l|dt|i]; cbn [spec_step];
    auto using spec_put_speq, spec_del_speq.
  - rewrite A1. destruct (opt_json_eqb (dget (sdata b) k) old); auto using spec_put_speq.
  - destruct old as [o|]; [|exact H]. rewrite A1.
    destruct (opt_json_eqb (dget (sdata b) k) (Some o)); auto using spec_del_speq.
  - destruct old as [o|]; [|exact H]. rewrite A1.
    destruct (opt_json_eqb (dget (sdata b) k) (Some o)); auto using spec_del_speq.
  - destruct (dt <? 0); [exact H|]. rewrite A3.
    split; [|split]; cbn [sdata sdl snow]; [| |reflexivity].
    + intros k. rewrite (dget_filter (fun x => negb (expired a (snow b + dt) x))).
      rewrite (dget_filter (fun x => negb (expired b (snow b + dt) x))).
      rewrite (expired_speq a b _ _ H). now rewrite A1.
    + intros k. rewrite (expired_speq a b _ _ H). now rewrite A2.
Qed.

Lemma no_change_ok s : Inv s -> Inv s /\ speq (abs s) (abs s).
Proof. intros H. split; [exact H|apply speq_refl]. Qed.

Lemma do_set_ok s k v prev ttl :
  Inv s -> Inv (fst (do_set true s k v prev ttl)) /\
           speq (abs (fst (do_set true s k v prev ttl))) (spec_put (abs s) k v ttl).
Proof.
  intros HI. unfold do_set. cbn [fst].
  destruct (put_ok s (dset (data s) k v) k v ttl false HI) as (A & B & _).
  - intros k'. apply dget_dset.
  - split; assumption.
Qed.

Lemma do_remove_ok s k p :
  Inv s -> Inv (fst (do_remove s k p)) /\ speq (abs (fst (do_remove s k p))) (spec_del (abs s) k).
Proof.
  intros HI. unfold do_remove. cbn [fst]. apply del_ok; [exact HI|]. intros k'. apply dget_ddel.
Qed.

Lemma remove_ok s k :
  Inv s -> Inv (fst (remove s k)) /\ speq (abs (fst (remove s k))) (spec_del (abs s) k).
Proof.
  intros HI. unfold remove. destruct (dget (data s) k) as [p|] eqn:Hp.
  - now apply do_remove_ok.
  - cbn [fst]. split; [exact HI|]. now apply del_absent.
Qed.

Lemma compare_and_remove_ok s k o :
  Inv s -> Inv (fst (compare_and_remove s k (Some o))) /\
  speq (abs (fst (compare_and_remove s k (Some o))))
       (if opt_json_eqb (dget (data s) k) (Some o) then spec_del (abs s) k else abs s).
Proof.
  intros HI. unfold compare_and_remove. destruct (dget (data s) k) as [p|] eqn:Hp; cbn [opt_json_eqb].
  - destruct (json_eqb p o); [now apply do_remove_ok|now apply no_change_ok].
  - now apply no_change_ok.
Qed.

Lemma advance_ok s dt :
  Inv s -> 0 <= dt ->
  let s1 := mkSt (data s) (listeners s) (tmap s) (timers s) (now s + dt) in
  exists s' o, fire_all true (length (timers s)) s1 = (s', o) /\ Inv s' /\
    speq (abs s') (spec_step (abs s) (OAdvance dt)) /\ listeners s' = listeners s /\
    (forall k, if expired (abs s) (now s + dt) k then expired_at s1 s' o k else unchanged_at s1 s' k).
Proof.
  intros HI Hdt s1.
  assert (I1 : Inv s1) by (destruct HI as (H1 & H2 & H3); split; [|split]; assumption).
  destruct (fire_all_ok (length (timers s)) s1 I1) as (s' & o & F & I' & N' & L' & K' & Q').
  exists s', o. split; [exact F|]. split; [exact I'|].
  assert (Hq : next_due (timers s') (now s') = None).
  { apply Q'. cbn [timers s1]. apply armed_count_le. }
  assert (Hld : forall k, live_deadline s1 k = live_deadline s k) by (intros k; reflexivity).
  assert (Hchar : forall k, if expired (abs s) (now s + dt) k then expired_at s1 s' o k else unchanged_at s1 s' k).
  { intros k. unfold expired. cbn [abs sdl].
    destruct (K' k) as [[U1 U2]|(d & v & X1 & X2 & X3 & X4 & X5 & X6)].
    - destruct (live_deadline s k) as [d|] eqn:Hl; [|split; assumption].
      destruct (Z.leb_spec d (now s + dt)) as [Hle|Hgt]; [|split; assumption]. exfalso.
      rewrite Hld, Hl in U2. destruct (live_deadline_some _ _ _ U2) as (i & t & _ & B & C & D).
      pose proof (next_due_none _ _ Hq i t B C) as H. rewrite N' in H. cbn [now s1] in H. lia.
    - pose proof X1 as X1'. rewrite Hld in X1'. rewrite X1'. cbn [now s1] in X2.
      destruct (Z.leb_spec d (now s + dt)); [|lia]. exists d, v. repeat split; assumption. }
  split; [|split; [exact L'|exact Hchar]].
  cbn [spec_step]. destruct (Z.ltb_spec dt 0) as [|_]; [lia|].
  split; [|split]; cbn [abs sdata sdl snow]; [| |exact N'].
  - intros k. rewrite (dget_filter (fun x => negb (expired (abs s) (now s + dt) x))).
    specialize (Hchar k). destruct (expired (abs s) (now s + dt) k); cbn [negb].
    + destruct Hchar as (d & v & _ & _ & _ & X4 & _). exact X4.
    + destruct Hchar as [U1 _]. exact U1.
  - intros k. specialize (Hchar k). destruct (expired (abs s) (now s + dt) k).
    + destruct Hchar as (d & v & _ & _ & _ & _ & X5 & _). exact X5.
    + destruct Hchar as [_ U2]. rewrite U2. apply Hld.
Qed.

Lemma inv_listeners s ls : Inv s -> NoDup ls ->
  let s' := mkSt (data s) ls (tmap s) (timers s) (now s) in Inv s' /\ speq (abs s') (abs s).
Proof.
  intros (H1 & H2 & H3) Hn s'. split; [split; [|split]; assumption|]. apply speq_refl.
Qed.

(* ttl_refines: every step of the repaired implementation is the step of the specification *)
Theorem step_refines s o :
  Inv s -> Inv (fst (step true s o)) /\ speq (abs (fst (step true s o))) (spec_step (abs s) o).
Proof.
  intros HI. destruct o as [k [v|] ttl|k old [v|] ttl|k|k old|l|l|dt|i]; cbn [step spec_step].
  - (* Set *)
    cbn [abs sdata]. destruct (dget (data s) k) as [p|] eqn:Hp.
    + destruct (json_eqb p v) eqn:Hpv; [|now apply do_set_ok].
      apply json_eqb_eq in Hpv. subst p. cbn [fst].
      destruct s as [d ls tm ts nw]. cbn [data] in Hp.
      destruct (put_ok (mkSt d ls tm ts nw) d k v ttl true HI) as (A & B & _).
      * intros k'. cbn [data]. destruct (N.eqb_spec k' k) as [->|]; auto.
      * cbn [data listeners tmap timers now] in A, B. split; assumption.
    + now apply do_set_ok.
  - now apply remove_ok.
  - (* compare-and-set *)
    cbn [abs sdata]. destruct old as [o|]; destruct (dget (data s) k) as [p|] eqn:Hp; cbn [opt_json_eqb].
    + destruct (json_eqb p o); [now apply do_set_ok|now apply no_change_ok].
    + now apply no_change_ok.
    + now apply no_change_ok.
    + now apply do_set_ok.
  - (* compare-and-set with a nil value = compare-and-remove *)
    destruct old as [o|]; [now apply compare_and_remove_ok|].
    unfold compare_and_remove. destruct (dget (data s) k); now apply no_change_ok.
  - now apply remove_ok.
  - destruct old as [o|]; [now apply compare_and_remove_ok|].
    unfold compare_and_remove. destruct (dget (data s) k); now apply no_change_ok.
  - cbn [fst]. apply inv_listeners; [exact HI|]. apply ladd_nodup. apply HI.
  - cbn [fst]. apply inv_listeners; [exact HI|]. apply lremove_nodup. apply HI.
  - (* Advance *)
    destruct (Z.ltb_spec dt 0) as [Hneg|Hpos].
    + cbn [fst]. now apply no_change_ok.
    + destruct (advance_ok s dt HI Hpos) as (s' & o & F & I' & E & _).
      rewrite F. cbn [fst]. split; [exact I'|].
      cbn [spec_step] in E. destruct (Z.ltb_spec dt 0); [lia|exact E].
  - (* FireLate *)
    destruct (nth_error (timers s) i) as [t|] eqn:Hi; [|now apply no_change_ok].
    destruct (t_state t) eqn:Hs; try now apply no_change_ok.
    destruct (fire_stopped_ok s i t HI Hi Hs) as (F & I' & E). rewrite F. cbn [fst]. split; assumption.
Qed.

Lemma run_from_app f s a b : run_from f s (a ++ b) = run_from f (run_from f s a) b.
Proof. revert s. induction a as [|o r IH]; intros s; cbn [run_from app]; auto. Qed.

Lemma inv_run_from ops : forall s, Inv s -> Inv (run_from true s ops).
Proof.
  induction ops as [|o r IH]; intros s HI; cbn [run_from]; [exact HI|]. apply IH. now apply step_refines.
Qed.
Lemma inv_run ops : Inv (run true ops).
Proof. apply inv_run_from, inv_init. Qed.

(* every history of the repaired implementation is a history of the specification *)
Fixpoint spec_run (a : spec) (ops : list op) : spec :=
  match ops with
  | [] => a
  | o :: r => spec_run (spec_step a o) r
  end.

Lemma run_refines ops : forall s a, Inv s -> speq (abs s) a ->
  speq (abs (run_from true s ops)) (spec_run a ops).
Proof.
  induction ops as [|o r IH]; intros s a HI Ha; cbn [run_from spec_run]; [exact Ha|].
  destruct (step_refines s o HI) as [HI' Hs]. apply IH; [exact HI'|].
  eapply speq_trans; [exact Hs|]. now apply spec_step_speq.
Qed.

Lemma abs_init : speq (abs init) spec_init.
Proof. split; [|split]; cbn; auto. Qed.

(* ================================= replicas (both variants of the model) *)

(* what a step sends is, for every listener, exactly the change of the store *)
Definition sends_ok (s s' : state) (o : outs) : Prop :=
  listeners s' = listeners s /\
  forall l, (In l (listeners s) -> apply_all (data s) (msgs_for l o) = data s') /\
            (~ In l (listeners s) -> msgs_for l o = []).

Lemma sends_nil s s' : data s' = data s -> listeners s' = listeners s -> sends_ok s s' [].
Proof. intros Hd Hl. split; [exact Hl|]. intros l. split; intros _; [cbn; now rewrite Hd|reflexivity]. Qed.

Lemma sends_notify s s' m :
  NoDup (listeners s) -> listeners s' = listeners s -> data s' = apply_msg (data s) m ->
  sends_ok s s' (notify s m).
Proof.
  intros Hn Hl Hd. split; [exact Hl|]. intros l. unfold notify. split; intros Hin.
  - rewrite msgs_for_map_in by assumption. cbn. now rewrite Hd.
  - now apply msgs_for_map_notin.
Qed.

Lemma sends_trans s s1 s2 o1 o2 : sends_ok s s1 o1 -> sends_ok s1 s2 o2 -> sends_ok s s2 (o1 ++ o2).
Proof.
  intros (L1 & A) (L2 & B). split; [congruence|]. intros l. rewrite msgs_for_app. split; intros Hin.
  - rewrite apply_all_app. rewrite (proj1 (A l) Hin). apply (proj1 (B l)). now rewrite L1.
  - rewrite (proj2 (A l) Hin). apply (proj2 (B l)). now rewrite L1.
Qed.

Lemma set_ttl_same f u s k v ttl :
  data (set_ttl f u s k v ttl) = data s /\ listeners (set_ttl f u s k v ttl) = listeners s.
Proof. unfold set_ttl. destruct f, (ttl <=? 0), u; cbn; auto. Qed.

Lemma do_set_sends f s k v prev ttl : NoDup (listeners s) ->
  sends_ok s (fst (do_set f s k v prev ttl)) (snd (snd (do_set f s k v prev ttl))).
Proof.
  intros Hn. unfold do_set. cbn [fst snd].
  destruct (set_ttl_same f false (mkSt (dset (data s) k v) (listeners s) (tmap s) (timers s) (now s)) k v ttl) as [A B].
  apply sends_notify; [exact Hn|rewrite B; reflexivity|rewrite A; reflexivity].
Qed.
Lemma do_remove_sends s k p : NoDup (listeners s) ->
  sends_ok s (fst (do_remove s k p)) (snd (snd (do_remove s k p))).
Proof. intros Hn. unfold do_remove. cbn [fst snd]. now apply sends_notify. Qed.
Lemma remove_sends s k : NoDup (listeners s) -> sends_ok s (fst (remove s k)) (snd (snd (remove s k))).
Proof.
  intros Hn. unfold remove. destruct (dget (data s) k); [now apply do_remove_sends|now apply sends_nil].
Qed.
Lemma compare_and_remove_sends s k old : NoDup (listeners s) ->
  sends_ok s (fst (compare_and_remove s k old)) (snd (snd (compare_and_remove s k old))).
Proof.
  intros Hn. unfold compare_and_remove. destruct (dget (data s) k) as [p|]; [|now apply sends_nil].
  destruct old as [o|]; [|now apply sends_nil].
  destruct (json_eqb p o); [now apply do_remove_sends|now apply sends_nil].
Qed.

Lemma fire_sends f s i t : NoDup (listeners s) ->
  sends_ok s (fst (fire f s i t)) (snd (fire f s i t)).
Proof.
  intros Hn. unfold fire.
  set (s1 := mkSt (data s) (listeners s) (tmap s) (set_state i Fired (timers s)) (now s)).
  assert (H1 : sends_ok s1 (fst (callback f s1 i t)) (snd (snd (callback f s1 i t)))).
  { unfold callback. destruct (f && negb _); [now apply sends_nil|]. now apply compare_and_remove_sends. }
  destruct (callback f s1 i t) as [s2 [r o]]. cbn [fst snd] in *.
  destruct H1 as (L & A). split; [exact L|exact A].
Qed.

Lemma fire_all_sends f fuel : forall s, NoDup (listeners s) ->
  sends_ok s (fst (fire_all f fuel s)) (snd (fire_all f fuel s)).
Proof.
  induction fuel as [|n IH]; intros s Hn; cbn [fire_all]; [now apply sends_nil|].
  destruct (next_due (timers s) (now s)) as [[i d]|]; [|now apply sends_nil].
  destruct (nth_error (timers s) i) as [t|]; [|now apply sends_nil].
  pose proof (fire_sends f s i t Hn) as H1. destruct (fire f s i t) as [s1 o1]. cbn [fst snd] in H1.
  assert (Hn1 : NoDup (listeners s1)) by (destruct H1 as [L _]; now rewrite L).
  pose proof (IH s1 Hn1) as H2. destruct (fire_all f n s1) as [s2 o2]. cbn [fst snd] in *.
  eapply sends_trans; eauto.
Qed.

(* every operation other than a join or a leave *)
Definition is_listener_op (o : op) : bool := match o with OAddL _ | ORemoveL _ => true | _ => false end.

Lemma step_sends f s o : NoDup (listeners s) -> is_listener_op o = false ->
  sends_ok s (fst (step f s o)) (snd (snd (step f s o))).
Proof.
  intros Hn Ho. destruct o as [k [v|] ttl|k old [v|] ttl|k|k old|l|l|dt|i]; try discriminate; cbn [step].
  - destruct (dget (data s) k) as [p|]; [|now apply do_set_sends].
    destruct (json_eqb p v); [|now apply do_set_sends]. cbn [fst snd].
    destruct (set_ttl_same f true s k v ttl). now apply sends_nil.
  - now apply remove_sends.
  - destruct old as [o|], (dget (data s) k) as [p|]; try (now apply sends_nil); try (now apply do_set_sends).
    destruct (json_eqb p o); [now apply do_set_sends|now apply sends_nil].
  - now apply compare_and_remove_sends.
  - now apply remove_sends.
  - now apply compare_and_remove_sends.
  - destruct (dt <? 0); [now apply sends_nil|].
    set (s1 := mkSt (data s) (listeners s) (tmap s) (timers s) (now s + dt)).
    pose proof (fire_all_sends f (length (timers s)) s1 Hn) as H. destruct (fire_all f (length (timers s)) s1) as [s2 o].
    cbn [fst snd] in *. exact H.
  - destruct (nth_error (timers s) i) as [t|]; [|now apply sends_nil].
    destruct (t_state t); try now apply sends_nil.
    pose proof (fire_sends f s i t Hn) as H. destruct (fire f s i t) as [s2 o]. cbn [fst snd] in *. exact H.
Qed.

Lemma step_nodup f s o : NoDup (listeners s) -> NoDup (listeners (fst (step f s o))).
Proof.
  intros Hn. destruct (is_listener_op o) eqn:Ho.
  - destruct o; try discriminate; cbn [step fst listeners]; auto using ladd_nodup, lremove_nodup.
  - destruct (step_sends f s o Hn Ho) as [L _]. now rewrite L.
Qed.

(* the replica of a listener: joined exactly when the store lists it, and then equal to the store *)
Definition RepInv (l : lid) (s : state) (r : option dmap) : Prop :=
  match r with
  | Some x => In l (listeners s) /\ x = data s
  | None => ~ In l (listeners s)
  end.

Lemma step_replica f l s r o :
  NoDup (listeners s) -> RepInv l s r ->
  RepInv l (fst (step f s o))
    (option_map (fun x => apply_all x (msgs_for l (sort_outs (snd (snd (step f s o)))))) (join_leave l o r)).
Proof.
  intros Hn Hr. rewrite msgs_for_sort. destruct (is_listener_op o) eqn:Ho.
  - destruct o as [| | | |l'|l'| |]; try discriminate; cbn [step fst snd join_leave].
    + (* join *)
      destruct (N.eqb_spec l' l) as [->|Hne]; cbn [option_map RepInv listeners data].
      * split; [apply ladd_in; now left|].
        destruct (data s) as [|e d]; [reflexivity|]. rewrite msgs_for_cons. cbn [fst snd]. rewrite N.eqb_refl. reflexivity.
      * destruct r as [x|]; cbn [option_map RepInv listeners data] in *.
        -- match goal with |- context [msgs_for l ?t] => assert (Hm : msgs_for l t = []) end.
           { destruct (data s); [reflexivity|]. rewrite msgs_for_cons. cbn [fst].
             destruct (N.eqb_spec l l'); [congruence|reflexivity]. }
           rewrite Hm. destruct Hr as [A B]. split; [apply ladd_in; now right|exact B].
        -- rewrite ladd_in. intros [E|E]; [congruence|contradiction].
    + (* leave *)
      destruct (N.eqb_spec l' l) as [->|Hne]; cbn [option_map RepInv listeners data].
      * rewrite lremove_in. intros [E _]. congruence.
      * destruct r as [x|]; cbn [option_map RepInv listeners data] in *.
        -- destruct Hr as [A B]. split; [apply lremove_in; split; [congruence|exact A]|exact B].
        -- rewrite lremove_in. intros [_ E]. contradiction.
  - destruct (step_sends f s o Hn Ho) as [L A].
    assert (Hj : join_leave l o r = r) by (destruct o; try discriminate; reflexivity).
    rewrite Hj. destruct r as [x|]; cbn [option_map RepInv] in *.
    + destruct Hr as [B C]. split; [now rewrite L|]. subst x. apply (proj1 (A l) B).
    + now rewrite L.
Qed.

Lemma replica_from f l ops : forall s r, NoDup (listeners s) -> RepInv l s r ->
  RepInv l (run_from f s ops) (replica l r (trace_from f s ops)).
Proof.
  induction ops as [|o rest IH]; intros s r Hn Hr; cbn [run_from trace_from replica]; [exact Hr|].
  pose proof (step_replica f l s r o Hn Hr) as H1. pose proof (step_nodup f s o Hn) as H2.
  destruct (step f s o) as [s' [ret ms]]. cbn [fst snd] in *. cbn [replica]. now apply IH.
Qed.

(* replica_converges *)
Theorem replica_converges f ops l : RepInv l (run f ops) (replica l None (trace_of f ops)).
Proof. apply replica_from; [constructor|]. cbn. auto. Qed.

(* a listener that is not joined is sent nothing *)
Lemma step_outs_joined f s o l m : NoDup (listeners s) ->
  In (l, m) (snd (snd (step f s o))) -> In l (listeners (fst (step f s o))).
Proof.
  intros Hn Hin. destruct (is_listener_op o) eqn:Ho.
  - destruct o as [| | | |l'|l'| |]; try discriminate; cbn [step fst snd listeners] in *.
    + destruct (data s); [contradiction|]. destruct Hin as [E|[]]. injection E as <- _. apply ladd_in. now left.
    + contradiction.
  - destruct (step_sends f s o Hn Ho) as [L A]. rewrite L.
    destruct (in_dec N.eq_dec l (listeners s)) as [Hl|Hl]; [exact Hl|].
    pose proof (proj2 (A l) Hl) as E. apply in_msgs_for in Hin. rewrite E in Hin. contradiction.
Qed.

(* unchanged_set_silent *)
Theorem unchanged_set_silent f s k v ttl :
  dget (data s) k = Some v ->
  snd (step f s (OSet k (Some v) ttl)) = (false, []) /\
  data (fst (step f s (OSet k (Some v) ttl))) = data s /\
  listeners (fst (step f s (OSet k (Some v) ttl))) = listeners s.
Proof.
  intros H. cbn [step]. rewrite H, json_eqb_refl. cbn [fst snd].
  destruct (set_ttl_same f true s k v ttl). auto.
Qed.

(* ================================== time-to-live: consequences of the refinement *)

(* does the operation name the key (a request on it) *)
Definition names (k : key) (o : op) : bool :=
  match o with
  | OSet k' _ _ | OCas k' _ _ _ | ORemove k' | OCasRemove k' _ => N.eqb k k'
  | _ => false
  end.
(* the time that passes during a history *)
Fixpoint elapsed (ops : list op) : Z :=
  match ops with
  | [] => 0
  | OAdvance dt :: r => Z.max 0 dt + elapsed r
  | _ :: r => elapsed r
  end.
Lemma elapsed_nonneg ops : 0 <= elapsed ops.
Proof. induction ops as [|o r IH]; cbn [elapsed]; [lia|]. destruct o; lia. Qed.

Definition op_time (o : op) : Z := match o with OAdvance dt => Z.max 0 dt | _ => 0 end.

Lemma spec_step_other a o k : names k o = false ->
  snow (spec_step a o) = snow a + op_time o /\
  (expired a (snow a + op_time o) k = false ->
   dget (sdata (spec_step a o)) k = dget (sdata a) k /\ sdl (spec_step a o) k = sdl a k).
Proof.
  intros Hn.
  assert (Hput : forall k' v ttl, N.eqb k k' = false ->
            dget (sdata (spec_put a k' v ttl)) k = dget (sdata a) k /\ sdl (spec_put a k' v ttl) k = sdl a k).
  { intros k' v ttl E. apply N.eqb_neq in E. cbn [spec_put sdata sdl]. rewrite dget_dset_other, upd_other by auto. auto. }
  assert (Hdel : forall k', N.eqb k k' = false ->
            dget (sdata (spec_del a k')) k = dget (sdata a) k /\ sdl (spec_del a k') k = sdl a k).
  { intros k' E. apply N.eqb_neq in E. cbn [spec_del sdata sdl]. rewrite dget_ddel_other, upd_other by auto. auto. }
  destruct o as [k' [v|] ttl|k' old [v|] ttl|k'|k' old|l|l|dt|i]; cbn [names] in Hn; cbn [spec_step op_time];
    try (split; [cbn; lia|intros _; auto]).
  - destruct (opt_json_eqb (dget (sdata a) k') old); [split; [cbn; lia|intros _; auto]|split; [lia|auto]].
  - destruct old as [o|]; [|split; [lia|auto]].
    destruct (opt_json_eqb (dget (sdata a) k') (Some o)); [split; [cbn; lia|intros _; auto]|split; [lia|auto]].
  - destruct old as [o|]; [|split; [lia|auto]].
    destruct (opt_json_eqb (dget (sdata a) k') (Some o)); [split; [cbn; lia|intros _; auto]|split; [lia|auto]].
  - destruct (Z.ltb_spec dt 0) as [Hneg|Hpos].
    + split; [lia|auto].
    + replace (Z.max 0 dt) with dt by lia. split; [reflexivity|]. intros He. cbn [sdata sdl].
      rewrite (dget_filter (fun x => negb (expired a (snow a + dt) x))). rewrite He. auto.
Qed.

(* v is stored under k and d is its deadline (None: no time-to-live) *)
Definition governed (a : spec) (k : key) (v : json) (d : option Z) : Prop :=
  dget (sdata a) k = Some v /\ sdl a k = d.

Lemma spec_run_other mid : forall a k v d,
  governed a k v d -> forallb (fun o => negb (names k o)) mid = true ->
  match d with Some dl => snow a + elapsed mid < dl | None => True end ->
  governed (spec_run a mid) k v d /\ snow (spec_run a mid) = snow a + elapsed mid.
Proof.
  induction mid as [|o r IH]; intros a k v d Hg Hn Hd; cbn [spec_run]; [cbn [elapsed]; split; [exact Hg|lia]|].
  cbn [forallb] in Hn. apply andb_true_iff in Hn as [Hn1 Hn2]. apply negb_true_iff in Hn1.
  destruct (spec_step_other a o k Hn1) as [T K].
  pose proof (elapsed_nonneg r) as Hr.
  assert (El : elapsed (o :: r) = op_time o + elapsed r) by (destruct o; cbn [elapsed op_time]; lia).
  assert (He : expired a (snow a + op_time o) k = false).
  { destruct Hg as [_ G2]. unfold expired. rewrite G2. destruct d as [dl|]; [|reflexivity].
    apply Z.leb_gt. rewrite El in Hd. lia. }
  destruct (K He) as [K1 K2].
  destruct (IH (spec_step a o) k v d) as [G' T'].
  - destruct Hg as [G1 G2]. split; congruence.
  - exact Hn2.
  - destruct d as [dl|]; [|exact I]. rewrite T. rewrite El in Hd. lia.
  - split; [exact G'|]. rewrite T', T, El. lia.
Qed.

Lemma cas_ret s k old v ttl :
  fst (snd (step true s (OCas k old (Some v) ttl))) = opt_json_eqb (dget (data s) k) old.
Proof.
  cbn [step]. destruct old as [o|], (dget (data s) k) as [p|]; cbn [opt_json_eqb]; try reflexivity.
  destruct (json_eqb p o); reflexivity.
Qed.

(* a request that stores v under k with the given ttl *)
Definition stores (s : state) (o : op) (k : key) (v : json) (ttl : Z) : Prop :=
  o = OSet k (Some v) ttl \/
  exists old, o = OCas k old (Some v) ttl /\ fst (snd (step true s o)) = true.

Lemma stores_governed s o k v ttl : Inv s -> stores s o k v ttl ->
  governed (abs (fst (step true s o))) k v (if ttl <=? 0 then None else Some (now s + ttl)) /\
  now (fst (step true s o)) = now s.
Proof.
  intros HI Hs. destruct (step_refines s o HI) as [_ (E1 & E2 & E3)].
  assert (Hp : spec_step (abs s) o = spec_put (abs s) k v ttl).
  { destruct Hs as [->|(old & -> & Hr)]; [reflexivity|]. rewrite cas_ret in Hr. cbn [spec_step abs sdata]. now rewrite Hr. }
  rewrite Hp in E1, E2, E3. split; [split|].
  - rewrite E1. cbn [spec_put sdata]. apply dget_dset_same.
  - rewrite E2. cbn [spec_put sdl abs snow]. apply upd_same.
  - exact E3.
Qed.

Lemma governed_run s mid k v d : Inv s ->
  governed (abs s) k v d -> forallb (fun o => negb (names k o)) mid = true ->
  match d with Some dl => now s + elapsed mid < dl | None => True end ->
  governed (abs (run_from true s mid)) k v d /\ now (run_from true s mid) = now s + elapsed mid.
Proof.
  intros HI Hg Hn Hd.
  destruct (spec_run_other mid (abs s) k v d Hg Hn Hd) as [[G1 G2] T].
  destruct (run_refines mid s (abs s) HI (speq_refl _)) as (E1 & E2 & E3).
  split; [split|]; [rewrite E1; exact G1|rewrite E2; exact G2|]. cbn [abs snow] in E3, T. congruence.
Qed.

(* ttl_honoured: a value stored with a time-to-live stays until the first Advance that
   reaches its deadline and disappears there, with a remove notification to every
   listener, unless a later request names the key *)
Theorem ttl_honoured pre o k v ttl mid dt :
  let s0 := run true pre in
  0 < ttl -> stores s0 o k v ttl ->
  forallb (fun x => negb (names k x)) mid = true ->
  elapsed mid < ttl -> ttl <= elapsed mid + dt ->
  let s2 := run_from true (fst (step true s0 o)) mid in
  dget (data s2) k = Some v /\
  dget (data (fst (step true s2 (OAdvance dt)))) k = None /\
  forall l, In l (listeners s2) -> In (l, MRemove k v) (snd (snd (step true s2 (OAdvance dt)))).
Proof.
  intros s0 Httl Hs Hn He1 He2 s2.
  assert (I0 : Inv s0) by apply inv_run.
  destruct (stores_governed s0 o k v ttl I0 Hs) as [G1 T1].
  destruct (Z.leb_spec ttl 0) as [|_]; [lia|].
  assert (I1 : Inv (fst (step true s0 o))) by now apply step_refines.
  destruct (governed_run _ mid k v _ I1 G1 Hn) as [[G2 G3] T2]; [rewrite T1; lia|].
  fold s2 in G2, G3, T2. cbn [abs sdata sdl] in G2, G3.
  split; [exact G2|].
  assert (I2 : Inv s2) by (apply inv_run_from; exact I1).
  pose proof (elapsed_nonneg mid) as Hm.
  assert (Hdt : 0 <= dt) by lia.
  destruct (advance_ok s2 dt I2 Hdt) as (s' & out & F & _ & _ & _ & Hchar).
  cbn [step]. destruct (Z.ltb_spec dt 0) as [|_]; [lia|]. rewrite F. cbn [fst snd].
  specialize (Hchar k). unfold expired in Hchar. cbn [abs sdl] in Hchar. rewrite G3 in Hchar.
  destruct (Z.leb_spec (now s0 + ttl) (now s2 + dt)) as [_|Hgt]; [|rewrite T2, T1 in Hgt; lia].
  destruct Hchar as (d & v' & _ & _ & X3 & X4 & _ & X6). cbn [data listeners] in X3, X6.
  rewrite G2 in X3. injection X3 as <-. split; [exact X4|exact X6].
Qed.

(* ... and a value stored without time-to-live (or whose time-to-live was cleared by
   the latest request) stays, whatever timers were armed before *)
Theorem ttl_cleared_persists pre o k v ttl mid :
  let s0 := run true pre in
  ttl <= 0 -> stores s0 o k v ttl ->
  forallb (fun x => negb (names k x)) mid = true ->
  dget (data (run_from true (fst (step true s0 o)) mid)) k = Some v.
Proof.
  intros s0 Httl Hs Hn.
  assert (I0 : Inv s0) by apply inv_run.
  destruct (stores_governed s0 o k v ttl I0 Hs) as [G1 T1].
  destruct (Z.leb_spec ttl 0) as [_|]; [|lia].
  assert (I1 : Inv (fst (step true s0 o))) by now apply step_refines.
  destruct (governed_run _ mid k v _ I1 G1 Hn I) as [[G2 _] _]. exact G2.
Qed.

Lemma fire_late_safe_inv s i : Inv s ->
  let r := step true s (OFireLate i) in
  snd r = (false, []) /\ data (fst r) = data s /\ listeners (fst r) = listeners s /\
  tmap (fst r) = tmap s /\ (forall k, live_deadline (fst r) k = live_deadline s k) /\ now (fst r) = now s.
Proof.
  intros HI r. subst r. cbn [step].
  destruct (nth_error (timers s) i) as [t|] eqn:Hi; [|cbn; auto 7].
  destruct (t_state t) eqn:Hs; try (cbn; auto 7).
  destruct (fire_stopped_ok s i t HI Hi Hs) as (F & _ & (_ & E2 & _)). rewrite F. cbn [fst snd data listeners tmap now].
  repeat split; auto.
Qed.

(* fire_late_safe: the callback of a superseded timer changes nothing *)
Theorem fire_late_safe ops i :
  let s := run true ops in
  let r := step true s (OFireLate i) in
  snd r = (false, []) /\ data (fst r) = data s /\ listeners (fst r) = listeners s /\
  tmap (fst r) = tmap s /\ (forall k, live_deadline (fst r) k = live_deadline s k) /\ now (fst r) = now s.
Proof. intros s. apply fire_late_safe_inv. apply inv_run. Qed.

(* =================== the trace predicate holds on every trace of the repaired model *)

Definition PSim (s : state) (p : pstate) : Prop :=
  speq (abs s) (p_spec p) /\
  (forall l, In l (listeners s) <-> In l (map fst (p_reps p))) /\
  (forall e, In e (p_reps p) -> snd e = data s).

Lemma rep_remove_in l reps e : In e (rep_remove l reps) <-> In e reps /\ fst e <> l.
Proof.
  unfold rep_remove. rewrite filter_In. split; intros [A B]; (split; [exact A|]).
  - intros E. rewrite E, N.eqb_refl in B. discriminate.
  - destruct (N.eqb_spec l (fst e)); [congruence|reflexivity].
Qed.

Lemma reps0_prev s p o e : PSim s p -> In e (joined_after (p_reps p) o) ->
  exists r, RepInv (fst e) s r /\ join_leave (fst e) o r = Some (snd e).
Proof.
  intros (_ & HL & HR) Hin.
  assert (Hold : In e (p_reps p) -> RepInv (fst e) s (Some (snd e))).
  { intros H. split; [apply HL; now apply in_map|now apply HR]. }
  destruct o as [| | | |l0|l0| |]; cbn [joined_after] in Hin;
    try (exists (Some (snd e)); split; [now apply Hold|reflexivity]).
  - destruct Hin as [<-|Hin].
    + cbn [fst snd]. destruct (in_dec N.eq_dec l0 (listeners s)) as [Hi|Hi].
      * exists (Some (data s)). split; [split; auto|]. cbn. now rewrite N.eqb_refl.
      * exists None. split; [exact Hi|]. cbn. now rewrite N.eqb_refl.
    + apply rep_remove_in in Hin as [A B]. exists (Some (snd e)). split; [now apply Hold|].
      cbn. destruct (N.eqb_spec l0 (fst e)); [congruence|reflexivity].
  - apply rep_remove_in in Hin as [A B]. exists (Some (snd e)). split; [now apply Hold|].
    cbn. destruct (N.eqb_spec l0 (fst e)); [congruence|reflexivity].
Qed.

Lemma reps0_cover s p o l : NoDup (listeners s) -> PSim s p ->
  In l (listeners (fst (step true s o))) -> In l (map fst (joined_after (p_reps p) o)).
Proof.
  intros Hn (_ & HL & _) Hin.
  assert (Hrm : forall l0, l <> l0 -> In l (map fst (p_reps p)) -> In l (map fst (rep_remove l0 (p_reps p)))).
  { intros l0 Hne H. apply in_map_iff in H as (e & E & He). apply in_map_iff. exists e. split; [exact E|].
    apply rep_remove_in. split; [exact He|congruence]. }
  destruct (is_listener_op o) eqn:Ho.
  - destruct o as [| | | |l0|l0| |]; try discriminate; cbn [step fst listeners joined_after] in *.
    + apply ladd_in in Hin. destruct (N.eq_dec l l0) as [->|Hne]; [now left|].
      right. apply Hrm; [exact Hne|]. apply HL. destruct Hin; [congruence|assumption].
    + apply lremove_in in Hin as [A B]. apply Hrm; [exact A|]. now apply HL.
  - destruct (step_sends true s o Hn Ho) as [L _]. rewrite L in Hin.
    assert (Hj : joined_after (p_reps p) o = p_reps p) by (destruct o; try discriminate; reflexivity).
    rewrite Hj. now apply HL.
Qed.

Lemma data_nil_sim a b : (forall k, dget a k = dget b k) -> a = [] -> b = [].
Proof.
  intros H ->. destruct b as [|[k v] r]; [reflexivity|]. specialize (H k). cbn in H. rewrite N.eqb_refl in H. discriminate.
Qed.

Lemma P_step_ok s p o :
  Inv s -> PSim s p ->
  let r := step true s o in
  exists p', P_step p (o, (fst (snd r), sort_outs (snd (snd r)), data (fst r))) = Some p' /\ PSim (fst r) p'.
Proof.
  intros HI HP r.
  pose proof HI as (_ & _ & Hn). pose proof HP as (HA & HL & HR).
  destruct (step_refines s o HI) as [HI' HE]. fold r in HI', HE.
  set (a := p_spec p) in *. set (reps0 := joined_after (p_reps p) o).
  set (ms := snd (snd r)). set (s' := fst r) in *.
  (* every joined replica follows the store *)
  assert (F1 : forall e, In e reps0 -> In (fst e) (listeners s') /\ apply_all (snd e) (msgs_for (fst e) (sort_outs ms)) = data s').
  { intros e He. destruct (reps0_prev s p o e HP He) as (r0 & R1 & R2).
    pose proof (step_replica true (fst e) s r0 o Hn R1) as H. rewrite R2 in H. exact H. }
  assert (F2 : forall l, In l (listeners s') -> In l (map fst reps0)) by (intros l; now apply reps0_cover).
  assert (E' : speq (abs s') (spec_step a o)).
  { eapply speq_trans; [exact HE|]. now apply spec_step_speq. }
  (* 1: the store *)
  assert (C1 : dmap_sim (data s') (sdata (spec_step a o)) = true).
  { apply dmap_sim_ext. destruct E' as (E1 & _). exact E1. }
  (* 2: only joined listeners are sent anything *)
  assert (C2 : forallb (fun m => existsb (fun e => N.eqb (fst m) (fst e)) reps0) (sort_outs ms) = true).
  { apply forallb_forall. intros [l m] Hm. apply (proj1 (sort_outs_in _ _)) in Hm.
    pose proof (step_outs_joined true s o l m Hn Hm) as Hl. apply F2 in Hl.
    apply in_map_iff in Hl as (e & E & He). apply existsb_exists. exists e. split; [exact He|]. cbn [fst]. rewrite E. apply N.eqb_refl. }
  (* 3: replicas *)
  set (reps1 := map (fun e => (fst e, apply_all (snd e) (msgs_for (fst e) (sort_outs ms)))) reps0).
  assert (C3 : forallb (fun e => dmap_sim (snd e) (data s')) reps1 = true).
  { apply forallb_forall. intros e He. apply in_map_iff in He as (e0 & <- & He0). cbn [snd].
    rewrite (proj2 (F1 e0 He0)). apply dmap_sim_refl. }
  (* 4: silence *)
  assert (C4 : silent_ok a o (sort_outs ms) = true).
  { destruct o as [k [v|] ttl| | | | | | |i]; try reflexivity; cbn [silent_ok].
    - destruct (opt_json_eqb (dget (sdata a) k) (Some v)) eqn:Hq; [|reflexivity].
      destruct HA as (A1 & _). rewrite <- A1 in Hq. cbn [abs sdata] in Hq.
      unfold ms, r. cbn [step]. destruct (dget (data s) k) as [q|]; [|discriminate]. cbn [opt_json_eqb] in Hq.
      rewrite Hq. reflexivity.
    - destruct (fire_late_safe_inv s i HI) as [Hs _]. unfold ms, r. rewrite Hs. reflexivity. }
  (* 5: joining *)
  assert (C5 : join_ok a o (sort_outs ms) = true).
  { destruct o as [| | | |l| | |]; try reflexivity. cbn [join_ok]. rewrite msgs_for_sort.
    destruct HA as (A1 & _). cbn [abs sdata] in A1. unfold ms, r. cbn [step snd].
    destruct (data s) as [|e0 d0] eqn:Hd.
    - rewrite (data_nil_sim [] (sdata a)) by (auto). reflexivity.
    - destruct (sdata a) as [|e1 d1] eqn:Hs.
      + exfalso. assert (X : e0 :: d0 = []) by (apply (data_nil_sim [] (e0 :: d0)); auto). discriminate.
      + rewrite msgs_for_cons. cbn [fst snd]. rewrite N.eqb_refl. cbn [msgs_for filter map]. apply dmap_sim_ext. exact A1. }
  (* 6: expiry is notified *)
  assert (C6 : expiry_ok a o reps0 (sort_outs ms) = true).
  { destruct o as [| | | | | |dt|]; try reflexivity. cbn [expiry_ok].
    destruct (Z.ltb_spec dt 0) as [|Hdt]; [reflexivity|].
    apply forallb_forall. intros k _. destruct (expired a (snow a + dt) k) eqn:Hx; [|reflexivity]. cbn [negb orb].
    destruct (advance_ok s dt HI Hdt) as (s2 & out & F & _ & _ & _ & Hchar).
    assert (Hms : ms = out).
    { unfold ms, r. cbn [step]. destruct (Z.ltb_spec dt 0); [lia|]. rewrite F. reflexivity. }
    specialize (Hchar k). rewrite (expired_speq _ _ _ _ HA) in Hchar.
    destruct HA as (_ & _ & A3). cbn [abs snow] in A3. rewrite A3, Hx in Hchar.
    destruct Hchar as (d & v & _ & _ & _ & _ & _ & X6). cbn [listeners] in X6.
    apply forallb_forall. intros e He. unfold reps0 in He. cbn [joined_after] in He.
    rewrite msgs_for_sort, Hms. apply existsb_exists. exists (MRemove k v). split.
    - apply in_msgs_for. apply X6. apply HL. now apply in_map.
    - cbn. apply N.eqb_refl. }
  exists (mkP (spec_step a o) reps1). split.
  - unfold P_step. fold a. fold reps0. fold reps1. rewrite C1, C2, C3, C4, C5, C6. reflexivity.
  - split; [exact E'|]. cbn [p_reps]. split.
    + intros l. unfold reps1. rewrite map_map. cbn [fst]. split.
      * apply F2.
      * intros H. apply in_map_iff in H as (e & <- & He). apply (F1 e He).
    + intros e He. apply in_map_iff in He as (e0 & <- & He0). cbn [snd]. apply (F1 e0 He0).
Qed.

Lemma P_from_ok ops : forall s p, Inv s -> PSim s p -> P_from p (trace_from true s ops) = true.
Proof.
  induction ops as [|o r IH]; intros s p HI HP; cbn [trace_from P_from]; [reflexivity|].
  destruct (P_step_ok s p o HI HP) as (p' & E & HP').
  pose proof (proj1 (step_refines s o HI)) as HI'.
  destruct (step true s o) as [s' [ret ms]]. cbn [fst snd] in *. cbn [P_from]. rewrite E. now apply IH.
Qed.

Lemma psim_init : PSim init p_init.
Proof.
  split; [apply abs_init|]. split; [intros l; cbn; tauto|intros e []].
Qed.

(* the property, as judged on the implementation's traces, holds on every trace of the model *)
Theorem P_holds ops : P_C14 (trace_of true ops) = true.
Proof. apply P_from_ok; [apply inv_init|apply psim_init]. Qed.

(* ====================================== the unrepaired code (fixed = false) *)

Lemma refuted_clear : P_C14 (trace_of false h_clear) = false /\ dget (data (run false h_clear)) 1%N = None.
Proof. split; vm_compute; reflexivity. Qed.
Lemma refuted_aba : P_C14 (trace_of false h_aba) = false /\ dget (data (run false h_aba)) 1%N = None.
Proof. split; vm_compute; reflexivity. Qed.
Lemma refuted_late : P_C14 (trace_of false h_late) = false /\ dget (data (run false h_late)) 1%N = None.
Proof. split; vm_compute; reflexivity. Qed.

(* the same histories in the repaired code *)
Lemma repaired_witnesses :
  dget (data (run true h_clear)) 1%N = Some (JStr 7) /\ dget (data (run true h_aba)) 1%N = Some (JStr 7) /\
  dget (data (run_from true init (firstn 4 h_late))) 1%N = Some (JStr 7).
Proof. repeat split; vm_compute; reflexivity. Qed.

Lemma refuted_cleared_persists :
  exists pre o k v ttl mid,
    ttl <= 0 /\ o = OSet k (Some v) ttl /\ forallb (fun x => negb (names k x)) mid = true /\
    dget (data (run_from false (fst (step false (run false pre) o)) mid)) k = None.
Proof.
  exists [OSet 1 (Some (JStr 7)) (50 * msec)], (OSet 1 (Some (JStr 7)) 0), 1%N, (JStr 7), 0, [OAdvance (150 * msec)].
  repeat split; try reflexivity; try lia.
Qed.

Lemma refuted_fire_late :
  exists ops i, dget (data (run false ops)) 1%N = Some (JStr 7) /\
                dget (data (fst (step false (run false ops) (OFireLate i)))) 1%N = None.
Proof. exists (firstn 3 h_late), 0%nat. split; vm_compute; reflexivity. Qed.

Lemma refuted_refines :
  exists ops o, ~ speq (abs (fst (step false (run false ops) o))) (spec_step (abs (run false ops)) o).
Proof.
  exists (firstn 2 h_clear), (OAdvance (150 * msec)). intros (E1 & _). specialize (E1 1%N). vm_compute in E1. discriminate.
Qed.

(* ---- lock programs: every method is a sequence of whole critical sections ---- *)
From Verif Require Import gen.LockProgs.
Fixpoint sections_only (l : list lockop) : bool :=
  match l with
  | [] => true
  | Lock :: Unlock :: r => sections_only r
  | _ => false
  end.

Lemma json_eqb_iff a b : json_eqb a b = true <-> a = b.
Proof. split; [apply json_eqb_eq|intros ->; apply json_eqb_refl]. Qed.
