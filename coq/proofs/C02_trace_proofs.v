(* The trace predicate P_C02 (corr/Run_C02.v) holds on every trace the model
   produces, for every configuration, every list of requests and every oracle
   table -- except for its pairwise "tamper" clause, which needs the hypotheses
   that exclude an HMAC collision and the known finding C02/boundary-shift. *)
From Coq Require Import List ZArith NArith Bool String Ascii Arith Lia.
From Verif Require Import gen.Params model.Checksum model.Throttle model.RoomAuth proofs.Throttle_proofs
     proofs.RoomAuth_proofs corr.Run_C02.
Import ListNotations.
Open Scope Z_scope.

(* ---- well-formed oracle tables ------------------------------------------------
   the MAC recorded for a backend depends on its secret only, and the generator's
   intent (when given) is what the lookup oracle says *)
Definition wf_macs (cfg : config) (x : opx) : Prop :=
  forall b b', In b (all_backends cfg) -> In b' (all_backends cfg) -> b_secret b = b_secret b' ->
               assoc (b_id b) (x_macs x) = assoc (b_id b') (x_macs x).
Definition wf_op (cfg : config) (x : opx) : Prop := claim_agrees x = true /\ wf_macs cfg x.

Definition cat (x : opx) : bytes := (q_rnd (x_req x) ++ q_body (x_req x))%string.

(* one HMAC function behind all tables of a run *)
Definition tables_from (hm : bytes -> bytes -> bytes) (cfg : config) (xs : list opx) : Prop :=
  forall x b m, In x xs -> In b (all_backends cfg) -> assoc (b_id b) (x_macs x) = Some m ->
                m = hm (b_secret b) (cat x).
(* "unless HMAC collides": no two MAC inputs of the run with the same MAC *)
Definition no_collision (hm : bytes -> bytes -> bytes) (cfg : config) (xs : list opx) : Prop :=
  forall x x' b b', In x xs -> In x' xs -> In b (all_backends cfg) -> In b' (all_backends cfg) ->
                    hm (b_secret b) (cat x) = hm (b_secret b') (cat x') -> cat x = cat x'.
(* excludes exactly the known finding: no two requests of the run with the same
   random ++ body but a different split *)
Definition no_boundary_shift (xs : list opx) : Prop :=
  forall x x', In x xs -> In x' xs -> cat x = cat x' -> same_pair x' x = true.

(* ---- small facts ---------------------------------------------------------------- *)
Lemma filter_nil_iff {A} (f : A -> bool) l : filter f l = [] <-> forall a, In a l -> f a = false.
Proof.
  induction l as [|a l IH]; cbn; [tauto|].
  destruct (f a) eqn:Fa; split.
  - discriminate.
  - intros H. specialize (H a (or_introl eq_refl)). congruence.
  - intros H b [<-|Hb]; [exact Fa|]. now apply IH.
  - intros H. apply IH. intros b Hb. apply H. now right.
Qed.

Lemma existsb_eqb_in i l : existsb (N.eqb i) l = true <-> In i l.
Proof.
  rewrite existsb_exists. split.
  - intros (j & Hj & E). apply N.eqb_eq in E. now subst.
  - intros H. exists i. split; [exact H|apply N.eqb_refl].
Qed.

Lemma backend_of_some cfg i b : backend_of cfg i = Some b -> In b (all_backends cfg) /\ b_id b = i.
Proof. unfold backend_of. intros H. apply find_some in H. destruct H as [H E]. apply N.eqb_eq in E. auto. Qed.

Lemma backend_of_none cfg i : backend_of cfg i = None -> ~ In i (ids cfg).
Proof.
  unfold backend_of, ids. intros H Hin. apply in_map_iff in Hin. destruct Hin as (b & E & Hb).
  eapply find_none in H; [|exact Hb]. cbn in H. rewrite E, N.eqb_refl in H. discriminate.
Qed.

Lemma maxBody_spec : maxBodySize = spec_max_body.
Proof. reflexivity. Qed.

(* ---- the model's checks are the property's mac_ok ---------------------------------- *)
Lemma checks_mac_ok cfg x b :
  wf_macs cfg x -> In b (all_backends cfg) -> q_chk (x_req x) <> EmptyString ->
  checks (hmac_x cfg x) (x_req x) b = mac_ok x (b_id b).
Proof.
  intros W Hin Hc. unfold checks, validb, calculate, hmac_x, mac_ok.
  rewrite String.eqb_refl.
  destruct (find (fun b0 => String.eqb (b_secret b0) (b_secret b)) (all_backends cfg)) as [b2|] eqn:F.
  - apply find_some in F. destruct F as [Hin2 Hs]. apply String.eqb_eq in Hs.
    rewrite (W b2 b Hin2 Hin Hs).
    destruct (assoc (b_id b) (x_macs x)) as [m|].
    + apply String.eqb_sym.
    + cbn. destruct (q_chk (x_req x)); [congruence|reflexivity].
  - exfalso. eapply find_none in F; [|exact Hin]. cbn in F. rewrite String.eqb_refl in F. discriminate.
Qed.

Lemma claim_eff x :
  claim_agrees x = true -> is_empty (q_bhdr (x_req x)) = false ->
  claim_of x = Some (if x_parse x then x_lookup x else None).
Proof.
  unfold claim_agrees, claim_of. intros H He. rewrite He in *. cbn [orb] in H.
  destruct (x_claim x) as [c|]; [|reflexivity].
  destruct (if x_parse x then x_lookup x else None) as [i|], c as [j|]; try discriminate; try reflexivity.
  apply N.eqb_eq in H. now subst.
Qed.

Lemma resolve_named_x cfg x :
  is_empty (q_bhdr (x_req x)) = false ->
  resolve (hmac_x cfg x) (url_parse_x x) (get_backend_x cfg x) cfg (x_req x) =
  if x_parse x then match x_lookup x with Some i => backend_of cfg i | None => None end else None.
Proof.
  intros He. unfold resolve, named_backend, url_parse_x, get_backend_x. rewrite He, String.eqb_refl.
  destruct (x_parse x); reflexivity.
Qed.

Section PerOp.
  Context (cfg : config) (x : opx).
  Context (W : wf_op cfg x).
  Context (Hr : q_rnd (x_req x) <> EmptyString) (Hc : q_chk (x_req x) <> EmptyString).

  Notation auth := (authenticate (hmac_x cfg x) (url_parse_x x) (get_backend_x cfg x) cfg (x_req x)).
  Notation res := (resolve (hmac_x cfg x) (url_parse_x x) (get_backend_x cfg x) cfg (x_req x)).

  Lemma headers_nonempty : is_empty (q_rnd (x_req x)) || is_empty (q_chk (x_req x)) = false.
  Proof.
    apply is_empty_false in Hr. apply is_empty_false in Hc. now rewrite Hr, Hc.
  Qed.

  Lemma resolve_in b : res = Some b -> In b (all_backends cfg).
  Proof.
    destruct (is_empty (q_bhdr (x_req x))) eqn:He.
    - unfold resolve, all_backends. rewrite He. destruct (cfg_compat cfg) as [c|].
      + intros E. injection E as <-. now left.
      + intros F. apply find_some in F. tauto.
    - rewrite (resolve_named_x cfg x He). destruct (x_parse x); [|discriminate].
      destruct (x_lookup x) as [i|]; [|discriminate]. intros F. now apply backend_of_some in F.
  Qed.

  Lemma auth_accept b : auth = Some b -> existsb (N.eqb (b_id b)) (accept_set cfg x) = true.
  Proof.
    destruct W as [Wc Wm].
    unfold authenticate. destruct res as [b0|] eqn:R; [|discriminate].
    destruct (checks (hmac_x cfg x) (x_req x) b0) eqn:C; [|discriminate]. intros E. injection E as <-.
    pose proof (resolve_in b0 R) as Hin.
    rewrite (checks_mac_ok cfg x b0 Wm Hin Hc) in C.
    unfold accept_set. rewrite headers_nonempty.
    destruct (is_empty (q_bhdr (x_req x))) eqn:He.
    - unfold claim_of. rewrite He. apply existsb_eqb_in. apply filter_In. split; [|exact C].
      unfold ids. now apply in_map.
    - rewrite (claim_eff x Wc He). rewrite (resolve_named_x cfg x He) in R.
      destruct (x_parse x); [|discriminate]. destruct (x_lookup x) as [i|]; [|discriminate].
      apply backend_of_some in R. destruct R as [_ <-].
      assert (Hi : existsb (N.eqb (b_id b0)) (ids cfg) = true)
        by (apply existsb_eqb_in; unfold ids; now apply in_map).
      rewrite Hi, C. cbn. now rewrite N.eqb_refl.
  Qed.

  Lemma noauth_accept : auth = None -> accept_set cfg x = [].
  Proof.
    destruct W as [Wc Wm].
    unfold accept_set. rewrite headers_nonempty.
    destruct (is_empty (q_bhdr (x_req x))) eqn:He.
    - unfold claim_of. rewrite He. unfold authenticate, resolve. rewrite He.
      intros A. apply filter_nil_iff. intros i Hi. unfold ids in Hi. apply in_map_iff in Hi.
      destruct Hi as (b & <- & Hb). rewrite <- (checks_mac_ok cfg x b Wm Hb Hc).
      unfold all_backends in Hb. destruct (cfg_compat cfg) as [c|].
      + destruct Hb as [<-|[]]. destruct (checks (hmac_x cfg x) (x_req x) c); [discriminate|reflexivity].
      + destruct (find (checks (hmac_x cfg x) (x_req x)) (cfg_backends cfg)) as [b0|] eqn:F.
        * pose proof (find_some _ _ F) as [_ C0]. rewrite C0 in A. discriminate.
        * eapply find_none in F; eauto.
    - rewrite (claim_eff x Wc He). unfold authenticate. rewrite (resolve_named_x cfg x He).
      destruct (x_parse x); [|reflexivity]. destruct (x_lookup x) as [i|]; [|reflexivity].
      destruct (backend_of cfg i) as [b|] eqn:B.
      + apply backend_of_some in B. destruct B as [Hb <-].
        rewrite (checks_mac_ok cfg x b Wm Hb Hc).
        destruct (mac_ok x (b_id b)); [discriminate|]. intros _. now rewrite andb_false_r.
      + intros _. apply backend_of_none in B.
        destruct (existsb (N.eqb i) (ids cfg)) eqn:E; [|reflexivity].
        apply existsb_eqb_in in E. contradiction.
  Qed.
End PerOp.

(* ---- the model's observation for one request -------------------------------------- *)
Definition result_of (cfg : config) (th : Throttle.state) (x : opx) : Throttle.state * result :=
  handle (hmac_x cfg x) (url_parse_x x) (get_backend_x cfg x) cfg th (x_t x) (x_addr x) (x_req x).

Definition obs_of (x : opx) (r : result) : obs :=
  (status_of (fun _ => x_kind x) r (q_body (x_req x)),
   match client_event (fun _ => x_kind x) r (q_body (x_req x)) with Some b => [b_id b] | None => [] end,
   delay_of r).

Lemma model_step_eq cfg th x :
  model_step cfg th x = (fst (result_of cfg th x), obs_of x (snd (result_of cfg th x))).
Proof. unfold model_step, result_of, obs_of. destruct (handle _ _ _ _ _ _ _ _). reflexivity. Qed.

Lemma wellformed_precheck x r :
  wellformed x = true -> precheck (x_req x) = Some r -> r = RNoHeaders.
Proof.
  unfold wellformed, precheck. intros Hw.
  apply andb_prop in Hw. destruct Hw as [Hw Hj]. apply andb_prop in Hw. destruct Hw as [Hw Hm].
  apply andb_prop in Hw. destruct Hw as [Hp H0].
  apply Z.leb_le in H0. apply Z.leb_le in Hm. rewrite Hp, Hj. cbn [negb].
  destruct (Z.eqb_spec (q_clen (x_req x)) (-1)); [lia|].
  rewrite maxBody_spec. destruct (Z.gtb_spec (q_clen (x_req x)) spec_max_body); [lia|].
  destruct (is_empty (q_rnd (x_req x)) || is_empty (q_chk (x_req x))); [|discriminate].
  intros E. now injection E as <-.
Qed.

Lemma precheck_status_not_429 q s : precheck q = Some (RPre s) -> s <> 429%N.
Proof.
  unfold precheck.
  repeat match goal with |- context [if ?c then _ else _] => destruct c end;
    intros E; inversion E; discriminate.
Qed.

Lemma delivered_obs_of x r :
  delivered (obs_of x r) <> [] -> exists b, r = RAuth b /\ delivered (obs_of x r) = [b_id b].
Proof.
  unfold obs_of, delivered. cbn [fst snd]. destruct r; cbn; try congruence.
  destruct (x_kind x); cbn; try congruence. eauto.
Qed.

(* the three clauses of P_C02 that look at one request only *)
Lemma local_ok cfg th x :
  wf_op cfg x ->
  let o := obs_of x (snd (result_of cfg th x)) in
  ok_delivered cfg x o = true /\ ok_post x o = true /\ ok_iff cfg x o = true.
Proof.
  intros W o. subst o. unfold result_of.
  destruct (handle_cases (hmac_x cfg x) (url_parse_x x) (get_backend_x cfg x) cfg th (x_t x) (x_addr x) (x_req x))
    as [(r & Hp & Hh)|[(Hp & Hb & Hh)|[(Hp & Hb & b & Ha & Hh)|(Hp & Hb & Ha & d & Hh)]]].
  - (* refused by a pre-check *)
    rewrite Hh. cbn [snd].
    assert (Hd : delivered (obs_of x r) = []).
    { destruct (precheck_some _ _ Hp) as [[s ->]| ->]; reflexivity. }
    split; [|split].
    + unfold ok_delivered. now rewrite Hd.
    + unfold ok_post. rewrite Hd. apply orb_true_r.
    + unfold ok_iff. destruct (wellformed x) eqn:Hw; [|reflexivity]. cbn [negb orb].
      pose proof (wellformed_precheck x r Hw Hp) as Er. subst r. cbn.
      apply precheck_noheaders in Hp. unfold accept_set.
      assert (E : is_empty (q_rnd (x_req x)) || is_empty (q_chk (x_req x)) = true).
      { destruct Hp as [E|E]; rewrite E; cbn; [reflexivity|apply orb_true_r]. }
      now rewrite E.
  - (* throttled *)
    rewrite Hh. split; [|split]; [reflexivity| |].
    + unfold ok_post. apply orb_true_r.
    + unfold ok_iff. destruct (wellformed x); reflexivity.
  - (* authenticated as b *)
    rewrite Hh. cbn [snd]. apply precheck_none in Hp. destruct Hp as (Hpost & _ & _ & _ & Hr & Hc).
    pose proof (auth_accept cfg x W Hr Hc b Ha) as Hacc.
    split; [|split].
    + unfold ok_delivered, obs_of, delivered. cbn [fst snd client_event].
      destruct (x_kind x); try reflexivity. exact Hacc.
    + unfold ok_post. now rewrite Hpost.
    + unfold ok_iff. destruct (wellformed x); [|reflexivity]. cbn [negb orb].
      assert (Hne : is_empty_list (accept_set cfg x) = false).
      { destruct (accept_set cfg x); [discriminate|reflexivity]. }
      rewrite Hne. unfold obs_of, status. cbn [fst status_of].
      destruct (x_kind x); reflexivity.
  - (* refused with 403 *)
    rewrite Hh. cbn [snd]. apply precheck_none in Hp. destruct Hp as (Hpost & _ & _ & _ & Hr & Hc).
    split; [|split]; [reflexivity| |].
    + unfold ok_post. apply orb_true_r.
    + unfold ok_iff. rewrite (noauth_accept cfg x W Hr Hc Ha). cbn.
      destruct (wellformed x); reflexivity.
Qed.

(* ---- the throttle clause -------------------------------------------------------------- *)
Definition count403 (pre : trace) (k : ipkey) : nat :=
  List.length (filter (fun xo => ipkey_eqb (throttle_ip (x_addr (fst xo))) k && N.eqb (status (snd xo)) 403) pre).

Lemma refusals_count pre x : refusals_before pre x = count403 pre (throttle_ip (x_addr x)).
Proof. reflexivity. Qed.

Lemma count403_app pre xo k :
  count403 (pre ++ [xo]) k =
  (count403 pre k + if ipkey_eqb (throttle_ip (x_addr (fst xo))) k && N.eqb (status (snd xo)) 403 then 1 else 0)%nat.
Proof.
  unfold count403. rewrite filter_app, app_length. cbn [filter].
  destruct (ipkey_eqb _ _ && _); cbn; lia.
Qed.

(* every failure the throttler holds for an address was a 403 answered to that address *)
Definition Inv429 (th : Throttle.state) (pre : trace) : Prop :=
  forall k, (List.length (th (k, act_room_auth)) <= count403 pre k)%nat.

Lemma ipkey_eqb_refl k : ipkey_eqb k k = true.
Proof. destruct (ipkey_eqb_spec k k); congruence. Qed.

Lemma check_state th t a k :
  (List.length (fst (Throttle.step th (OCheck t a act_room_auth)) (k, act_room_auth)) <=
   List.length (th (k, act_room_auth)))%nat.
Proof.
  cbn [Throttle.step]. destruct (Throttle.blocked t (th (throttle_ip a, act_room_auth))); cbn [fst]; [lia|].
  destruct (key_eqb_spec (throttle_ip a, act_room_auth) (k, act_room_auth)) as [E|N].
  - rewrite E, upd_same. apply dropold_length.
  - rewrite upd_other by exact N. lia.
Qed.

Lemma fail_state th t a k :
  List.length (fst (Throttle.step th (OFail t a act_room_auth)) (k, act_room_auth)) =
  (List.length (th (k, act_room_auth)) + if ipkey_eqb (throttle_ip a) k then 1 else 0)%nat.
Proof.
  cbn [Throttle.step fst].
  destruct (ipkey_eqb_spec (throttle_ip a) k) as [E|N].
  - rewrite E, upd_same, app_length. cbn. lia.
  - rewrite upd_other by congruence. lia.
Qed.

Lemma blocked_ten t es : Throttle.blocked t es = true -> (spec_attempts <= List.length es)%nat.
Proof.
  unfold Throttle.blocked. intros H. apply andb_prop in H. destruct H as [H _].
  apply Nat.leb_le in H. exact H.
Qed.

Lemma status_obs_forbidden x d : status (obs_of x (RForbidden d)) = 403%N.
Proof. reflexivity. Qed.

Lemma step_429 cfg th pre x :
  Inv429 th pre ->
  let r := result_of cfg th x in
  ok_429 pre x (obs_of x (snd r)) = true /\ Inv429 (fst r) (pre ++ [(x, obs_of x (snd r))]).
Proof.
  intros I r. subst r. unfold result_of.
  destruct (handle_cases (hmac_x cfg x) (url_parse_x x) (get_backend_x cfg x) cfg th (x_t x) (x_addr x) (x_req x))
    as [(r & Hp & Hh)|[(Hp & Hb & Hh)|[(Hp & Hb & b & Ha & Hh)|(Hp & Hb & Ha & d & Hh)]]].
  - rewrite Hh. cbn [fst snd]. split.
    + unfold ok_429. destruct (precheck_some _ _ Hp) as [[s ->]| ->]; [|reflexivity].
      apply precheck_status_not_429 in Hp. unfold obs_of, status. cbn [fst status_of].
      destruct (N.eqb_spec s 429); [contradiction|reflexivity].
    + intros k. rewrite count403_app. specialize (I k). lia.
  - (* throttled: the state is the one after the check, which changed nothing *)
    destruct (handle _ _ _ _ _ _ _ _) as [th' r'] eqn:HH. cbn [snd] in Hh. subst r'. cbn [fst snd].
    unfold RoomAuth_proofs.blocked in Hb. cbn [Throttle.step] in Hb.
    destruct (Throttle.blocked (x_t x) (th (throttle_ip (x_addr x), act_room_auth))) eqn:B;
      cbn [snd] in Hb; [|discriminate].
    assert (th' = th).
    { revert HH. unfold handle. rewrite Hp. cbn [Throttle.step]. rewrite B. intros E. now injection E. }
    subst th'. split.
    + unfold ok_429. change (status (obs_of x RThrottled)) with 429%N.
      change (delivered (obs_of x RThrottled)) with (@nil N). rewrite refusals_count.
      apply blocked_ten in B. specialize (I (throttle_ip (x_addr x))).
      assert (H10 : (spec_attempts <=? count403 pre (throttle_ip (x_addr x)))%nat = true)
        by (apply Nat.leb_le; lia).
      rewrite H10. reflexivity.
    + intros k. rewrite count403_app. specialize (I k). lia.
  - rewrite Hh. cbn [fst snd]. split.
    + unfold ok_429, obs_of, status. cbn [fst status_of]. destruct (x_kind x); reflexivity.
    + intros k. rewrite count403_app. pose proof (check_state th (x_t x) (x_addr x) k). specialize (I k). lia.
  - rewrite Hh. cbn [fst snd]. split.
    + reflexivity.
    + intros k. rewrite count403_app. cbn [fst snd]. rewrite status_obs_forbidden. cbn [N.eqb Pos.eqb].
      rewrite andb_true_r, fail_state.
      pose proof (check_state th (x_t x) (x_addr x) k). specialize (I k).
      destruct (ipkey_eqb (throttle_ip (x_addr x)) k); lia.
Qed.

(* ---- the tamper clause ---------------------------------------------------------------------- *)
(* what an accepted entry of a model trace carries *)
Definition acc_witness (cfg : config) (xo : opx * obs) : Prop :=
  accepted xo = true ->
  exists b m, In b (all_backends cfg) /\ assoc (b_id b) (x_macs (fst xo)) = Some m /\
              q_chk (x_req (fst xo)) = hex m.

Lemma accepted_model cfg th x :
  wf_op cfg x -> acc_witness cfg (x, obs_of x (snd (result_of cfg th x))).
Proof.
  intros W A. unfold accepted in A. cbn [fst snd] in A.
  apply andb_prop in A. destruct A as [A N429]. apply andb_prop in A. destruct A as [Hw N403].
  unfold result_of in *.
  destruct (handle_cases (hmac_x cfg x) (url_parse_x x) (get_backend_x cfg x) cfg th (x_t x) (x_addr x) (x_req x))
    as [(r & Hp & Hh)|[(Hp & Hb & Hh)|[(Hp & Hb & b & Ha & Hh)|(Hp & Hb & Ha & d & Hh)]]].
  - rewrite Hh in N403. cbn [snd] in N403. rewrite (wellformed_precheck x r Hw Hp) in N403. discriminate.
  - rewrite Hh in N429. discriminate.
  - apply precheck_none in Hp. destruct Hp as (_ & _ & _ & _ & Hr & Hc).
    destruct W as [Wc Wm].
    pose proof Ha as Ha'. unfold authenticate in Ha'.
    destruct (resolve _ _ _ cfg (x_req x)) as [b0|] eqn:R; [|discriminate].
    destruct (checks (hmac_x cfg x) (x_req x) b0) eqn:C; [|discriminate]. injection Ha' as ->.
    pose proof (resolve_in cfg x b R) as Hin.
    rewrite (checks_mac_ok cfg x b Wm Hin Hc) in C. unfold mac_ok in C.
    destruct (assoc (b_id b) (x_macs x)) as [m|] eqn:E; [|discriminate].
    apply String.eqb_eq in C. exists b, m. auto.
  - rewrite Hh in N403. discriminate.
Qed.

Lemma tamper_ok hm cfg all pre x o :
  tables_from hm cfg all -> no_collision hm cfg all -> no_boundary_shift all ->
  In x all -> (forall xo, In xo pre -> In (fst xo) all) ->
  Forall (acc_witness cfg) pre -> acc_witness cfg (x, o) ->
  ok_tamper pre x o = true.
Proof.
  intros T NC NS Hx Hpre Wpre Wx. unfold ok_tamper.
  destruct (accepted (x, o)) eqn:A; [|reflexivity]. cbn [negb orb].
  apply forallb_forall. intros xo Hxo.
  destruct (accepted xo) eqn:A'; [|reflexivity]. cbn [negb orb].
  destruct (String.eqb_spec (q_chk (x_req (fst xo))) (q_chk (x_req x))) as [E|]; [|reflexivity]. cbn [negb orb].
  rewrite Forall_forall in Wpre.
  destruct (Wpre xo Hxo A') as (b' & m' & Hb' & Hm' & Hc').
  destruct (Wx A) as (b & m & Hb & Hm & Hc). cbn [fst] in *.
  pose proof (Hpre xo Hxo) as Hin'.
  rewrite (T _ _ _ Hin' Hb' Hm') in Hc'. rewrite (T _ _ _ Hx Hb Hm) in Hc.
  apply NS; auto. symmetry. apply (NC (fst xo) x b' b Hin' Hx Hb' Hb). apply hex_inj. congruence.
Qed.

(* ---- P_C02 on the model's traces ---------------------------------------------------------------- *)
Lemma model_trace_from_cons cfg th x r :
  model_trace_from cfg th (x :: r) =
  (x, obs_of x (snd (result_of cfg th x))) :: model_trace_from cfg (fst (result_of cfg th x)) r.
Proof. cbn [model_trace_from]. now rewrite model_step_eq. Qed.

Lemma P_from_model hm cfg all :
  tables_from hm cfg all -> no_collision hm cfg all -> no_boundary_shift all ->
  forall xs th pre,
    (forall x, In x xs -> In x all /\ wf_op cfg x) ->
    (forall xo, In xo pre -> In (fst xo) all) ->
    Forall (acc_witness cfg) pre -> Inv429 th pre ->
    P_from cfg pre (model_trace_from cfg th xs) = true.
Proof.
  intros T NC NS. induction xs as [|x r IH]; intros th pre Hxs Hpre Wpre I; [reflexivity|].
  rewrite model_trace_from_cons. cbn [P_from].
  destruct (Hxs x (or_introl eq_refl)) as [Hx W].
  pose proof (local_ok cfg th x W) as (L1 & L2 & L3).
  pose proof (step_429 cfg th pre x I) as (L4 & I').
  pose proof (accepted_model cfg th x W) as Wx.
  pose proof (tamper_ok hm cfg all pre x _ T NC NS Hx Hpre Wpre Wx) as L5.
  unfold step_ok. rewrite L1, L2, L3, L4, L5. cbn [andb].
  apply IH.
  - intros y Hy. apply Hxs. now right.
  - intros xo Hxo. apply in_app_or in Hxo. destruct Hxo as [Hxo|[<-|[]]]; [now apply Hpre|exact Hx].
  - apply Forall_app. split; [exact Wpre|]. constructor; [exact Wx|constructor].
  - exact I'.
Qed.

(* P_C02 holds on every trace of the model, for every configuration, request list and
   oracle tables that come from one MAC function, unless that function collides on two
   MAC inputs of the run, and outside the known finding (two requests of the run with the
   same random ++ body but a different split). *)
Theorem P_on_model_partial hm cfg xs :
  tables_from hm cfg xs -> no_collision hm cfg xs -> no_boundary_shift xs ->
  (forall x, In x xs -> wf_op cfg x) ->
  P_C02 cfg (model_trace cfg xs) = true.
Proof.
  intros T NC NS W. unfold P_C02, model_trace.
  apply (P_from_model hm cfg xs T NC NS); auto.
  - intros xo [].
  - intros k. cbn. lia.
Qed.

(* Without excluding the finding the predicate fails on a model trace: the witness. *)
Local Open Scope string_scope.
Definition shift_hm (k m : bytes) : bytes := toy_hmac k m.
Definition shift_cfg : config := cfg_list_of ["733363726574"%string].     (* "s3cret" *)
Definition shift_op (rnd body : string) : opx :=
  {| x_t := 0; x_addr := A4 1;
     x_req := {| q_post := true; q_clen := 2; q_ctype := "application/json"; q_rnd := rnd;
                 q_chk := hex (shift_hm "s3cret" "0123456789abcdef{}"); q_bhdr := ""; q_body := body |};
     x_kind := KBadJson; x_macs := [(1%N, shift_hm "s3cret" (rnd ++ body)%string)];
     x_parse := false; x_lookup := None; x_claim := None |}.
Definition shift_ops : list opx := [shift_op "0123456789abcdef" "{}"; shift_op "0123456789abcdef{" "}"].

Theorem P_on_model_refuted :
  tables_from shift_hm shift_cfg shift_ops /\ (forall x, In x shift_ops -> wf_op shift_cfg x) /\
  P_C02 shift_cfg (model_trace shift_cfg shift_ops) = false.
Proof.
  split; [|split].
  - intros x b m Hx Hb Hm. cbn in Hb. destruct Hb as [<-|[]].
    destruct Hx as [<-|[<-|[]]]; cbn in Hm; injection Hm as <-; reflexivity.
  - intros x Hx. split.
    + destruct Hx as [<-|[<-|[]]]; reflexivity.
    + intros b b' Hb Hb' _. cbn in Hb, Hb'. destruct Hb as [<-|[]]. destruct Hb' as [<-|[]]. reflexivity.
  - vm_compute. reflexivity.
Qed.

(* the hypotheses of P_on_model_partial are satisfiable by a run that accepts and refuses *)
Example P_on_model_nonvacuous :
  let xs := [shift_op "0123456789abcdef" "{}"; shift_op "0123456789abcdee" "{}"] in
  no_boundary_shift xs /\ (forall x, In x xs -> wf_op shift_cfg x) /\
  map (fun xo => status (snd xo)) (model_trace shift_cfg xs) = [400%N; 403%N].
Proof.
  split; [|split].
  - intros x x' Hx Hx' E.
    destruct Hx as [<-|[<-|[]]]; destruct Hx' as [<-|[<-|[]]]; try reflexivity; vm_compute in E; discriminate.
  - intros x Hx. split.
    + destruct Hx as [<-|[<-|[]]]; reflexivity.
    + intros b b' Hb Hb' _. cbn in Hb, Hb'. destruct Hb as [<-|[]]. destruct Hb' as [<-|[]]. reflexivity.
  - vm_compute. reflexivity.
Qed.
