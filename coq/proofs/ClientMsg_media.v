(* C10, the media-server payload of a "message" from the reader's side: data that has the
   documented shape (corr/Run_C10.v [media_data_shaped]) but breaks the documented rules
   ([media_data_invalid]: unknown stream type; offer / answer without a string "sdp" that
   parses) is answered with exactly one error and reaches no handler, wherever the code
   looks at the payload (a media server is configured; recipient session, or room / call for
   a sender that is in a room).  Also: storing a message for a session without connection
   (ServerMessage.IsChatRefresh) is total. *)
From Coq Require Import List ZArith NArith String Bool Ascii Lia.
From Verif Require Import gen.Params gen.Schema lib.Json lib.Decode model.ClientMsg corr.Run_C10
  proofs.Decode_proofs proofs.Decode_depth proofs.ClientMsg_proofs proofs.ClientMsg_spec.
Import ListNotations.
Open Scope string_scope.
Open Scope list_scope.

Definition mcudata_fields : list (string * string * gty) :=
  [("Type", "type", TString); ("Sid", "sid", TString); ("RoomType", "roomType", TString);
   ("Payload", "payload", TMap TIface); ("Bitrate", "bitrate", int_t);
   ("AudioCodec", "audiocodec", TString); ("VideoCodec", "videocodec", TString);
   ("VP9Profile", "vp9profile", TString); ("H264Profile", "h264profile", TString)].

Lemma ty_mcudata_eq : ty_mcudata = TStruct mcudata_fields.
Proof. vm_compute. reflexivity. Qed.

Lemma ty_srvdata_eq :
  ty_srvdata = TStruct [("Type", "type", TString); ("Chat", "chat", TPtr (TStruct [("Refresh", "refresh", TBool)]))].
Proof. vm_compute. reflexivity. Qed.

(* ---- members of the documented kind decode ------------------------------------------------- *)
Lemma decode_occs_strings : forall vs c, forallb is_string vs = true -> exists v, decode_occs TString vs c = Ok v.
Proof.
  induction vs as [|x r IH]; intros c H; [cbn; eauto|].
  cbn [forallb] in H. apply andb_true_iff in H as [Hx Hr].
  destruct x; try discriminate. cbn [decode_occs decode]. now apply IH.
Qed.

Lemma small_int_decodes : forall c j, small_int j = true -> exists v, decode int_t c j = Ok v.
Proof.
  intros c j H. destruct j; try discriminate. cbn [small_int] in H. apply Z.ltb_lt in H.
  change (2 ^ 31)%Z with 2147483648%Z in H. unfold int_t. cbn [decode].
  assert (E : ((-9223372036854775808 <=? z) && (z <=? 9223372036854775807))%Z = true).
  { apply andb_true_iff; split; apply Z.leb_le; lia. }
  rewrite E. eauto.
Qed.

Lemma decode_occs_ints : forall vs c, forallb small_int vs = true -> exists v, decode_occs int_t vs c = Ok v.
Proof.
  induction vs as [|x r IH]; intros c H; [cbn; eauto|].
  cbn [forallb] in H. apply andb_true_iff in H as [Hx Hr].
  cbn [decode_occs]. destruct (small_int_decodes c x Hx) as [v ->]. now apply IH.
Qed.

(* map[string]interface{}: the last occurrence of a key decides, null is stored as nil *)
Definition iface_val (j : json) : gval := match j with JNull => GNil | _ => GIface j end.

Lemma decode_iface : forall c j, iface_ok j = true -> decode TIface c j = Ok (iface_val j).
Proof. intros c j H. destruct j; cbn [decode iface_val]; try rewrite H; reflexivity. Qed.

Lemma decode_mapl_iface : forall pms acc, forallb (fun kv : string * json => iface_ok (snd kv)) pms = true ->
  exists m, decode_mapl TIface pms acc = Ok m /\
    forall k, assoc k m = match lookup_last k pms with Some x => Some (iface_val x) | None => assoc k acc end.
Proof.
  induction pms as [|[k x] r IH]; intros acc H.
  - exists acc. split; [reflexivity|]. intros k. reflexivity.
  - cbn [forallb snd] in H. apply andb_true_iff in H as [Hx Hr]. cbn [decode_mapl].
    rewrite (decode_iface _ _ Hx).
    destruct (IH (map_set k (iface_val x) acc) Hr) as (m & Hm & Ha). exists m. split; [exact Hm|].
    intros k'. rewrite Ha. cbn [lookup_last]. destruct (lookup_last k' r); [reflexivity|].
    destruct (String.eqb k' k) eqn:E.
    + apply String.eqb_eq in E. subst. apply assoc_map_set_same.
    + apply assoc_map_set_other. intros ->. rewrite String.eqb_refl in E. discriminate.
Qed.

Lemma decode_fields_ok : forall fs cur ms,
  Forall (fun f : string * string * gty =>
            forall c, exists v, decode_occs (snd f) (nonnull_occurrences (snd (fst f)) ms) c = Ok v) fs ->
  exists vs, decode_fields fs cur ms = Ok vs.
Proof.
  induction fs as [|[[gn jn] ft] r IH]; intros cur ms H; [eexists; reflexivity|].
  inversion H as [|? ? H1 H2]; subst. cbn [decode_fields]. cbn [fst snd] in H1.
  destruct (H1 (sget gn cur (zero ft))) as [v ->]. destruct (IH cur ms H2) as [vs ->]. eauto.
Qed.

Lemma shaped_strings : forall dms k, media_data_shaped dms = true -> In k media_string_members ->
  forall c, exists v, decode_occs TString (nonnull_occurrences k dms) c = Ok v.
Proof.
  intros dms k H Hin c. unfold media_data_shaped in H.
  apply andb_true_iff in H as [H _]. apply andb_true_iff in H as [H _].
  rewrite forallb_forall in H. specialize (H k Hin). now apply decode_occs_strings.
Qed.

Lemma shaped_payload : forall dms c, media_data_shaped dms = true ->
  exists v, decode_occs (TMap TIface) (nonnull_occurrences "payload" dms) c = Ok v.
Proof.
  intros dms c H. unfold media_data_shaped in H. apply andb_true_iff in H as [_ H].
  destruct (nonnull_occurrences "payload" dms) as [|x [|y r]]; [cbn; eauto| |destruct x; discriminate].
  destruct x; try discriminate. cbn [decode_occs]. rewrite decode_map_obj.
  destruct (decode_mapl_iface ms [] H) as (m & -> & _). eauto.
Qed.

Lemma media_shaped_decodes : forall dms, media_data_shaped dms = true ->
  exists d, decode (TStruct mcudata_fields) (zero (TStruct mcudata_fields)) (JObj dms) = Ok d.
Proof.
  intros dms H. rewrite decode_struct_obj.
  assert (Hs : forall k, In k media_string_members ->
                 forall c, exists v, decode_occs TString (nonnull_occurrences k dms) c = Ok v)
    by (intros k Hk; now apply shaped_strings).
  destruct (decode_fields_ok mcudata_fields (zero (TStruct mcudata_fields)) dms) as [vs ->]; [|eauto].
  unfold mcudata_fields.
  repeat (apply Forall_cons; [cbn [fst snd]; intros c|]); try apply Forall_nil;
    try (apply Hs; cbn; tauto).
  - now apply shaped_payload.
  - apply decode_occs_ints. unfold media_data_shaped in H.
    apply andb_true_iff in H as [H _]. apply andb_true_iff in H as [_ H]. exact H.
Qed.

Lemma in_list_2 : forall s a b, in_list s [a; b] = eqs s a || eqs s b.
Proof. intros. unfold in_list, eqs. cbn [existsb]. now rewrite orb_false_r. Qed.
Lemma in_list_3 : forall s a b c, in_list s [a; b; c] = eqs s a || eqs s b || eqs s c.
Proof. intros. unfold in_list, eqs. cbn [existsb]. now rewrite orb_false_r, orb_assoc. Qed.

Lemma shallow_ok : forall j, Nat.leb (json_depth j) 1000 = true -> Nat.ltb max_nesting (json_depth j) = false.
Proof.
  intros j H. apply Nat.leb_le in H. apply Nat.ltb_ge.
  assert (L : (1000 <= max_nesting)%nat) by (apply Nat.leb_le; vm_compute; reflexivity).
  eapply Nat.le_trans; eassumption.
Qed.

Section Media.
  Context (url_ok requri_ok sdp_ok : string -> bool).

  (* shaped but invalid media data is refused by MessageClientMessageData.CheckValid *)
  Lemma media_invalid_checked : forall dms d,
    decode (TStruct mcudata_fields) (zero (TStruct mcudata_fields)) (JObj dms) = Ok d ->
    media_data_shaped dms = true -> media_data_invalid sdp_ok dms = true ->
    exists c, check_mcudata sdp_ok d = Some c.
  Proof.
    intros dms d Hd Hsh Hinv.
    assert (Hn : nodupb (map fname mcudata_fields) = true) by nd.
    pose proof (view_str _ _ _ Hn Hd "RoomType" "roomType" ltac:(infs)) as Ert.
    pose proof (view_str _ _ _ Hn Hd "Type" "type" ltac:(infs)) as Ety.
    pose proof (view_occs _ _ _ Hn Hd "Payload" "payload" _ ltac:(infs)) as Hp.
    unfold check_mcudata. rewrite Ert, Ety. unfold media_data_invalid, stream_types in Hinv.
    rewrite in_list_3, in_list_2 in Hinv. unfold valid_stream_type.
    set (rt := str_or_empty "roomType" dms) in *. set (ty := str_or_empty "type" dms) in *.
    fold (eqs rt "") in Hinv.
    destruct (negb (eqs rt "") && negb (eqs rt "audio" || eqs rt "video" || eqs rt "screen")); [eauto|].
    cbn [orb] in Hinv. apply andb_true_iff in Hinv as [Hoa Hinv]. rewrite Hoa.
    unfold media_data_shaped in Hsh. apply andb_true_iff in Hsh as [_ Hsh].
    destruct (nonnull_occurrences "payload" dms) as [|x [|y r]].
    - cbn in Hp. inversion Hp as [E]. cbn. eauto.
    - destruct x; try discriminate. cbn [decode_occs zero] in Hp. rewrite decode_map_obj in Hp.
      destruct (decode_mapl_iface ms [] Hsh) as (m & Hm & Ha). rewrite Hm in Hp. inversion Hp as [E].
      cbn [as_map]. rewrite (Ha "sdp"). cbn [assoc].
      destruct (lookup_last "sdp" ms) as [x|]; [|eauto].
      destruct x; cbn [iface_val]; eauto.
      apply negb_true_iff in Hinv. rewrite Hinv. eauto.
    - destruct x; discriminate.
  Qed.

  Theorem media_invalid_rejected : forall fx st j,
    media_invalid_doc sdp_ok (ss_inroom st) j = true ->
    ss_mcu st = true -> ss_kind st <> SNone -> ss_federated st = false ->
    exists r, effect_of (classify url_ok requri_ok sdp_ok fx st (IDoc j)) =
                {| e_replies := [r]; e_calls := []; e_exit := false; e_closed := false |}.
  Proof.
    intros fx st j H Hmcu Hkind Hfed.
    destruct j as [| | | | | |ms]; try discriminate.
    cbn [ClientMsg.classify].
    destruct (negb (skipped_ok ty_client (JObj ms))); [eexists; reflexivity|].
    destruct (decode ty_client (zero ty_client) (JObj ms)) as [m|] eqn:Hd; [|eexists; reflexivity].
    destruct (check_valid url_ok requri_ok m) as [p|c] eqn:Hcv; [|eexists; reflexivity].
    unfold media_invalid_doc in H. apply andb_true_iff in H as [Hty H]. apply String.eqb_eq in Hty.
    destruct (single_obj "message" ms) as [msub|] eqn:Esm; [|discriminate].
    destruct (single_obj "recipient" msub) as [rc|] eqn:Erc; [|discriminate].
    destruct (nonnull_occurrences "data" msub) as [|x [|y r]] eqn:Edata; try discriminate; [|destruct x; discriminate].
    destruct x as [| | | | | |dms]; try discriminate.
    apply andb_true_iff in H as [H Hinv]. apply andb_true_iff in H as [H Hsh]. apply andb_true_iff in H as [Hrty Hdepth].
    rewrite ty_client_eq, client_fields_eq in Hd.
    set (cf := [("Id", "id", TString); ("Type", "type", TString); ("Hello", "hello", TPtr (TStruct hello_fields)); ("Bye", "bye", TPtr (TStruct []));
                ("Room", "room", TPtr (TStruct room_fields)); ("Message", "message", TPtr (TStruct message_fields));
                ("Control", "control", TPtr (TStruct message_fields)); ("Internal", "internal", TPtr (TStruct internal_fields));
                ("TransientData", "transient", TPtr (TStruct transient_fields))]) in *.
    assert (Hn : nodupb (map fname cf) = true) by nd.
    pose proof (view_str _ _ _ Hn Hd "Type" "type" ltac:(infs)) as ET. rewrite Hty in ET.
    rewrite ET. change (utf8_valid "message") with true. rewrite andb_false_r.
    (* dispatch *)
    assert (Hdisp : dispatch sdp_ok (fx_dialout fx) st m p = enter_message sdp_ok st m).
    { unfold dispatch. rewrite ET, Hfed. destruct (ss_kind st); [contradiction| |]; reflexivity. }
    rewrite Hdisp. clear Hdisp.
    destruct (view_ptr_single _ _ _ Hn Hd "Message" "message" message_fields msub ltac:(infs) Esm) as (mm & Hmm & Hdm).
    assert (Hn2 : nodupb (map fname message_fields) = true) by nd.
    pose proof (view_struct_single _ _ _ Hn2 Hdm "Recipient" "recipient" recipient_fields rc ltac:(infs)
                  (single_one _ _ _ Erc)) as Hdr.
    assert (Hn3 : nodupb (map fname recipient_fields) = true) by nd.
    pose proof (view_str _ _ _ Hn3 Hdr "Type" "type" ltac:(infs)) as Erty.
    pose proof (view_occs _ _ _ Hn2 Hdm "Data" "data" TRaw ltac:(infs)) as Hdata.
    rewrite Edata in Hdata. cbn in Hdata. inversion Hdata as [Edat].
    unfold enter_message. rewrite Hmm. rewrite <- Edat. cbn [as_raw]. rewrite Erty, Hmcu.
    rewrite in_list_2 in Hrty. fold (eqs (str_or_empty "type" rc) "session") in Hrty. rewrite Hrty. cbn [andb].
    unfold std_unmarshal. rewrite (shallow_ok _ Hdepth). rewrite ty_mcudata_eq.
    destruct (media_shaped_decodes dms Hsh) as [d Hdd]. rewrite Hdd.
    destruct (media_invalid_checked dms d Hdd Hsh Hinv) as [c ->].
    eexists. reflexivity.
  Qed.
End Media.

(* ---- examples (non-vacuity) ------------------------------------------------------------------ *)
Definition ex_media_invalid : list json :=
  let msg rc data := JObj [("id", JStr "m"); ("type", JStr "message"); ("message", JObj [("recipient", rc); ("data", data)])] in
  [msg (JObj [("type", JStr "room")]) (JObj [("type", JStr "offer"); ("roomType", JStr "video"); ("payload", JObj [("sdp", JNum 12345)])]);
   msg (JObj [("type", JStr "call")]) (JObj [("type", JStr "answer"); ("payload", JObj [])]);
   msg (JObj [("type", JStr "session"); ("sessionid", JStr "abc")]) (JObj [("type", JStr "offer")]);
   msg (JObj [("type", JStr "room")]) (JObj [("type", JStr "candidate"); ("roomType", JStr "bogus"); ("payload", JObj [("candidate", JObj [])])]);
   msg (JObj [("type", JStr "room")]) (JObj [("type", JStr "offer"); ("payload", JObj [("sdp", JStr "x"); ("sdp", JNull)])])].

Definition ex_chat : json :=
  JObj [("id", JStr "c"); ("type", JStr "message");
        ("message", JObj [("recipient", JObj [("type", JStr "session"); ("sessionid", JStr "gone")]); ("data", JObj [("type", JStr "chat")])])].
Definition ex_chat_refresh : json :=
  JObj [("id", JStr "c"); ("type", JStr "message");
        ("message", JObj [("recipient", JObj [("type", JStr "room")]);
                          ("data", JObj [("type", JStr "chat"); ("chat", JObj [("refresh", JBool true)])])])].

Lemma media_examples :
  forallb (media_invalid_doc any_ok true) ex_media_invalid = true /\
  map (fun j => classify any_ok any_ok any_ok repaired st_room (IDoc j)) ex_media_invalid =
    [VError EInvalidSdp "m"; VError ENoSdp "m"; VError ENoSdp "m"; VError EInvalidFormat "m"; VError EInvalidSdp "m"] /\
  media_invalid_doc any_ok true ex_message = false /\
  (exists c, classify any_ok any_ok any_ok repaired st_room (IDoc ex_chat) = VDispatch [c; CStore false]) /\
  (exists c, classify any_ok any_ok any_ok repaired st_room (IDoc ex_chat_refresh) = VDispatch [c; CStore true]).
Proof. repeat split; try (eexists; vm_compute; reflexivity); vm_compute; reflexivity. Qed.

(* ---- strengthening s10: the errors this layer itself answers with are well-formed for P_C10 --------------------------
   Every reply the model prescribes directly (decode error, failed validation, hello expected, ...) is an error
   with a non-empty code, i.e. it passes the "well-formed reply" clause [reply_wf] of P_C10.  What the handlers
   behind the dispatch answer (a refused hello: processHello) is bounded in [reply_allowed] and checked on the
   implementation: hello reply, or an error with a code carrying the id of the request. *)
Lemma error_replies_coded : forall v code id, In (code, id) (e_replies (effect_of v)) -> code <> "".
Proof.
  intros v code id H. destruct v as [| |c i| | |]; simpl in H; try contradiction.
  - destruct H as [H|[]]. inversion H. discriminate.
  - destruct H as [H|[]]. inversion H. destruct c; discriminate.
Qed.

Lemma model_replies_wf : forall v, forallb reply_wf (map (fun e => RError (fst e) (snd e)) (e_replies (effect_of v))) = true.
Proof. intros v. destruct v as [| |c i| | |]; try reflexivity. destruct c; reflexivity. Qed.

(* an error without its code, and the error message without error member (projected to RBad), are refused *)
Lemma reply_wf_examples :
  reply_wf (RError "" "h") = false /\ reply_wf RBad = false /\ reply_wf (RError "invalid_token" "h") = true /\ reply_wf (RHello "h") = true /\
  reply_allowed "h" (CHello "2.0" [] (HClient true false "u" JNull "t")) (RError "" "h") = false /\
  reply_allowed "h" (CHello "2.0" [] (HClient true false "u" JNull "t")) (RError "invalid_token" "h") = true /\
  reply_allowed "h" (CHello "2.0" [] (HClient true false "u" JNull "t")) (RError "invalid_token" "other") = false.
Proof. repeat split; reflexivity. Qed.

(* ---- strengthening s30: the lifetime clause of P_C10 for protocol 2.0 hellos ------------------------------------------
   [token_untimely] leaves nothing out on the side of the missing / inconsistent claims: a token for which the clause
   does not demand a refusal has an iat and an exp, exp not before iat, and iat / nbf / exp within twice the leeway
   of now. *)
Lemma untimely_complete : forall i n e,
  token_untimely (i, n, e) = false ->
  exists iv ev, i = Some iv /\ e = Some ev /\ (iv <= ev)%Z /\ (iv < 2 * token_leeway)%Z /\ (- (2 * token_leeway) < ev)%Z /\
                forall nv, n = Some nv -> (nv < 2 * token_leeway)%Z.
Proof.
  intros i n e H. unfold token_untimely in H.
  apply orb_false_iff in H. destruct H as [H Hn]. apply orb_false_iff in H. destruct H as [Hi He].
  destruct i as [iv|]; [|discriminate]. destruct e as [ev|]; [|discriminate].
  apply orb_false_iff in He. destruct He as [He1 He2].
  apply Z.leb_gt in Hi. apply Z.leb_gt in He1. apply Z.ltb_ge in He2.
  exists iv, ev. repeat split; auto.
  intros nv ->. apply Z.leb_gt in Hn. exact Hn.
Qed.

(* ... and it demands the refusal whenever a claim is missing or the two are inconsistent, whatever the other values *)
Lemma untimely_missing : forall i n e,
  i = None \/ e = None \/ (exists iv ev, i = Some iv /\ e = Some ev /\ (ev < iv)%Z) -> token_untimely (i, n, e) = true.
Proof.
  intros i n e [-> | [-> | [iv [ev [-> [-> H]]]]]]; unfold token_untimely.
  - reflexivity.
  - destruct i; rewrite ?orb_true_r; reflexivity.
  - apply Z.ltb_lt in H. rewrite H. rewrite !orb_true_r. reflexivity.
Qed.

Definition ex_hello_v2 (aty : list (string * json)) (tok : string) : json :=
  JObj [("id", JStr "h"); ("type", JStr "hello");
        ("hello", JObj [("version", JStr "2.0"); ("auth", JObj (aty ++ [("url", JStr "@BURL@"); ("params", JObj [("token", JStr tok)])]))])].
Definition ex_obs (r : list reply) (dsame : bool) : obs := mkobs true r false [] true dsame 0 0 true.

(* the clause is the same for the auth types (absent = client, client, federation); a token with all claims in order is
   not concerned; a session (hello reply, tables changed) for an untimely token fails P_C10, the coded error passes *)
Lemma untimely_examples :
  forallb (fun aty => forallb (fun tok => must_refuse_hello 0 (IDoc (ex_hello_v2 aty tok)))
                        ["@TOK:0:0:1:-5:_:_:@"; "@TOK:0:0:1:_:_:300:@"; "@TOK:0:2:1:-10:_:-40:@"; "@TOK:0:0:1:_:-5:_:hb@";
                         "@TOK:0:0:1:-600:_:-500:@"; "@TOK:0:0:1:500:_:900:@"; "@TOK:0:0:1:-5:500:900:@"])
          [[]; [("type", JStr "client")]; [("type", JStr "federation")]] = true /\
  forallb (fun aty => forallb (fun tok => negb (must_refuse_hello 0 (IDoc (ex_hello_v2 aty tok))))
                        ["@TOK:0:0:1:-5:_:300:@"; "@TOK:0:0:1:-100:-10:-30:@"; "@TOK:0:0:1:30:_:300:@"; "x.y.z"; "@TOK:0:0:1:-5:_:abc:@"])
          [[]; [("type", JStr "client")]; [("type", JStr "federation")]] = true /\
  must_refuse_hello 1 (IDoc (ex_hello_v2 [("type", JStr "federation")] "@TOK:0:0:1:-5:_:_:@")) = false /\
  P_one (fun _ => false) 0 (IDoc (ex_hello_v2 [("type", JStr "federation")] "@TOK:0:0:1:-5:_:_:@")) (ex_obs [RHello "h"] false) = false /\
  P_one (fun _ => false) 0 (IDoc (ex_hello_v2 [("type", JStr "federation")] "@TOK:0:0:1:-5:_:_:@")) (ex_obs [RError "" "h"] true) = false /\
  P_one (fun _ => false) 0 (IDoc (ex_hello_v2 [("type", JStr "federation")] "@TOK:0:0:1:-5:_:_:@")) (ex_obs [RError "token_expired" "h"] true) = true /\
  P_one (fun _ => false) 0 (IDoc (ex_hello_v2 [("type", JStr "federation")] "@TOK:0:0:1:-5:_:300:@")) (ex_obs [RHello "h"] false) = true.
Proof. repeat split; vm_compute; reflexivity. Qed.
