(* C18, remote subscribers: the reference counts of the remote publishers as a ghost
   component threaded through the histories of the proxy model (model/Proxy.v), and
   the proof that in every reached state the ghost table holds exactly one reference
   per open remote subscriber.  `step` is not changed: the ghost is computed beside it
   from the state before the operation, the operation and the state after it.

   oc : N -> rres   the explicit argument that resolves the completion alphabet: the
                    outcome of the two calls at the media server (NewRemotePublisher,
                    NewRemoteSubscriber) for creation request tok.  `op` carries only
                    rres_mres of it (MFail for "publisher refused" and "attach failed").
   ra : bool        release_always of handler_refops (true = the code).            *)
From Coq Require Import List ZArith NArith Bool String Lia.
From Verif Require Import gen.Params model.Proxy corr.Run_C18 proofs.Proxy_proofs.
Import ListNotations.
Open Scope N_scope.

(* the completions an operation carries: (creation request, result) *)
Definition completions (o : op) : list (N * mres) :=
  match o with
  | OMcuDone tok r => [(tok, r)]
  | OByeIn _ sched => map (fun s : slot => (snd (fst s), snd s)) sched
  | OExpireIn _ sched => map (fun s : slot => (snd (fst s), snd s)) sched
  | _ => []
  end.
(* every completion in the history carries the result of the outcome oc names *)
Definition consistent (oc : N -> rres) (ops : list op) : Prop :=
  forall o t r, In o ops -> In (t, r) (completions o) -> r = rres_mres (oc t).

Definition pending (st : state) (t : N) : bool := memN t (map p_tok (pendings st)).
Definition sub_open (st : state) (id : N) : bool :=
  existsb (fun e => N.eqb (e_id e) id && kind_eqb (e_kind e) Sub) (mopen st).
(* the operation was a remote create-subscriber that reached the media server *)
Definition remote_create (st : state) (o : op) (st' : state) : bool :=
  match o with
  | OCmd _ CCreateSubRemote => negb (N.eqb (next_obj st') (next_obj st))
  | _ => false
  end.

(* g_remote: the creation requests that were remote; g_refs id: the reference count of
   the remote publisher of request id (None: not open at the media server) *)
Record ghost := { g_remote : list N; g_refs : N -> option N }.
Definition ginit : ghost := {| g_remote := []; g_refs := fun _ => None |}.

(* One step of the ghost, st --o--> st'.  For a remote request id:
   - its creation was in flight before and is not after: the continuation of the handler
     ran in this step (OMcuDone, or a slot of the close in phases) - handler_refops ra (oc id);
     when its subscriber is not open afterwards (request failed; session found closed
     after storing; cleared by the running close) also the Close of the subscriber,
     sub_close_refops (oc id);
   - its subscriber was open before and is not after (delete-subscriber, end of the
     session, loss of the media server): the Close of the subscriber, sub_close_refops RROk. *)
Definition gstep (oc : N -> rres) (ra : bool) (g : ghost) (st : state) (o : op) (st' : state) : ghost :=
  {| g_remote := if remote_create st o st' then next_obj st :: g_remote g else g_remote g;
     g_refs := fun id =>
       if negb (memN id (g_remote g)) then g_refs g id
       else if pending st id && negb (pending st' id) then
         fold_left apply_ref
           (handler_refops ra (oc id) ++ (if sub_open st' id then [] else sub_close_refops (oc id)))
           (g_refs g id)
       else if sub_open st id && negb (sub_open st' id) then
         fold_left apply_ref (sub_close_refops RROk) (g_refs g id)
       else g_refs g id |}.

(* ---- how mopen and pendings move ------------------------------------------------- *)
Definition grows (S : list (N * mres)) (st st' : state) : Prop :=
  (forall e, In e (mopen st') ->
     In e (mopen st) \/ (In (e_id e, MOk) S /\ pending st (e_id e) = true /\ pending st' (e_id e) = false)) /\
  (forall t, pending st' t = true -> pending st t = true).

Lemma grows_refl : forall S st, grows S st st.
Proof. intros S st. split; auto. Qed.

Lemma grows_trans : forall S a b c, grows S a b -> grows S b c -> grows S a c.
Proof.
  intros S a b c [H1 H2] [G1 G2]. split.
  - intros e He. destruct (G1 e He) as [Hb | [Hs [Hp Hn]]].
    + destruct (H1 e Hb) as [Ha | [Hs [Hp Hn]]]; [left; assumption|].
      right. split; [assumption|]. split; [assumption|].
      destruct (pending c (e_id e)) eqn:Ec; [|reflexivity]. apply G2 in Ec. congruence.
    + right. split; [assumption|]. split; [apply H2; assumption | assumption].
  - intros t Ht. apply H2, G2, Ht.
Qed.

Lemma grows_same : forall S st st', mopen st' = mopen st -> pendings st' = pendings st -> grows S st st'.
Proof. intros S st st' Hm Hp. unfold grows, pending. rewrite Hm, Hp. split; auto. Qed.

Lemma pending_filter_mono : forall (f : pend -> bool) l t,
  memN t (map p_tok (filter f l)) = true -> memN t (map p_tok l) = true.
Proof.
  intros f l t H. apply memN_In in H. apply memN_In. apply in_map_iff in H. destruct H as [p [Hp Hi]].
  apply filter_In in Hi. apply in_map_iff. exists p. tauto.
Qed.

Lemma pending_filter_self : forall l tok,
  memN tok (map p_tok (filter (fun q => negb (N.eqb (p_tok q) tok)) l)) = false.
Proof.
  intros l tok. apply memN_false. intro H. apply in_map_iff in H. destruct H as [p [Hp Hi]].
  apply filter_In in Hi. destruct Hi as [_ Hi]. rewrite Hp, N.eqb_refl in Hi. discriminate.
Qed.

Lemma find_pending : forall tok l p, find (fun p => N.eqb (p_tok p) tok) l = Some p ->
  p_tok p = tok /\ memN tok (map p_tok l) = true.
Proof.
  intros tok l p H. apply find_some in H. destruct H as [Hi He]. apply N.eqb_eq in He.
  split; [assumption|]. apply memN_In. apply in_map_iff. exists p. tauto.
Qed.

Section Grow.
Context (rc : bool).

Lemma grows_mcu_done : forall S st tok r, In (tok, r) S -> grows S st (fst (mcu_done rc st tok r)).
Proof.
  intros S st tok r HS. unfold mcu_done.
  destruct (find (fun p => N.eqb (p_tok p) tok) (pendings st)) as [p|] eqn:Ef; [|apply grows_refl].
  destruct (find_pending _ _ _ Ef) as [Ht Hp].
  assert (Hmono : forall t f, memN t (map p_tok (filter f (pendings st))) = true -> pending st t = true).
  { intros t f H. eapply pending_filter_mono; exact H. }
  destruct r; simpl.
  - destruct (find_sess (p_sid p) (sessions st)); [|destruct rc]; simpl; split; simpl;
      try (intros t H; eapply Hmono; exact H); intros e He;
      try (left; exact He);
      (apply in_app_or in He; destruct He as [He | [He | []]]; [left; exact He|]; subst e; right; unfold e_id; simpl;
       split; [exact HS|]; split; [exact Hp | apply pending_filter_self]).
  - split; simpl; [intros e He; left; exact He | intros t H; eapply Hmono; exact H].
  - split; simpl; [intros e He; left; exact He | intros t H; eapply Hmono; exact H].
Qed.

Lemma grows_mcu_done_in : forall S canc sid st tok r, In (tok, r) S ->
  grows S st (fst (mcu_done_in rc canc sid st tok r)).
Proof.
  intros S canc sid st tok r HS. unfold mcu_done_in.
  destruct (find (fun p => N.eqb (p_tok p) tok) (pendings st)) as [p|] eqn:Ef; [|apply grows_mcu_done; assumption].
  destruct (N.eqb (p_sid p) sid && is_ok r && canc && rc); [|apply grows_mcu_done; assumption].
  simpl. split; simpl; [intros e He; left; exact He|].
  intros t H. eapply pending_filter_mono; exact H.
Qed.

Lemma grows_window : forall S w sid sched st,
  (forall s : slot, In s sched -> In (snd (fst s), snd s) S) ->
  grows S st (fst (window rc w sid sched st)).
Proof.
  intros S w sid sched. induction sched as [|[[w' tok] r] rest IH]; intros st HS; simpl; [apply grows_refl|].
  assert (HS' : forall s : slot, In s rest -> In (snd (fst s), snd s) S) by (intros s Hs; apply HS; right; exact Hs).
  destruct (phase_eqb w' w); [|apply IH; exact HS'].
  pose proof (grows_mcu_done_in S (cancelled w) sid st tok r (HS (w', tok, r) (or_introl eq_refl))) as H1.
  destruct (mcu_done_in rc (cancelled w) sid st tok r) as [st1 o1]. simpl in H1.
  pose proof (IH st1 HS') as H2.
  destruct (window rc w sid rest st1) as [st2 m2]. simpl in *.
  eapply grows_trans; eassumption.
Qed.

Lemma grows_clear_kind : forall S k sid st, grows S st (clear_kind k sid st).
Proof.
  intros S k sid st. unfold clear_kind. destruct (find_sess sid (sessions st)); [|apply grows_refl].
  split; simpl; [|auto]. intros e He. left. apply In_drop_ids in He. tauto.
Qed.

Lemma grows_close_phased : forall S st sid r sched,
  (forall s : slot, In s sched -> In (snd (fst s), snd s) S) ->
  grows S st (fst (close_phased rc st sid r sched)).
Proof.
  intros S st sid r sched HS. unfold close_phased.
  destruct (find_sess sid (sessions st)) as [s|] eqn:Ef; [|apply grows_refl].
  set (st0 := {| next_sid := next_sid st; next_obj := next_obj st; sessions := sessions st;
                 conns := upd_conn (conns st) (ss_conn s) {| cs_sess := None; cs_closed := true; cs_busy := cs_busy (conns st (ss_conn s)) |};
                 clients := clients st; mopen := mopen st; pendings := pendings st |}).
  assert (H0 : grows S st st0) by (apply grows_same; reflexivity).
  pose proof (grows_window S PhList sid sched st0 HS) as H1.
  destruct (window rc PhList sid sched st0) as [st1 m1]. simpl in H1.
  pose proof (grows_window S PhCtx sid sched st1 HS) as H2.
  destruct (window rc PhCtx sid sched st1) as [st2 m2]. simpl in H2.
  pose proof (grows_clear_kind S Pub sid st2) as H2'.
  pose proof (grows_window S PhPubs sid sched (clear_kind Pub sid st2) HS) as H3.
  destruct (window rc PhPubs sid sched (clear_kind Pub sid st2)) as [st3 m3]. simpl in H3.
  pose proof (grows_clear_kind S Sub sid st3) as H3'.
  pose proof (grows_window S PhSubs sid sched (clear_kind Sub sid st3) HS) as H4.
  destruct (window rc PhSubs sid sched (clear_kind Sub sid st3)) as [st4 m4]. simpl in H4.
  pose proof (grows_window S PhRemote sid sched st4 HS) as H5.
  destruct (window rc PhRemote sid sched st4) as [st5 m5]. simpl in H5.
  simpl.
  eapply grows_trans; [exact H0|]. eapply grows_trans; [exact H1|]. eapply grows_trans; [exact H2|].
  eapply grows_trans; [exact H2'|]. eapply grows_trans; [exact H3|]. eapply grows_trans; [exact H3'|].
  eapply grows_trans; [exact H4|]. eapply grows_trans; [exact H5|].
  apply grows_same; reflexivity.
Qed.

End Grow.

Lemma fst_let_done : forall (x : state * list (N * msg)),
  fst (let '(a, b) := x in done a b) = fst x.
Proof. intros [a b]. reflexivity. Qed.

Lemma close_session_mopen : forall st sid r e,
  In e (mopen (fst (close_session st sid r))) -> In e (mopen st).
Proof.
  intros st sid r e. unfold close_session. destruct (find_sess sid (sessions st)); simpl; [|auto].
  intro H. apply In_drop_ids in H. tauto.
Qed.

Section Step.
Context (sv : string -> N -> N -> N -> bool).
Context (keys : N -> option N).
Context (rc : bool).

(* an entry is open after a step only if it was open before, or the step carried the
   successful completion of its creation, which was in flight before and is not after *)
Lemma step_new_open : forall st o e, In e (mopen (fst (step sv keys rc st o))) ->
  In e (mopen st) \/
  (In (e_id e, MOk) (completions o) /\ pending st (e_id e) = true /\
   pending (fst (step sv keys rc st o)) (e_id e) = false).
Proof.
  intros st o e.
  destruct o as [c now t|c sid|c|c k|c id p|c|c|c b|c|sid| |tok r|c sched|sid sched];
    try (intro H; left; revert H; unfold step, on_conn, payload, done, skip;
         repeat (match goal with |- context [match ?x with _ => _ end] => destruct x end);
         simpl; auto; fail).
  - (* OCmd *)
    intro H; left; revert H. unfold step, on_conn, command, create, delete, done, skip.
    repeat (match goal with |- context [match ?x with _ => _ end] => destruct x end); simpl; auto;
      intro H; apply In_drop_ids in H; tauto.
  - (* OBye *)
    intro H; left; revert H. unfold step, on_conn, done, skip.
    repeat (match goal with |- context [if ?x then _ else _] => destruct x end); simpl; auto.
    destruct (cs_sess (conns st c)); simpl; auto.
    rewrite fst_let_done. apply close_session_mopen.
  - (* OExpire *)
    intro H; left; revert H. unfold step. rewrite fst_let_done. apply close_session_mopen.
  - (* OMcuLost *)
    intro H; left; revert H. unfold step, done. simpl. intro H. apply In_drop_ids in H. tauto.
  - (* OMcuDone *)
    intro H. unfold step in *. apply (grows_mcu_done rc [(tok, r)] st tok r (or_introl eq_refl)) in H.
    simpl. destruct H as [H | [[H|[]] Hp]]; [left; exact H|]. right. inversion H; subst. split; [left; reflexivity | exact Hp].
  - (* OByeIn *)
    unfold step, on_conn, done, skip.
    destruct (cs_closed (conns st c) || cs_busy (conns st c)); simpl; auto.
    destruct (cs_sess (conns st c)) as [sid|]; simpl; auto.
    rewrite fst_let_done. intro H.
    apply (grows_close_phased rc (map (fun s : slot => (snd (fst s), snd s)) sched) st sid RClosed sched) in H;
      [exact H|]. intros s Hs. apply in_map_iff. exists s. auto.
  - (* OExpireIn *)
    unfold step. rewrite fst_let_done. intro H.
    apply (grows_close_phased rc (map (fun s : slot => (snd (fst s), snd s)) sched) st sid RExpired sched) in H;
      [exact H|]. intros s Hs. apply in_map_iff. exists s. auto.
Qed.

End Step.

Lemma mopen_clients : forall st e, Inv st -> In e (mopen st) -> In e (clients st).
Proof.
  intros st e HI He. destruct (inv_own_m _ _ _ _ _ _ HI e He) as [s [Hs [Ho Hw]]].
  pose proof (inv_tab _ _ _ _ _ _ HI s (e_kind e) (e_id e) Hs Hw) as H.
  destruct e as [[id k] sid]. unfold e_kind, e_id, e_owner in *. simpl in *. subst sid. exact H.
Qed.

Lemma sub_open_In : forall st id, sub_open st id = true ->
  exists e, In e (mopen st) /\ e_id e = id /\ e_kind e = Sub.
Proof.
  intros st id H. apply existsb_exists in H. destruct H as [e [He Hb]]. apply andb_true_iff in Hb.
  destruct Hb as [H1 H2]. apply N.eqb_eq in H1. apply kind_eqb_eq in H2. exists e. auto.
Qed.

Lemma In_sub_open : forall st e, In e (mopen st) -> e_kind e = Sub -> sub_open st (e_id e) = true.
Proof.
  intros st e He Hk. apply existsb_exists. exists e. split; [exact He|].
  rewrite N.eqb_refl, Hk. reflexivity.
Qed.

Section Ghost.
Context (sv : string -> N -> N -> N -> bool).
Context (keys : N -> option N).
Context (oc : N -> rres).
Context (ra : bool).

(* the model's state and the ghost, threaded through a history (repaired code) *)
Definition grun_pair (ops : list op) : state * ghost :=
  fold_left (fun sg o =>
               let st' := fst (step sv keys true (fst sg) o) in
               (st', gstep oc ra (snd sg) (fst sg) o st')) ops (init, ginit).
Definition grun (ops : list op) : ghost := snd (grun_pair ops).
(* the reference table of the history *)
Definition rrefs_of (ops : list op) : N -> option N := g_refs (grun ops).
Definition remote_of (ops : list op) : list N := g_remote (grun ops).

(* the ghost rides on `run`: the state component is the state `run` reaches *)
Lemma grun_state : forall ops, fst (grun_pair ops) = run sv keys ops.
Proof.
  intros ops. induction ops as [|o ops IH] using rev_ind; [reflexivity|].
  unfold grun_pair, run in *. rewrite !fold_left_app. simpl. rewrite IH. reflexivity.
Qed.

End Ghost.

Section Exact.
Context (sv : string -> N -> N -> N -> bool).
Context (keys : N -> option N).
Context (oc : N -> rres).

Lemma gstep_exact : forall g st o,
  Inv st ->
  (forall t r, In (t, r) (completions o) -> r = rres_mres (oc t)) ->
  (forall id, g_refs g id = if memN id (g_remote g) && sub_open st id then Some 1 else None) ->
  let st' := fst (step sv keys true st o) in
  forall id, g_refs (gstep oc true g st o st') id =
             if memN id (g_remote (gstep oc true g st o st')) && sub_open st' id then Some 1 else None.
Proof.
  intros g st o HI Hc IH st' id.
  pose proof (step_new_open sv keys true st o) as HL. fold st' in HL.
  unfold gstep; simpl.
  destruct (memN id (g_remote g)) eqn:Er; simpl.
  - (* a remote request *)
    assert (Er' : memN id (if remote_create st o st' then next_obj st :: g_remote g else g_remote g) = true).
    { destruct (remote_create st o st'); [|exact Er]. simpl. rewrite Er. apply orb_true_r. }
    rewrite Er'. simpl.
    pose proof (IH id) as IHid. rewrite Er in IHid. simpl in IHid.
    destruct (pending st id && negb (pending st' id)) eqn:Ep.
    + apply andb_true_iff in Ep. destruct Ep as [Ep Ep']. apply negb_true_iff in Ep'.
      assert (Eo : sub_open st id = false).
      { destruct (sub_open st id) eqn:Eo; [|reflexivity]. exfalso.
        apply sub_open_In in Eo. destruct Eo as [e [He [Hid _]]].
        apply (mopen_clients st e HI) in He.
        unfold pending in Ep. apply memN_In in Ep. apply in_map_iff in Ep. destruct Ep as [p [Hp Hi]].
        apply (inv_pend_fresh _ _ _ _ _ _ HI p e Hi He). congruence. }
      rewrite Eo in IHid. rewrite IHid.
      destruct (sub_open st' id) eqn:Eo'.
      * apply sub_open_In in Eo'. destruct Eo' as [e [He [Hid Hk]]].
        destruct (HL e He) as [Hold | [Hs _]].
        { apply In_sub_open in Hold; [|exact Hk]. rewrite Hid in Hold. congruence. }
        rewrite Hid in Hs. apply Hc in Hs. destruct (oc id); try discriminate. reflexivity.
      * destruct (oc id); reflexivity.
    + destruct (sub_open st id) eqn:Eo; destruct (sub_open st' id) eqn:Eo'; simpl; rewrite IHid; try reflexivity.
      exfalso. apply sub_open_In in Eo'. destruct Eo' as [e [He [Hid Hk]]].
      destruct (HL e He) as [Hold | [_ [Hp Hn]]].
      * apply In_sub_open in Hold; [|exact Hk]. rewrite Hid in Hold. congruence.
      * rewrite Hid in Hp, Hn. rewrite Hp, Hn in Ep. discriminate.
  - (* not (yet) a remote request *)
    pose proof (IH id) as IHid. rewrite Er in IHid. simpl in IHid. rewrite IHid.
    destruct (remote_create st o st') eqn:Ec; [|rewrite Er; reflexivity].
    simpl. rewrite Er. rewrite orb_false_r.
    destruct (N.eqb id (next_obj st)) eqn:En; [|reflexivity]. simpl.
    apply N.eqb_eq in En.
    destruct (sub_open st' id) eqn:Eo'; [|reflexivity]. exfalso.
    apply sub_open_In in Eo'. destruct Eo' as [e [He [Hid _]]].
    destruct (HL e He) as [Hold | [Hs _]].
    + apply (mopen_clients st e HI) in Hold. apply (inv_fresh_c _ _ _ _ _ _ HI) in Hold. lia.
    + destruct o; simpl in Ec, Hs; try discriminate; contradiction.
Qed.

(* THE statement: in the state any history reaches, the ghost reference table holds,
   for every id, exactly one reference when id was created by a remote request and its
   subscriber is open at the media server, and none otherwise. *)
Theorem remote_refs_exact : forall ops, consistent oc ops ->
  forall id, rrefs_of sv keys oc true ops id =
             if memN id (remote_of sv keys oc true ops) && sub_open (run sv keys ops) id then Some 1 else None.
Proof.
  intros ops. induction ops as [|o ops IH] using rev_ind; intros Hc id; [reflexivity|].
  assert (Hc' : consistent oc ops).
  { intros o' t r Ho. apply Hc. apply in_or_app. left. exact Ho. }
  specialize (IH Hc').
  unfold rrefs_of, remote_of, grun in *.
  assert (E : grun_pair sv keys oc true (ops ++ [o]) =
              (fst (step sv keys true (fst (grun_pair sv keys oc true ops)) o),
               gstep oc true (snd (grun_pair sv keys oc true ops)) (fst (grun_pair sv keys oc true ops)) o
                     (fst (step sv keys true (fst (grun_pair sv keys oc true ops)) o)))).
  { unfold grun_pair. rewrite fold_left_app. reflexivity. }
  assert (Er : run sv keys (ops ++ [o]) = fst (step sv keys true (run sv keys ops) o)).
  { unfold run. rewrite fold_left_app. reflexivity. }
  rewrite E, Er. simpl. rewrite grun_state.
  apply gstep_exact.
  - apply Inv_run.
  - intros t r Hi. apply (Hc o t r); [apply in_or_app; right; left; reflexivity | exact Hi].
  - exact IH.
Qed.

(* the table in the wording of the property: a positive count is a count of one, held
   by an open subscriber that sits in the table of the live session that created it *)
Theorem remote_refs_owned : forall ops, consistent oc ops ->
  forall id n, rrefs_of sv keys oc true ops id = Some n ->
  n = 1 /\ In id (remote_of sv keys oc true ops) /\
  exists sid s, In (id, Sub, sid) (mopen (run sv keys ops)) /\
                In s (sessions (run sv keys ops)) /\ ss_sid s = sid /\ memN id (ss_subs s) = true.
Proof.
  intros ops Hc id n H. rewrite (remote_refs_exact ops Hc) in H.
  destruct (memN id (remote_of sv keys oc true ops)) eqn:Er; [|discriminate]. simpl in H.
  destruct (sub_open (run sv keys ops) id) eqn:Eo; [|discriminate].
  split; [congruence|]. split; [apply memN_In; exact Er|].
  apply sub_open_In in Eo. destruct Eo as [e [He [Hid Hk]]].
  destruct (inv_own_m _ _ _ _ _ _ (Inv_run sv keys ops) e He) as [s [Hs [Ho Hw]]].
  exists (e_owner e), s. destruct e as [[i k] sid]. unfold e_id, e_kind, e_owner in *. simpl in *. subst.
  auto.
Qed.

(* the corollary: a reference that is left is held for a session that exists - an entry
   of mopen carries the session of the request that created it (mcu_done stores
   (tok, kind, p_sid p)).  So for a session that has ended (bye, expiry, in phases or
   not) nothing it created is referenced, in every history: whatever was in flight when
   it ended and whenever, and with whatever result, that completes afterwards. *)
Theorem remote_refs_gone_with_session : forall ops, consistent oc ops ->
  forall sid, ~ live (run sv keys ops) sid ->
  forall id, rrefs_of sv keys oc true ops id = None \/
             exists sid', sid' <> sid /\ live (run sv keys ops) sid' /\
                          In (id, Sub, sid') (mopen (run sv keys ops)) /\
                          rrefs_of sv keys oc true ops id = Some 1.
Proof.
  intros ops Hc sid Hgone id.
  destruct (rrefs_of sv keys oc true ops id) as [n|] eqn:E; [|left; reflexivity]. right.
  destruct (remote_refs_owned ops Hc id n E) as [Hn [_ [sid' [s [He [Hs [Hsid _]]]]]]].
  assert (Hl : live (run sv keys ops) sid').
  { unfold live. apply in_map_iff. exists s. split; assumption. }
  exists sid'. split; [intro Heq; rewrite Heq in Hl; contradiction|]. split; [exact Hl|]. split; [exact He|]. congruence.
Qed.

(* when no session is left at all, the table is empty *)
Theorem remote_refs_none_without_sessions : forall ops, consistent oc ops ->
  sessions (run sv keys ops) = [] -> forall id, rrefs_of sv keys oc true ops id = None.
Proof.
  intros ops Hc Hs id.
  destruct (rrefs_of sv keys oc true ops id) as [n|] eqn:E; [|reflexivity]. exfalso.
  destruct (remote_refs_owned ops Hc id n E) as [_ [_ [sid' [s [_ [Hin _]]]]]].
  rewrite Hs in Hin. exact Hin.
Qed.

(* the table as a list, in the order of the remote requests, and the list the property
   names, in the order of mopen: the same entries *)
Definition rtable (ops : list op) : list (N * N) :=
  flat_map (fun id => match rrefs_of sv keys oc true ops id with Some n => [(id, n)] | None => [] end)
           (rev (remote_of sv keys oc true ops)).
Definition open_remote_subs (ops : list op) : list (N * N) :=
  map (fun e => (e_id e, 1))
      (filter (fun e => kind_eqb (e_kind e) Sub && memN (e_id e) (remote_of sv keys oc true ops))
              (mopen (run sv keys ops))).

Theorem remote_table_exact : forall ops, consistent oc ops ->
  forall x, In x (rtable ops) <-> In x (open_remote_subs ops).
Proof.
  intros ops Hc [id n]. unfold rtable, open_remote_subs. rewrite in_flat_map, in_map_iff. split.
  - intros [i [Hi Hx]]. apply in_rev in Hi. rewrite (remote_refs_exact ops Hc) in Hx.
    apply memN_In in Hi. rewrite Hi in Hx. simpl in Hx.
    destruct (sub_open (run sv keys ops) i) eqn:Eo; [|contradiction].
    destruct Hx as [Hx|[]]. inversion Hx; subst.
    apply sub_open_In in Eo. destruct Eo as [e [He [Hid Hk]]].
    exists e. split; [rewrite Hid; reflexivity|]. apply filter_In. split; [exact He|].
    rewrite Hk, Hid, Hi. reflexivity.
  - intros [e [Hx Hf]]. apply filter_In in Hf. destruct Hf as [He Hb]. apply andb_true_iff in Hb.
    destruct Hb as [Hk Hr]. apply kind_eqb_eq in Hk. inversion Hx; subst.
    exists (e_id e). split; [apply in_rev; rewrite rev_involutive; apply memN_In; exact Hr|].
    rewrite (remote_refs_exact ops Hc), Hr, (In_sub_open _ e He Hk). left. reflexivity.
Qed.

End Exact.

(* ---- the seeded placement of the release, as a history ---------------------------------
   release only after NewRemoteSubscriber succeeded (ra = false): hello, remote
   create-subscriber, the attach fails, bye - the session is gone, nothing is open or
   registered in the model's state, and the remote publisher of request 0 still holds one
   reference.  With ra = true the same history leaves none. *)
Definition late_ops : list op :=
  [OHello 0 1000%Z witness_tok; OCmd 0 CCreateSubRemote; OMcuDone 0 MFail; OBye 0].
Definition late_oc : N -> rres := fun _ => RRSubFail.

Lemma late_consistent : consistent late_oc late_ops.
Proof.
  intros o t r Ho Hi. simpl in Ho.
  repeat (destruct Ho as [Ho|Ho]; [subst o; simpl in Hi; try contradiction|]); try contradiction.
  destruct Hi as [Hi|[]]. inversion Hi. reflexivity.
Qed.

Lemma remote_refs_release_late_history :
  consistent late_oc late_ops /\
  sessions (run sv_all keys_all late_ops) = [] /\ mopen (run sv_all keys_all late_ops) = [] /\
  remote_of sv_all keys_all late_oc false late_ops = [0] /\
  rrefs_of sv_all keys_all late_oc false late_ops 0 = Some 1 /\
  rrefs_of sv_all keys_all late_oc true late_ops 0 = None.
Proof. split; [exact late_consistent|]. vm_compute. auto. Qed.

(* non-vacuity of remote_refs_exact: two sessions, three remote requests and a local one;
   request 0 succeeds and stays, 1 fails in the attach, 2 succeeds and is deleted, the
   local subscriber 3 is open but not remote; then session 1 says bye *)
Definition refs_ops : list op :=
  [OHello 0 1000%Z witness_tok; OHello 1 1000%Z witness_tok;
   OCmd 0 CCreateSubRemote; OMcuDone 0 MOk; OCmd 0 CCreateSubRemote; OMcuDone 1 MFail;
   OCmd 1 CCreateSubRemote; OMcuDone 2 MOk; OCmd 1 CCreateSub; OMcuDone 3 MOk; OCmd 1 (CDeleteSub 2)].
Definition refs_oc : N -> rres := fun t => if N.eqb t 1 then RRSubFail else RROk.

Lemma refs_consistent : consistent refs_oc (refs_ops ++ [OBye 0]).
Proof.
  intros o t r Ho Hi. simpl in Ho.
  repeat (destruct Ho as [Ho|Ho]; [subst o; simpl in Hi; try contradiction;
                                   try (destruct Hi as [Hi|[]]; inversion Hi; reflexivity)|]); contradiction.
Qed.

Lemma remote_refs_example :
  consistent refs_oc (refs_ops ++ [OBye 0]) /\
  map (rrefs_of sv_all keys_all refs_oc true refs_ops) [0; 1; 2; 3] = [Some 1; None; None; None] /\
  rtable sv_all keys_all refs_oc refs_ops = [(0, 1)] /\
  open_remote_subs sv_all keys_all refs_oc refs_ops = [(0, 1)] /\
  mopen (run sv_all keys_all refs_ops) = [(0, Sub, 1); (3, Sub, 2)] /\
  rtable sv_all keys_all refs_oc (refs_ops ++ [OBye 0]) = [].
Proof. split; [exact refs_consistent|]. vm_compute. auto. Qed.
