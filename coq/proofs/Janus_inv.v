(* The reachable states of the model of the mcuJanus bookkeeping (model/Janus.v): the invariant JInv, kept by every
   operation from init; P_C09J on every model trace; what a reconnect leaves exactly; nothing outlives its owner.
   Exported as C09J_* by props/C09.v. *)
From Coq Require Import List NArith Bool Lia.
From Verif Require Import model.Janus corr.Run_C09J proofs.Janus_proofs.
Import ListNotations.
Open Scope N_scope.

(* ---- lists ------------------------------------------------------------------------------------ *)
Lemma countN_remove1 : forall x c l,
  countN x (remove1 c l) = if N.eqb x c then N.pred (countN x l) else countN x l.
Proof.
  induction l as [|a l IH]; simpl; [now destruct (N.eqb x c)|].
  destruct (N.eqb c a) eqn:E.
  - apply N.eqb_eq in E; subst a. destruct (N.eqb x c); lia.
  - simpl. rewrite IH. destruct (N.eqb x c) eqn:F; [|reflexivity].
    apply N.eqb_eq in F; subst x. rewrite E. lia.
Qed.
Lemma In_remove1 : forall x c l, In x (remove1 c l) -> In x l.
Proof.
  induction l as [|a l IH]; simpl; [tauto|]. destruct (N.eqb c a); simpl; [auto|]. intros [H | H]; auto.
Qed.
Lemma In_removeN : forall x c l, In x (removeN c l) <-> In x l /\ x <> c.
Proof.
  intros. unfold removeN. rewrite filter_In, negb_true_iff, N.eqb_neq. intuition congruence.
Qed.
Lemma NoDup_removeN : forall c l, NoDup l -> NoDup (removeN c l).
Proof.
  intros c l H. unfold removeN. induction H; simpl; [constructor|].
  destruct (negb (N.eqb c x)); [|assumption]. constructor; [|assumption].
  intros Hin. apply filter_In in Hin. tauto.
Qed.
Lemma memN_false : forall x l, memN x l = false <-> ~ In x l.
Proof. intros. rewrite <- memN_In. destruct (memN x l); intuition congruence. Qed.
Lemma countN_In : forall c l, In c l <-> countN c l <> 0.
Proof.
  intros c l. rewrite <- memN_In. pose proof (memN_count0 c l) as H. destruct (memN c l); split; intros; try congruence.
  - intros E. apply H in E. discriminate.
  - exfalso. apply H0. apply H. reflexivity.
Qed.
Lemma countN_notin : forall c l, ~ In c l -> countN c l = 0.
Proof. intros c l H. apply memN_count0. now apply memN_false. Qed.
Lemma countN_nodup : forall c l, NoDup l -> countN c l <= 1.
Proof.
  intros c l H. induction H; simpl; [lia|]. destruct (N.eqb c x) eqn:E; [|lia].
  apply N.eqb_eq in E; subst x. rewrite (countN_notin _ _ H). lia.
Qed.
Lemma countN_app : forall x a b, countN x (a ++ b) = countN x a + countN x b.
Proof. induction a; simpl; intros; [reflexivity | rewrite IHa; lia]. Qed.

(* ---- client objects ----------------------------------------------------------------------------- *)
Lemma upd_obj_ids : forall f c l, (forall y, c_id (f y) = c_id y) -> map c_id (upd_obj f c l) = map c_id l.
Proof.
  intros f c l Hf. unfold upd_obj. rewrite map_map. apply map_ext. intros a. destruct (N.eqb (c_id a) c); auto.
Qed.
Lemma upd_obj_comp : forall f g c l, (forall y, c_id (g y) = c_id y) ->
  upd_obj f c (upd_obj g c l) = upd_obj (fun y => f (g y)) c l.
Proof.
  intros f g c l Hg. unfold upd_obj. rewrite map_map. apply map_ext. intros a.
  destruct (N.eqb (c_id a) c) eqn:E; [now rewrite Hg, E | now rewrite E].
Qed.
Lemma In_upd_obj : forall f c l x', In x' (upd_obj f c l) ->
  exists y, In y l /\ x' = if N.eqb (c_id y) c then f y else y.
Proof. intros f c l x' H. unfold upd_obj in H. apply in_map_iff in H. destruct H as (y & E & Hy). eauto. Qed.
Lemma get_obj_In : forall st c x, get_obj st c = Some x -> In x (m_objs st) /\ c_id x = c.
Proof. intros st c x G. unfold get_obj in G. apply find_some in G. destruct G as [G1 G2]. apply N.eqb_eq in G2. auto. Qed.
Lemma fobj_none : forall l c, fobj l c = None <-> ~ In c (map c_id l).
Proof.
  intros l c. unfold fobj. induction l as [|a l IH]; simpl; [tauto|].
  destruct (N.eqb (c_id a) c) eqn:E.
  - apply N.eqb_eq in E. split; [discriminate | intros H; exfalso; auto].
  - apply N.eqb_neq in E. rewrite IH. tauto.
Qed.
Lemma nodup_ids_unique : forall l x y, NoDup (map c_id l) -> In x l -> In y l -> c_id x = c_id y -> x = y.
Proof.
  induction l as [|a l IH]; simpl; intros x y N Hx Hy E; [tauto|].
  inversion N as [|? ? N1 N2]; subst.
  destruct Hx as [-> | Hx], Hy as [-> | Hy]; auto.
  - exfalso. apply N1. rewrite E. now apply in_map.
  - exfalso. apply N1. rewrite <- E. now apply in_map.
Qed.
Lemma nodup_fobj : forall l x, NoDup (map c_id l) -> In x l -> fobj l (c_id x) = Some x.
Proof.
  intros l x N Hx. destruct (fobj l (c_id x)) as [y|] eqn:F.
  - pose proof (fobj_id _ _ _ F) as E. apply find_some in F. destruct F as [Hy _].
    f_equal. eapply nodup_ids_unique; eauto.
  - apply fobj_none in F. exfalso. apply F. now apply in_map.
Qed.

(* ---- the invariant ----------------------------------------------------------------------------------
   Per client object ever handed out: its id is not 0 and below mcu.clientId; it is in mcu.clients exactly when it was
   not closed; it has no handle exactly when it was closed; a publisher has no room number exactly when it was closed
   (a subscriber keeps the room number of its publisher); as long as it is open the gateway holds exactly one handle
   for it when its handle field is live and none otherwise, and exactly one room when it is a publisher whose room is
   live and none otherwise; no room is ever held for a subscriber; a publisher is owned by its own session and its
   handle and room number are in the same state (both none, both live or both forgotten by the gateway). *)
Definition obj_ok (st : state) (x : client) : Prop :=
  c_id x <> 0 /\ c_id x < m_next st /\
  memN (c_id x) (m_clients st) = negb (c_closed x) /\
  hs_is_none (c_handle x) = c_closed x /\
  (c_kind x = Pub -> hs_is_none (c_room x) = c_closed x) /\
  (c_kind x = Sub -> hs_is_none (c_room x) = false /\ countN (c_id x) (g_rooms st) = 0) /\
  (c_closed x = false -> countN (c_id x) (g_handles st) = (if hs_is_live (c_handle x) then 1 else 0)) /\
  (c_closed x = false -> countN (c_id x) (g_rooms st) = (if is_pub (c_kind x) && hs_is_live (c_room x) then 1 else 0)) /\
  (c_kind x = Pub -> c_owner x = c_sid x /\ c_handle x = c_room x).

Record JInv (st : state) : Prop := {
  J_next : 1 <= m_next st;
  J_ids : NoDup (map c_id (m_objs st));                                   (* one object per id *)
  J_all : forall c, 0 < c < m_next st -> In c (map c_id (m_objs st));     (* every id handed out has its object *)
  J_obj : forall x, In x (m_objs st) -> obj_ok st x;
  J_cl_nodup : NoDup (m_clients st);
  J_cl : forall c, In c (m_clients st) -> 0 < c < m_next st;
  (* mcu.publishers: a key names a registered open publisher of that stream *)
  J_pubs : forall k c, In (k, c) (m_pubs st) ->
           exists x, In x (m_objs st) /\ c_id x = c /\ c_kind x = Pub /\ ckey x = k /\ c_closed x = false;
  (* the gateway holds handles only for the MCU itself (0) and for ids handed out, rooms only for ids handed out *)
  J_gh : forall c, In c (g_handles st) -> c < m_next st;
  J_gr : forall c, In c (g_rooms st) -> 0 < c < m_next st;
  (* a gateway that has forgotten the MCU's session holds nothing; one that knows it holds the MCU's handle once *)
  J_sess : g_sess st = false -> g_handles st = [] /\ g_rooms st = [];
  J_own : g_sess st = true -> countN 0 (g_handles st) = 1
}.

Lemma JInv_init : JInv init.
Proof.
  constructor; simpl; try (intros; lia || tauto || constructor || discriminate).
Qed.

Lemma J_unique : forall st x y, JInv st -> In x (m_objs st) -> In y (m_objs st) -> c_id x = c_id y -> x = y.
Proof. intros st x y J. apply nodup_ids_unique, J. Qed.
Lemma J_has_obj : forall st c, JInv st -> 0 < c < m_next st -> exists x, In x (m_objs st) /\ c_id x = c.
Proof. intros st c J H. apply (J_all st J) in H. apply in_map_iff in H. destruct H as (x & E & Hx). eauto. Qed.

(* ---- Close in closed form ------------------------------------------------------------------------------ *)
Definition closed_of (k : kind) (y : client) : client :=
  {| c_id := c_id y; c_kind := c_kind y; c_owner := c_owner y; c_sid := c_sid y; c_stream := c_stream y;
     c_handle := HNone; c_room := if is_pub k then HNone else c_room y; c_closed := true |}.
Definition close_result (st : state) (x : client) (rd rt : bool) : state :=
  {| g_up := g_up st; g_sess := g_sess st;
     g_handles := if handle_ok st x && negb rt then remove1 (c_id x) (g_handles st) else g_handles st;
     g_rooms := if is_pub (c_kind x) && handle_ok st x && hs_is_live (c_room x) && negb rd
                then remove1 (c_id x) (g_rooms st) else g_rooms st;
     m_clients := removeN (c_id x) (m_clients st);
     m_pubs := if is_pub (c_kind x) then del_key (m_pubs st) (ckey x) else m_pubs st;
     m_objs := upd_obj (closed_of (c_kind x)) (c_id x) (m_objs st);
     m_next := m_next st |}.
Definition close_event (x : client) : event := if is_pub (c_kind x) then EPubClosed (c_id x) else ESubClosed (c_id x).

(* Close of a client that has a handle (and, a publisher, a room number) *)
Lemma close_open : forall st c x rd rt,
  get_obj st c = Some x -> hs_is_none (c_handle x) = false -> (c_kind x = Pub -> hs_is_none (c_room x) = false) ->
  close st c rd rt = (close_result st x rd rt, [close_event x]).
Proof.
  intros st c x rd rt G Hh Hr. unfold close. rewrite G. unfold close_result, close_event.
  assert (I1 : forall h y, c_id (set_handle h y) = c_id y) by reflexivity.
  assert (I2 : forall h y, c_id (set_room h y) = c_id y) by reflexivity.
  destruct (c_kind x) eqn:K.
  - specialize (Hr eq_refl). unfold close_pub, close_client, handle_ok.
    destruct (c_handle x) eqn:EH; [discriminate | |]; (destruct (c_room x) eqn:ER; [discriminate | |]);
      destruct (reachable st) eqn:R; destruct rd, rt; simpl;
      unfold handle_ok, reachable in *; simpl; rewrite ?R, ?EH; simpl;
      rewrite !upd_obj_comp by (intros; reflexivity); reflexivity.
  - unfold close_sub, close_client, handle_ok.
    destruct (c_handle x) eqn:EH; [discriminate | |];
      destruct (reachable st) eqn:R; destruct rt; simpl;
      rewrite ?upd_obj_comp by (intros; reflexivity); rewrite ?andb_false_r; reflexivity.
Qed.

(* Close of a closed client changes nothing *)
Lemma close_closed : forall st c x rd rt, JInv st ->
  get_obj st c = Some x -> c_closed x = true -> fst (close st c rd rt) = st.
Proof.
  intros st c x rd rt J G Hc. destruct (get_obj_In _ _ _ G) as [Hx Hid].
  apply close_closed_noop.
  - intros y Hy Ey. assert (y = x) by (eapply J_unique; eauto; congruence). subst y.
    destruct (J_obj st J x Hx) as (_ & _ & _ & H4 & _). rewrite Hc in H4. split; [assumption|].
    destruct (c_handle x); simpl in H4; congruence.
  - destruct (J_obj st J x Hx) as (_ & _ & H3 & _). rewrite Hc, Hid in H3. exact H3.
Qed.

Lemma open_has_handle : forall st x, obj_ok st x -> c_closed x = false ->
  hs_is_none (c_handle x) = false /\ (c_kind x = Pub -> hs_is_none (c_room x) = false).
Proof. intros st x (_ & _ & _ & H4 & H5 & _) Hc. rewrite Hc in *. auto. Qed.

Lemma close_result_inv : forall st x rd rt, JInv st -> In x (m_objs st) -> c_closed x = false ->
  JInv (close_result st x rd rt).
Proof.
  intros st x rd rt J Hx Hc.
  pose proof (J_obj st J x Hx) as Ox.
  assert (Hid : forall y, c_id (closed_of (c_kind x) y) = c_id y) by reflexivity.
  assert (R0 : g_sess st = false -> handle_ok st x = false).
  { intros S. unfold handle_ok, reachable. rewrite S, andb_false_r. reflexivity. }
  destruct Ox as (O1 & O2 & O3 & O4 & O5 & O6 & O7 & O8 & O9).
  constructor; simpl.
  - apply (J_next st J).
  - rewrite upd_obj_ids by exact Hid. apply (J_ids st J).
  - rewrite upd_obj_ids by exact Hid. apply (J_all st J).
  - intros x' Hx'. apply In_upd_obj in Hx'. destruct Hx' as (y & Hy & ->).
    pose proof (J_obj st J y Hy) as (Y1 & Y2 & Y3 & Y4 & Y5 & Y6 & Y7 & Y8 & Y9).
    destruct (N.eqb (c_id y) (c_id x)) eqn:E.
    + apply N.eqb_eq in E. assert (y = x) by (eapply J_unique; eauto). subst y.
      unfold obj_ok; simpl. rewrite memN_removeN, N.eqb_refl, andb_false_r.
      repeat split; auto; try discriminate.
      * intros K. rewrite K. reflexivity.
      * rewrite H. simpl. apply (O6 H).
      * rewrite H. simpl. apply (O6 H).
      * apply (O9 H).
      * rewrite H. reflexivity.
    + assert (E' : N.eqb (c_id x) (c_id y) = false) by (rewrite N.eqb_sym; exact E).
      unfold obj_ok; simpl. rewrite memN_removeN, E'. simpl. rewrite andb_true_r.
      assert (CH : countN (c_id y) (if handle_ok st x && negb rt then remove1 (c_id x) (g_handles st) else g_handles st)
                   = countN (c_id y) (g_handles st)).
      { destruct (handle_ok st x && negb rt); [|reflexivity]. now rewrite countN_remove1, E. }
      assert (CR : countN (c_id y) (if is_pub (c_kind x) && handle_ok st x && hs_is_live (c_room x) && negb rd
                                    then remove1 (c_id x) (g_rooms st) else g_rooms st) = countN (c_id y) (g_rooms st)).
      { destruct (is_pub (c_kind x) && handle_ok st x && hs_is_live (c_room x) && negb rd); [|reflexivity].
        now rewrite countN_remove1, E. }
      rewrite CH, CR. repeat split; auto; first [apply Y6; auto | apply Y9; auto].
  - apply NoDup_removeN, (J_cl_nodup st J).
  - intros c Hin. apply In_removeN in Hin. apply (J_cl st J). tauto.
  - intros k c Hin.
    assert (Hin' : In (k, c) (m_pubs st) /\ (c_kind x = Pub -> ckey x <> k)).
    { destruct (c_kind x); simpl in Hin.
      - unfold del_key in Hin. apply filter_In in Hin. destruct Hin as [Hin Hk]. split; [assumption|].
        intros _ Ek. unfold pkey in Hk. simpl in Hk. rewrite <- Ek in Hk.
        unfold key_eqb in Hk. rewrite !N.eqb_refl in Hk. discriminate.
      - split; [assumption | discriminate]. }
    destruct Hin' as [Hp Hk]. destruct (J_pubs st J k c Hp) as (y & Hy & Y1 & Y2 & Y3 & Y4).
    exists y. repeat split; auto.
    unfold upd_obj. apply in_map_iff. exists y. split; [|assumption].
    destruct (N.eqb (c_id y) (c_id x)) eqn:E; [|reflexivity].
    apply N.eqb_eq in E. assert (y = x) by (eapply J_unique; eauto). subst y. exfalso. apply (Hk Y2 Y3).
  - intros c Hin. apply (J_gh st J). destruct (handle_ok st x && negb rt); [eapply In_remove1; eauto | assumption].
  - intros c Hin. apply (J_gr st J).
    destruct (is_pub (c_kind x) && handle_ok st x && hs_is_live (c_room x) && negb rd); [eapply In_remove1; eauto | assumption].
  - intros S. rewrite (R0 S), andb_false_r. simpl. apply (J_sess st J S).
  - intros S. destruct (handle_ok st x && negb rt); [|apply (J_own st J S)].
    rewrite countN_remove1. assert (N.eqb 0 (c_id x) = false) as -> by (apply N.eqb_neq; congruence). apply (J_own st J S).
Qed.

Lemma close_inv : forall st c rd rt, JInv st -> JInv (fst (close st c rd rt)).
Proof.
  intros st c rd rt J. destruct (get_obj st c) as [x|] eqn:G.
  - destruct (get_obj_In _ _ _ G) as [Hx Hid]. destruct (c_closed x) eqn:Hc.
    + rewrite (close_closed st c x rd rt J G Hc). exact J.
    + destruct (open_has_handle st x (J_obj st J x Hx) Hc) as [Hh Hr].
      rewrite (close_open st c x rd rt G Hh Hr). simpl. now apply close_result_inv.
  - unfold close. rewrite G. exact J.
Qed.

Lemma close_list_inv : forall l st, JInv st -> JInv (fst (close_list st l)).
Proof.
  induction l as [|a l IH]; intros st J; simpl; [exact J|].
  pose proof (close_inv st a false false J) as H. destruct (close st a false false) as [st1 e1]. simpl in H.
  specialize (IH st1 H). destruct (close_list st1 l) as [st2 e2]. exact IH.
Qed.

(* ---- creation ---------------------------------------------------------------------------------------- *)
Lemma NoDup_snoc : forall (l : list N) a, NoDup l -> ~ In a l -> NoDup (l ++ [a]).
Proof.
  induction l as [|b l IH]; simpl; intros a H Ha; [constructor; [tauto | constructor]|].
  inversion H; subst. constructor.
  - rewrite in_app_iff. simpl. intuition.
  - apply IH; tauto.
Qed.
Definition add_result (st : state) (x : client) : state :=
  {| g_up := g_up st; g_sess := g_sess st;
     g_handles := g_handles st ++ [c_id x];
     g_rooms := if is_pub (c_kind x) then g_rooms st ++ [c_id x] else g_rooms st;
     m_clients := m_clients st ++ [c_id x];
     m_pubs := if is_pub (c_kind x) then set_key (m_pubs st) (ckey x) (c_id x) else m_pubs st;
     m_objs := m_objs st ++ [x];
     m_next := c_id x + 1 |}.
Lemma add_result_inv : forall st x, JInv st -> g_sess st = true ->
  c_id x = m_next st -> c_handle x = HLive -> c_room x = HLive -> c_closed x = false ->
  (c_kind x = Pub -> c_owner x = c_sid x) ->
  JInv (add_result st x).
Proof.
  intros st x J S Hid Hh Hr Hc Ho.
  pose proof (J_next st J) as N1.
  assert (Nh : ~ In (c_id x) (g_handles st)) by (intros H; apply (J_gh st J) in H; lia).
  assert (Nr : ~ In (c_id x) (g_rooms st)) by (intros H; apply (J_gr st J) in H; lia).
  assert (Nc : ~ In (c_id x) (m_clients st)) by (intros H; apply (J_cl st J) in H; lia).
  assert (No : ~ In (c_id x) (map c_id (m_objs st))).
  { intros H. apply in_map_iff in H. destruct H as (y & E & Hy). destruct (J_obj st J y Hy) as (_ & Y2 & _). lia. }
  constructor; simpl.
  - lia.
  - rewrite map_app. simpl. apply NoDup_snoc; [apply (J_ids st J) | exact No].
  - intros c Hc'. rewrite map_app, in_app_iff. simpl.
    destruct (N.eq_dec c (c_id x)); [auto | left; apply (J_all st J); lia].
  - intros y Hy. apply in_app_iff in Hy. destruct Hy as [Hy | [<- | []]].
    + destruct (J_obj st J y Hy) as (Y1 & Y2 & Y3 & Y4 & Y5 & Y6 & Y7 & Y8 & Y9).
      assert (E : N.eqb (c_id y) (c_id x) = false) by (apply N.eqb_neq; lia).
      assert (CR : countN (c_id y) (if is_pub (c_kind x) then g_rooms st ++ [c_id x] else g_rooms st)
                   = countN (c_id y) (g_rooms st)).
      { destruct (is_pub (c_kind x)); [|reflexivity]. rewrite countN_app1, E. lia. }
      unfold obj_ok; simpl. rewrite memN_app1, countN_app1, E, CR, orb_false_r, N.add_0_r.
      repeat split; auto; try lia; first [apply Y6; auto | apply Y9; auto].
    + unfold obj_ok; simpl. rewrite memN_app1, countN_app1, N.eqb_refl, orb_true_r, Hh, Hr, Hc.
      rewrite (countN_notin _ _ Nh). simpl. repeat split; auto; try lia; try discriminate.
      * rewrite H. simpl. now apply countN_notin.
      * intros _. destruct (is_pub (c_kind x)); simpl; [|now apply countN_notin].
        rewrite countN_app1, N.eqb_refl, (countN_notin _ _ Nr). reflexivity.
  - apply NoDup_snoc; [apply (J_cl_nodup st J) | exact Nc].
  - intros c Hin. apply in_app_iff in Hin. destruct Hin as [Hin | [<- | []]]; [apply (J_cl st J) in Hin|]; lia.
  - intros k c Hin.
    assert (Hin' : In (k, c) (m_pubs st) \/ (c_kind x = Pub /\ k = ckey x /\ c = c_id x)).
    { destruct (c_kind x); simpl in Hin; [|auto]. unfold set_key in Hin. apply in_app_iff in Hin.
      destruct Hin as [Hin | [Hin | []]].
      - left. unfold del_key in Hin. apply filter_In in Hin. tauto.
      - right. inversion Hin. auto. }
    destruct Hin' as [Hp | (K & -> & ->)].
    + destruct (J_pubs st J k c Hp) as (y & Hy & Y). exists y. split; [apply in_app_iff; auto | exact Y].
    + exists x. repeat split; auto. apply in_app_iff. simpl. auto.
  - intros c Hin. apply in_app_iff in Hin. destruct Hin as [Hin | [<- | []]]; [apply (J_gh st J) in Hin|]; lia.
  - intros c Hin. destruct (is_pub (c_kind x)).
    + apply in_app_iff in Hin. destruct Hin as [Hin | [<- | []]]; [apply (J_gr st J) in Hin|]; lia.
    + apply (J_gr st J) in Hin. lia.
  - congruence.
  - intros _. rewrite countN_app1, (J_own st J S).
    assert (N.eqb 0 (c_id x) = false) as -> by (apply N.eqb_neq; lia). reflexivity.
Qed.

Lemma reachable_sess : forall st, reachable st = true -> g_sess st = true.
Proof. unfold reachable. intros st H. apply andb_true_iff in H. tauto. Qed.

Lemma new_pub_inv : forall st s t rc, JInv st -> JInv (fst (fst (new_pub st s t rc))).
Proof.
  intros st s t rc J. unfold new_pub. destruct (reachable st) eqn:R; simpl; [|exact J].
  destruct rc; simpl; [exact J|].
  apply (add_result_inv st {| c_id := m_next st; c_kind := Pub; c_owner := s; c_sid := s; c_stream := t;
                              c_handle := HLive; c_room := HLive; c_closed := false |}); auto.
  now apply reachable_sess.
Qed.
Lemma new_sub_inv : forall st o s t, JInv st -> JInv (fst (fst (new_sub st o s t))).
Proof.
  intros st o s t J. unfold new_sub. destruct (pub_of (m_pubs st) (s, t)); [|exact J].
  destruct (reachable st) eqn:R; simpl; [|exact J].
  apply (add_result_inv st {| c_id := m_next st; c_kind := Sub; c_owner := o; c_sid := s; c_stream := t;
                              c_handle := HLive; c_room := HLive; c_closed := false |}); auto.
  - now apply reachable_sess.
  - discriminate.
Qed.

(* ---- the gateway goes away / comes back ------------------------------------------------------------------ *)
Lemma with_gw_inv : forall st up, JInv st -> JInv (with_gw st up (g_sess st) (g_handles st) (g_rooms st)).
Proof. intros st up J. destruct J. constructor; simpl; auto. Qed.

Lemma hs_none_forget : forall h, hs_is_none (forget h) = hs_is_none h.
Proof. destruct h; reflexivity. Qed.
Lemma hs_live_forget : forall h, hs_is_live (forget h) = false.
Proof. destruct h; reflexivity. Qed.

(* the gateway forgets everything (restarted: knows no session, holds nothing; or the new session of a reconnect with
   the MCU's new handle); mcu.publishers kept or cleared *)
Lemma wipe_inv : forall st up sess hs ps, JInv st ->
  (sess = false /\ hs = []) \/ (sess = true /\ hs = [0]) -> incl ps (m_pubs st) ->
  JInv (with_pubs (wipe st up sess hs) ps).
Proof.
  intros st up sess hs ps J Hhs Hps.
  assert (C0 : forall c, c <> 0 -> countN c hs = 0).
  { intros c Hc. destruct Hhs as [[_ ->] | [_ ->]]; simpl; [reflexivity|].
    assert (N.eqb c 0 = false) as -> by (now apply N.eqb_neq). reflexivity. }
  constructor; simpl.
  - apply (J_next st J).
  - rewrite map_map. simpl. apply (J_ids st J).
  - rewrite map_map. simpl. apply (J_all st J).
  - intros x' Hx'. apply in_map_iff in Hx'. destruct Hx' as (y & <- & Hy).
    destruct (J_obj st J y Hy) as (Y1 & Y2 & Y3 & Y4 & Y5 & Y6 & Y7 & Y8 & Y9).
    unfold obj_ok; simpl. rewrite !hs_none_forget, !hs_live_forget, andb_false_r, (C0 _ Y1).
    repeat split; auto; try (apply Y6; auto); try (apply Y9; auto).
    f_equal. apply Y9; auto.
  - apply (J_cl_nodup st J).
  - apply (J_cl st J).
  - intros k c Hin. apply Hps in Hin. destruct (J_pubs st J k c Hin) as (y & Hy & Y1 & Y2 & Y3 & Y4).
    exists (forget_obj y). repeat split; auto. now apply in_map.
  - intros c Hin. pose proof (J_next st J). destruct Hhs as [[_ ->] | [_ ->]]; simpl in Hin; [tauto|].
    destruct Hin as [<- | []]. lia.
  - tauto.
  - intros ->. destruct Hhs as [[_ ->] | [E _]]; [auto | discriminate].
  - intros ->. destruct Hhs as [[E _] | [_ ->]]; [discriminate | reflexivity].
Qed.

Ltac conjs := repeat match goal with |- _ /\ _ => split end.

(* ---- doReconnect ------------------------------------------------------------------------------------------ *)
Definition relive (y : client) : client := set_room HLive (set_handle HLive y).
Definition relive_result (st : state) (c : N) : state :=
  {| g_up := g_up st; g_sess := g_sess st; g_handles := g_handles st ++ [c]; g_rooms := g_rooms st ++ [c];
     m_clients := m_clients st; m_pubs := m_pubs st; m_objs := upd_obj relive c (m_objs st); m_next := m_next st |}.

Lemma relive_inv : forall st c x, JInv st -> g_sess st = true -> In x (m_objs st) -> c_id x = c ->
  c_kind x = Pub -> c_closed x = false -> hs_is_live (c_handle x) = false -> hs_is_live (c_room x) = false ->
  JInv (relive_result st c).
Proof.
  intros st c x J S Hx Hid K Hc Lh Lr. subst c.
  destruct (J_obj st J x Hx) as (O1 & O2 & O3 & O4 & O5 & O6 & O7 & O8 & O9).
  assert (Hf : forall y, c_id (relive y) = c_id y) by reflexivity.
  constructor; simpl.
  - apply (J_next st J).
  - rewrite upd_obj_ids by exact Hf. apply (J_ids st J).
  - rewrite upd_obj_ids by exact Hf. apply (J_all st J).
  - intros x' Hx'. apply In_upd_obj in Hx'. destruct Hx' as (y & Hy & ->).
    destruct (N.eqb (c_id y) (c_id x)) eqn:E.
    + apply N.eqb_eq in E. assert (y = x) by (eapply J_unique; eauto; congruence). subst y.
      unfold obj_ok; simpl. rewrite !countN_app1, N.eqb_refl, (O7 Hc), (O8 Hc), Lh, Lr, K, Hc. simpl.
      rewrite O3, Hc. repeat split; auto; try discriminate. apply O9; auto.
    + destruct (J_obj st J y Hy) as (Y1 & Y2 & Y3 & Y4 & Y5 & Y6 & Y7 & Y8 & Y9).
      unfold obj_ok; simpl. rewrite !countN_app1, E, !N.add_0_r. repeat split; auto; first [apply Y6; auto | apply Y9; auto].
  - apply (J_cl_nodup st J).
  - apply (J_cl st J).
  - intros k c' Hin. destruct (J_pubs st J k c' Hin) as (y & Hy & Y1 & Y2 & Y3 & Y4).
    exists (if N.eqb (c_id y) (c_id x) then relive y else y). split.
    + unfold upd_obj. apply in_map_iff. eauto.
    + destruct (N.eqb (c_id y) (c_id x)); simpl; auto.
  - intros c' Hin. apply in_app_iff in Hin. destruct Hin as [Hin | [<- | []]]; [now apply (J_gh st J) | lia].
  - intros c' Hin. apply in_app_iff in Hin. destruct Hin as [Hin | [<- | []]]; [now apply (J_gr st J) | lia].
  - congruence.
  - intros _. rewrite countN_app1, (J_own st J S).
    assert (N.eqb 0 (c_id x) = false) as -> by (apply N.eqb_neq; lia). reflexivity.
Qed.

Lemma pub_of_nil : forall k, pub_of [] k = None.
Proof. reflexivity. Qed.

(* one NotifyReconnected, in the situation of doReconnect: the gateway answers, mcu.publishers is empty, the client is
   registered and its handle and room are not live *)
Lemma notify_step : forall fail st c, JInv st -> reachable st = true -> m_pubs st = [] -> In c (m_clients st) ->
  exists x, get_obj st c = Some x /\ In x (m_objs st) /\ c_id x = c /\ c_closed x = false /\
    notify_reconnected fail st c =
      match c_kind x with
      | Pub => if mem_key (ckey x) fail then (st, []) else (relive_result st c, [])
      | Sub => (close_result st x false false, [ESubClosed c])
      end.
Proof.
  intros fail st c J R P Hc.
  destruct (J_has_obj st c J (J_cl st J c Hc)) as (x & Hx & Hid).
  assert (G : get_obj st c = Some x).
  { rewrite get_obj_fobj, <- Hid. apply nodup_fobj; [apply (J_ids st J) | exact Hx]. }
  destruct (J_obj st J x Hx) as (_ & _ & O3 & _).
  assert (Hcl : c_closed x = false).
  { rewrite Hid in O3. apply memN_In in Hc. rewrite Hc in O3. destruct (c_closed x); [discriminate | reflexivity]. }
  exists x. repeat split; auto.
  unfold notify_reconnected. rewrite G, R, P. simpl. destruct (c_kind x) eqn:K.
  - destruct (mem_key (ckey x) fail); reflexivity.
  - destruct (open_has_handle st x (J_obj st J x Hx) Hcl) as [Hh _].
    pose proof (close_open st c x false false G Hh ltac:(congruence)) as E.
    unfold close in E. rewrite G, K in E. rewrite E. unfold close_event. rewrite K, Hid. reflexivity.
Qed.

Definition recreated (fail : list (N * N)) (st : state) (c : N) : bool :=
  match get_obj st c with Some x => is_pub (c_kind x) && negb (mem_key (ckey x) fail) | None => false end.
Definition is_sub_id (st : state) (c : N) : bool :=
  match get_obj st c with Some x => negb (is_pub (c_kind x)) | None => false end.
Definition recon_obj (fail : list (N * N)) (l : list N) (y : client) : client :=
  if memN (c_id y) l then
    match c_kind y with
    | Pub => if mem_key (ckey y) fail then y else relive y
    | Sub => closed_of Sub y
    end
  else y.

Definition static_eq (x y : client) : Prop :=
  c_id x = c_id y /\ c_kind x = c_kind y /\ c_owner x = c_owner y /\ c_sid x = c_sid y /\ c_stream x = c_stream y.
Lemma static_get : forall f d st st', (forall y, static_eq (f y) y) -> m_objs st' = upd_obj f d (m_objs st) ->
  forall fail c, recreated fail st' c = recreated fail st c /\ is_sub_id st' c = is_sub_id st c.
Proof.
  intros f d st st' Hf E fail c. unfold recreated, is_sub_id. rewrite !get_obj_fobj, E.
  rewrite fobj_upd by (intros; apply Hf). destruct (N.eqb c d); [|auto].
  destruct (fobj (m_objs st) c) as [y|]; simpl; [|auto].
  destruct (Hf y) as (_ & -> & _ & F1 & F2). unfold ckey. rewrite F1, F2. auto.
Qed.

Definition fresh_for (st : state) (l : list N) : Prop :=
  forall c x, In c l -> In x (m_objs st) -> c_id x = c ->
              hs_is_live (c_handle x) = false /\ hs_is_live (c_room x) = false.

Lemma fresh_upd : forall f c st st' r, (forall y, c_id (f y) = c_id y) -> m_objs st' = upd_obj f c (m_objs st) ->
  ~ In c r -> fresh_for st (c :: r) -> fresh_for st' r.
Proof.
  intros f c st st' r Hf E Hn F c' x' Hc' Hx' Hid'. rewrite E in Hx'. apply In_upd_obj in Hx'.
  destruct Hx' as (y & Hy & ->). destruct (N.eqb (c_id y) c) eqn:Ey.
  - apply N.eqb_eq in Ey. rewrite Hf in Hid'. exfalso. apply Hn. congruence.
  - apply (F c' y); simpl; auto.
Qed.

Record recon_post (fail : list (N * N)) (st : state) (l : list N) (st' : state) (ev : list event) : Prop := {
  RP_inv : JInv st';
  RP_up : g_up st' = g_up st;
  RP_sess : g_sess st' = g_sess st;
  RP_next : m_next st' = m_next st;
  RP_pubs : m_pubs st' = [];
  RP_handles : g_handles st' = g_handles st ++ filter (recreated fail st) l;
  RP_rooms : g_rooms st' = g_rooms st ++ filter (recreated fail st) l;
  RP_clients : forall c, In c (m_clients st') <-> In c (m_clients st) /\ ~ (In c l /\ is_sub_id st c = true);
  RP_objs : m_objs st' = map (recon_obj fail l) (m_objs st);
  RP_events : ev = map ESubClosed (filter (is_sub_id st) l)
}.

Lemma notify_all_post : forall fail l st, JInv st -> reachable st = true -> m_pubs st = [] -> NoDup l ->
  (forall c, In c l -> In c (m_clients st)) -> fresh_for st l ->
  recon_post fail st l (fst (notify_all fail st l)) (snd (notify_all fail st l)).
Proof.
  intros fail. induction l as [|c r IH]; intros st J R P ND Hl F.
  - simpl. constructor; simpl; auto; try (now rewrite app_nil_r).
    + intros c. tauto.
    + rewrite <- (map_id (m_objs st)) at 1. apply map_ext. reflexivity.
  - inversion ND as [|? ? Hn ND']; subst.
    destruct (notify_step fail st c J R P (Hl c (or_introl eq_refl))) as (x & G & Hx & Hid & Hcl & E).
    destruct (F c x (or_introl eq_refl) Hx Hid) as [Lh Lr].
    simpl. rewrite E.
    assert (RS : recreated fail st c = is_pub (c_kind x) && negb (mem_key (ckey x) fail)) by (unfold recreated; now rewrite G).
    assert (SS : is_sub_id st c = negb (is_pub (c_kind x))) by (unfold is_sub_id; now rewrite G).
    (* what the step for c leaves, in each of the three cases *)
    assert (STEP : exists st1 e1 f,
      (match c_kind x with
       | Pub => if mem_key (ckey x) fail then (st, []) else (relive_result st c, [])
       | Sub => (close_result st x false false, [ESubClosed c]) end) = (st1, e1) /\
      JInv st1 /\ g_up st1 = g_up st /\ g_sess st1 = g_sess st /\ m_next st1 = m_next st /\ m_pubs st1 = [] /\
      g_handles st1 = g_handles st ++ (if recreated fail st c then [c] else []) /\
      g_rooms st1 = g_rooms st ++ (if recreated fail st c then [c] else []) /\
      (forall c', In c' (m_clients st1) <-> In c' (m_clients st) /\ ~ (c' = c /\ is_sub_id st c = true)) /\
      m_objs st1 = upd_obj f c (m_objs st) /\ (forall y, static_eq (f y) y) /\
      f x = recon_obj fail (c :: r) x /\
      e1 = (if is_sub_id st c then [ESubClosed c] else [])).
    { assert (SE : forall y, static_eq y y) by (intros y; unfold static_eq; auto).
      assert (SR : forall y, static_eq (relive y) y) by (intros y; unfold static_eq; auto).
      assert (SC : forall y, static_eq (closed_of Sub y) y) by (intros y; unfold static_eq; auto).
      rewrite RS, SS. destruct (c_kind x) eqn:K; simpl.
      - destruct (mem_key (ckey x) fail) eqn:Fk; simpl.
        + exists st, [], (fun y => y). conjs; auto; try (now rewrite app_nil_r).
          * intros c'. intuition discriminate.
          * symmetry. apply upd_obj_id. reflexivity.
          * unfold recon_obj. simpl. rewrite Hid, N.eqb_refl, K, Fk. reflexivity.
        + exists (relive_result st c), [], relive. conjs; auto.
          * eapply relive_inv; eauto. now apply reachable_sess.
          * intros c'. simpl. intuition discriminate.
          * unfold recon_obj. simpl. rewrite Hid, N.eqb_refl, K, Fk. reflexivity.
      - exists (close_result st x false false), [ESubClosed c], (closed_of Sub).
        assert (HO : handle_ok st x = false) by (unfold handle_ok; rewrite Lh; apply andb_false_r).
        conjs; simpl; auto; try (rewrite ?K, ?HO; simpl; now rewrite ?app_nil_r).
        + now apply close_result_inv.
        + intros c'. rewrite Hid, In_removeN. intuition congruence.
        + rewrite K, Hid. reflexivity.
        + unfold recon_obj. simpl. rewrite Hid, N.eqb_refl, K. reflexivity. }
    destruct STEP as (st1 & e1 & f & -> & J1 & U1 & S1 & N1 & P1 & H1 & R1 & C1 & O1 & Fs & Fx & E1).
    assert (Fid : forall y, c_id (f y) = c_id y) by (intros y; apply Fs).
    assert (R' : reachable st1 = true) by (unfold reachable in *; now rewrite U1, S1).
    assert (Hl' : forall c', In c' r -> In c' (m_clients st1)).
    { intros c' Hc'. apply C1. split; [apply Hl; simpl; auto|]. intros [-> _]. tauto. }
    specialize (IH st1 J1 R' P1 ND' Hl' (fresh_upd f c st st1 r Fid O1 Hn F)).
    destruct (notify_all fail st1 r) as [st2 e2]. simpl in *.
    destruct IH as [I1 I2 I3 I4 I5 I6 I7 I8 I9 I10].
    assert (ST : forall c', recreated fail st1 c' = recreated fail st c' /\ is_sub_id st1 c' = is_sub_id st c').
    { intros c'. eapply static_get; eauto. }
    assert (FE : forall g, (forall c', g st1 c' = g st c') -> filter (g st1) r = filter (g st) r).
    { intros g Hg. apply filter_ext. exact Hg. }
    constructor; simpl; try solve [assumption | etransitivity; eassumption].
    + rewrite I6, H1, <- app_assoc. f_equal. rewrite (FE (recreated fail)) by (intros; apply ST).
      destruct (recreated fail st c); reflexivity.
    + rewrite I7, R1, <- app_assoc. f_equal. rewrite (FE (recreated fail)) by (intros; apply ST).
      destruct (recreated fail st c); reflexivity.
    + intros c'. rewrite I8, C1. destruct (ST c') as [_ ->].
      destruct (N.eq_dec c' c) as [-> | Ne]; intuition congruence.
    + rewrite I9, O1. unfold upd_obj. rewrite map_map. apply map_ext_in. intros y Hy.
      destruct (N.eqb (c_id y) c) eqn:Ey.
      * apply N.eqb_eq in Ey. assert (y = x) by (apply (J_unique st y x J Hy Hx); congruence). subst y.
        rewrite <- Fx. unfold recon_obj. rewrite Fid, Hid.
        assert (memN c r = false) as -> by (now apply memN_false). reflexivity.
      * unfold recon_obj. simpl. rewrite Ey. reflexivity.
    + rewrite I10, E1. rewrite (FE is_sub_id) by (intros; apply ST). destruct (is_sub_id st c); reflexivity.
Qed.

Definition wiped (st : state) : state := with_pubs (wipe st true true [0]) [].
Lemma wiped_inv : forall st, JInv st -> JInv (wiped st).
Proof. intros st J. apply wipe_inv; [exact J | auto | intros e []]. Qed.

Lemma reconnect_post : forall st fail, JInv st ->
  recon_post fail (wiped st) (m_clients st) (fst (reconnect st fail)) (snd (reconnect st fail)).
Proof.
  intros st fail J. unfold reconnect. fold (wiped st).
  apply notify_all_post; simpl; auto.
  - now apply wiped_inv.
  - apply (J_cl_nodup st J).
  - intros c x _ Hx _. apply in_map_iff in Hx. destruct Hx as (y & <- & _). simpl. now rewrite !hs_live_forget.
Qed.

(* ---- (1) the invariant holds in every state reachable from init ---------------------------------------------- *)
Lemma step_inv : forall st o, JInv st -> JInv (step_st st o).
Proof.
  intros st o J. unfold step_st. destruct o as [s t rc | ow s t | c rd rt | ow | w | | fail]; simpl.
  - now apply new_pub_inv.
  - now apply new_sub_inv.
  - pose proof (close_inv st c rd rt J) as H. destruct (close st c rd rt). exact H.
  - pose proof (close_list_inv (owned_open st ow) st J) as H. destruct (close_list st (owned_open st ow)). exact H.
  - destruct w; simpl.
    + apply (wipe_inv st (g_up st) false [] (m_pubs st) J); [auto | apply incl_refl].
    + now apply with_gw_inv.
  - now apply with_gw_inv.
  - pose proof (RP_inv _ _ _ _ _ (reconnect_post st fail J)) as H. destruct (reconnect st fail). exact H.
Qed.
Lemma run_from_inv : forall ops st, JInv st -> JInv (run_from st ops).
Proof. induction ops as [|o ops IH]; intros st J; simpl; [exact J | apply IH, step_inv, J]. Qed.
Theorem reachable_inv : forall ops, JInv (run ops).
Proof. intros ops. apply run_from_inv, JInv_init. Qed.

(* the facts named in the notes, read off the invariant *)
Lemma registered_not_closed : forall ops x, In x (m_objs (run ops)) ->
  (memN (c_id x) (m_clients (run ops)) = true <-> c_closed x = false).
Proof.
  intros ops x Hx. destruct (J_obj _ (reachable_inv ops) x Hx) as (_ & _ & H & _). rewrite H.
  destruct (c_closed x); simpl; intuition congruence.
Qed.
Lemma registered_has_object : forall ops c, In c (m_clients (run ops)) ->
  exists x, get_obj (run ops) c = Some x /\ c_closed x = false /\ c_handle x <> HNone /\ (c_kind x = Pub -> c_room x <> HNone).
Proof.
  intros ops c Hc. pose proof (reachable_inv ops) as J. set (st := run ops) in *.
  destruct (J_has_obj st c J (J_cl st J c Hc)) as (x & Hx & Hid).
  assert (G : get_obj st c = Some x) by (rewrite get_obj_fobj, <- Hid; apply nodup_fobj; [apply (J_ids st J) | exact Hx]).
  destruct (J_obj st J x Hx) as (_ & _ & O3 & O4 & O5 & _).
  apply memN_In in Hc. rewrite Hid, Hc in O3.
  assert (Hcl : c_closed x = false) by (destruct (c_closed x); [discriminate | reflexivity]).
  rewrite Hcl in *. exists x. repeat split; auto.
  - intros E. rewrite E in O4. discriminate.
  - intros K E. specialize (O5 K). rewrite E in O5. discriminate.
Qed.
Lemma closed_has_nothing : forall ops x, In x (m_objs (run ops)) -> c_closed x = true ->
  memN (c_id x) (m_clients (run ops)) = false /\ c_handle x = HNone /\ (c_kind x = Pub -> c_room x = HNone) /\
  (forall k, ~ In (k, c_id x) (m_pubs (run ops))).
Proof.
  intros ops x Hx Hc. pose proof (reachable_inv ops) as J. set (st := run ops) in *.
  destruct (J_obj st J x Hx) as (_ & _ & O3 & O4 & O5 & _). rewrite Hc in *. repeat split; auto.
  - destruct (c_handle x); simpl in O4; congruence.
  - intros K. specialize (O5 K). destruct (c_room x); simpl in O5; congruence.
  - intros k Hin. destruct (J_pubs st J k _ Hin) as (y & Hy & Y1 & _ & _ & Y4).
    assert (y = x) by (eapply J_unique; eauto). subst y. congruence.
Qed.
Lemma ids_below_counter : forall ops x, In x (m_objs (run ops)) -> 0 < c_id x < m_next (run ops).
Proof. intros ops x Hx. destruct (J_obj _ (reachable_inv ops) x Hx) as (O1 & O2 & _). lia. Qed.
Lemma pubs_name_registered : forall ops k c, In (k, c) (m_pubs (run ops)) ->
  exists x, get_obj (run ops) c = Some x /\ c_kind x = Pub /\ ckey x = k /\ c_closed x = false /\
            memN c (m_clients (run ops)) = true.
Proof.
  intros ops k c Hin. pose proof (reachable_inv ops) as J. set (st := run ops) in *.
  destruct (J_pubs st J k c Hin) as (x & Hx & Hid & K & Hk & Hc).
  exists x. repeat split; auto.
  - rewrite get_obj_fobj, <- Hid. apply nodup_fobj; [apply (J_ids st J) | exact Hx].
  - destruct (J_obj st J x Hx) as (_ & _ & O3 & _). rewrite Hid, Hc in O3. exact O3.
Qed.

(* ---- (3) what doReconnect leaves, exactly ---------------------------------------------------------------------- *)
Lemma fobj_map : forall g l c, (forall y, c_id (g y) = c_id y) -> fobj (map g l) c = option_map g (fobj l c).
Proof.
  intros g l c Hg. unfold fobj. induction l as [|a l IH]; simpl; [reflexivity|].
  rewrite Hg. destruct (N.eqb (c_id a) c); [reflexivity | exact IH].
Qed.
Lemma static_wiped : forall fail st c,
  recreated fail (wiped st) c = recreated fail st c /\ is_sub_id (wiped st) c = is_sub_id st c.
Proof.
  intros fail st c. unfold recreated, is_sub_id. rewrite !get_obj_fobj. simpl.
  rewrite fobj_map by reflexivity. destruct (fobj (m_objs st) c); simpl; auto.
Qed.
Lemma forget_stale : forall h, hs_is_none h = false -> forget h = HStale.
Proof. destruct h; simpl; congruence. Qed.

(* After doReconnect (from a state satisfying the invariant, so after any history):
   - the gateway answers; it holds the MCU's handle and, in the order of mcu.clients, one handle and one room for every
     client that was registered, is a publisher and whose "create" was not refused -- and nothing else;
   - mcu.clients holds exactly the publishers that were registered (every subscriber has closed itself), and
     mcu.publishers is empty;
   - every registered publisher: "create" not refused: handle and room live, exactly one handle and one room at the
     gateway; refused: it stays registered and open with a stale handle and room number, nothing of it at the gateway. *)
Theorem reconnect_exact : forall st fail, JInv st ->
  let st' := fst (reconnect st fail) in
  reachable st' = true /\ m_pubs st' = [] /\
  g_handles st' = 0 :: g_rooms st' /\
  g_rooms st' = filter (recreated fail st) (m_clients st) /\ NoDup (g_rooms st') /\
  (forall c, In c (m_clients st') <-> In c (m_clients st) /\ is_sub_id st c = false) /\
  (forall c, In c (m_clients st') ->
     exists x', get_obj st' c = Some x' /\ c_kind x' = Pub /\ c_closed x' = false /\
       if mem_key (ckey x') fail
       then c_handle x' = HStale /\ c_room x' = HStale /\ ~ In c (g_handles st') /\ ~ In c (g_rooms st')
       else c_handle x' = HLive /\ c_room x' = HLive /\ countN c (g_handles st') = 1 /\ countN c (g_rooms st') = 1) /\
  snd (reconnect st fail) = map ESubClosed (filter (is_sub_id st) (m_clients st)).
Proof.
  intros st fail J st'. destruct (reconnect_post st fail J) as [I1 I2 I3 I4 I5 I6 I7 I8 I9 I10].
  fold st' in I1, I2, I3, I4, I5, I6, I7, I8, I9.
  assert (FR : filter (recreated fail (wiped st)) (m_clients st) = filter (recreated fail st) (m_clients st)).
  { apply filter_ext. intros c. apply static_wiped. }
  assert (FS : filter (is_sub_id (wiped st)) (m_clients st) = filter (is_sub_id st) (m_clients st)).
  { apply filter_ext. intros c. apply (static_wiped fail). }
  simpl in I2, I3, I6, I7, I8. rewrite FR in I6, I7.
  assert (CL : forall c, In c (m_clients st') <-> In c (m_clients st) /\ is_sub_id st c = false).
  { intros c. rewrite I8. destruct (static_wiped fail st c) as [_ ->].
    destruct (is_sub_id st c); intuition congruence. }
  conjs; auto.
  - unfold reachable. now rewrite I2, I3.
  - rewrite I6, I7. reflexivity.
  - rewrite I7. apply NoDup_filter, (J_cl_nodup st J).
  - intros c Hc'. destruct (proj1 (CL c) Hc') as [Hc Hs].
    destruct (J_has_obj st c J (J_cl st J c Hc)) as (y & Hy & Hid).
    assert (G : get_obj st c = Some y) by (rewrite get_obj_fobj, <- Hid; apply nodup_fobj; [apply (J_ids st J) | exact Hy]).
    assert (K : c_kind y = Pub).
    { unfold is_sub_id in Hs. rewrite G in Hs. destruct (c_kind y); [reflexivity | discriminate]. }
    destruct (J_obj st J y Hy) as (_ & _ & O3 & O4 & O5 & _).
    apply memN_In in Hc. rewrite Hid, Hc in O3.
    assert (Hcl : c_closed y = false) by (destruct (c_closed y); [discriminate | reflexivity]).
    rewrite Hcl in O4. specialize (O5 K). rewrite Hcl in O5.
    assert (Ex : recon_obj fail (m_clients st) (forget_obj y)
                 = if mem_key (ckey y) fail then forget_obj y else relive (forget_obj y)).
    { unfold recon_obj. simpl. rewrite Hid, Hc, K. reflexivity. }
    assert (Hx' : In (recon_obj fail (m_clients st) (forget_obj y)) (m_objs st')).
    { rewrite I9. simpl. apply in_map, in_map, Hy. }
    rewrite Ex in Hx'. clear Ex.
    destruct (mem_key (ckey y) fail) eqn:Fk.
    + exists (forget_obj y).
      assert (G' : get_obj st' c = Some (forget_obj y)).
      { rewrite get_obj_fobj, <- Hid. apply (nodup_fobj _ (forget_obj y)); [apply (J_ids st' I1) | exact Hx']. }
      destruct (J_obj st' I1 _ Hx') as (_ & _ & _ & _ & _ & _ & P7 & P8 & _).
      specialize (P7 Hcl). specialize (P8 Hcl). simpl in P7, P8. rewrite hs_live_forget, Hid in P7, P8. rewrite andb_false_r in P8.
      split; [exact G'|]. change (ckey (forget_obj y)) with (ckey y). rewrite Fk. simpl.
      repeat split; auto; try (now apply forget_stale).
      * intros Hin. apply countN_In in Hin. congruence.
      * intros Hin. apply countN_In in Hin. congruence.
    + exists (relive (forget_obj y)).
      assert (G' : get_obj st' c = Some (relive (forget_obj y))).
      { rewrite get_obj_fobj, <- Hid. apply (nodup_fobj _ (relive (forget_obj y))); [apply (J_ids st' I1) | exact Hx']. }
      destruct (J_obj st' I1 _ Hx') as (_ & _ & _ & _ & _ & _ & P7 & P8 & _).
      specialize (P7 Hcl). specialize (P8 Hcl). simpl in P7, P8. rewrite Hid in P7, P8. rewrite K in P8. simpl in P8.
      split; [exact G'|]. change (ckey (relive (forget_obj y))) with (ckey y). rewrite Fk. simpl.
      repeat split; auto.
  - rewrite I10, FS. reflexivity.
Qed.

(* nothing else: whatever the gateway holds after doReconnect is the MCU's handle or belongs to a client registered
   (and therefore open, a publisher) after it *)
Corollary reconnect_nothing_else : forall st fail c, JInv st ->
  let st' := fst (reconnect st fail) in
  (In c (g_handles st') -> c = 0 \/ In c (m_clients st')) /\ (In c (g_rooms st') -> In c (m_clients st')).
Proof.
  intros st fail c J st'. destruct (reconnect_exact st fail J) as (_ & _ & H3 & H4 & _ & H6 & _). fold st' in H3, H4, H6.
  assert (R : In c (g_rooms st') -> In c (m_clients st')).
  { rewrite H4. intros Hin. apply filter_In in Hin. destruct Hin as [Hc Hr]. apply H6. split; [exact Hc|].
    unfold recreated in Hr. unfold is_sub_id. destruct (get_obj st c) as [y|]; [|discriminate].
    apply andb_true_iff in Hr. destruct Hr as [Hr _]. now rewrite Hr. }
  split; [|exact R]. rewrite H3. intros [<- | Hin]; auto.
Qed.

Lemma run_snoc : forall ops o, run (ops ++ [o]) = step_st (run ops) o.
Proof. intros. unfold run, run_from. rewrite fold_left_app. reflexivity. Qed.
Lemma run_from_app : forall a b st, run_from st (a ++ b) = run_from (run_from st a) b.
Proof. intros. unfold run_from. apply fold_left_app. Qed.
Lemma run_app : forall a b, run (a ++ b) = run_from (run a) b.
Proof. intros. apply run_from_app. Qed.
Lemma step_st_reconnect : forall st f, step_st st (OReconnect f) = fst (reconnect st f).
Proof. intros. unfold step_st. simpl. destruct (reconnect st f); reflexivity. Qed.
Lemma step_st_close : forall st c rd rt, step_st st (OClose c rd rt) = fst (close st c rd rt).
Proof. intros. unfold step_st. simpl. destruct (close st c rd rt); reflexivity. Qed.
Lemma step_st_closeall : forall st o, step_st st (OCloseAll o) = fst (close_list st (owned_open st o)).
Proof. intros. unfold step_st. simpl. destruct (close_list st (owned_open st o)); reflexivity. Qed.
