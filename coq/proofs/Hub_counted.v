(* C07: every registered non-internal session of a limited backend is counted against the limit, in
   every state reachable by any history and any delivery order of the bus; hence the number of
   concurrently registered non-internal sessions of a backend never exceeds its limit.

   The invariant CI says, for every backend b:
     - a live KClient session of b, when b is limited, is on b's counted list          (ci_counted)
     - every entry of b's counted list is a live KClient session of b, and b is limited (ci_back)
     - the session table has no duplicate keys, the counted lists have no duplicates   (ci_keys, ci_nodup)
   so the counted list of a limited backend is exactly the list of its registered client sessions.
   It is preserved by every model function (one lemma each) without any other assumption; the bound
   itself comes from WF (wf_limit). *)
From Coq Require Import List NArith Bool Lia Permutation.
From Verif Require Import model.Hub proofs.Hub_basics proofs.Hub_wf.
Import ListNotations.
Open Scope N_scope.

Definition Counted (h : hub) : Prop :=
  forall sid s, get_sess h sid = Some s -> s.(s_kind) = KClient -> limit_of h s.(s_backend) <> 0 ->
    In sid (counted_of h s.(s_backend)).

Record CI (h : hub) : Prop := {
  ci_counted : Counted h;
  ci_back : forall b sid, In sid (counted_of h b) ->
              limit_of h b <> 0 /\ exists s, get_sess h sid = Some s /\ s.(s_backend) = b /\ s.(s_kind) = KClient;
  ci_keys : NoDup (map fst h.(h_sessions));
  ci_nodup : forall b, NoDup (counted_of h b);
}.

(* ------------------------------------------------------------------ small list facts *)
Lemma in_keys_aset {V} (l : alist V) k v x : In x (map fst (aset l k v)) -> x = k \/ In x (map fst l).
Proof.
  induction l as [|[k' v'] r IH]; cbn.
  - intros [H|[]]. now left.
  - destruct (N.eqb_spec k k') as [->|Hne]; cbn.
    + intros [H|H]; [right; now left|right; now right].
    + intros [H|H]; [right; now left|]. destruct (IH H) as [Hx|Hx]; [now left|right; now right].
Qed.
Lemma nodup_keys_aset {V} (l : alist V) k v : NoDup (map fst l) -> NoDup (map fst (aset l k v)).
Proof.
  induction l as [|[k' v'] r IH]; cbn; intros Hn.
  - constructor; [intros []|constructor].
  - inversion Hn as [|a b Hnin Hr]; subst. destruct (N.eqb_spec k k') as [->|Hne]; cbn.
    + constructor; assumption.
    + constructor; [|now apply IH]. intros Hin. apply in_keys_aset in Hin as [Hx|Hx]; [congruence|contradiction].
Qed.
Lemma in_keys_adel {V} (l : alist V) k x : In x (map fst (adel l k)) -> In x (map fst l).
Proof.
  induction l as [|[k' v'] r IH]; cbn; [tauto|].
  destruct (N.eqb k k'); cbn; [intros H; right; now apply IH|]. intros [H|H]; [now left|right; now apply IH].
Qed.
Lemma nodup_keys_adel {V} (l : alist V) k : NoDup (map fst l) -> NoDup (map fst (adel l k)).
Proof.
  induction l as [|[k' v'] r IH]; cbn; intros Hn; [constructor|].
  inversion Hn as [|a b Hnin Hr]; subst. destruct (N.eqb k k'); cbn; [now apply IH|].
  constructor; [|now apply IH]. intros Hin. apply Hnin. eapply in_keys_adel; eauto.
Qed.
Lemma nodup_nrem x l : NoDup l -> NoDup (nrem x l).
Proof.
  induction l as [|y r IH]; cbn; intros Hn; [constructor|].
  inversion Hn as [|a b Hnin Hr]; subst. destruct (N.eqb x y); [now apply IH|].
  constructor; [|now apply IH]. intros Hin. apply Hnin. eapply in_nrem; eauto.
Qed.
Lemma in_nrem_intro x y l : x <> y -> In x l -> In x (nrem y l).
Proof.
  intros Hne Hin. apply nmem_In. rewrite nmem_nrem. apply nmem_In in Hin. rewrite Hin.
  destruct (N.eqb_spec x y); [contradiction|reflexivity].
Qed.
Lemma nodup_snoc {A} (l : list A) x : NoDup l -> ~ In x l -> NoDup (l ++ [x]).
Proof.
  induction l as [|y r IH]; cbn; intros Hn Hx; [constructor; [intros []|constructor]|].
  inversion Hn as [|a b Hnin Hr]; subst. constructor.
  - intros Hin. apply in_app_or in Hin as [Hin|[Hin|[]]]; [contradiction|]. apply Hx. now left.
  - apply IH; [assumption|]. intros Hin. apply Hx. now right.
Qed.

(* ------------------------------------------------------------------ projections *)
Lemma get_put h sid s x : get_sess (put_sess h sid s) x = if N.eqb x sid then Some s else get_sess h x.
Proof. unfold get_sess, put_sess. hsimpl. apply aget_aset. Qed.

Lemma aget_map_nrem (l : alist (list N)) sid b :
  aget (map (fun e => (fst e, nrem sid (snd e))) l) b = option_map (nrem sid) (aget l b).
Proof.
  induction l as [|[b0 l0] r IH]; cbn; [reflexivity|]. destruct (N.eqb b b0); [reflexivity|exact IH].
Qed.
Lemma counted_scrub h sid b : counted_of (scrub h sid) b = nrem sid (counted_of h b).
Proof.
  unfold counted_of. destruct (scrub_proj h sid) as (_ & _ & _ & _ & _ & _ & _ & _ & S9 & _).
  rewrite S9, aget_map_nrem. destruct (aget (h_counted h) b); reflexivity.
Qed.
Lemma get_scrub h sid x : get_sess (scrub h sid) x = if N.eqb x sid then None else get_sess h x.
Proof. unfold get_sess. destruct (scrub_proj h sid) as (S1 & _). rewrite S1. apply aget_adel. Qed.
Lemma limit_scrub h sid b : limit_of (scrub h sid) b = limit_of h b.
Proof. reflexivity. Qed.

(* ------------------------------------------------------------------ states that agree on what the invariant reads *)
Definition same_sc (h h' : hub) : Prop :=
  h_sessions h' = h_sessions h /\ h_counted h' = h_counted h /\ h_limits h' = h_limits h.

Lemma same_sc_refl h : same_sc h h.
Proof. repeat split. Qed.
Lemma same_sc_trans h1 h2 h3 : same_sc h1 h2 -> same_sc h2 h3 -> same_sc h1 h3.
Proof. intros (A1 & A2 & A3) (B1 & B2 & B3). repeat split; congruence. Qed.
Lemma same_sc_get h h' x : same_sc h h' -> get_sess h' x = get_sess h x.
Proof. intros (A1 & _). unfold get_sess. now rewrite A1. Qed.

Lemma ci_same h h' : same_sc h h' -> CI h -> CI h'.
Proof.
  intros (A1 & A2 & A3) C.
  assert (Hg : forall x, get_sess h' x = get_sess h x) by (intros x; unfold get_sess; now rewrite A1).
  assert (Hc : forall b, counted_of h' b = counted_of h b) by (intros b; unfold counted_of; now rewrite A2).
  assert (Hl : forall b, limit_of h' b = limit_of h b) by (intros b; unfold limit_of; now rewrite A3).
  constructor.
  - intros sid s. rewrite Hg, Hl, Hc. apply (ci_counted h C).
  - intros b sid. rewrite Hc, Hl. intros Hin. destruct (ci_back h C b sid Hin) as [H0 [s Hs]].
    split; [exact H0|]. exists s. now rewrite Hg.
  - rewrite A1. apply (ci_keys h C).
  - intros b. rewrite Hc. apply (ci_nodup h C).
Qed.

Ltac ssc := unfold same_sc; repeat split; reflexivity.

(* ------------------------------------------------------------------ the primitive changes *)
(* updating a session without touching its backend and kind *)
Lemma ci_put h sid s s' :
  CI h -> get_sess h sid = Some s -> s_backend s' = s_backend s -> s_kind s' = s_kind s -> CI (put_sess h sid s').
Proof.
  intros C Hs Hb Hk.
  assert (Hc : forall b, counted_of (put_sess h sid s') b = counted_of h b) by reflexivity.
  assert (Hl : forall b, limit_of (put_sess h sid s') b = limit_of h b) by reflexivity.
  constructor.
  - intros x sx. rewrite get_put, Hl, Hc. destruct (N.eqb_spec x sid) as [->|Hne].
    + intros H. injection H as <-. rewrite Hb, Hk. apply (ci_counted h C sid s Hs).
    + apply (ci_counted h C).
  - intros b x. rewrite Hc, Hl. intros Hin. destruct (ci_back h C b x Hin) as [H0 [sx (Hx & Hbx & Hkx)]].
    split; [exact H0|]. rewrite get_put. destruct (N.eqb_spec x sid) as [->|Hne]; [|eauto].
    exists s'. rewrite Hs in Hx. injection Hx as <-. repeat split; congruence.
  - unfold put_sess. hsimpl. apply nodup_keys_aset. apply (ci_keys h C).
  - intros b. rewrite Hc. apply (ci_nodup h C).
Qed.

(* a new session that need not be counted *)
Lemma ci_new h sid s' :
  CI h -> get_sess h sid = None -> (s_kind s' = KClient -> limit_of h (s_backend s') = 0) -> CI (put_sess h sid s').
Proof.
  intros C Hn Hk.
  assert (Hc : forall b, counted_of (put_sess h sid s') b = counted_of h b) by reflexivity.
  assert (Hl : forall b, limit_of (put_sess h sid s') b = limit_of h b) by reflexivity.
  constructor.
  - intros x sx. rewrite get_put, Hl, Hc. destruct (N.eqb_spec x sid) as [->|Hne].
    + intros H. injection H as <-. intros Hkc Hlim. exfalso. apply Hlim. now apply Hk.
    + apply (ci_counted h C).
  - intros b x. rewrite Hc, Hl. intros Hin. destruct (ci_back h C b x Hin) as [H0 [sx (Hx & Hbx & Hkx)]].
    split; [exact H0|]. rewrite get_put. destruct (N.eqb_spec x sid) as [->|Hne]; [congruence|eauto].
  - unfold put_sess. hsimpl. apply nodup_keys_aset. apply (ci_keys h C).
  - intros b. rewrite Hc. apply (ci_nodup h C).
Qed.

(* removing a session from the table and from every list *)
Lemma ci_scrub h sid : CI h -> CI (scrub h sid).
Proof.
  intros C. constructor.
  - intros x sx. rewrite get_scrub, limit_scrub, counted_scrub. destruct (N.eqb_spec x sid) as [->|Hne]; [discriminate|].
    intros Hx Hk Hl. apply in_nrem_intro; [assumption|]. now apply (ci_counted h C).
  - intros b x. rewrite counted_scrub, limit_scrub. intros Hin.
    pose proof (in_nrem_ne _ _ _ Hin) as Hne. apply in_nrem in Hin.
    destruct (ci_back h C b x Hin) as [H0 [sx Hx]]. split; [exact H0|]. exists sx. rewrite get_scrub.
    destruct (N.eqb_spec x sid); [contradiction|exact Hx].
  - destruct (scrub_proj h sid) as (S1 & _). rewrite S1. apply nodup_keys_adel. apply (ci_keys h C).
  - intros b. rewrite counted_scrub. apply nodup_nrem. apply (ci_nodup h C).
Qed.

Lemma ci_init limits gated : CI (init limits gated).
Proof.
  constructor.
  - intros sid s H. unfold get_sess, init in H. cbn in H. discriminate.
  - intros b sid H. unfold counted_of, init in H. cbn in H. destruct H.
  - cbn. constructor.
  - intros b. unfold counted_of, init. cbn. constructor.
Qed.

(* ------------------------------------------------------------------ registration *)
Lemma counted_put_set h v sid s b' :
  counted_of (put_sess (set_counted h v) sid s) b' = match aget v b' with Some l => l | None => [] end.
Proof. reflexivity. Qed.

Lemma ci_register h c cn b k u : CI h -> is_virtual k = false -> CI (fst (register h c cn b k u)).
Proof.
  intros C Hv. unfold register.
  set (sid := next_id h).
  assert (Hfresh : get_sess h sid = None) by apply next_id_fresh.
  match goal with |- context [if ?cond then _ else _] => destruct cond eqn:Hcond end.
  - cbn [fst]. eapply ci_same; [|exact C]. ssc.
  - cbn [fst]. clear Hcond.
    set (h0 := set_nextsid h sid).
    assert (C0 : CI h0) by (eapply ci_same; [|exact C]; ssc).
    set (h1 := if negb (is_internal k) && negb (N.eqb (limit_of h b) 0)
               then set_counted h0 (aset (h_counted h0) b (counted_of h0 b ++ [sid])) else h0).
    set (h2 := put_sess h1 sid (new_session b k u c)).
    assert (C2 : CI h2).
    { unfold h2, h1. destruct (negb (is_internal k) && negb (N.eqb (limit_of h b) 0)) eqn:Hlim.
      - (* counted *)
        apply andb_prop in Hlim as [Hk Hl0]. apply negb_true_iff in Hl0. apply N.eqb_neq in Hl0.
        destruct k as [|f d|p v]; try discriminate. clear Hk Hv.
        set (H2 := put_sess (set_counted h0 (aset (h_counted h0) b (counted_of h0 b ++ [sid]))) sid (new_session b KClient u c)).
        assert (Hc : forall b', counted_of H2 b' = if N.eqb b' b then counted_of h b ++ [sid] else counted_of h b').
        { intros b'. unfold H2. rewrite counted_put_set, aget_aset. destruct (N.eqb b' b); reflexivity. }
        assert (Hl : forall b', limit_of H2 b' = limit_of h b') by reflexivity.
        assert (Hg : forall x, get_sess H2 x = if N.eqb x sid then Some (new_session b KClient u c) else get_sess h x).
        { intros x. unfold H2. rewrite get_put. reflexivity. }
        assert (Hold : forall b' x, In x (counted_of h b') -> x <> sid).
        { intros b' x Hin ->. destruct (ci_back h C b' sid Hin) as [_ [s0 [Hs0 _]]]. congruence. }
        constructor.
        + intros x sx. rewrite Hg, Hl, Hc. destruct (N.eqb_spec x sid) as [->|Hne].
          * intros H. injection H as <-. cbn [new_session s_backend]. rewrite N.eqb_refl. intros _ _.
            apply in_or_app. right. now left.
          * intros Hx Hk Hlx. pose proof (ci_counted h C x sx Hx Hk Hlx) as Hin.
            destruct (N.eqb_spec (s_backend sx) b) as [<-|]; [apply in_or_app; now left|exact Hin].
        + intros b' x. rewrite Hc, Hl, Hg. destruct (N.eqb_spec b' b) as [->|Hnb].
          * intros Hin. apply in_app_or in Hin as [Hin|[<-|[]]].
            -- pose proof (Hold b x Hin) as Hne. destruct (N.eqb_spec x sid); [contradiction|]. apply (ci_back h C b x Hin).
            -- rewrite N.eqb_refl. split; [exact Hl0|]. eexists. split; [reflexivity|]. split; reflexivity.
          * intros Hin. pose proof (Hold b' x Hin) as Hne. destruct (N.eqb_spec x sid); [contradiction|]. apply (ci_back h C b' x Hin).
        + unfold H2, put_sess. hsimpl. apply nodup_keys_aset. apply (ci_keys h C).
        + intros b'. rewrite Hc. destruct (N.eqb_spec b' b) as [->|]; [|apply (ci_nodup h C)].
          apply nodup_snoc; [apply (ci_nodup h C)|]. intros Hin. now apply (Hold b sid Hin).
      - (* not counted: internal, or an unlimited backend *)
        apply ci_new; [exact C0|exact Hfresh|]. cbn [new_session s_kind s_backend]. intros ->.
        cbn in Hlim. apply negb_false_iff in Hlim. apply N.eqb_eq in Hlim. exact Hlim. }
    eapply ci_same; [|exact C2]. fold h0. fold h1. fold h2.
    destruct (N.eqb u 0 && negb (is_internal k)); [ssc|]. destruct k as [|f d|p v]; try ssc. destruct d; ssc.
Qed.

(* ------------------------------------------------------------------ functions that touch neither sessions' backend / kind nor the lists *)
Lemma same_publish h subj m : same_sc h (publish h subj m).
Proof. ssc. Qed.
Lemma same_rs_set h sid rs : same_sc h (rs_set h sid rs).
Proof.
  unfold rs_set. destruct (N.eqb rs 0).
  - destruct (aget (h_rs1 h) sid); ssc.
  - destruct (aget (h_rs1 h) sid) as [prev|]; [destruct (N.eqb prev rs)|]; ssc.
Qed.
Lemma same_rs_del h sid : same_sc h (rs_del h sid).
Proof. apply same_rs_set. Qed.
Lemma same_close_tokens h toks : same_sc h (fst (close_tokens h toks)).
Proof. ssc. Qed.
Lemma same_remove_room_if_empty h k : same_sc h (remove_room_if_empty h k).
Proof. unfold remove_room_if_empty. destruct (room_of h k) as [r|]; [destruct (r_members r)|]; ssc. Qed.
Lemma same_room_remove h k sid : same_sc h (room_remove h k sid).
Proof.
  unfold room_remove. destruct (room_of h k) as [r|]; [|ssc]. destruct (nmem sid (r_members r)); [|ssc].
  eapply same_sc_trans; [|apply same_publish]. eapply same_sc_trans; [|apply same_remove_room_if_empty]. ssc.
Qed.
Lemma same_set_incall h k sid on : same_sc h (set_incall h k sid on).
Proof. unfold set_incall. destruct (room_of h k) as [r|]; [|ssc]. destruct (on && negb (nmem sid (r_members r))); ssc. Qed.
Lemma same_detach_conn h oc : same_sc h (detach_conn h oc).
Proof. unfold detach_conn. destruct oc as [c0|]; [|ssc]. destruct (aget (h_conns h) c0); ssc. Qed.
Lemma same_drop_vt h kd sid : same_sc h (drop_vt h kd sid).
Proof.
  unfold drop_vt. destruct kd as [| |p v]; try ssc.
  destruct (pget (h_vtable h) (p, v)) as [x|]; [destruct (N.eqb x sid)|]; ssc.
Qed.

Lemma ci_publish h subj m : CI h -> CI (publish h subj m).
Proof. apply ci_same, same_publish. Qed.
Lemma ci_set_incall h k sid on : CI h -> CI (set_incall h k sid on).
Proof. apply ci_same, same_set_incall. Qed.

Lemma ci_close_tokens h toks : CI h -> CI (fst (close_tokens h toks)).
Proof. apply ci_same, same_close_tokens. Qed.

Lemma ci_release_mcu h sid : CI h -> CI (fst (release_mcu h sid)).
Proof.
  intros C. unfold release_mcu. destruct (get_sess h sid) as [s|] eqn:Hs; [|exact C].
  apply ci_close_tokens. apply ci_put with s; auto.
Qed.

Lemma ci_deliver_to_session h sid m : CI h -> CI (fst (deliver_to_session h sid m)).
Proof.
  intros C. unfold deliver_to_session. destruct (get_sess h sid) as [s|] eqn:Hs; [|exact C].
  match goal with |- context [let '(m', s1) := ?X in _] => destruct X as [m' s1] eqn:HX end.
  assert (Hc : s_backend s1 = s_backend s /\ s_kind s1 = s_kind s).
  { destruct m; try (injection HX as <- <-; split; reflexivity).
    destruct (filter_seen (s_seen s) l) as [keep seen']. injection HX as <- <-. split; reflexivity. }
  destruct Hc as [Hb Hk].
  destruct m' as [mm|]; cbn [fst].
  - destruct (s_conn s1); cbn [fst]; apply ci_put with s; auto.
  - apply ci_put with s; auto.
Qed.

Lemma ci_revoke h sid : CI h -> CI (fst (revoke h sid)).
Proof.
  intros C. unfold revoke. destruct (get_sess h sid) as [s|] eqn:Hs; [|exact C].
  apply ci_close_tokens. apply ci_put with s; auto.
Qed.

Lemma ci_leave_call h sid : CI h -> CI (fst (leave_call h sid)).
Proof.
  intros C. unfold leave_call. destruct (get_sess h sid) as [s|]; [|exact C].
  destruct (s_kind s); destruct (s_room s); try exact C; now apply ci_release_mcu.
Qed.

(* ------------------------------------------------------------------ leaving a room *)
Lemma ci_leave_room h sid notify : CI h -> CI (fst (leave_room h sid notify)).
Proof.
  intros C. unfold leave_room. destruct (get_sess h sid) as [s|] eqn:Hs; [|exact C].
  destruct (s_room s) as [k|]; [|exact C].
  assert (C1 : CI (rs_del h sid)) by (eapply ci_same; [apply same_rs_del|exact C]).
  assert (Hs1 : get_sess (rs_del h sid) sid = Some s) by (rewrite (same_sc_get _ _ sid (same_rs_del h sid)); exact Hs).
  destruct (is_virtual (s_kind s)).
  - cbn [fst]. eapply ci_same; [apply same_room_remove|]. apply ci_put with s; auto.
  - match goal with |- context [release_mcu ?hh sid] => destruct (release_mcu hh sid) as [h3 outs2] eqn:Hrel;
      assert (C3 : CI h3) by (rewrite (fst_eq _ _ _ Hrel); apply ci_release_mcu; apply ci_put with s; auto) end.
    cbn [fst]. eapply ci_same; [apply same_room_remove|exact C3].
Qed.

(* ------------------------------------------------------------------ closing sessions *)
Lemma ci_close_one h sid : CI h -> CI (fst (close_one h sid)).
Proof.
  intros C. unfold close_one. destruct (get_sess h sid) as [s|] eqn:Hs; [|exact C].
  destruct (leave_room h sid true) as [h1 o1] eqn:Hl.
  destruct (release_mcu h1 sid) as [h2a o2a] eqn:Hr.
  assert (C2a : CI h2a).
  { rewrite (fst_eq _ _ _ Hr). apply ci_release_mcu. rewrite (fst_eq _ _ _ Hl). now apply ci_leave_room. }
  match goal with |- context [scrub ?hh sid] => set (h2 := hh) end.
  assert (C2 : CI h2) by (eapply ci_same; [|exact C2a]; ssc).
  assert (Cfin : CI (drop_vt (detach_conn (scrub h2 sid) (s_conn s)) (s_kind s) sid)).
  { eapply ci_same; [apply same_drop_vt|]. eapply ci_same; [apply same_detach_conn|]. now apply ci_scrub. }
  destruct (s_kind s); cbn [fst]; exact Cfin.
Qed.

Lemma ci_close_all kids : forall acc, CI (fst acc) -> CI (fst (close_all kids acc)).
Proof.
  induction kids as [|k kids IH]; intros [hh oo] Hacc; cbn [close_all fold_left]; [exact Hacc|].
  destruct (close_one hh k) as [h1 o1] eqn:Hc. fold (close_all kids (h1, oo ++ o1)). apply IH.
  cbn [fst] in *. rewrite (fst_eq _ _ _ Hc). now apply ci_close_one.
Qed.

Lemma ci_close_session h sid : CI h -> CI (fst (close_session h sid)).
Proof.
  intros C. unfold close_session. destruct (close_one h sid) as [h1 o1] eqn:Hc.
  fold (close_all (children h sid) (h1, o1)). apply ci_close_all. cbn [fst].
  rewrite (fst_eq _ _ _ Hc). now apply ci_close_one.
Qed.

Lemma ci_close_conn h c : CI h -> CI (fst (close_conn h c)).
Proof.
  intros C. unfold close_conn. destruct (aget (h_conns h) c) as [cn|]; [|exact C].
  assert (C1 : CI (set_conns h (adel (h_conns h) c))) by (eapply ci_same; [|exact C]; ssc).
  destruct (c_sess cn) as [sid|]; [|exact C1].
  destruct (close_session _ sid) as [h3 outs] eqn:Hcl. cbn [fst].
  rewrite (fst_eq _ _ _ Hcl). apply ci_close_session.
  destruct (get_sess (set_conns h (adel (h_conns h) c)) sid) as [s|] eqn:Hs; [|exact C1].
  apply ci_put with s; auto.
Qed.

Lemma ci_send_session h sid m : CI h -> CI (fst (send_session h sid m)).
Proof.
  intros C. unfold send_session.
  match goal with |- context [deliver_to_session h ?t m] => set (target := t) end.
  destruct (deliver_to_session h target m) as [h1 outs] eqn:Hd.
  assert (C1 : CI h1) by (rewrite (fst_eq _ _ _ Hd); now apply ci_deliver_to_session).
  destruct outs as [|[c mm| | |] [|o2 outs2]]; cbn [fst]; try exact C1.
  destruct (is_closing h1 c mm); [|exact C1].
  destruct (close_conn h1 c) as [h2 outs2] eqn:Hc. cbn [fst]. rewrite (fst_eq _ _ _ Hc). now apply ci_close_conn.
Qed.

Lemma ci_send_conn h c m : CI h -> CI (fst (send_conn h c m)).
Proof.
  intros C. unfold send_conn. destruct (aget (h_conns h) c); [|exact C].
  destruct (is_closing h c m); [|exact C].
  destruct (close_conn h c) as [h2 outs2] eqn:Hc. cbn [fst]. rewrite (fst_eq _ _ _ Hc). now apply ci_close_conn.
Qed.

(* ------------------------------------------------------------------ hello *)
Lemma ci_do_hello h c cn hl : CI h -> CI (fst (do_hello h c cn hl)).
Proof.
  intros C. unfold do_hello.
  assert (Cexp : forall hh, CI hh -> CI (set_conns hh (aset (h_conns hh) c (mkconn (c_addr cn) None true)))).
  { intros hh Chh. eapply ci_same; [|exact Chh]. ssc. }
  assert (Cfail : forall a b, CI (record_failure h a b)) by (intros; eapply ci_same; [|exact C]; ssc).
  destruct hl as [b u rej|b u t|b tok f d|i].
  - destruct (h_nb h <=? b); [now apply Cexp|]. destruct rej; [now apply Cexp|].
    destruct (register h c cn b KClient u) as [h1 o1] eqn:Hr. cbn [fst]. rewrite (fst_eq _ _ _ Hr). now apply ci_register.
  - destruct (v2_check (h_nb h) b t); [now apply ci_register|now apply Cexp].
  - destruct (N.eqb tok 4); [now apply Cexp|].
    destruct (throttled h (c_addr cn) ACT_INTERNAL); [now apply Cexp|].
    destruct (negb (N.eqb tok 0)); [cbn [fst]; apply Cexp; apply Cfail|].
    destruct (h_nb h <=? b); [cbn [fst]; apply Cexp; apply Cfail|]. now apply ci_register.
  - destruct (throttled h (c_addr cn) ACT_RESUME); [exact C|].
    destruct i as [n|n|k|n]; try (cbn [fst]; apply Cfail).
    destruct (get_sess h n) as [s|] eqn:Hs; [|exact C].
    destruct (is_virtual (s_kind s)); [exact C|].
    (* the previous connection is told to go: no session is touched *)
    match goal with |- context [let '(h1, outs1) := ?X in _] => set (P := X) end.
    assert (HP : same_sc h (fst P)).
    { unfold P. destruct (s_conn s) as [c'|]; [|apply same_sc_refl].
      destruct (N.eqb c' c); [apply same_sc_refl|].
      destruct (aget (h_conns h) c') as [cn'|] eqn:Hc'.
      - rewrite (send_bye_detached _ c' (mkconn (c_addr cn') None (c_expect cn')) B_session_resumed);
          [ssc|hsimpl; apply aget_aset_same|reflexivity].
      - unfold send_conn. rewrite Hc'. apply same_sc_refl. }
    destruct P as [h1 outs1]. cbn [fst] in HP. cbn [fst].
    assert (C1 : CI h1) by (eapply ci_same; eauto).
    assert (Hs1 : get_sess h1 n = Some s) by (rewrite (same_sc_get _ _ n HP); exact Hs).
    match goal with |- CI (fst (if _ then _ else (?hh, _))) => assert (C5 : CI hh) end.
    { eapply ci_same; [|apply (ci_put h1 n s (sess_pending (sess_conn s (Some c)) []) C1 Hs1); reflexivity]. ssc. }
    destruct (queue_closes s); [|exact C5].
    match goal with |- context [close_conn ?hh c] => destruct (close_conn hh c) as [h6 o6] eqn:H6 end. cbn [fst].
    rewrite (fst_eq _ _ _ H6). now apply ci_close_conn.
Qed.

(* ------------------------------------------------------------------ joining *)
Lemma ci_kick h rs : CI h -> CI (fst (kick_room_session h rs)).
Proof.
  intros C. unfold kick_room_session. destruct (aget (h_rs2 h) rs) as [sid'|]; [|exact C].
  destruct (get_sess h sid') as [s'|]; [|cbn [fst]; now apply ci_publish].
  destruct (leave_room h sid' false) as [h1 o1] eqn:Hl.
  assert (C1 : CI h1) by (rewrite (fst_eq _ _ _ Hl); now apply ci_leave_room).
  match goal with |- context [let '(h2, outs2) := ?X in _] => destruct X as [h2 o2] eqn:H2 end.
  assert (C2 : CI h2).
  { destruct (s_kind s') as [| |p v]; destruct (s_conn s') as [c'|];
      try (injection H2 as <- <-; exact C1); rewrite (fst_eq _ _ _ H2); now apply ci_send_conn. }
  destruct (close_session h2 sid') as [h3 o3] eqn:H3. cbn [fst]. rewrite (fst_eq _ _ _ H3). now apply ci_close_session.
Qed.

Lemma ci_join_room h c sid k rs perms su : CI h -> CI (fst (join_room h c sid k rs perms su)).
Proof.
  intros C. unfold join_room.
  destruct (leave_room h sid true) as [h1 o1] eqn:Hl.
  assert (C1 : CI h1) by (rewrite (fst_eq _ _ _ Hl); now apply ci_leave_room).
  destruct (get_sess h1 sid) as [s|] eqn:Hs; [|exact C1].
  set (r := match room_of h1 k with Some x => x | None => empty_room end).
  set (r' := mkroom (nadd sid (r_members r)) (r_incall r) (if N.eqb su 0 then r_sessdata r else aset (r_sessdata r) sid su) (r_transient r) (r_props r)).
  set (s1 := upd_sess s (Some k) rs (s_conn s) (match perms with Some p => Some p | None => s_perms s end) (s_pending s) [] (h_clock h1)).
  set (hA := put_sess (set_rooms h1 (pset (h_rooms h1) k r')) sid s1).
  assert (CA : CI hA).
  { apply ci_put with s; auto. eapply ci_same; [|exact C1]. ssc. }
  set (h2 := set_clock hA (h_clock h1 + 1)).
  assert (C2 : CI h2) by (eapply ci_same; [|exact CA]; ssc).
  set (h3 := if N.eqb rs 0 then h2 else rs_set h2 sid rs).
  assert (C3 : CI h3).
  { unfold h3. destruct (N.eqb rs 0); [exact C2|]. eapply ci_same; [apply same_rs_set|exact C2]. }
  set (h4 := set_anonymous h3 (nrem sid (h_anonymous h3))).
  assert (C4 : CI h4) by (eapply ci_same; [|exact C3]; ssc).
  set (h5 := match s_kind s with KInternal _ true => set_dialout h4 (nrem sid (h_dialout h4)) | _ => h4 end).
  assert (C5 : CI h5).
  { unfold h5. destruct (s_kind s) as [|f d|]; try exact C4. destruct d; [|exact C4]. eapply ci_same; [|exact C4]. ssc. }
  destruct (send_session h5 sid (SRoom (snd k))) as [h7 o2] eqn:Hsend.
  assert (C7 : CI h7) by (rewrite (fst_eq _ _ _ Hsend); now apply ci_send_session).
  destruct (room_of h7 k); [|exact C7].
  set (h9 := if nmem sid (r_members r) then h7 else publish h7 (SubjRoom (fst k) (snd k)) (ARoomEvent (SJoin [(sid, if N.eqb (s_user s) 0 then su else s_user s)]))).
  assert (C9 : CI h9).
  { unfold h9. destruct (nmem sid (r_members r)); [exact C7|]. now apply ci_publish. }
  match goal with |- context [let '(h10, outs3) := ?X in _] => destruct X as [h10 o3] eqn:H10 end.
  assert (C10 : CI h10).
  { destruct (nmem sid (r_members r)); [injection H10 as <- <-; exact C9|].
    destruct (r_transient r); [injection H10 as <- <-; exact C9|].
    rewrite (fst_eq _ _ _ H10). now apply ci_send_session. }
  cbn [fst]. now apply ci_publish.
Qed.

Lemma ci_do_join h c sid s rn rs rep : CI h -> get_sess h sid = Some s -> CI (fst (do_join h c sid s rn rs rep)).
Proof.
  intros C Hs. unfold do_join. destruct (N.eqb rn 0).
  - destruct (s_room s); [|exact C].
    destruct (leave_room h sid true) as [h1 o1] eqn:Hl.
    assert (C1 : CI h1) by (rewrite (fst_eq _ _ _ Hl); now apply ci_leave_room).
    destruct (send_session h1 sid (SRoom 0)) as [h2 o2] eqn:H2.
    assert (C2 : CI h2) by (rewrite (fst_eq _ _ _ H2); now apply ci_send_session).
    cbn [fst]. destruct (N.eqb (s_user s) 0 && negb (is_internal (s_kind s))); [|exact C2].
    eapply ci_same; [|exact C2]. ssc.
  - set (k := (s_backend s, rn)). set (rsv := if N.eqb rs 0 then 0 else 1000000 + rs).
    destruct (match room_of h k with Some r => nmem sid (r_members r) | None => false end).
    + set (newrs := if N.eqb rs 0 then 2000000 + sid else rsv).
      set (h1 := if N.eqb (s_rs s) newrs then h else put_sess (rs_set h sid newrs) sid (sess_rs s newrs)).
      assert (C1 : CI h1).
      { unfold h1. destruct (N.eqb (s_rs s) newrs); [exact C|].
        apply ci_put with s; auto; [eapply ci_same; [apply same_rs_set|exact C]|].
        rewrite (same_sc_get _ _ sid (same_rs_set h sid newrs)). exact Hs. }
      destruct (send_session h1 sid (SError E_already_joined)) as [h2 o2] eqn:H2. cbn [fst].
      rewrite (fst_eq _ _ _ H2). now apply ci_send_session.
    + destruct (is_internal (s_kind s)); [now apply ci_join_room|].
      match goal with |- context [let '(h1, outs1) := ?X in _] => destruct X as [h1 o1] eqn:H1 end.
      assert (C1 : CI h1).
      { destruct (N.eqb rs 0 || N.eqb (s_rs s) rsv); [injection H1 as <- <-; exact C|].
        rewrite (fst_eq _ _ _ H1). now apply ci_kick. }
      destruct (get_sess h1 sid); [|exact C1].
      destruct rep as [perms su|code].
      * destruct (join_room h1 c sid k rsv perms su) as [h2 o2] eqn:H2. cbn [fst]. rewrite (fst_eq _ _ _ H2). now apply ci_join_room.
      * destruct (send_session h1 sid (SError code)) as [h2 o2] eqn:H2. cbn [fst]. rewrite (fst_eq _ _ _ H2). now apply ci_send_session.
Qed.

(* ------------------------------------------------------------------ messages and events *)
Lemma ci_do_message h sid s kindn to tag cb : CI h -> CI (fst (do_message h sid s kindn to tag cb)).
Proof.
  intros C. unfold do_message.
  destruct to as [i|u| |].
  - destruct i as [n|n|k|n]; try (cbn [fst]; now apply ci_publish).
    destruct (get_sess h n) as [t|]; [|cbn [fst]; now apply ci_publish].
    destruct (cb && negb (N.eqb (s_backend t) (s_backend s))); [exact C|].
    destruct (N.eqb n sid); [exact C|].
    destruct (s_kind t); now apply ci_send_session.
  - destruct (N.eqb u 0); [exact C|]. destruct (N.eqb u (sess_userid h sid s)); [exact C|].
    cbn [fst]. now apply ci_publish.
  - destruct (s_room s); [|exact C]. cbn [fst]. now apply ci_publish.
  - destruct (s_room s); [|exact C]. cbn [fst]. now apply ci_publish.
Qed.

Lemma ci_recv_event h sid m sender co re t : CI h -> CI (fst (recv_event h sid m sender co re t)).
Proof.
  intros C. unfold recv_event. destruct (get_sess h sid) as [s|]; [|exact C].
  destruct (N.eqb sender sid && negb (N.eqb sender 0)); [exact C|].
  destruct (co && negb (in_call h sid s)); [exact C|].
  match goal with |- context [if ?c then _ else _] => destruct c end; [exact C|]. now apply ci_send_session.
Qed.

Lemma ci_delete_member hh m : CI hh -> CI (fst (delete_member hh m)).
Proof.
  intros C. unfold delete_member. destruct (get_sess hh m) as [s|]; [|exact C].
  destruct (leave_room hh m true) as [h2 o1] eqn:Hl.
  assert (C2 : CI h2) by (rewrite (fst_eq _ _ _ Hl); now apply ci_leave_room).
  destruct (is_virtual (s_kind s)); [exact C2|].
  destruct (send_session h2 m (SRoom 0)) as [h3 o2] eqn:H3. cbn [fst]. rewrite (fst_eq _ _ _ H3). now apply ci_send_session.
Qed.

Lemma ci_transient_update h k r del key val : CI h -> CI (fst (transient_update h k r del key val)).
Proof.
  intros C. unfold transient_update.
  assert (Hn : forall d m, CI (fst (transient_notify h k r d m))).
  { intros d m. unfold transient_notify. apply wf_fold_sessions.
    - eapply ci_same; [|exact C]. ssc.
    - intros. now apply ci_send_session. }
  destruct (del || N.eqb val 0).
  - destruct (aget (r_transient r) key); [apply Hn|exact C].
  - destruct (aget (r_transient r) key) as [v|]; [destruct (N.eqb v val); [exact C|apply Hn]|apply Hn].
Qed.

Lemma ci_room_request h k q : CI h -> CI (fst (room_request h k q)).
Proof.
  intros C. unfold room_request. destruct (room_of h k) as [r|]; [|exact C].
  destruct q as [|users rs|tag|l|l|ic|tag|ok|del key val]; [| | | | | | |exact C|now apply ci_transient_update].
  - match goal with |- context [fold_sessions h ?int ?f] => set (internals := int); set (g := f) end.
    destruct (fold_sessions h internals g) as [h0 o0] eqn:H0.
    assert (C0 : CI h0).
    { rewrite (fst_eq _ _ _ H0). apply wf_fold_sessions; [exact C|]. intros hh x Chh. unfold g. now apply ci_send_session. }
    set (h1 := set_rooms h0 (pdel (h_rooms h0) k)).
    assert (C1 : CI h1) by (eapply ci_same; [|exact C0]; ssc).
    destruct (fold_sessions h1 (r_members r) delete_member) as [h9 o9] eqn:H9. cbn [fst].
    rewrite (fst_eq _ _ _ H9). apply wf_fold_sessions; [exact C1|]. intros. now apply ci_delete_member.
  - exact C.
  - destruct (N.eqb (r_props r) (tag + 1)); [exact C|]. cbn [fst]. apply ci_publish. eapply ci_same; [|exact C]. ssc.
  - cbn [fst]. now apply ci_publish.
  - match goal with |- context [fold_left ?f l (h, [])] => set (g := f) end.
    assert (Hg : CI (fst (fold_left g l (h, [])))).
    { assert (G : forall acc, CI (fst acc) -> CI (fst (fold_left g l acc))).
      { induction l as [|u l IH]; intros acc Hacc; cbn [fold_left]; [exact Hacc|]. apply IH.
        destruct acc as [hh oo]. cbn [fst] in Hacc. unfold g. destruct u as [[i icv] pm].
        destruct i as [n|sid|kk|n]; try exact Hacc.
        destruct (get_sess hh sid); [|exact Hacc].
        destruct (N.testbit icv 0); [cbn [fst]; now apply ci_set_incall|].
        destruct (leave_call (set_incall hh k sid false) sid) as [h2 o2] eqn:H2. cbn [fst].
        rewrite (fst_eq _ _ _ H2). apply ci_leave_call. now apply ci_set_incall. }
      apply G. exact C. }
    destruct (fold_left g l (h, [])) as [h1 outs]. cbn [fst] in *. now apply ci_publish.
  - destruct (N.testbit ic 0).
    + match goal with |- context [filter ?f (filter ?g0 (r_members r))] => set (fresh := filter f (filter g0 (r_members r))); set (joiners := filter g0 (r_members r)) end.
      destruct fresh; [exact C|].
      apply wf_fold_sessions; [|intros; now apply ci_send_session].
      apply wf_fold_left_hub; [exact C|]. intros hh x Hhh. now apply ci_set_incall.
    + destruct (r_incall r); [exact C|].
      set (h1 := set_rooms h (pset (h_rooms h) k (mkroom (r_members r) [] (r_sessdata r) (r_transient r) (r_props r)))).
      assert (C1 : CI h1) by (eapply ci_same; [|exact C]; ssc).
      match goal with |- context [fold_sessions h1 ?lv leave_call] => destruct (fold_sessions h1 lv leave_call) as [h2 o1] eqn:H2 end.
      assert (C2 : CI h2).
      { rewrite (fst_eq _ _ _ H2). apply wf_fold_sessions; [exact C1|]. intros. now apply ci_leave_call. }
      match goal with |- context [fold_sessions h2 ?lv ?f] => destruct (fold_sessions h2 lv f) as [h3 o2] eqn:H3 end.
      cbn [fst]. rewrite (fst_eq _ _ _ H3). apply wf_fold_sessions; [exact C2|]. intros. now apply ci_send_session.
  - cbn [fst]. now apply ci_publish.
Qed.

(* ------------------------------------------------------------------ bus deliveries *)
Lemma ci_deliver_pub h p : CI h -> CI (fst (deliver_pub h p)).
Proof.
  intros C. unfold deliver_pub.
  destruct (p_subj p) as [b r|b r|b u|sid|]; destruct (p_msg p) as [m sender co|m|sj internal|pm| |q]; try exact C.
  - apply wf_fold_sessions; [exact C|]. intros. now apply ci_recv_event.
  - apply wf_fold_sessions; [exact C|]. intros. now apply ci_recv_event.
  - destruct (room_of h (b, r)) as [rm|]; [|exact C].
    match goal with |- context [match ?o with [] => _ | _ => _ end] => destruct o end; [exact C|]. cbn [fst].
    match goal with |- CI (fold_left ?f ?l ?h0) => apply (wf_fold_left_hub CI f l h0) end.
    + now apply ci_publish.
    + intros hh x Hhh. destruct (get_sess hh x) as [sx|]; [|exact Hhh].
      destruct (is_virtual (s_kind sx) && negb (N.eqb (s_flags sx) 0)); [|exact Hhh]. now apply ci_publish.
  - now apply ci_room_request.
  - apply wf_fold_sessions; [exact C|]. intros. now apply ci_recv_event.
  - destruct (get_sess h sid) as [s|]; [|exact C]. destruct (is_virtual (s_kind s)); [exact C|]. now apply ci_recv_event.
  - destruct (get_sess h sid) as [s|]; [|exact C]. destruct (is_virtual (s_kind s)); [exact C|]. now apply ci_recv_event.
  - destruct (get_sess h sid) as [s|] eqn:Hs; [|exact C]. destruct (is_virtual (s_kind s)); [exact C|].
    apply ci_revoke. apply ci_put with s; auto.
  - destruct (get_sess h sid) as [s|]; [|exact C]. destruct (is_virtual (s_kind s)); [exact C|].
    destruct (leave_room h sid false) as [h1 o1] eqn:H1.
    destruct (send_session h1 sid (SBye B_room_session_reconnected)) as [h2 o2] eqn:H2.
    destruct (close_session h2 sid) as [h3 o3] eqn:H3. cbn [fst].
    rewrite (fst_eq _ _ _ H3). apply ci_close_session. rewrite (fst_eq _ _ _ H2). apply ci_send_session.
    rewrite (fst_eq _ _ _ H1). now apply ci_leave_room.
Qed.

Lemma ci_deliver_at h pos : CI h -> CI (fst (deliver_at h pos)).
Proof.
  intros C. unfold deliver_at. destruct (take_nth pos (h_bus h)) as [[p rest]|]; [|exact C].
  apply ci_deliver_pub. eapply ci_same; [|exact C]. ssc.
Qed.

Lemma ci_do_api h b room q : CI h -> CI (fst (do_api h b room q)).
Proof.
  intros C. unfold do_api.
  pose proof ci_publish as Hpub.
  destruct q as [|users rs|tag|l|l|ic|tag|ok|del key val]; cbn [fst]; auto.
  - match goal with |- CI (fold_left ?f ?l ?h0) => apply (wf_fold_left_hub CI f l h0) end.
    + match goal with |- CI (fold_left ?f ?l ?h0) => apply (wf_fold_left_hub CI f l h0) end; auto.
    + intros hh x Hhh. destruct (aget (h_rs2 hh) (1000000 + x)); auto.
  - match goal with |- context [match ?o with [] => _ | _ => _ end] => destruct o end; cbn [fst]; auto.
    apply Hpub. match goal with |- CI (fold_left ?f ?l ?h0) => apply (wf_fold_left_hub CI f l h0) end; auto.
    intros hh [[i icv] pm] Hhh. destruct i; auto. destruct pm; auto.
  - match goal with |- context [match ?o with [] => _ | _ => _ end] => destruct o end; cbn [fst]; auto.
  - (* dial-out *)
    destruct ok; cbn [negb fst]; [|exact C]. destruct (dialout_session h b) as [sid|]; [|exact C].
    destruct (send_session h sid (SDialout room)) as [h1 o1] eqn:H1. cbn [fst]. apply Hpub.
    rewrite (fst_eq _ _ _ H1). now apply ci_send_session.
Qed.

Lemma ci_do_tick h secs : CI h -> CI (fst (do_tick h secs)).
Proof.
  intros C. unfold do_tick.
  match goal with |- context [let '(h1, o1) := ?X in _] => destruct X as [h1 o1] eqn:H1 end.
  assert (C1 : CI h1).
  { destruct (hub_expire_s <? secs); [|injection H1 as <- <-; exact C].
    rewrite (fst_eq _ _ _ H1). apply wf_fold_sessions; [exact C|]. intros. now apply ci_close_session. }
  match goal with |- context [let '(h2, o2) := ?X in _] => destruct X as [h2 o2] eqn:H2 end.
  assert (C2 : CI h2).
  { destruct (hub_anonymous_s <? secs); [|injection H2 as <- <-; exact C1].
    rewrite (fst_eq _ _ _ H2). apply wf_fold_sessions; [exact C1|]. intros hh sid Hhh.
    destruct (get_sess hh sid) as [s|]; [|exact Hhh].
    match goal with |- context [let '(h3, o3) := ?X in _] => destruct X as [h3 o3] eqn:H3 end.
    assert (C3 : CI h3).
    { destruct (s_conn s); [|injection H3 as <- <-; exact Hhh]. rewrite (fst_eq _ _ _ H3). now apply ci_send_conn. }
    destruct (close_session h3 sid) as [h4 o4] eqn:H4. cbn [fst]. rewrite (fst_eq _ _ _ H4). now apply ci_close_session. }
  match goal with |- context [let '(h3, o3) := ?X in _] => destruct X as [h3 o3] eqn:H3 end.
  cbn [fst]. destruct (hub_hello_s <? secs); [|injection H3 as <- <-; exact C2].
  rewrite (fst_eq _ _ _ H3). apply wf_fold_sessions; [exact C2|]. intros. now apply ci_send_conn.
Qed.

(* ------------------------------------------------------------------ virtual sessions *)
Lemma ci_do_internal h c sid s q : CI h -> get_sess h sid = Some s -> CI (fst (do_internal h c sid s q)).
Proof.
  intros C Hs. unfold do_internal.
  pose proof ci_publish as Hpub.
  destruct q as [v rn user flags incall|v rn flags incall|v rn|ic].
  - (* add: the new session is virtual, never counted *)
    set (k := (s_backend s, rn)). destruct (room_of h k) as [r|]; [|exact C].
    set (vs := next_id h). set (h0 := set_nextsid h vs).
    match goal with |- context [mksess (s_backend s) (KVirtual sid v) user (Some k) ?rsv None None [] [] 0 ?ic ?fl [] [] [] 0] =>
      set (vsess := mksess (s_backend s) (KVirtual sid v) user (Some k) rsv None None [] [] 0 ic fl [] [] [] 0) end.
    set (r' := mkroom (nadd vs (r_members r)) (r_incall r) (r_sessdata r) (r_transient r) (r_props r)).
    set (h1 := put_sess (set_rooms h0 (pset (h_rooms h0) k r')) vs vsess).
    assert (C1 : CI h1).
    { apply ci_new; [eapply ci_same; [|exact C]; ssc|exact (next_id_fresh h)|discriminate]. }
    set (h2 := set_vtable h1 (pset (h_vtable h1) (sid, v) vs)).
    assert (C2 : CI h2) by (eapply ci_same; [|exact C1]; ssc).
    match goal with |- context [rs_set h2 vs ?x] => set (h5 := rs_set h2 vs x) end.
    assert (C5 : CI h5) by (eapply ci_same; [apply same_rs_set|exact C2]).
    match goal with |- context [let '(h10, outs10) := match ?pvx with Some _ => _ | None => _ end in _] => destruct pvx as [pv|] end.
    + match goal with |- context [close_one ?hh pv] => set (h9 := hh) end.
      assert (C9 : CI h9).
      { unfold h9. apply Hpub. destruct (N.eqb _ 0); repeat apply Hpub; exact C5. }
      destruct (close_one h9 pv) as [h10 o10] eqn:H10. cbn [fst]. rewrite (fst_eq _ _ _ H10). now apply ci_close_one.
    + cbn [fst]. apply Hpub. destruct (N.eqb _ 0); repeat apply Hpub; exact C5.
  - set (k := (s_backend s, rn)).
    destruct (room_of h k) as [r|]; [|exact C]. destruct (pget (h_vtable h) (sid, v)) as [vs|]; [|exact C].
    destruct (get_sess h vs) as [t|] eqn:Ht; [|exact C]. cbn [fst].
    match goal with |- context [put_sess h vs ?t1] => set (h1 := put_sess h vs t1) end.
    assert (C1 : CI h1) by (apply ci_put with t; auto).
    repeat match goal with |- context [if ?c then _ else _] => destruct c end; repeat apply Hpub; try apply ci_set_incall; repeat apply Hpub; exact C1.
  - set (k := (s_backend s, rn)).
    destruct (room_of h k) as [r|]; [|exact C]. destruct (pget (h_vtable h) (sid, v)) as [vs|]; [|exact C].
    apply ci_close_one. eapply ci_same; [|exact C]. ssc.
  - destruct (N.eqb ic (s_incall s)); [exact C|].
    match goal with |- context [put_sess h sid ?t1] => set (h1 := put_sess h sid t1) end.
    assert (C1 : CI h1) by (apply ci_put with s; auto).
    destruct (s_room s) as [k|]; [|exact C1].
    destruct (N.testbit ic 0); [cbn [fst]; apply Hpub; now apply ci_set_incall|].
    destruct (leave_call (set_incall h1 k sid false) sid) as [h2 o2] eqn:H2. cbn [fst]. apply Hpub.
    rewrite (fst_eq _ _ _ H2). apply ci_leave_call. now apply ci_set_incall.
Qed.

(* ------------------------------------------------------------------ media *)
Lemma ci_finish_create h tok p ok : CI h -> CI (fst (finish_create h tok p ok)).
Proof.
  intros C. unfold finish_create.
  assert (Hcond : forall hh (b : bool) x m, CI hh -> CI (fst (if b then send_session hh x m else (hh, [])))).
  { intros hh b x m Chh. destruct b; [now apply ci_send_session|exact Chh]. }
  destruct ok; cbn [negb].
  2:{ destruct (send_session h (mp_errto p) (SError E_client_not_found)) as [h1 o1] eqn:H1. cbn [fst].
      rewrite (fst_eq _ _ _ H1). now apply ci_send_session. }
  destruct (get_sess h (mp_owner p)) as [s|] eqn:Hs; [|exact C].
  destruct (negb (N.eqb (s_rel s) (mp_rel p))).
  { destruct (send_session h (mp_errto p) (SError E_client_not_found)) as [h1 o1] eqn:H1. cbn [fst].
    rewrite (fst_eq _ _ _ H1). now apply ci_send_session. }
  destruct (N.eqb (mp_kind p) 0 && negb (offer_allowed (s_perms s) (mp_stream p) (N.land (mp_media p) 3))).
  { destruct (send_session h (mp_errto p) (SError E_not_allowed)) as [h1 o1] eqn:H1. cbn [fst].
    rewrite (fst_eq _ _ _ H1). now apply ci_send_session. }
  destruct (N.eqb (mp_kind p) 0).
  - destruct (aget (s_pubs s) (mp_stream p)).
    + match goal with |- context [let '(h1, o1) := ?X in _] => destruct X as [h1 o1] eqn:H1 end. cbn [fst].
      rewrite (fst_eq _ _ _ H1). now apply Hcond.
    + match goal with |- context [let '(h3, o3) := ?X in _] => destruct X as [h3 o3] eqn:H3 end. cbn [fst].
      rewrite (fst_eq _ _ _ H3). apply Hcond.
      match goal with |- CI (set_mcu (put_sess h ?o ?s1) _ _ _) =>
        apply (ci_same (put_sess h o s1)); [ssc|apply ci_put with s; auto] end.
  - destruct (sub_get s (mp_pubof p) (mp_stream p)).
    + match goal with |- context [let '(h1, o1) := ?X in _] => destruct X as [h1 o1] eqn:H1 end. cbn [fst].
      rewrite (fst_eq _ _ _ H1). now apply Hcond.
    + match goal with |- context [let '(h3, o3) := ?X in _] => destruct X as [h3 o3] eqn:H3 end. cbn [fst].
      rewrite (fst_eq _ _ _ H3). apply Hcond.
      match goal with |- CI (set_mcu (put_sess h ?o ?s1) _ _ _) =>
        apply (ci_same (put_sess h o s1)); [ssc|apply ci_put with s; auto] end.
Qed.

Lemma ci_start_create h p : CI h -> CI (fst (start_create h p)).
Proof.
  intros C. unfold start_create. destruct (h_gated h); [cbn [fst]; eapply ci_same; [|exact C]; ssc|].
  match goal with |- context [let '(h1, o1) := ?X in _] => destruct X as [h1 o1] eqn:H1 end. cbn [fst].
  rewrite (fst_eq _ _ _ H1). apply ci_finish_create. eapply ci_same; [|exact C]. ssc.
Qed.

Lemma ci_do_mcudone h tok ok : CI h -> CI (fst (do_mcudone h tok ok)).
Proof.
  intros C. unfold do_mcudone. destruct (aget (h_mcupending h) tok) as [p|]; [|exact C].
  apply ci_finish_create. eapply ci_same; [|exact C]. ssc.
Qed.

Lemma ci_do_sendoffer h c x s i stream : CI h -> CI (fst (do_sendoffer h c x s i stream)).
Proof.
  intros C.
  unfold do_sendoffer.
  destruct i as [n|n|k|n]; try (destruct (negb (send_allowed (s_perms s) stream)); [exact C|exact C]).
  destruct (get_sess h n) as [t|] eqn:Ht; [|destruct (negb (send_allowed (s_perms s) stream)); [exact C|exact C]].
  destruct (N.eqb_spec (s_backend t) (s_backend s)) as [Hbt|]; cbn [negb]; [|exact C].
  destruct (N.eqb n x); [exact C|].
  destruct (negb (send_allowed (s_perms s) stream)); [exact C|].
  cbv zeta. set (r := match s_kind t with KVirtual p _ => p | _ => n end).
  destruct (get_sess h r) as [rs|] eqn:Hr; [|exact C].
  destruct (is_virtual (s_kind rs)) eqn:Hv; [exact C|].
  destruct (sub_get rs x stream); [now apply ci_send_session|now apply ci_start_create].
Qed.

Lemma ci_do_media h c sid s to mk stream media :
  CI h -> get_sess h sid = Some s -> CI (fst (do_media h c sid s to mk stream media)).
Proof.
  intros C Hs. unfold do_media. destruct to as [i|u| |]; try exact C.
  destruct (N.eqb mk 0).
  - destruct (negb (offer_allowed (s_perms s) stream _)); [exact C|].
    destruct (aget (s_pubs s) stream); [|now apply ci_start_create].
    apply ci_send_session. apply ci_put with s; auto.
  - destruct (N.eqb mk 1).
    + match goal with |- context [if ?c then _ else _] => destruct c end; [exact C|].
      destruct (negb (same_call h sid s _)); [exact C|].
      destruct (sub_get s _ stream); [now apply ci_send_session|now apply ci_start_create].
    + destruct (is_cand mk); [|destruct (N.eqb mk 3); [now apply ci_do_sendoffer|exact C]].
      match goal with |- context [if ?c then _ else _] => destruct c end.
      * destruct (negb (send_allowed (s_perms s) stream)); [exact C|]. destruct (aget (s_pubs s) stream); exact C.
      * destruct (sub_get s _ stream); exact C.
Qed.

(* ------------------------------------------------------------------ every step keeps the invariant *)
Theorem ci_step h o : CI h -> CI (fst (step h o)).
Proof.
  intros C.
  assert (Hws : forall c (f : conn -> N -> session -> hub * list out),
            (forall cn sid s, aget (h_conns h) c = Some cn -> get_sess h sid = Some s -> CI (fst (f cn sid s))) ->
            CI (fst (with_session h c f))).
  { intros c f Hf. unfold with_session. destruct (aget (h_conns h) c) as [cn|] eqn:Hc; [|exact C].
    destruct (c_sess cn) as [sid|]; [|exact C]. destruct (get_sess h sid) as [s|] eqn:Hs; [|exact C]. eauto. }
  destruct o as [c addr|c hl|c rn rs rep|c to tag|c to tag|c|c|secs|b signas room q|c q|c to mk stream media|tok ok|c kindn key val|pos|c hl late]; cbn [step].
  15:{ destruct (aget (h_conns h) c) as [cn|]; [|exact C]. destruct (c_sess cn); [exact C|].
    destruct hl as [b u rej|b u t|b tok f d|i]; try exact C.
    - destruct rej; [exact C|]. destruct (h_nb h <=? b); [exact C|].
      match goal with |- context [close_conn ?hh c] => destruct (close_conn hh c) as [h2 o2] eqn:H2;
        assert (C2 : CI h2) by (rewrite (fst_eq _ _ _ H2); apply ci_close_conn; destruct late; [eapply ci_same; [|exact C]; ssc|exact C]) end.
      exact C2.
    - now apply ci_close_conn. }
  - destruct (aget (h_conns h) c); [exact C|]. cbn [fst]. eapply ci_same; [|exact C]. ssc.
  - destruct (aget (h_conns h) c) as [cn|]; [|exact C]. destruct (c_sess cn); [exact C|].
    apply ci_do_hello. eapply ci_same; [|exact C]. ssc.
  - apply Hws. intros cn sid s Hc Hs.
    destruct (do_join h c sid s rn rs rep) as [h1 o1] eqn:H1.
    assert (C1 : CI h1) by (rewrite (fst_eq _ _ _ H1); now apply ci_do_join).
    destruct rep as [[pm|] su|code]; try exact C1.
    destruct (get_sess h1 sid) as [s1|]; [|exact C1].
    match goal with |- context [if ?cnd then _ else _] => destruct cnd end; [|exact C1].
    destruct (revoke h1 sid) as [h2 o2] eqn:H2. cbn [fst]. rewrite (fst_eq _ _ _ H2). now apply ci_revoke.
  - apply Hws. intros. now apply ci_do_message.
  - apply Hws. intros cn sid s Hc Hs. destruct (allowed_control s); [now apply ci_do_message|exact C].
  - destruct (aget (h_conns h) c) as [cn|]; [|exact C]. destruct (c_sess cn); [now apply ci_send_conn|exact C].
  - destruct (aget (h_conns h) c) as [cn|]; [|exact C].
    assert (C1 : CI (set_conns h (adel (h_conns h) c))) by (eapply ci_same; [|exact C]; ssc).
    destruct (c_sess cn) as [sid|]; [|exact C1].
    destruct (get_sess (set_conns h (adel (h_conns h) c)) sid) as [s|] eqn:Hs; [|exact C1]. cbn [fst].
    eapply ci_same; [|apply (ci_put _ sid s (sess_conn s None) C1 Hs); reflexivity]. ssc.
  - now apply ci_do_tick.
  - destruct (negb (N.eqb b signas) || (h_nb h <=? b)); [exact C|]. now apply ci_do_api.
  - apply Hws. intros cn sid s Hc Hs. destruct (is_internal (s_kind s)); [now apply ci_do_internal|exact C].
  - apply Hws. intros cn sid s Hc Hs. now apply ci_do_media.
  - now apply ci_do_mcudone.
  - apply Hws. intros cn sid s Hc Hs. destruct (s_room s) as [k|]; [|exact C].
    destruct (2 <=? kindn); [exact C|].
    destruct (negb (allowed_transient s)); [exact C|]. destruct (room_of h k) as [r|]; [|exact C].
    now apply ci_transient_update.
  - now apply ci_deliver_at.
Qed.

Lemma ci_drain fuel : forall h, CI h -> CI (fst (drain fuel h)).
Proof.
  induction fuel as [|f IH]; intros h C; cbn [drain]; [exact C|].
  destruct (h_bus h); [exact C|].
  destruct (deliver_at h 0) as [h1 o1] eqn:H1. destruct (drain f h1) as [h2 o2] eqn:H2. cbn [fst].
  rewrite (fst_eq _ _ _ H2). apply IH. rewrite (fst_eq _ _ _ H1). now apply ci_deliver_at.
Qed.

Theorem ci_qstep h o : CI h -> CI (fst (qstep h o)).
Proof.
  intros C. unfold qstep. destruct (step h o) as [h1 o1] eqn:H1. destruct (drain 500 h1) as [h2 o2] eqn:H2. cbn [fst].
  rewrite (fst_eq _ _ _ H2). apply ci_drain. rewrite (fst_eq _ _ _ H1). now apply ci_step.
Qed.

Theorem ci_run ops : forall h, CI h -> CI (run h ops).
Proof. induction ops as [|o r IH]; intros h C; cbn [run]; [exact C|]. apply IH. now apply ci_step. Qed.
Theorem ci_qrun ops : forall h, CI h -> CI (qrun h ops).
Proof. induction ops as [|o r IH]; intros h C; cbn [qrun]; [exact C|]. apply IH. now apply ci_qstep. Qed.

Corollary ci_reachable limits gated ops : CI (run (init limits gated) ops).
Proof. apply ci_run, ci_init. Qed.
Corollary ci_reachable_q limits gated ops : CI (qrun (init limits gated) ops).
Proof. apply ci_qrun, ci_init. Qed.
Corollary ci_every_history : forall limits gated ops,
  CI (run (init limits gated) ops) /\ CI (qrun (init limits gated) ops).
Proof. intros. split; [apply ci_reachable|apply ci_reachable_q]. Qed.

Theorem counted_run ops : forall h, CI h -> Counted (run h ops).
Proof. intros h C. apply ci_counted. now apply ci_run. Qed.
Theorem counted_qrun ops : forall h, CI h -> Counted (qrun h ops).
Proof. intros h C. apply ci_counted. now apply ci_qrun. Qed.
Theorem counted_reachable : forall limits gated ops, Counted (run (init limits gated) ops).
Proof. intros. apply ci_counted, ci_reachable. Qed.
Theorem counted_reachable_q : forall limits gated ops, Counted (qrun (init limits gated) ops).
Proof. intros. apply ci_counted, ci_reachable_q. Qed.

(* ------------------------------------------------------------------ the bound on the registered sessions *)
(* any duplicate-free list of registered non-internal sessions of a limited backend is no longer than the limit *)
Theorem registered_never_exceed_limit : forall h b l,
  WF h -> Counted h -> limit_of h b <> 0 -> NoDup l ->
  (forall sid, In sid l -> exists s, get_sess h sid = Some s /\ s.(s_kind) = KClient /\ s.(s_backend) = b) ->
  N.of_nat (length l) <= limit_of h b.
Proof.
  intros h b l W Cn Hlim Hnd Hl.
  assert (Hincl : incl l (counted_of h b)).
  { intros sid Hin. destruct (Hl sid Hin) as [s (Hs & Hk & Hb)]. subst b. now apply Cn. }
  pose proof (NoDup_incl_length Hnd Hincl) as Hlen.
  unfold counted_of in Hlen. destruct (aget (h_counted h) b) as [l'|] eqn:Hb.
  - pose proof (wf_limit _ _ h W b l' Hb). lia.
  - cbn in Hlen. lia.
Qed.

(* the registered non-internal sessions of backend b, read off the session table *)
Definition clients_of (h : hub) (b : N) : list N :=
  map fst (filter (fun e => match (snd e).(s_kind) with KClient => N.eqb (snd e).(s_backend) b | _ => false end) h.(h_sessions)).

Lemma aget_of_in {V} (l : alist V) k v : NoDup (map fst l) -> In (k, v) l -> aget l k = Some v.
Proof.
  induction l as [|[k' v'] r IH]; cbn; intros Hn Hin; [destruct Hin|].
  inversion Hn as [|a b0 Hnin Hr]; subst. destruct Hin as [H|H].
  - injection H as -> ->. now rewrite N.eqb_refl.
  - destruct (N.eqb_spec k k') as [->|]; [|now apply IH].
    exfalso. apply Hnin. apply in_map_iff. exists (k', v). auto.
Qed.
Lemma nodup_keys_filter {V} (f : N * V -> bool) (l : alist V) : NoDup (map fst l) -> NoDup (map fst (filter f l)).
Proof.
  induction l as [|e r IH]; cbn; intros Hn; [constructor|].
  inversion Hn as [|a b0 Hnin Hr]; subst. destruct (f e); cbn; [|now apply IH].
  constructor; [|now apply IH]. intros Hin. apply Hnin.
  apply in_map_iff in Hin as [e' [He' Hin]]. apply filter_In in Hin as [Hin _]. apply in_map_iff. eauto.
Qed.

Lemma in_clients_of h b x : NoDup (map fst h.(h_sessions)) ->
  (In x (clients_of h b) <-> exists s, get_sess h x = Some s /\ s.(s_kind) = KClient /\ s.(s_backend) = b).
Proof.
  intros Hn. unfold clients_of. rewrite in_map_iff. split.
  - intros [[x' s] [Hf Hin]]. cbn in Hf. subst x'. apply filter_In in Hin as [Hin Hk]. cbn [snd] in Hk.
    exists s. split; [now apply aget_of_in|]. destruct (s_kind s); try discriminate. split; [reflexivity|now apply N.eqb_eq].
  - intros [s (Hs & Hk & Hb)]. exists (x, s). split; [reflexivity|]. apply filter_In. split; [now apply aget_In|].
    cbn [snd]. rewrite Hk. now apply N.eqb_eq.
Qed.

Lemma clients_of_nodup h b : NoDup (map fst h.(h_sessions)) -> NoDup (clients_of h b).
Proof. apply nodup_keys_filter. Qed.

Theorem registered_clients_never_exceed_limit : forall h b,
  WF h -> CI h -> limit_of h b <> 0 -> N.of_nat (length (clients_of h b)) <= limit_of h b.
Proof.
  intros h b W C Hlim. apply registered_never_exceed_limit; auto.
  - apply (ci_counted h C).
  - apply clients_of_nodup, (ci_keys h C).
  - intros sid. apply in_clients_of, (ci_keys h C).
Qed.

(* the list the limit is checked against is exactly the list of registered non-internal sessions *)
Theorem counted_exact : forall h b, CI h -> limit_of h b <> 0 -> Permutation (clients_of h b) (counted_of h b).
Proof.
  intros h b C Hlim. apply NoDup_Permutation.
  - apply clients_of_nodup, (ci_keys h C).
  - apply (ci_nodup h C).
  - intros x. rewrite (in_clients_of h b x (ci_keys h C)). split.
    + intros [s (Hs & Hk & Hb)]. subst b. now apply (ci_counted h C).
    + intros Hin. destruct (ci_back h C b x Hin) as [_ [s (Hs & Hb & Hk)]]. eauto.
Qed.

(* an unlimited backend counts nobody *)
Theorem unlimited_counts_nobody : forall h b, CI h -> limit_of h b = 0 -> counted_of h b = [].
Proof.
  intros h b C H0. destruct (counted_of h b) as [|x l] eqn:Hc; [reflexivity|].
  destruct (ci_back h C b x) as [Hne _]; [rewrite Hc; now left|contradiction].
Qed.

(* hence a client registration on a limited backend is refused exactly when the number of
   registered non-internal sessions of that backend equals the limit *)
Theorem register_refused_iff_full : forall h c cn b u,
  WF h -> CI h -> limit_of h b <> 0 ->
  (snd (register h c cn b KClient u) = [ToConn c (SError E_session_limit)]
   <-> N.of_nat (length (clients_of h b)) = limit_of h b).
Proof.
  intros h c cn b u W C Hlim.
  pose proof (Permutation_length (counted_exact h b C Hlim)) as Hlen.
  pose proof (registered_clients_never_exceed_limit h b W C Hlim) as Hle.
  unfold register. cbn [is_internal negb andb].
  destruct (N.eqb_spec (limit_of h b) 0) as [|_]; [contradiction|]. cbn [negb andb].
  rewrite Hlen in *. destruct (counted_of h b) as [|x l]; cbn [negb andb snd length].
  - split; [discriminate|]. cbn. intros H. congruence.
  - destruct (N.leb_spec (limit_of h b) (N.of_nat (S (length l)))) as [Hge|Hlt]; cbn [snd].
    + split; [intros _|reflexivity]. cbn [length] in Hle. lia.
    + split; [discriminate|]. intros H. lia.
Qed.

Corollary registered_never_exceed_limit_reachable : forall limits gated ops b l,
  let h := run (init limits gated) ops in
  limit_of h b <> 0 -> NoDup l ->
  (forall sid, In sid l -> exists s, get_sess h sid = Some s /\ s.(s_kind) = KClient /\ s.(s_backend) = b) ->
  N.of_nat (length l) <= limit_of h b.
Proof. intros. apply registered_never_exceed_limit; auto; [apply wf_reachable|apply counted_reachable]. Qed.
Corollary registered_never_exceed_limit_reachable_q : forall limits gated ops b l,
  let h := qrun (init limits gated) ops in
  limit_of h b <> 0 -> NoDup l ->
  (forall sid, In sid l -> exists s, get_sess h sid = Some s /\ s.(s_kind) = KClient /\ s.(s_backend) = b) ->
  N.of_nat (length l) <= limit_of h b.
Proof. intros. apply registered_never_exceed_limit; auto; [apply wf_reachable_q|apply counted_reachable_q]. Qed.
Corollary registered_clients_never_exceed_limit_reachable : forall limits gated ops b,
  let h := run (init limits gated) ops in
  limit_of h b <> 0 -> N.of_nat (length (clients_of h b)) <= limit_of h b.
Proof. intros. apply registered_clients_never_exceed_limit; auto; [apply wf_reachable|apply ci_reachable]. Qed.
Corollary registered_clients_never_exceed_limit_reachable_q : forall limits gated ops b,
  let h := qrun (init limits gated) ops in
  limit_of h b <> 0 -> N.of_nat (length (clients_of h b)) <= limit_of h b.
Proof. intros. apply registered_clients_never_exceed_limit; auto; [apply wf_reachable_q|apply ci_reachable_q]. Qed.

(* ------------------------------------------------------------------ the statements are not vacuous *)
Fixpoint outs_of (h : hub) (ops : list op) : list (list out) :=
  match ops with [] => [] | o :: r => let '(h', out) := step h o in out :: outs_of h' r end.

(* backend 0 allows two sessions, backend 1 is unlimited: two clients register on backend 0, the third
   is refused; after the first said bye the third registers *)
Definition limit_ops_full : list op :=
  [OConnect 1 100; OConnect 2 101; OConnect 3 102;
   OHello 1 (HV1 0 11 false); OHello 2 (HV1 0 12 false); OHello 3 (HV1 0 13 false)].
Definition limit_ops_bye : list op := limit_ops_full ++ [OBye 1].
Definition limit_ops_again : list op := limit_ops_bye ++ [OHello 3 (HV1 0 13 false)].

Example limit_history :
  outs_of (init [2; 0] false) limit_ops_again =
    [[ToConn 1 SWelcome]; [ToConn 2 SWelcome]; [ToConn 3 SWelcome];
     [ToBackend (0, 0, 0, 0, 0, 1); ToConn 1 (SHello 1 11)];
     [ToBackend (0, 0, 0, 0, 0, 1); ToConn 2 (SHello 2 12)];
     [ToBackend (0, 0, 0, 0, 0, 1); ToConn 3 (SError E_session_limit)];
     [ToConn 1 (SBye 0); Closed 1];
     [ToBackend (0, 0, 0, 0, 0, 1); ToConn 3 (SHello 4 13)]]
  /\ (let h := run (init [2; 0] false) limit_ops_full in
      limit_of h 0 = 2 /\ clients_of h 0 = [1; 2] /\ counted_of h 0 = [1; 2])
  /\ (let h := run (init [2; 0] false) limit_ops_bye in clients_of h 0 = [2] /\ counted_of h 0 = [2])
  /\ (let h := run (init [2; 0] false) limit_ops_again in clients_of h 0 = [2; 4] /\ counted_of h 0 = [2; 4])
  /\ (let h := qrun (init [2; 0] false) limit_ops_again in clients_of h 0 = [2; 4] /\ counted_of h 0 = [2; 4]).
Proof. vm_compute. repeat split; reflexivity. Qed.

(* clients of the unlimited backend are not counted, and are not refused *)
Example unlimited_history :
  let h := run (init [2; 0] false)
             [OConnect 1 100; OConnect 2 101; OConnect 3 102;
              OHello 1 (HV1 1 11 false); OHello 2 (HV1 1 12 false); OHello 3 (HV1 1 13 false)] in
  limit_of h 1 = 0 /\ clients_of h 1 = [1; 2; 3] /\ counted_of h 1 = [].
Proof. vm_compute. repeat split; reflexivity. Qed.
