(* Nesting depth of decoded values (general lemmas about lib/Decode.v). *)
From Coq Require Import List ZArith String Bool Lia.
From Verif Require Import lib.Json lib.Decode proofs.Decode_proofs.
Import ListNotations.
Open Scope string_scope.
Open Scope list_scope.

(* ---- nesting depth ------------------------------------------------------------------------------
   The depth of the re-encoded value is bounded by the depth of the document it
   was decoded from (and by what the type instantiates on its own). *)
Fixpoint maxd (l : list gval) : nat :=
  match l with [] => 0%nat | x :: r => Nat.max (gdepth x) (maxd r) end.
Fixpoint maxd_kv (m : list (string * gval)) : nat :=
  match m with [] => 0%nat | (_, x) :: r => Nat.max (gdepth x) (maxd_kv r) end.
Fixpoint maxj (l : list json) : nat :=
  match l with [] => 0%nat | x :: r => Nat.max (json_depth x) (maxj r) end.
Fixpoint maxj_kv (ms : members) : nat :=
  match ms with [] => 0%nat | (_, x) :: r => Nat.max (json_depth x) (maxj_kv r) end.

Lemma gdepth_struct : forall fs, gdepth (GStruct fs) = S (maxd_kv fs).
Proof. reflexivity. Qed.

Lemma gdepth_map : forall m, gdepth (GMap m) = match m with [] => 0%nat | _ => S (maxd_kv m) end.
Proof. intros [|[k x] r]; reflexivity. Qed.

Lemma gdepth_slice : forall l, gdepth (GSlice l) = match l with [] => 0%nat | _ => S (maxd l) end.
Proof. intros [|x r]; reflexivity. Qed.

Lemma json_depth_arr : forall l, json_depth (JArr l) = S (maxj l).
Proof. reflexivity. Qed.

Lemma json_depth_obj : forall ms, json_depth (JObj ms) = S (maxj_kv ms).
Proof. reflexivity. Qed.

Lemma maxj_in : forall x l, In x l -> (json_depth x <= maxj l)%nat.
Proof.
  induction l as [|y r IH]; intros Hin; [destruct Hin|]. cbn [maxj].
  destruct Hin as [->|Hin]; [lia | specialize (IH Hin); lia].
Qed.

Lemma maxj_kv_in : forall k x ms, In (k, x) ms -> (json_depth x <= maxj_kv ms)%nat.
Proof.
  induction ms as [|[k' y] r IH]; intros Hin; [destruct Hin|]. cbn [maxj_kv].
  destruct Hin as [Heq|Hin]; [inversion Heq; subst; lia | specialize (IH Hin); lia].
Qed.

Lemma maxd_kv_assoc : forall n fs x, assoc n fs = Some x -> (gdepth x <= maxd_kv fs)%nat.
Proof.
  induction fs as [|[k y] r IH]; intros x H; [discriminate|]. cbn in H. cbn [maxd_kv].
  destruct (String.eqb n k); [inversion H; subst; lia | specialize (IH x H); lia].
Qed.

Lemma maxd_kv_map_set : forall k v m, (maxd_kv (map_set k v m) <= Nat.max (gdepth v) (maxd_kv m))%nat.
Proof.
  induction m as [|[k' y] r IH]; cbn [map_set maxd_kv]; [lia|].
  destruct (String.eqb k k'); cbn [maxd_kv]; lia.
Qed.

(* type-level bound on what a decoder instantiates by itself *)
Fixpoint tz (t : gty) : nat :=
  match t with
  | TStruct fs => S ((fix go (fs : list (string * string * gty)) : nat :=
                        match fs with [] => 0%nat | (_, _, ft) :: r => Nat.max (tz ft) (go r) end) fs)
  | TPtr t' => tz t'
  | _ => 0%nat
  end.
Fixpoint tz_fields (fs : list (string * string * gty)) : nat :=
  match fs with [] => 0%nat | (_, _, ft) :: r => Nat.max (tz ft) (tz_fields r) end.
Lemma tz_struct : forall fs, tz (TStruct fs) = S (tz_fields fs).
Proof. reflexivity. Qed.

(* elements of slices and maps are scalars, raw values, interfaces or again such lists *)
Fixpoint flat (t : gty) : bool :=
  match t with
  | TSlice t' | TMap t' => flat t' && Nat.eqb (tz t') 0
  | TPtr t' => flat t'
  | TStruct fs => (fix go (fs : list (string * string * gty)) : bool :=
                     match fs with [] => true | (_, _, ft) :: r => flat ft && go r end) fs
  | _ => true
  end.
Fixpoint flat_fields (fs : list (string * string * gty)) : bool :=
  match fs with [] => true | (_, _, ft) :: r => flat ft && flat_fields r end.
Lemma flat_struct : forall fs, flat (TStruct fs) = flat_fields fs.
Proof. reflexivity. Qed.

(* induction over types with the nested field lists *)
Section gty_induction.
  Context (P : gty -> Prop)
          (Hbool : P TBool) (Hstring : P TString) (Hint : forall lo hi, P (TInt lo hi)) (Hfloat : P TFloat)
          (Hraw : P TRaw) (Hiface : P TIface) (Hslice : forall t, P t -> P (TSlice t))
          (Hmap : forall t, P t -> P (TMap t)) (Hptr : forall t, P t -> P (TPtr t))
          (Hstruct : forall fs, Forall (fun f => P (snd f)) fs -> P (TStruct fs))
          (Hopaque : forall n, P (TOpaque n)).
  Fixpoint gty_ind' (t : gty) : P t :=
    match t with
    | TBool => Hbool | TString => Hstring | TInt lo hi => Hint lo hi | TFloat => Hfloat
    | TRaw => Hraw | TIface => Hiface
    | TSlice t' => Hslice t' (gty_ind' t')
    | TMap t' => Hmap t' (gty_ind' t')
    | TPtr t' => Hptr t' (gty_ind' t')
    | TStruct fs =>
        Hstruct fs ((fix go (fs : list (string * string * gty)) : Forall (fun f => P (snd f)) fs :=
                       match fs with
                       | [] => Forall_nil _
                       | (a, b, ft) :: r => Forall_cons (a, b, ft) (gty_ind' ft) (go r)
                       end) fs)
    | TOpaque n => Hopaque n
    end.
End gty_induction.

Lemma zero_struct : forall fs,
  zero (TStruct fs) = GStruct (map (fun f => (fname f, zero (snd f))) fs).
Proof.
  intros fs. cbn [zero]. f_equal. induction fs as [|[[a b] ft] r IH]; [reflexivity|]. cbn [map fname fst snd]. now rewrite <- IH.
Qed.

Lemma zero_depth : forall t, (gdepth (zero t) <= tz t)%nat.
Proof.
  induction t using gty_ind'; try (cbn; lia).
  rewrite zero_struct, gdepth_struct, tz_struct. apply le_n_S.
  induction H as [|[[a b] ft] r Hf _ IH]; [cbn; lia|]. cbn [map fname fst snd maxd_kv tz_fields] in *. lia.
Qed.

(* the list and map loops as top-level functions *)
Fixpoint decode_list (t : gty) (l : list json) : result (list gval) :=
  match l with
  | [] => Ok []
  | x :: r => match decode t (zero t) x with
              | Err e => Err e
              | Ok v => match decode_list t r with Err e => Err e | Ok vs => Ok (v :: vs) end
              end
  end.
Fixpoint decode_mapl (t : gty) (ms : members) (acc : list (string * gval)) : result (list (string * gval)) :=
  match ms with
  | [] => Ok acc
  | (k, x) :: r => match decode t (zero t) x with
                   | Err e => Err e
                   | Ok v => decode_mapl t r (map_set k v acc)
                   end
  end.

Lemma decode_slice_arr : forall t cur l,
  decode (TSlice t) cur (JArr l) = match decode_list t l with Ok vs => Ok (GSlice vs) | Err e => Err e end.
Proof.
  intros t cur l. cbn [decode].
  assert (H : forall l,
    (fix go (l : list json) : result (list gval) :=
       match l with
       | [] => Ok []
       | x :: r => match decode t (zero t) x with
                   | Err e => Err e
                   | Ok v => match go r with Err e => Err e | Ok vs => Ok (v :: vs) end
                   end
       end) l = decode_list t l).
  { induction l0 as [|x r IH]; [reflexivity|]. cbn [decode_list]. now rewrite <- IH. }
  now rewrite H.
Qed.

Lemma decode_map_obj : forall t cur ms,
  decode (TMap t) cur (JObj ms) = match decode_mapl t ms [] with Ok m => Ok (GMap m) | Err e => Err e end.
Proof.
  intros t cur ms. cbn [decode].
  assert (H : forall ms acc,
    (fix go (ms : list (string * json)) (acc : list (string * gval)) : result (list (string * gval)) :=
       match ms with
       | [] => Ok acc
       | (k, x) :: r => match decode t (zero t) x with
                        | Err e => Err e
                        | Ok v => go r (map_set k v acc)
                        end
       end) ms acc = decode_mapl t ms acc).
  { induction ms0 as [|[k x] r IH]; intros acc; [reflexivity|]. cbn [decode_mapl].
    destruct (decode t (zero t) x); [apply IH | reflexivity]. }
  now rewrite H.
Qed.

Definition depth_bound (t : gty) : Prop :=
  forall cur j v, decode t cur j = Ok v ->
    (gdepth v <= Nat.max (gdepth cur) (Nat.max (json_depth j) (tz t)))%nat.

Lemma decode_occs_depth : forall ft, depth_bound ft -> forall vs c v d,
  decode_occs ft vs c = Ok v -> (forall x, In x vs -> json_depth x <= d)%nat ->
  (gdepth v <= Nat.max (gdepth c) (Nat.max d (tz ft)))%nat.
Proof.
  intros ft Hb. induction vs as [|x r IH]; intros c v d H Hd; cbn in H.
  - inversion H; subst. lia.
  - destruct (decode ft c x) as [c'|] eqn:E; [|discriminate].
    specialize (Hb c x c' E). specialize (IH c' v d H (fun y Hy => Hd y (or_intror Hy))).
    specialize (Hd x (or_introl eq_refl)). lia.
Qed.

Lemma decode_list_depth : forall t, depth_bound t -> tz t = 0%nat -> forall l vs,
  decode_list t l = Ok vs -> (maxd vs <= maxj l)%nat.
Proof.
  intros t Hb Hz. induction l as [|x r IH]; intros vs E; cbn in E.
  - inversion E. cbn. lia.
  - destruct (decode t (zero t) x) as [v0|] eqn:E0; [|discriminate].
    destruct (decode_list t r) as [vs0|] eqn:E1; [|discriminate].
    inversion E; subst vs. cbn [maxd maxj]. specialize (IH vs0 eq_refl).
    specialize (Hb _ _ _ E0). pose proof (zero_depth t). lia.
Qed.

Lemma decode_mapl_depth : forall t, depth_bound t -> tz t = 0%nat -> forall ms acc m,
  decode_mapl t ms acc = Ok m -> (maxd_kv m <= Nat.max (maxd_kv acc) (maxj_kv ms))%nat.
Proof.
  intros t Hb Hz. induction ms as [|[k x] r IH]; intros acc m E; cbn in E.
  - inversion E. lia.
  - destruct (decode t (zero t) x) as [v0|] eqn:E0; [|discriminate].
    specialize (IH _ _ E). pose proof (maxd_kv_map_set k v0 acc) as Hs. cbn [maxj_kv].
    specialize (Hb _ _ _ E0). pose proof (zero_depth t). lia.
Qed.

Lemma sget_depth : forall gn cur d, (gdepth (sget gn cur d) <= Nat.max (Nat.pred (gdepth cur)) (gdepth d))%nat.
Proof.
  intros gn cur d. destruct cur; cbn [sget]; try lia.
  destruct (assoc gn fs) as [x|] eqn:E; [|lia].
  rewrite gdepth_struct. cbn [Nat.pred]. pose proof (maxd_kv_assoc _ _ _ E). lia.
Qed.

Lemma nonnull_occurrences_depth : forall k ms x, In x (nonnull_occurrences k ms) -> (json_depth x <= maxj_kv ms)%nat.
Proof.
  intros k ms x Hin. apply in_nonnull_occurrences in Hin as [Hin _]. eapply maxj_kv_in; eauto.
Qed.

Lemma decode_fields_depth : forall fs, Forall (fun f => flat (snd f) = true -> depth_bound (snd f)) fs ->
  flat_fields fs = true -> forall cur ms vs,
  decode_fields fs cur ms = Ok vs ->
  (maxd_kv vs <= Nat.max (Nat.pred (gdepth cur)) (Nat.max (maxj_kv ms) (tz_fields fs)))%nat.
Proof.
  intros fs HF. induction HF as [|[[gn jn] ft] r Hf _ IH]; intros Hflat cur ms vs E; cbn in E.
  - inversion E. cbn. lia.
  - cbn [flat_fields] in Hflat. apply andb_prop in Hflat as [Hft Hr]. cbn [snd] in Hf. specialize (Hf Hft).
    destruct (decode_occs ft (nonnull_occurrences jn ms) (sget gn cur (zero ft))) as [v0|] eqn:E0; [|discriminate].
    destruct (decode_fields r cur ms) as [vs0|] eqn:E1; [|discriminate].
    inversion E; subst vs. cbn [maxd_kv tz_fields]. specialize (IH Hr cur ms vs0 E1).
    pose proof (decode_occs_depth ft Hf _ _ _ (maxj_kv ms) E0 (nonnull_occurrences_depth jn ms)) as H0.
    pose proof (sget_depth gn cur (zero ft)) as Hs. pose proof (zero_depth ft). lia.
Qed.

Lemma decode_depth : forall t, flat t = true -> depth_bound t.
Proof.
  induction t using gty_ind'; intros Hflat cur j v Hdec.
  - destruct j; cbn in Hdec; inversion Hdec; cbn; lia.
  - destruct j; cbn in Hdec; inversion Hdec; cbn; lia.
  - destruct j; cbn in Hdec; try discriminate.
    destruct ((lo <=? z) && (z <=? hi))%Z; inversion Hdec; cbn; lia.
  - destruct j; cbn in Hdec; try discriminate.
    + destruct (float_in_range z 0); inversion Hdec; cbn; lia.
    + destruct (float_in_range m e); inversion Hdec; cbn; lia.
  - cbn in Hdec. inversion Hdec; subst. cbn [gdepth]. lia.
  - destruct j; cbn [decode] in Hdec; try (inversion Hdec; cbn; lia);
      match type of Hdec with (if ?c then _ else _) = _ => destruct c; inversion Hdec; subst; cbn [gdepth]; lia end.
  - (* slice *)
    cbn [flat] in Hflat. apply andb_prop in Hflat as [Hf Hz]. apply Nat.eqb_eq in Hz.
    specialize (IHt Hf).
    destruct j; try (cbn in Hdec; discriminate).
    + cbn in Hdec. inversion Hdec. cbn. lia.
    + rewrite decode_slice_arr in Hdec. destruct (decode_list t l) as [vs|] eqn:E; [|discriminate].
      inversion Hdec; subst v. rewrite gdepth_slice, json_depth_arr.
      pose proof (decode_list_depth t IHt Hz l vs E). destruct vs; lia.
  - (* map *)
    cbn [flat] in Hflat. apply andb_prop in Hflat as [Hf Hz]. apply Nat.eqb_eq in Hz.
    specialize (IHt Hf).
    destruct j; try (cbn in Hdec; discriminate).
    + cbn in Hdec. inversion Hdec. cbn. lia.
    + rewrite decode_map_obj in Hdec. destruct (decode_mapl t ms []) as [m|] eqn:E; [|discriminate].
      inversion Hdec; subst v. rewrite gdepth_map, json_depth_obj.
      pose proof (decode_mapl_depth t IHt Hz ms [] m E) as Hm. cbn [maxd_kv] in Hm. destruct m; lia.
  - (* pointer *)
    cbn [flat] in Hflat. specialize (IHt Hflat).
    destruct j; cbn [decode] in Hdec;
      try (inversion Hdec; cbn; lia);
      match type of Hdec with
      | match decode t ?c ?jj with _ => _ end = _ =>
          destruct (decode t c jj) as [v0|] eqn:E; [|discriminate];
          inversion Hdec; subst v; cbn [gdepth tz];
          specialize (IHt _ _ _ E); pose proof (zero_depth t);
          destruct cur; cbn [gdepth] in *; lia
      end.
  - (* struct *)
    rewrite flat_struct in Hflat.
    destruct j; try (cbn in Hdec; discriminate).
    + cbn in Hdec. inversion Hdec; subst. lia.
    + rewrite decode_struct_obj in Hdec. destruct (decode_fields fs cur ms) as [vs|] eqn:E; [|discriminate].
      inversion Hdec; subst v. rewrite gdepth_struct, json_depth_obj, tz_struct.
      pose proof (decode_fields_depth fs H Hflat cur ms vs E). lia.
  - cbn in Hdec. inversion Hdec; subst. cbn [gdepth]. lia.
Qed.

(* ---- depth of updated structs ------------------------------------------------------------------------ *)
Lemma maxd_kv_replace : forall n x fs,
  (maxd_kv (map (fun kv => if String.eqb n (fst kv) then (fst kv, x) else kv) fs) <= Nat.max (maxd_kv fs) (gdepth x))%nat.
Proof.
  induction fs as [|[k y] r IH]; cbn [map maxd_kv fst]; [lia|].
  destruct (String.eqb n k); cbn [maxd_kv]; lia.
Qed.

Lemma gdepth_sset : forall n x v, (gdepth (sset n x v) <= Nat.max (gdepth v) (S (gdepth x)))%nat.
Proof.
  intros n x v. destruct v; cbn [sset]; try lia.
  rewrite !gdepth_struct. pose proof (maxd_kv_replace n x fs). lia.
Qed.

(* writing a value that is not deeper than what a struct holds anywhere below its top
   level does not deepen it: the form used for request.<Sub>.<member> = ... *)
Lemma gdepth_pset : forall n x p, (gdepth (pset n x p) <= Nat.max (gdepth p) (S (gdepth x)))%nat.
Proof.
  intros n x p. destruct p; cbn [pset]; try apply gdepth_sset.
  cbn [gdepth]. apply gdepth_sset.
Qed.

Lemma fld_depth : forall n v, fld n v <> GNil -> (S (gdepth (fld n v)) <= gdepth v)%nat.
Proof.
  intros n v H. destruct v; cbn [fld] in *; try congruence.
  destruct (assoc n fs) as [x|] eqn:E; [|congruence].
  rewrite gdepth_struct. pose proof (maxd_kv_assoc _ _ _ E). lia.
Qed.

Lemma fld_depth_le : forall n v, (gdepth (fld n v) <= gdepth v)%nat.
Proof.
  intros n v. destruct v; cbn [fld]; cbn [gdepth]; try lia.
  destruct (assoc n fs) as [x|] eqn:E; [|cbn; lia].
  change (gdepth x <= gdepth (GStruct fs))%nat. rewrite gdepth_struct. pose proof (maxd_kv_assoc _ _ _ E). lia.
Qed.

Lemma deref_depth : forall p s, deref p = Some s -> gdepth s = gdepth p.
Proof. intros p s H. destruct p; cbn in H; inversion H; subst; reflexivity. Qed.

Lemma as_list_depth : forall v, (gdepth (GSlice (as_list v)) <= gdepth v)%nat.
Proof. intros v. destruct v; cbn [as_list]; try (cbn; lia). Qed.

Lemma maxd_kv_replace_le : forall n x fs,
  (gdepth x <= gdepth (match assoc n fs with Some y => y | None => GNil end))%nat ->
  (maxd_kv (map (fun kv => if String.eqb n (fst kv) then (fst kv, x) else kv) fs) <= maxd_kv fs)%nat.
Proof.
  induction fs as [|[k y] r IH]; intros H; cbn [map maxd_kv fst]; [lia|].
  cbn [assoc] in H. destruct (String.eqb n k) eqn:E; cbn [maxd_kv].
  - pose proof (maxd_kv_replace n x r). lia.
  - specialize (IH H). lia.
Qed.

Lemma gdepth_sset_le : forall n x v, (gdepth x <= gdepth (fld n v))%nat -> (gdepth (sset n x v) <= gdepth v)%nat.
Proof.
  intros n x v H. destruct v; cbn [sset]; try lia.
  rewrite !gdepth_struct. cbn [fld] in H. pose proof (maxd_kv_replace_le n x fs H). lia.
Qed.

Lemma gdepth_pset_le : forall n x p s, deref p = Some s -> (gdepth x <= gdepth (fld n s))%nat ->
  (gdepth (pset n x p) <= gdepth p)%nat.
Proof.
  intros n x p s Hd H.
  destruct p; cbn in Hd; inversion Hd; subst s; clear Hd; cbn [pset]; try (cbn [sset]; lia).
  - cbn [gdepth]. now apply gdepth_sset_le.
  - now apply gdepth_sset_le.
Qed.
