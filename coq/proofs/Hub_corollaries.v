(* What the structural invariant says about rooms, residue and virtual sessions, for every
   state reachable by any history and any delivery order.  (C04, C07, C19) *)
From Coq Require Import List NArith Bool Lia.
From Verif Require Import model.Hub proofs.Hub_basics proofs.Hub_wf.
Import ListNotations.
Open Scope N_scope.

Definition reachable (h : hub) : Prop := exists limits gated ops, h = run (init limits gated) ops.
Definition reachable_q (h : hub) : Prop := exists limits gated ops, h = qrun (init limits gated) ops.

Lemma reachable_wf h : reachable h -> WF h.
Proof. intros (l & g & ops & ->). apply wf_reachable. Qed.
Lemma reachable_q_wf h : reachable_q h -> WF h.
Proof. intros (l & g & ops & ->). apply wf_reachable_q. Qed.

Definition member (h : hub) (k : N * N) (sid : N) : Prop := exists r, room_of h k = Some r /\ In sid r.(r_members).

(* C04: the member set of a room is exactly the set of live sessions whose room it is *)
Theorem members_are_the_sessions_of_the_room h k sid : WF h ->
  (member h k sid <-> exists s, get_sess h sid = Some s /\ s.(s_room) = Some k).
Proof.
  intros W. split.
  - intros [r [Hr Hm]]. apply (wf_members _ _ h W k r sid Hr Hm).
  - intros [s [Hs Hk]]. destruct (wf_room _ _ h W sid s k Hs Hk) as [[]|H]. exact H.
Qed.

(* C04: a session is in at most one room *)
Theorem at_most_one_room h k1 k2 sid : WF h -> member h k1 sid -> member h k2 sid -> k1 = k2.
Proof.
  intros W H1 H2. apply (members_are_the_sessions_of_the_room h k1 sid W) in H1 as [s1 [Hs1 Hk1]].
  apply (members_are_the_sessions_of_the_room h k2 sid W) in H2 as [s2 [Hs2 Hk2]]. congruence.
Qed.

(* C04 / C07: a room with no members no longer exists *)
Theorem no_empty_room h k r : WF h -> room_of h k = Some r -> r.(r_members) <> [].
Proof. intros W. apply (wf_nonempty _ _ h W). Qed.

(* C04: the room-session map: a Nextcloud session id resolves to a session that holds it and is in a room *)
Theorem room_session_resolves h x sid : WF h -> aget h.(h_rs2) x = Some sid ->
  aget h.(h_rs1) sid = Some x /\ exists s k, get_sess h sid = Some s /\ s.(s_room) = Some k.
Proof. intros W Hx. pose proof (wf_rs2 _ _ h W x sid Hx) as H1. split; [exact H1|]. apply (wf_rs1 _ _ h W sid x H1). Qed.

(* C07: a session that ended (is in the session table no more) is referenced nowhere *)
Record unreferenced (h : hub) (sid : N) : Prop := {
  un_member : forall k r, room_of h k = Some r -> ~ In sid r.(r_members) /\ ~ In sid r.(r_incall);
  un_rs1 : aget h.(h_rs1) sid = None;
  un_rs2 : forall x, aget h.(h_rs2) x <> Some sid;
  un_vt : forall k, pget h.(h_vtable) k <> Some sid;
  un_expired : ~ In sid h.(h_expired);
  un_anonymous : ~ In sid h.(h_anonymous);
  un_dialout : ~ In sid h.(h_dialout);
  un_clients : ~ In sid h.(h_clients);
  un_counted : forall b l, aget h.(h_counted) b = Some l -> ~ In sid l;
  un_conns : forall c cn, aget h.(h_conns) c = Some cn -> cn.(c_sess) <> Some sid;
  un_children : forall vs s v, get_sess h vs = Some s -> s.(s_kind) <> KVirtual sid v;
}.

Theorem no_residue h sid : WF h -> get_sess h sid = None -> unreferenced h sid.
Proof.
  intros W Hn.
  assert (Hdead : ~ live h sid) by (intros [s Hs]; congruence).
  constructor.
  - intros k r Hr. split; intros Hin.
    + destruct (wf_members _ _ h W k r sid Hr Hin) as [s [Hs _]]. congruence.
    + apply (wf_incall _ _ h W k r sid Hr) in Hin. destruct (wf_members _ _ h W k r sid Hr Hin) as [s [Hs _]]. congruence.
  - destruct (aget (h_rs1 h) sid) as [x|] eqn:Hx; [|reflexivity]. destruct (wf_rs1 _ _ h W sid x Hx) as [s [k [Hs _]]]. congruence.
  - intros x Hx. pose proof (wf_rs2 _ _ h W x sid Hx) as H1. destruct (wf_rs1 _ _ h W sid x H1) as [s [k [Hs _]]]. congruence.
  - intros [p v] Hv. destruct (wf_vt _ _ h W p v sid Hv) as [s [Hs _]]. congruence.
  - intros Hin. apply Hdead. eapply wf_expired; eauto.
  - intros Hin. apply Hdead. eapply wf_anonymous; eauto.
  - intros Hin. apply Hdead. eapply wf_dialout; eauto.
  - intros Hin. apply Hdead. eapply wf_clients; eauto.
  - intros b l Hb Hin. apply Hdead. eapply wf_counted; eauto.
  - intros c cn Hc Hs. destruct (wf_conns _ _ h W c cn sid Hc Hs) as [s [Hs' _]]. congruence.
  - intros vs s v Hs Hk. destruct (wf_parent _ _ h W vs s sid v Hs Hk) as [[]|[ps [Hps _]]]. congruence.
Qed.

(* C07: closing a session (bye, expiry, kick, failed registration) removes it and all its virtual sessions *)
Theorem close_session_ends h sid : WF h ->
  let h' := fst (close_session h sid) in
  get_sess h' sid = None /\ WF h' /\ unreferenced h' sid.
Proof.
  intros W h'.
  assert (Hgone : get_sess h' sid = None).
  { unfold h', close_session. destruct (close_one h sid) as [h1 o1] eqn:Hc. pose proof (fst_eq _ _ _ Hc) as E1.
    fold (close_all (children h sid) (h1, o1)).
    assert (W1 : WFg none2 (or_sid none1 sid) h1) by (rewrite E1; apply wf_close_one; exact W).
    assert (Hsid1 : get_sess h1 sid = None) by (rewrite E1; apply close_one_gone).
    assert (Hv1 : forall k s, In k (children h sid) -> get_sess h1 k = Some s -> is_virtual (s_kind s) = true).
    { intros k s Hin Hs. destruct (N.eq_dec k sid) as [->|Hne]; [rewrite Hsid1 in Hs; discriminate|].
      pose proof (close_one_core h sid k Hne) as Hq. rewrite <- E1, Hs in Hq. cbn in Hq.
      destruct (get_sess h k) as [s0|] eqn:Hs0; [|discriminate]. cbn in Hq. apply core_some_eq in Hq as (_ & Hq & _).
      apply in_children in Hin as [_ [sk [v [Hsk Hkk]]]]. rewrite Hs0 in Hsk. injection Hsk as <-. rewrite Hq, Hkk. reflexivity. }
    destruct (wf_close_all none2 sid (children h sid) h1 o1 W1 Hsid1 Hv1) as (_ & HsidF & _). exact HsidF. }
  assert (W' : WF h') by (apply wf_close_session; exact W).
  split; [exact Hgone|]. split; [exact W'|]. now apply no_residue.
Qed.

(* C19: a virtual session exists only as long as its internal client's session: its parent is a live
   internal session of the same ... and its table entry points back to it *)
Theorem virtual_has_live_internal_parent h vs s p v : WF h ->
  get_sess h vs = Some s -> s.(s_kind) = KVirtual p v ->
  exists ps, get_sess h p = Some ps /\ is_internal ps.(s_kind) = true.
Proof. intros W Hs Hk. destruct (wf_parent _ _ h W vs s p v Hs Hk) as [[]|H]. exact H. Qed.

Theorem virtual_gone_with_parent h p : WF h -> get_sess h p = None ->
  forall vs s v, get_sess h vs = Some s -> s.(s_kind) <> KVirtual p v.
Proof. intros W Hn vs s v Hs Hk. destruct (virtual_has_live_internal_parent h vs s p v W Hs Hk) as [ps [Hps _]]. congruence. Qed.

Theorem virtual_table_sound h p v vs : WF h -> pget h.(h_vtable) (p, v) = Some vs ->
  exists s, get_sess h vs = Some s /\ s.(s_kind) = KVirtual p v.
Proof. intros W. apply (wf_vt _ _ h W). Qed.

(* C07: the sessions counted against a backend's limit are live sessions and never more than the limit *)
Theorem limit_never_exceeded h b l : WF h -> aget h.(h_counted) b = Some l ->
  N.of_nat (length l) <= limit_of h b /\ forall sid, In sid l -> live h sid.
Proof. intros W Hb. split; [apply (wf_limit _ _ h W b l Hb)|]. intros sid. apply (wf_counted _ _ h W b l sid Hb). Qed.
