(* Sleeping failed attempts do not hold up anybody: proofs about model/ThrottleLocks.v *)
From Coq Require Import List String Bool Arith Lia.
From Verif Require Import gen.LockProgs model.BackendLocks proofs.BackendLocks_proofs model.ThrottleLocks.
Import ListNotations.

(* Whatever the threads that are awake are doing - each somewhere between two
   sleeps of an entry point, any number of them, any scheduler -, they all
   finish within two steps per lock operation, without any sleeper waking up:
   the sleepers are not among the threads of the system at all. *)
Theorem awake_threads_complete (progs : list (list lockev)) :
  forallb sleeps_unlocked progs = true ->
  forall running : list (list lockop),
  (forall q, In q running -> exists p, In p progs /\ In q (segments p)) ->
  forall sched,
    let s := run sched (init running) in
    (all_done s = true \/ exists tid, tid < List.length running /\ enabled s tid = true) /\
    deadlocked s = false /\
    ((forall tid, enabled s tid = false) -> all_done s = true) /\
    effective sched (init running) <= budget running.
Proof.
  intros Hp running Hin. apply non_reentrant_progs_complete.
  apply forallb_forall. intros q Hq. destruct (Hin q Hq) as (p & Hpin & Hseg).
  rewrite forallb_forall in Hp. specialize (Hp p Hpin). unfold sleeps_unlocked in Hp.
  rewrite forallb_forall in Hp. now apply Hp.
Qed.

Lemma segments_nonempty p : segments p <> [].
Proof. induction p as [|[o|f] r IH]; cbn; [discriminate| |discriminate]. destruct (segments r); discriminate. Qed.

(* sleeps_unlocked, read on the program itself: at every marked call nothing is held *)
Lemma nr_segments_calls p : forall h,
  match segments p with s :: ss => nr h s = true /\ forallb non_reentrant ss = true | [] => False end ->
  forall f m, In (f, m) (held_at_calls h p) -> m = None.
Proof.
  induction p as [|[o|g] r IH]; intros h H f m Hin; cbn in Hin; [contradiction| |].
  - pose proof (segments_nonempty r) as Ne.
    change (segments (LOp o :: r)) with
      (match segments r with s :: ss => (o :: s) :: ss | [] => [[o]] end) in H.
    destruct (segments r) as [|s ss] eqn:Es; [contradiction|].
    destruct H as [Hs Hss].
    destruct o, h as [[|]|]; cbn in Hs; try discriminate;
      (eapply IH; [split; [exact Hs|exact Hss]|exact Hin]).
  - pose proof (segments_nonempty r) as Ne.
    change (segments (LCall g :: r)) with ([] :: segments r) in H.
    destruct H as [Hh Hss]. destruct h; cbn in Hh; [discriminate|].
    destruct Hin as [E|Hin]; [now inversion E|].
    destruct (segments r) as [|s ss] eqn:Es; [contradiction|].
    cbn [forallb] in Hss. apply andb_prop in Hss as [Hs Hss'].
    eapply IH; [split; [exact Hs|exact Hss']|exact Hin].
Qed.

Theorem sleeps_unlocked_calls p : sleeps_unlocked p = true ->
  forall f m, In (f, m) (held_at_calls None p) -> m = None.
Proof.
  unfold sleeps_unlocked. intros H. apply nr_segments_calls.
  destruct (segments p) as [|s ss] eqn:Es; [now apply segments_nonempty in Es|].
  cbn [forallb] in H. apply andb_prop in H as [Hs Hss]. split; assumption.
Qed.

(* A lock held across the delay: the sleeper has taken the lock and sleeps (its
   segment [Lock] is finished); the check of another address cannot even
   announce itself, and nothing in the system can move until the sleeper wakes. *)
Lemma sleeping_under_lock_blocks :
  sleeps_unlocked sleeping_under_lock = false /\
  held_at_calls None sleeping_under_lock = [("doDelay"%string, Some MW)] /\
  let s := run [0; 0] (init [ [Lock]; [Lock; Unlock] ]) in
  all_done s = false /\ deadlocked s = true /\ forall tid, enabled s tid = false.
Proof.
  repeat split; try (vm_compute; reflexivity).
  intros [|[|[|tid]]]; vm_compute; reflexivity.
Qed.
