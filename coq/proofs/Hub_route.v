(* Routing of messages and control messages (C05), virtual-session rewriting (C19),
   tenant separation of the addressing (C03). *)
From Coq Require Import List NArith Bool Lia.
From Verif Require Import model.Hub proofs.Hub_basics proofs.Hub_easy.
Import ListNotations.
Open Scope N_scope.

(* the message a receiver gets: kind, recipient type, and the sender block the SERVER fills in *)
Definition delivered (kindn : N) (to : recipient) (sid uid : N) (r : option rcpt) (tag : N) : smsg :=
  SMsg kindn (stype_of to) sid uid r tag.

Lemma deliver_plain h x t c' m :
  get_sess h x = Some t -> t.(s_conn) = Some c' ->
  (match m with SJoin _ | SLeave _ => False | _ => True end) ->
  snd (deliver_to_session h x m) = [ToConn c' m].
Proof.
  intros Ht Hc Hm. unfold deliver_to_session. rewrite Ht. destruct m; try contradiction; cbn; rewrite Hc; reflexivity.
Qed.
Lemma deliver_queued h x t m :
  get_sess h x = Some t -> t.(s_conn) = None ->
  (match m with SJoin _ | SLeave _ => False | _ => True end) ->
  snd (deliver_to_session h x m) = [] /\
  exists t', get_sess (fst (deliver_to_session h x m)) x = Some t' /\ t'.(s_pending) = enqueue t.(s_pending) m.
Proof.
  intros Ht Hc Hm. unfold deliver_to_session. rewrite Ht.
  destruct m; try contradiction; cbn; rewrite Hc; cbn; (split; [reflexivity|]);
    eexists; (split; [unfold get_sess, put_sess; hsimpl; apply aget_aset_same|reflexivity]).
Qed.

Lemma send_session_plain h x t c' kindn st ss su r tag :
  get_sess h x = Some t -> is_virtual t.(s_kind) = false -> t.(s_conn) = Some c' ->
  snd (send_session h x (SMsg kindn st ss su r tag)) = [ToConn c' (SMsg kindn st ss su r tag)].
Proof.
  intros Ht Hv Hc. unfold send_session. rewrite Ht.
  assert (Hk : match s_kind t with KVirtual p _ => p | _ => x end = x) by (destruct (s_kind t); try reflexivity; discriminate).
  rewrite Hk.
  pose proof (deliver_plain h x t c' (SMsg kindn st ss su r tag) Ht Hc I) as Hd.
  destruct (deliver_to_session h x (SMsg kindn st ss su r tag)) as [h1 outs]. cbn [snd] in Hd. subst outs. reflexivity.
Qed.

(* C05, session recipient: exactly the addressed session's connection gets it, once, with the sender block of the
   authenticated session; never another backend's session, never the sender itself *)
Theorem message_to_session h c sid s n t c' tag :
  conn_session h c sid s -> get_sess h n = Some t -> is_virtual t.(s_kind) = false ->
  t.(s_backend) = s.(s_backend) -> n <> sid -> t.(s_conn) = Some c' ->
  snd (step h (OMsg c (RSession (IdPub n)) tag)) =
  [ToConn c' (delivered 0 (RSession (IdPub n)) sid (sess_userid h sid s) None tag)].
Proof.
  intros [cn [Hc [Hs Hg]]] Ht Hv Hb Hne Hcn. cbn [step]. unfold with_session. rewrite Hc, Hs, Hg.
  unfold do_message. rewrite Ht, Hb, N.eqb_refl. cbn [negb andb].
  destruct (N.eqb_spec n sid); [contradiction|].
  assert (Hk : forall A (a b : A), match s_kind t with KVirtual _ _ => a | _ => b end = b) by (intros; destruct (s_kind t); try reflexivity; discriminate).
  destruct (s_kind t) eqn:Hkd; try discriminate; apply (send_session_plain h n t c'); auto; rewrite Hkd; reflexivity.
Qed.

Theorem message_to_other_backend_dropped h c sid s n t kindn tag :
  conn_session h c sid s -> get_sess h n = Some t -> t.(s_backend) <> s.(s_backend) ->
  do_message h sid s kindn (RSession (IdPub n)) tag true = (h, []).
Proof.
  intros _ Ht Hb. unfold do_message. rewrite Ht. destruct (N.eqb_spec (s_backend t) (s_backend s)); [contradiction|reflexivity].
Qed.

Theorem message_to_self_dropped h sid s kindn tag t :
  get_sess h sid = Some t -> t.(s_backend) = s.(s_backend) ->
  do_message h sid s kindn (RSession (IdPub sid)) tag true = (h, []).
Proof.
  intros Ht Hb. unfold do_message. rewrite Ht, Hb, !N.eqb_refl. reflexivity.
Qed.

(* C19: a message addressed to a virtual session reaches its internal client's connection with the
   recipient rewritten to the identifier the client chose *)
Theorem message_to_virtual_rewritten h c sid s n t p v ps c' tag :
  conn_session h c sid s -> get_sess h n = Some t -> t.(s_kind) = KVirtual p v ->
  t.(s_backend) = s.(s_backend) -> n <> sid ->
  get_sess h p = Some ps -> is_virtual ps.(s_kind) = false -> ps.(s_conn) = Some c' ->
  snd (step h (OMsg c (RSession (IdPub n)) tag)) =
  [ToConn c' (delivered 0 (RSession (IdPub n)) sid (sess_userid h sid s) (Some (RcptVirtual v)) tag)].
Proof.
  intros [cn [Hc [Hs Hg]]] Ht Hk Hb Hne Hp Hpv Hpc. cbn [step]. unfold with_session. rewrite Hc, Hs, Hg.
  unfold do_message. rewrite Ht, Hb, N.eqb_refl. cbn [negb andb].
  destruct (N.eqb_spec n sid); [contradiction|]. rewrite Hk. apply (send_session_plain h p ps c'); auto.
Qed.

(* anything that is not the public id of a live session reaches no connection *)
Theorem message_to_unknown_id_reaches_nobody h sid s kindn i tag :
  (forall n, i = IdPub n -> get_sess h n = None) ->
  snd (do_message h sid s kindn (RSession i) tag true) = [].
Proof.
  intros Hi. unfold do_message. destruct i as [n|n|k|n]; try reflexivity. rewrite (Hi n eq_refl). reflexivity.
Qed.

(* C05 / C03: room, call and user messages are published on the subject of the SENDER's backend with the
   sender block of the authenticated session *)
Theorem room_message_published h sid s k kindn tag :
  s.(s_room) = Some k ->
  do_message h sid s kindn RRoom tag true =
  (publish h (SubjRoom (fst k) (snd k)) (AEvent (delivered kindn RRoom sid (sess_userid h sid s) None tag) sid false), []).
Proof. intros Hk. unfold do_message. rewrite Hk. reflexivity. Qed.
Theorem call_message_published h sid s k kindn tag :
  s.(s_room) = Some k ->
  do_message h sid s kindn RCall tag true =
  (publish h (SubjRoom (fst k) (snd k)) (AEvent (delivered kindn RCall sid (sess_userid h sid s) None tag) sid true), []).
Proof. intros Hk. unfold do_message. rewrite Hk. reflexivity. Qed.
Theorem user_message_published h sid s u kindn tag :
  u <> 0 -> u <> sess_userid h sid s ->
  do_message h sid s kindn (RUser u) tag true =
  (publish h (SubjUser s.(s_backend) u) (AEvent (delivered kindn (RUser u) sid (sess_userid h sid s) None tag) sid false), []).
Proof.
  intros H0 Hu. unfold do_message. destruct (N.eqb_spec u 0); [contradiction|]. destruct (N.eqb_spec u (sess_userid h sid s)); [contradiction|]. reflexivity.
Qed.
Theorem user_message_to_own_user_dropped h sid s kindn tag :
  do_message h sid s kindn (RUser (sess_userid h sid s)) tag true = (h, []).
Proof. unfold do_message. destruct (N.eqb (sess_userid h sid s) 0); [reflexivity|]. now rewrite N.eqb_refl. Qed.
Theorem room_message_outside_room_dropped h sid s kindn tag :
  s.(s_room) = None -> do_message h sid s kindn RRoom tag true = (h, []) /\ do_message h sid s kindn RCall tag true = (h, []).
Proof. intros Hk. unfold do_message. rewrite Hk. auto. Qed.

(* who listens on a room / user subject: sessions of that backend's room / user, never virtual ones *)
Lemma room_listener_spec h k x : In x (room_listeners h k) <->
  exists s, In (x, s) h.(h_sessions) /\ is_virtual s.(s_kind) = false /\ s.(s_room) = Some k.
Proof.
  unfold room_listeners. rewrite in_map_iff. split.
  - intros [[x' s] [Hf Hin]]. cbn in Hf. subst x'. apply filter_In in Hin as [Hin Hc]. cbn in Hc.
    apply andb_prop in Hc as [Hv Hr]. exists s. split; [assumption|]. split; [now apply negb_true_iff|].
    unfold opt_pair_eqb in Hr. destruct (s_room s) as [k'|]; [|discriminate]. destruct (pair_eqb_spec k' k); [congruence|discriminate].
  - intros [s [Hin [Hv Hr]]]. exists (x, s). split; [reflexivity|]. apply filter_In. split; [assumption|]. cbn.
    rewrite Hv, Hr. cbn. apply pair_eqb_refl.
Qed.
Lemma user_listener_spec h b u x : In x (user_listeners h b u) <->
  exists s, In (x, s) h.(h_sessions) /\ is_virtual s.(s_kind) = false /\ s.(s_backend) = b /\ s.(s_user) = u.
Proof.
  unfold user_listeners. rewrite in_map_iff. split.
  - intros [[x' s] [Hf Hin]]. cbn in Hf. subst x'. apply filter_In in Hin as [Hin Hc]. cbn in Hc.
    apply andb_prop in Hc as [Hc Hu]. apply andb_prop in Hc as [Hv Hb]. exists s. split; [assumption|].
    split; [now apply negb_true_iff|]. split; now apply N.eqb_eq.
  - intros [s [Hin [Hv [Hb Hu]]]]. exists (x, s). split; [reflexivity|]. apply filter_In. split; [assumption|]. cbn.
    rewrite Hv, Hb, Hu, !N.eqb_refl. reflexivity.
Qed.

(* what one listener does with a published message: never back to the sender; call messages only to
   sessions in the call; otherwise exactly one copy to its connection (or its queue) *)
Theorem listener_filters h x t m sender co tm :
  get_sess h x = Some t ->
  (sender = x /\ sender <> 0 -> recv_event h x m sender co false tm = (h, [])) /\
  (co = true -> in_call h x t = false -> recv_event h x m sender co false tm = (h, [])) /\
  (sender <> x -> (co = true -> in_call h x t = true) -> recv_event h x m sender co false tm = send_session h x m).
Proof.
  intros Ht. unfold recv_event. rewrite Ht. repeat split.
  - intros [-> Hne]. rewrite N.eqb_refl. destruct (N.eqb_spec x 0); [contradiction|reflexivity].
  - intros -> Hic. rewrite Hic. destruct (N.eqb sender x && negb (N.eqb sender 0)); reflexivity.
  - intros Hne Hco. destruct (N.eqb_spec sender x); [contradiction|]. cbn [andb].
    destruct co; [rewrite (Hco eq_refl)|]; reflexivity.
Qed.
