(* Invariants and lemmas about model/Proxy.v and the trace predicate of
   corr/Run_C18.v.  The theorems of props/C18.v are stated from these. *)
From Coq Require Import List ZArith NArith Bool String Lia.
From Verif Require Import gen.Params model.Proxy corr.Run_C18.
Import ListNotations.
Open Scope N_scope.

(* ---- the constants of the source are the ones the property names ------------ *)
Lemma params_ok :
  proxy_valid_methods = ["RS256"; "RS384"; "RS512"]%string /\
  proxy_maxTokenAge = (5 * 60 * 1000000000)%Z /\
  proxy_tokenLeeway = (60 * 1000000000)%Z /\
  proxy_sessionExpirationTime = (60 * 1000000000)%Z.
Proof. repeat split; reflexivity. Qed.

(* ---- small facts about lists ---------------------------------------------------- *)
Lemma memN_In : forall x l, memN x l = true <-> In x l.
Proof.
  intros x l. unfold memN. rewrite existsb_exists. split.
  - intros [y [Hy He]]. apply N.eqb_eq in He. subst; assumption.
  - intros H. exists x. split; [assumption | apply N.eqb_refl].
Qed.

Lemma memN_false : forall x l, memN x l = false <-> ~ In x l.
Proof.
  intros x l. rewrite <- memN_In. destruct (memN x l); split; intros; congruence.
Qed.

Lemma str_mem_In : forall s l, str_mem s l = true <-> In s l.
Proof.
  intros s l. unfold str_mem. rewrite existsb_exists. split.
  - intros [y [Hy He]]. apply String.eqb_eq in He. subst; assumption.
  - intros H. exists s. split; [assumption | apply String.eqb_refl].
Qed.

Lemma In_delN : forall x y l, In x (delN y l) <-> In x l /\ x <> y.
Proof.
  intros x y l. unfold delN. rewrite filter_In. split; intros [H1 H2]; split; try assumption.
  - intro; subst. rewrite N.eqb_refl in H2. discriminate.
  - apply negb_true_iff. apply N.eqb_neq. assumption.
Qed.

Lemma In_drop_ids : forall e ids l, In e (drop_ids ids l) <-> In e l /\ ~ In (e_id e) ids.
Proof.
  intros e ids l. unfold drop_ids. rewrite filter_In. rewrite negb_true_iff, memN_false. tauto.
Qed.

Lemma NoDup_map_filter : forall {A B} (f : A -> B) (p : A -> bool) l,
  NoDup (map f l) -> NoDup (map f (filter p l)).
Proof.
  intros A B f p l. induction l as [|a l IH]; intros H; simpl.
  - constructor.
  - inversion H as [|? ? Hn Hd]; subst. destruct (p a); simpl.
    + constructor; [|apply IH; assumption].
      intro Hin. apply Hn. apply in_map_iff in Hin. destruct Hin as [x [Hx Hi]].
      apply filter_In in Hi. apply in_map_iff. exists x. tauto.
    + apply IH; assumption.
Qed.

Lemma NoDup_map_inj : forall {A B} (f : A -> B) l a b,
  NoDup (map f l) -> In a l -> In b l -> f a = f b -> a = b.
Proof.
  intros A B f l. induction l as [|x l IH]; intros a b Hn Ha Hb Hf; simpl in *.
  - contradiction.
  - inversion Hn as [|? ? Hx Hd]; subst.
    destruct Ha as [Ha|Ha], Hb as [Hb|Hb]; subst.
    + reflexivity.
    + exfalso. apply Hx. rewrite Hf. apply in_map; assumption.
    + exfalso. apply Hx. rewrite <- Hf. apply in_map; assumption.
    + apply IH; assumption.
Qed.

Lemma list_eqb_refl : forall {A} (eqb : A -> A -> bool) l,
  (forall x, eqb x x = true) -> list_eqb eqb l l = true.
Proof. intros A eqb l H. induction l; simpl; [reflexivity | rewrite H, IHl; reflexivity]. Qed.

Lemma kind_eqb_refl : forall k, kind_eqb k k = true.
Proof. destruct k; reflexivity. Qed.
Lemma kind_eqb_eq : forall a b, kind_eqb a b = true <-> a = b.
Proof. destruct a, b; simpl; split; intros; congruence. Qed.

Lemma entry_eqb_refl : forall e, entry_eqb e e = true.
Proof. intros e. unfold entry_eqb. rewrite !N.eqb_refl, kind_eqb_refl. reflexivity. Qed.
Lemma srow_eqb_refl : forall r, srow_eqb r r = true.
Proof.
  intros r. unfold srow_eqb. rewrite N.eqb_refl, !list_eqb_refl; try reflexivity; apply N.eqb_refl.
Qed.

Lemma same_state_refl : forall a b,
  ob_sessions a = ob_sessions b -> ob_clients a = ob_clients b ->
  ob_open a = ob_open b -> ob_pending a = ob_pending b -> same_state a b = true.
Proof.
  intros a b H1 H2 H3 H4. unfold same_state. rewrite H1, H2, H3, H4.
  rewrite !list_eqb_refl; auto using srow_eqb_refl, entry_eqb_refl, N.eqb_refl.
Qed.

(* ---- sessions ------------------------------------------------------------------------ *)
Lemma find_sess_some : forall sid l s, find_sess sid l = Some s -> In s l /\ ss_sid s = sid.
Proof.
  intros sid l s H. unfold find_sess in H. apply find_some in H. destruct H as [H1 H2].
  apply N.eqb_eq in H2. tauto.
Qed.

Lemma find_sess_none : forall sid l, find_sess sid l = None -> ~ In sid (map ss_sid l).
Proof.
  intros sid l H Hin. apply in_map_iff in Hin. destruct Hin as [s [Hs Hi]].
  unfold find_sess in H. apply (find_none _ _ H) in Hi. simpl in Hi.
  rewrite Hs, N.eqb_refl in Hi. discriminate.
Qed.

Lemma sids_upd_sess : forall sid f l, (forall s, ss_sid (f s) = ss_sid s) ->
  map ss_sid (upd_sess sid f l) = map ss_sid l.
Proof.
  intros sid f l Hf. unfold upd_sess. rewrite map_map. apply map_ext. intros s.
  destruct (ss_sid s =? sid); [apply Hf | reflexivity].
Qed.

Lemma In_upd_sess : forall sid f l s', In s' (upd_sess sid f l) ->
  exists s, In s l /\ ((ss_sid s = sid /\ s' = f s) \/ (ss_sid s <> sid /\ s' = s)).
Proof.
  intros sid f l s' H. unfold upd_sess in H. apply in_map_iff in H. destruct H as [s [Hs Hi]].
  exists s. split; [assumption|]. destruct (ss_sid s =? sid) eqn:E.
  - apply N.eqb_eq in E. left; split; congruence.
  - apply N.eqb_neq in E. right; split; congruence.
Qed.

Lemma upd_sess_In : forall sid f l s, In s l ->
  In (if ss_sid s =? sid then f s else s) (upd_sess sid f l).
Proof. intros sid f l s H. unfold upd_sess. apply in_map_iff. exists s. tauto. Qed.

Lemma In_del_sess : forall sid l s, In s (del_sess sid l) <-> In s l /\ ss_sid s <> sid.
Proof.
  intros sid l s. unfold del_sess. rewrite filter_In, negb_true_iff, N.eqb_neq. tauto.
Qed.

Lemma del_sess_gone : forall sid l, ~ In sid (map ss_sid (del_sess sid l)).
Proof.
  intros sid l H. apply in_map_iff in H. destruct H as [s [Hs Hi]].
  apply In_del_sess in Hi. tauto.
Qed.

Lemma sids_del_sess_incl : forall sid l x, In x (map ss_sid (del_sess sid l)) -> In x (map ss_sid l).
Proof.
  intros sid l x H. apply in_map_iff in H. destruct H as [s [Hs Hi]].
  apply In_del_sess in Hi. apply in_map_iff. exists s. tauto.
Qed.

Lemma ss_sid_remember : forall k id s, ss_sid (remember k id s) = ss_sid s.
Proof. destruct k; reflexivity. Qed.
Lemma ss_sid_forget : forall k id s, ss_sid (forget k id s) = ss_sid s.
Proof. destruct k; reflexivity. Qed.

Lemma owns_remember : forall s k id k' id',
  owns (remember k id s) k' id' = true <-> (k' = k /\ id' = id) \/ owns s k' id' = true.
Proof.
  intros s k id k' id'. destruct k, k'; simpl; rewrite ?memN_In, ?in_app_iff; simpl;
    split; intros H; try tauto.
  - destruct H as [H|[H|[]]]; [right; assumption | left; split; congruence].
  - destruct H as [[_ H]|H]; [right; left; congruence | left; assumption].
  - destruct H as [[H _]|H]; [discriminate | assumption].
  - destruct H as [[H _]|H]; [discriminate | assumption].
  - destruct H as [H|[H|[]]]; [right; assumption | left; split; congruence].
  - destruct H as [[_ H]|H]; [right; left; congruence | left; assumption].
Qed.

Lemma owns_forget : forall s k id k' id',
  owns (forget k id s) k' id' = true <-> owns s k' id' = true /\ ~ (k' = k /\ id' = id).
Proof.
  intros s k id k' id'. destruct k, k'; simpl; rewrite ?memN_In, ?In_delN; split; intros H.
  - split; [tauto|]. intros [_ E]. tauto.
  - destruct H as [H1 H2]. split; [assumption|]. intro; apply H2; tauto.
  - split; [assumption|]. intros [E _]; discriminate.
  - tauto.
  - split; [assumption|]. intros [E _]; discriminate.
  - tauto.
  - split; [tauto|]. intros [_ E]. tauto.
  - destruct H as [H1 H2]. split; [assumption|]. intro; apply H2; tauto.
Qed.

Lemma owns_ids : forall s k id, owns s k id = true -> In id (ss_pubs s ++ ss_subs s).
Proof. intros s k id H. destruct k; simpl in H; apply memN_In in H; apply in_app_iff; tauto. Qed.

Lemma ids_owns : forall s id, In id (ss_pubs s ++ ss_subs s) -> exists k, owns s k id = true.
Proof.
  intros s id H. apply in_app_iff in H. destruct H as [H|H].
  - exists Pub. simpl. apply memN_In; assumption.
  - exists Sub. simpl. apply memN_In; assumption.
Qed.

(* ---- entries ------------------------------------------------------------------------- *)
Lemma find_entry_some : forall id l e, find_entry id l = Some e -> In e l /\ e_id e = id.
Proof.
  intros id l e H. unfold find_entry in H. apply find_some in H. destruct H as [H1 H2].
  apply N.eqb_eq in H2. tauto.
Qed.

Lemma find_entry_none : forall id l, find_entry id l = None -> ~ In id (map e_id l).
Proof.
  intros id l H Hin. apply in_map_iff in Hin. destruct Hin as [e [He Hi]].
  unfold find_entry in H. apply (find_none _ _ H) in Hi. simpl in Hi.
  rewrite He, N.eqb_refl in Hi. discriminate.
Qed.

Lemma find_entry_unique : forall id l e, NoDup (map e_id l) -> In e l -> e_id e = id ->
  find_entry id l = Some e.
Proof.
  intros id l e Hn Hin Hid. destruct (find_entry id l) as [e'|] eqn:E.
  - apply find_entry_some in E. destruct E as [E1 E2].
    f_equal. apply (NoDup_map_inj e_id l); congruence.
  - exfalso. apply (find_entry_none _ _ E). apply in_map_iff. exists e. tauto.
Qed.

Section WithOracles.
Context (sv : string -> N -> N -> N -> bool).
Context (keys : N -> option N).

(* ---- token acceptance ------------------------------------------------------------------ *)
Lemma check_token_sound : forall now t, check_token sv keys now t = None ->
  t_wf t = true /\
  In (t_alg t) ["RS256"; "RS384"; "RS512"]%string /\
  t_sigdec t = true /\
  exists k, keys (t_iss t) = Some k /\ sv (t_alg t) k (t_text t) (t_sig t) = true /\
  exists i, t_iat t = Some i /\
    (now - (5 * 60 * 1000000000 + 60 * 1000000000) <= i <= now + 60 * 1000000000)%Z /\
    (forall e, t_exp t = Some e -> now < e + 60 * 1000000000)%Z /\
    (forall n, t_nbf t = Some n -> n - 60 * 1000000000 <= now)%Z.
Proof.
  intros now t H. unfold check_token in H.
  destruct (t_wf t) eqn:Ewf; cbn [negb] in H; [|discriminate].
  destruct (str_mem (t_alg t) proxy_valid_methods) eqn:Ealg; cbn [negb] in H; [|discriminate].
  destruct (t_sigdec t) eqn:Esd; cbn [negb] in H; [|discriminate].
  destruct (str_mem (t_alg t) jwt_rsa_methods) eqn:Ersa; cbn [negb] in H; [|discriminate].
  destruct (keys (t_iss t)) as [k|] eqn:Ek; [|discriminate].
  destruct (sv (t_alg t) k (t_text t) (t_sig t)) eqn:Esv; cbn [negb] in H; [|discriminate].
  unfold proxy_tokenLeeway, proxy_maxTokenAge in H.
  split; [first [assumption|reflexivity]|]. split; [apply str_mem_In in Ealg; exact Ealg|].
  split; [first [assumption|reflexivity]|].
  exists k. split; [first [assumption|reflexivity]|]. split; [first [assumption|reflexivity]|].
  destruct (t_iat t) as [i|] eqn:Ei.
  - exists i. split; [reflexivity|].
    destruct (t_nbf t) as [n|] eqn:En; destruct (t_exp t) as [e|] eqn:Ee;
      repeat match type of H with
      | context [(?a <? ?b)%Z] => destruct (Z.ltb_spec a b); simpl in H
      end; try discriminate; (split; [lia|]); split; intros ? Hq; inversion Hq; subst; lia.
  - destruct (t_nbf t) as [n|]; destruct (t_exp t) as [e|];
      repeat match type of H with
      | context [(?a <? ?b)%Z] => destruct (Z.ltb_spec a b); simpl in H
      end; discriminate.
Qed.

Lemma check_token_complete : forall now t k i,
  t_wf t = true -> In (t_alg t) ["RS256"; "RS384"; "RS512"]%string -> t_sigdec t = true ->
  keys (t_iss t) = Some k -> sv (t_alg t) k (t_text t) (t_sig t) = true ->
  t_iat t = Some i ->
  (now - (5 * 60 * 1000000000 + 60 * 1000000000) <= i <= now + 60 * 1000000000)%Z ->
  (forall e, t_exp t = Some e -> now < e + 60 * 1000000000)%Z ->
  (forall n, t_nbf t = Some n -> n - 60 * 1000000000 <= now)%Z ->
  check_token sv keys now t = None.
Proof.
  intros now t k i Hwf Halg Hsd Hk Hsv Hi Hr He Hn. unfold check_token.
  rewrite Hwf; cbn [negb].
  apply str_mem_In in Halg. change (str_mem (t_alg t) proxy_valid_methods = true) in Halg.
  rewrite Halg; cbn [negb]. rewrite Hsd; cbn [negb].
  change (str_mem (t_alg t) jwt_rsa_methods) with (str_mem (t_alg t) proxy_valid_methods).
  rewrite Halg; cbn [negb]. rewrite Hk, Hsv; cbn [negb]. rewrite Hi.
  unfold proxy_tokenLeeway, proxy_maxTokenAge.
  destruct (t_nbf t) as [n|]; destruct (t_exp t) as [e|];
    try specialize (He _ eq_refl); try specialize (Hn _ eq_refl);
    repeat match goal with
    | |- context [(?a <? ?b)%Z] => destruct (Z.ltb_spec a b); simpl
    end; try reflexivity; lia.
Qed.

Lemma check_token_spec : forall now t, check_token sv keys now t = None -> token_ok sv keys now t = true.
Proof.
  intros now t H. apply check_token_sound in H.
  destruct H as [Hwf [Halg [_ [k [Hk [Hsv [i [Hi [Hr _]]]]]]]]].
  unfold token_ok. rewrite Hwf, Hk, Hsv, Hi. apply str_mem_In in Halg.
  change (str_mem (t_alg t) spec_algs = true) in Halg. rewrite Halg. simpl.
  unfold spec_max_age, spec_leeway.
  apply andb_true_iff. split; apply Z.leb_le; lia.
Qed.

End WithOracles.

(* ---- the invariant of the repaired model ------------------------------------------------
   (components that do not depend on connections)                                         *)
Lemma NoDup_snoc : forall {A} (l : list A) a, NoDup l -> ~ In a l -> NoDup (l ++ [a]).
Proof.
  intros A l a H Hn. induction H as [|x l Hx Hd IH]; simpl.
  - constructor; [intros []|constructor].
  - constructor.
    + intro Hin. apply in_app_iff in Hin. destruct Hin as [Hin|[Hin|[]]].
      * contradiction.
      * subst. apply Hn. left; reflexivity.
    + apply IH. intro; apply Hn; right; assumption.
Qed.

Definition owns_entry (l : list sess) (e : entry) : Prop :=
  exists s, In s l /\ ss_sid s = e_owner e /\ owns s (e_kind e) (e_id e) = true.

Record InvC (nsid nobj : N) (ss : list sess) (cl mo : list entry) (pe : list pend) : Prop := {
  inv_sids : NoDup (map ss_sid ss);
  inv_sid_bound : forall s, In s ss -> ss_sid s <= nsid;
  inv_own_c : forall e, In e cl -> owns_entry ss e;
  inv_own_m : forall e, In e mo -> owns_entry ss e;
  inv_tab : forall s k id, In s ss -> owns s k id = true -> In (id, k, ss_sid s) cl;
  inv_nodup_c : NoDup (map e_id cl);
  inv_fresh_c : forall e, In e cl -> e_id e < nobj;
  inv_pend : forall p, In p pe -> p_tok p < nobj;
  inv_pend_nodup : NoDup (map p_tok pe);
  inv_pend_fresh : forall p e, In p pe -> In e cl -> e_id e <> p_tok p }.

Definition Inv (st : state) : Prop :=
  InvC (next_sid st) (next_obj st) (sessions st) (clients st) (mopen st) (pendings st).

Lemma Inv_init : Inv init.
Proof.
  unfold Inv; simpl. constructor; simpl; try constructor; intros; contradiction.
Qed.

Lemma owns_entry_mono : forall l l' e,
  (forall s, In s l -> exists s', In s' l' /\ ss_sid s' = ss_sid s /\
      (forall k id, owns s k id = true -> owns s' k id = true)) ->
  owns_entry l e -> owns_entry l' e.
Proof.
  intros l l' e H [s [Hs [Ho Hw]]]. destruct (H s Hs) as [s' [Hs' [Hsid Hk]]].
  exists s'. split; [assumption|]. split; [congruence|]. apply Hk; assumption.
Qed.

(* a new session *)
Lemma InvC_hello : forall nsid nobj ss cl mo pe c,
  InvC nsid nobj ss cl mo pe ->
  InvC (nsid + 1) nobj (ss ++ [{| ss_sid := nsid + 1; ss_conn := c; ss_pubs := []; ss_subs := [] |}]) cl mo pe.
Proof.
  intros nsid nobj ss cl mo pe c H. destruct H. constructor; try assumption.
  - rewrite map_app. simpl. apply NoDup_snoc; [assumption|].
    intro Hin. apply in_map_iff in Hin. destruct Hin as [s [Hs Hi]].
    apply inv_sid_bound0 in Hi. lia.
  - intros s Hs. apply in_app_iff in Hs. destruct Hs as [Hs|[Hs|[]]].
    + apply inv_sid_bound0 in Hs. lia.
    + subst; simpl. lia.
  - intros e He. apply (owns_entry_mono ss); [|apply inv_own_c0; assumption].
    intros s Hs. exists s. split; [apply in_app_iff; tauto|]. split; auto.
  - intros e He. apply (owns_entry_mono ss); [|apply inv_own_m0; assumption].
    intros s Hs. exists s. split; [apply in_app_iff; tauto|]. split; auto.
  - intros s k id Hs Ho. apply in_app_iff in Hs. destruct Hs as [Hs|[Hs|[]]].
    + apply inv_tab0; assumption.
    + subst. destruct k; simpl in Ho; discriminate.
Qed.

(* a change of a session that keeps its id and its tables (resume) *)
Lemma InvC_upd_same : forall nsid nobj ss cl mo pe sid f,
  (forall s, ss_sid (f s) = ss_sid s) -> (forall s k id, owns (f s) k id = owns s k id) ->
  InvC nsid nobj ss cl mo pe -> InvC nsid nobj (upd_sess sid f ss) cl mo pe.
Proof.
  intros nsid nobj ss cl mo pe sid f Hsid Hown H. destruct H. constructor; try assumption.
  - rewrite sids_upd_sess; assumption.
  - intros s' Hs'. apply In_upd_sess in Hs'. destruct Hs' as [s [Hs [[E1 E2]|[E1 E2]]]]; subst.
    + rewrite Hsid. apply inv_sid_bound0; assumption.
    + apply inv_sid_bound0; assumption.
  - intros e He. apply (owns_entry_mono ss); [|apply inv_own_c0; assumption].
    intros s Hs. exists (if ss_sid s =? sid then f s else s). split; [apply upd_sess_In; assumption|].
    destruct (ss_sid s =? sid); [split; [apply Hsid | intros; rewrite Hown; assumption] | split; auto].
  - intros e He. apply (owns_entry_mono ss); [|apply inv_own_m0; assumption].
    intros s Hs. exists (if ss_sid s =? sid then f s else s). split; [apply upd_sess_In; assumption|].
    destruct (ss_sid s =? sid); [split; [apply Hsid | intros; rewrite Hown; assumption] | split; auto].
  - intros s' k id Hs' Ho. apply In_upd_sess in Hs'. destruct Hs' as [s [Hs [[E1 E2]|[E1 E2]]]]; subst.
    + rewrite Hsid. rewrite Hown in Ho. apply inv_tab0; assumption.
    + apply inv_tab0; assumption.
Qed.

(* a creation request reaches the media server *)
Lemma InvC_create : forall nsid nobj ss cl mo pe k sid c,
  InvC nsid nobj ss cl mo pe ->
  InvC nsid (nobj + 1) ss cl mo (pe ++ [{| p_tok := nobj; p_kind := k; p_sid := sid; p_conn := c |}]).
Proof.
  intros nsid nobj ss cl mo pe k sid c H. destruct H. constructor; try assumption.
  - intros e He. apply inv_fresh_c0 in He. lia.
  - intros p Hp. apply in_app_iff in Hp. destruct Hp as [Hp|[Hp|[]]].
    + apply inv_pend0 in Hp. lia.
    + subst; simpl. lia.
  - rewrite map_app. simpl. apply NoDup_snoc; [assumption|].
    intro Hin. apply in_map_iff in Hin. destruct Hin as [p [Hp Hi]].
    apply inv_pend0 in Hi. lia.
  - intros p e Hp He. apply in_app_iff in Hp. destruct Hp as [Hp|[Hp|[]]].
    + apply inv_pend_fresh0; assumption.
    + subst; simpl. apply inv_fresh_c0 in He. lia.
Qed.

(* a pending creation goes away without an object *)
Lemma InvC_unpend : forall nsid nobj ss cl mo pe tok,
  InvC nsid nobj ss cl mo pe ->
  InvC nsid nobj ss cl mo (filter (fun q => negb (p_tok q =? tok)) pe).
Proof.
  intros nsid nobj ss cl mo pe tok H. destruct H. constructor; try assumption.
  - intros p Hp. apply filter_In in Hp. apply inv_pend0; tauto.
  - apply NoDup_map_filter; assumption.
  - intros p e Hp He. apply filter_In in Hp. apply inv_pend_fresh0; tauto.
Qed.

(* a creation completes for a live session *)
Lemma InvC_store : forall nsid nobj ss cl mo pe p s0,
  InvC nsid nobj ss cl mo pe -> In p pe -> In s0 ss -> ss_sid s0 = p_sid p ->
  InvC nsid nobj (upd_sess (p_sid p) (remember (p_kind p) (p_tok p)) ss)
       (cl ++ [(p_tok p, p_kind p, p_sid p)]) (mo ++ [(p_tok p, p_kind p, p_sid p)])
       (filter (fun q => negb (p_tok q =? p_tok p)) pe).
Proof.
  intros nsid nobj ss cl mo pe p s0 H Hp Hs0 Hsid0. destruct H.
  set (ss' := upd_sess (p_sid p) (remember (p_kind p) (p_tok p)) ss).
  assert (Hmono : forall s, In s ss -> exists s', In s' ss' /\
            ss_sid s' = ss_sid s /\ (forall k id, owns s k id = true -> owns s' k id = true)).
  { intros s Hs. exists (if ss_sid s =? p_sid p then remember (p_kind p) (p_tok p) s else s).
    split; [apply upd_sess_In; assumption|].
    destruct (ss_sid s =? p_sid p).
    - split; [apply ss_sid_remember|]. intros k id Ho. apply owns_remember. right; assumption.
    - split; auto. }
  assert (Hnew : owns_entry ss' (p_tok p, p_kind p, p_sid p)).
  { exists (remember (p_kind p) (p_tok p) s0). split.
    - pose proof (upd_sess_In (p_sid p) (remember (p_kind p) (p_tok p)) ss s0 Hs0) as Hin.
      rewrite Hsid0, N.eqb_refl in Hin. exact Hin.
    - split; [rewrite ss_sid_remember; exact Hsid0|].
      apply owns_remember. left; split; reflexivity. }
  constructor.
  - unfold ss'. rewrite sids_upd_sess; [assumption | intros; apply ss_sid_remember].
  - intros s' Hs'. apply In_upd_sess in Hs'. destruct Hs' as [s [Hs [[E1 E2]|[E1 E2]]]]; subst.
    + rewrite ss_sid_remember. apply inv_sid_bound0; assumption.
    + apply inv_sid_bound0; assumption.
  - intros e He. apply in_app_iff in He. destruct He as [He|[He|[]]].
    + apply (owns_entry_mono ss); [exact Hmono | apply inv_own_c0; assumption].
    + subst e. exact Hnew.
  - intros e He. apply in_app_iff in He. destruct He as [He|[He|[]]].
    + apply (owns_entry_mono ss); [exact Hmono | apply inv_own_m0; assumption].
    + subst e. exact Hnew.
  - intros s' k id Hs' Ho. apply In_upd_sess in Hs'. destruct Hs' as [s [Hs [[E1 E2]|[E1 E2]]]]; subst s'.
    + rewrite ss_sid_remember. apply owns_remember in Ho. apply in_app_iff.
      destruct Ho as [[Ek Ei]|Ho].
      * right. left. subst. rewrite E1. reflexivity.
      * left. apply inv_tab0; assumption.
    + apply in_app_iff. left. apply inv_tab0; assumption.
  - rewrite map_app. simpl. apply NoDup_snoc; [assumption|].
    intro Hin. apply in_map_iff in Hin. destruct Hin as [e [He Hi]].
    apply (inv_pend_fresh0 p e Hp Hi). exact He.
  - intros e He. apply in_app_iff in He. destruct He as [He|[He|[]]].
    + apply inv_fresh_c0; assumption.
    + subst e. simpl. apply inv_pend0; assumption.
  - intros q Hq. apply filter_In in Hq. apply inv_pend0; tauto.
  - apply NoDup_map_filter; assumption.
  - intros q e Hq He. apply filter_In in Hq. destruct Hq as [Hq Hne].
    apply in_app_iff in He. destruct He as [He|[He|[]]].
    + apply inv_pend_fresh0; assumption.
    + subst e. unfold e_id; simpl. apply negb_true_iff, N.eqb_neq in Hne. congruence.
Qed.

(* delete-publisher / delete-subscriber by the owning session *)
Lemma InvC_delete : forall nsid nobj ss cl mo pe sid k id s0,
  InvC nsid nobj ss cl mo pe -> In s0 ss -> ss_sid s0 = sid -> owns s0 k id = true ->
  InvC nsid nobj (upd_sess sid (forget k id) ss) (drop_ids [id] cl) (drop_ids [id] mo) pe.
Proof.
  intros nsid nobj ss cl mo pe sid k id s0 H Hs0 Hsid0 Hown0. destruct H.
  set (ss' := upd_sess sid (forget k id) ss).
  assert (Hkeep : forall e, owns_entry ss e -> e_id e <> id -> owns_entry ss' e).
  { intros e [s [Hs [Ho Hw]]] Hne.
    exists (if ss_sid s =? sid then forget k id s else s). split; [apply upd_sess_In; assumption|].
    destruct (ss_sid s =? sid).
    - split; [rewrite ss_sid_forget; exact Ho|]. apply owns_forget. split; [assumption|]. intros [_ E]. contradiction.
    - split; assumption. }
  constructor; try assumption.
  - unfold ss'. rewrite sids_upd_sess; [assumption | intros; apply ss_sid_forget].
  - intros s' Hs'. apply In_upd_sess in Hs'. destruct Hs' as [s [Hs [[E1 E2]|[E1 E2]]]]; subst.
    + rewrite ss_sid_forget. apply inv_sid_bound0; assumption.
    + apply inv_sid_bound0; assumption.
  - intros e He. apply In_drop_ids in He. destruct He as [He Hn].
    apply Hkeep; [apply inv_own_c0; assumption|]. intro E. apply Hn. left; congruence.
  - intros e He. apply In_drop_ids in He. destruct He as [He Hn].
    apply Hkeep; [apply inv_own_m0; assumption|]. intro E. apply Hn. left; congruence.
  - (* the tables still point into the client table *)
    assert (Hid : In (id, k, sid) cl) by (rewrite <- Hsid0; apply inv_tab0; assumption).
    intros s' k' id' Hs' Ho. apply In_upd_sess in Hs'. destruct Hs' as [s [Hs [[E1 E2]|[E1 E2]]]]; subst s'.
    + rewrite ss_sid_forget. apply owns_forget in Ho. destruct Ho as [Ho Hne].
      pose proof (inv_tab0 s k' id' Hs Ho) as Hin.
      apply In_drop_ids. split; [assumption|]. unfold e_id; simpl. intros [E|[]].
      subst id'. apply Hne. split; [|reflexivity].
      assert (Heq : (id, k', ss_sid s) = (id, k, sid))
        by (apply (NoDup_map_inj e_id cl); auto).
      congruence.
    + pose proof (inv_tab0 s k' id' Hs Ho) as Hin.
      apply In_drop_ids. split; [assumption|]. unfold e_id; simpl. intros [E|[]].
      subst id'.
      assert (Heq : (id, k', ss_sid s) = (id, k, sid))
        by (apply (NoDup_map_inj e_id cl); auto).
      apply E1. congruence.
  - apply NoDup_map_filter; assumption.
  - intros e He. apply In_drop_ids in He. apply inv_fresh_c0; tauto.
  - intros p e Hp He. apply In_drop_ids in He. apply inv_pend_fresh0; tauto.
Qed.

(* a session is closed (bye, expiry) *)
Lemma InvC_close : forall nsid nobj ss cl mo pe s0,
  InvC nsid nobj ss cl mo pe -> In s0 ss ->
  InvC nsid nobj (del_sess (ss_sid s0) ss)
       (drop_ids (ss_pubs s0 ++ ss_subs s0) cl) (drop_ids (ss_pubs s0 ++ ss_subs s0) mo) pe.
Proof.
  intros nsid nobj ss cl mo pe s0 H Hs0. destruct H.
  assert (Hkeep : forall e, owns_entry ss e -> ~ In (e_id e) (ss_pubs s0 ++ ss_subs s0) ->
            owns_entry (del_sess (ss_sid s0) ss) e).
  { intros e [s [Hs [Ho Hw]]] Hn. exists s. split; [|split; assumption].
    apply In_del_sess. split; [assumption|]. intro E.
    assert (s = s0) by (apply (NoDup_map_inj ss_sid ss); auto). subst s.
    apply Hn. apply (owns_ids _ _ _ Hw). }
  constructor; try assumption.
  - apply NoDup_map_filter; assumption.
  - intros s Hs. apply In_del_sess in Hs. apply inv_sid_bound0; tauto.
  - intros e He. apply In_drop_ids in He. destruct He as [He Hn]. apply Hkeep; auto.
  - intros e He. apply In_drop_ids in He. destruct He as [He Hn]. apply Hkeep; auto.
  - intros s k id Hs Ho. apply In_del_sess in Hs. destruct Hs as [Hs Hne].
    apply In_drop_ids. split; [apply inv_tab0; assumption|].
    unfold e_id; simpl. intro Hin. apply ids_owns in Hin. destruct Hin as [k0 Hk0].
    assert (Heq : (id, k, ss_sid s) = (id, k0, ss_sid s0))
      by (apply (NoDup_map_inj e_id cl); auto).
    apply Hne. congruence.
  - apply NoDup_map_filter; assumption.
  - intros e He. apply In_drop_ids in He. apply inv_fresh_c0; tauto.
  - intros p e Hp He. apply In_drop_ids in He. apply inv_pend_fresh0; tauto.
Qed.

(* the media server connection is lost *)
Lemma owns_entry_all_ids : forall ss e, owns_entry ss e -> In (e_id e) (all_ids ss).
Proof.
  intros ss e [s [Hs [_ Hw]]]. unfold all_ids. apply in_flat_map. exists s. split; [assumption|].
  apply (owns_ids _ _ _ Hw).
Qed.

Lemma drop_all_nil : forall ss l, (forall e, In e l -> owns_entry ss e) -> drop_ids (all_ids ss) l = [].
Proof.
  intros ss l H. destruct (drop_ids (all_ids ss) l) as [|e r] eqn:E; [reflexivity|].
  assert (Hin : In e (drop_ids (all_ids ss) l)) by (rewrite E; left; reflexivity).
  apply In_drop_ids in Hin. destruct Hin as [Hin Hn]. exfalso. apply Hn.
  apply owns_entry_all_ids. apply H; assumption.
Qed.

Lemma InvC_mculost : forall nsid nobj ss cl mo pe,
  InvC nsid nobj ss cl mo pe ->
  InvC nsid nobj (map clear_sess ss) (drop_ids (all_ids ss) cl) (drop_ids (all_ids ss) mo) pe.
Proof.
  intros nsid nobj ss cl mo pe H. pose proof H as H0. destruct H.
  rewrite (drop_all_nil ss cl) by assumption. rewrite (drop_all_nil ss mo) by assumption.
  constructor; try assumption.
  - rewrite map_map. simpl. assumption.
  - intros s Hs. apply in_map_iff in Hs. destruct Hs as [s1 [E Hs]]. subst. simpl. apply inv_sid_bound0; assumption.
  - intros e [].
  - intros e [].
  - intros s k id Hs Ho. apply in_map_iff in Hs. destruct Hs as [s1 [E Hs]]. subst.
    destruct k; simpl in Ho; discriminate.
  - constructor.
  - intros e [].
  - intros p e _ [].
Qed.


(* ---- the close in phases: what every step inside it keeps --------------------------------- *)
Lemma find_sess_upd_other : forall sid sid' f l, sid' <> sid -> (forall s, ss_sid (f s) = ss_sid s) ->
  find_sess sid (upd_sess sid' f l) = find_sess sid l.
Proof.
  intros sid sid' f l Hne Hf. unfold find_sess, upd_sess. induction l as [|s r IH]; simpl; [reflexivity|].
  destruct (ss_sid s =? sid') eqn:E1.
  - rewrite Hf. apply N.eqb_eq in E1. destruct (ss_sid s =? sid) eqn:E2.
    + apply N.eqb_eq in E2. congruence.
    + exact IH.
  - destruct (ss_sid s =? sid); [reflexivity | exact IH].
Qed.

Lemma find_sess_upd_same : forall sid f l, (forall s, ss_sid (f s) = ss_sid s) ->
  find_sess sid (upd_sess sid f l) = option_map f (find_sess sid l).
Proof.
  intros sid f l Hf. unfold find_sess, upd_sess. induction l as [|s r IH]; simpl; [reflexivity|].
  destruct (ss_sid s =? sid) eqn:E1.
  - rewrite Hf, E1. reflexivity.
  - rewrite E1. exact IH.
Qed.

Lemma drop_ids_nil : forall l, drop_ids [] l = l.
Proof. unfold drop_ids. induction l as [|e r IH]; [reflexivity|]. simpl. f_equal. exact IH. Qed.

Lemma del_sess_absent : forall sid l, find_sess sid l = None -> del_sess sid l = l.
Proof.
  intros sid l. unfold find_sess, del_sess. induction l as [|s r IH]; simpl; [reflexivity|].
  destruct (ss_sid s =? sid); simpl; [discriminate|]. intro H. rewrite IH by assumption. reflexivity.
Qed.

Lemma ss_sid_clear_tab : forall k s, ss_sid (clear_tab k s) = ss_sid s.
Proof. destruct k; reflexivity. Qed.

Lemma owns_clear_tab : forall k s k' id, owns (clear_tab k s) k' id = true -> owns s k' id = true /\ k' <> k.
Proof. intros k s k' id H. destruct k, k'; simpl in *; try discriminate; split; try assumption; discriminate. Qed.

Lemma owns_tab : forall s k id, owns s k id = true <-> In id (tab k s).
Proof. intros s k id. destruct k; simpl; apply memN_In. Qed.

(* clearPublishers / clearSubscribers of a session *)
Lemma InvC_clear_kind : forall nsid nobj ss cl mo pe k s0,
  InvC nsid nobj ss cl mo pe -> In s0 ss ->
  InvC nsid nobj (upd_sess (ss_sid s0) (clear_tab k) ss) (drop_ids (tab k s0) cl) (drop_ids (tab k s0) mo) pe.
Proof.
  intros nsid nobj ss cl mo pe k s0 H Hs0. destruct H.
  set (ss' := upd_sess (ss_sid s0) (clear_tab k) ss).
  assert (Hkeep : forall e, owns_entry ss e -> ~ In (e_id e) (tab k s0) -> owns_entry ss' e).
  { intros e [s [Hs [Ho Hw]]] Hn.
    exists (if ss_sid s =? ss_sid s0 then clear_tab k s else s). split; [apply upd_sess_In; assumption|].
    destruct (ss_sid s =? ss_sid s0) eqn:E; [|split; assumption].
    apply N.eqb_eq in E.
    assert (s = s0) by (apply (NoDup_map_inj ss_sid ss); auto). subst s.
    split; [rewrite ss_sid_clear_tab; exact Ho|].
    destruct k, (e_kind e) eqn:Ek; simpl in *; try exact Hw; exfalso; apply Hn; apply memN_In; exact Hw. }
  constructor; try assumption.
  - unfold ss'. rewrite sids_upd_sess; [assumption | intros; apply ss_sid_clear_tab].
  - intros s' Hs'. apply In_upd_sess in Hs'. destruct Hs' as [s [Hs [[E1 E2]|[E1 E2]]]]; subst.
    + rewrite ss_sid_clear_tab. apply inv_sid_bound0; assumption.
    + apply inv_sid_bound0; assumption.
  - intros e He. apply In_drop_ids in He. destruct He as [He Hn]. apply Hkeep; auto.
  - intros e He. apply In_drop_ids in He. destruct He as [He Hn]. apply Hkeep; auto.
  - intros s' k' id Hs' Ho. apply In_upd_sess in Hs'. destruct Hs' as [s [Hs [[E1 E2]|[E1 E2]]]]; subst s'.
    + rewrite ss_sid_clear_tab. apply owns_clear_tab in Ho. destruct Ho as [Ho Hk].
      assert (s = s0) by (apply (NoDup_map_inj ss_sid ss); auto). subst s.
      apply In_drop_ids. split; [apply inv_tab0; assumption|].
      unfold e_id; simpl. intro Hin. apply owns_tab in Hin.
      assert (Heq : (id, k', ss_sid s0) = (id, k, ss_sid s0))
        by (apply (NoDup_map_inj e_id cl); auto).
      apply Hk. congruence.
    + apply In_drop_ids. split; [apply inv_tab0; assumption|].
      unfold e_id; simpl. intro Hin. apply owns_tab in Hin.
      assert (Heq : (id, k', ss_sid s) = (id, k, ss_sid s0))
        by (apply (NoDup_map_inj e_id cl); auto).
      apply E1. congruence.
  - apply NoDup_map_filter; assumption.
  - intros e He. apply In_drop_ids in He. apply inv_fresh_c0; tauto.
  - intros p e Hp He. apply In_drop_ids in He. apply inv_pend_fresh0; tauto.
Qed.

(* what no step of a close changes: the session ids, the session counter; connections
   only lose (closed) or keep their session *)
Definition conn_le (st st' : state) : Prop :=
  forall c, cs_closed (conns st' c) = false ->
    cs_closed (conns st c) = false /\ cs_sess (conns st' c) = cs_sess (conns st c).
Definition ext (st st' : state) : Prop :=
  map ss_sid (sessions st') = map ss_sid (sessions st) /\ next_sid st' = next_sid st /\ conn_le st st'.

Lemma ext_refl : forall st, ext st st.
Proof. intros st. split; [reflexivity|]. split; [reflexivity|]. intros c H. auto. Qed.

Lemma ext_trans : forall a b c, ext a b -> ext b c -> ext a c.
Proof.
  intros a b c [H1 [H2 H3]] [G1 [G2 G3]]. split; [congruence|]. split; [congruence|].
  intros x Hx. destruct (G3 x Hx) as [Hb Hs]. destruct (H3 x Hb) as [Ha Hs']. split; [assumption | congruence].
Qed.

Lemma conn_le_upd : forall st st' c v, conns st' = upd_conn (conns st) c v ->
  (cs_closed v = false -> cs_closed (conns st c) = false /\ cs_sess v = cs_sess (conns st c)) ->
  conn_le st st'.
Proof.
  intros st st' c v Hc Hv c' Hc'. rewrite Hc in *. unfold upd_conn in *.
  destruct (c' =? c) eqn:E; [apply N.eqb_eq in E; subst c'; auto | auto].
Qed.

Definition nohello (ms : list (N * msg)) : Prop :=
  Forall (fun x => match snd x with MHello _ => False | _ => True end) ms.

Lemma nohello_send : forall st c m, match m with MHello _ => False | _ => True end -> nohello (send st c m).
Proof. intros st c m H. unfold send. destruct (cs_closed (conns st c)); constructor; [exact H | constructor]. Qed.

Lemma nohello_send_sess : forall st sid m, match m with MHello _ => False | _ => True end -> nohello (send_sess st sid m).
Proof. intros st sid m H. unfold send_sess. destruct (find_sess sid (sessions st)); [apply nohello_send; exact H | constructor]. Qed.

Lemma nohello_app : forall a b, nohello a -> nohello b -> nohello (a ++ b).
Proof. intros a b Ha Hb. apply Forall_app. split; assumption. Qed.

Section Phased.
Context (rc : bool).

Lemma mcu_done_ext : forall st tok r, ext st (fst (mcu_done rc st tok r)).
Proof.
  intros st tok r. unfold mcu_done.
  destruct (find (fun p => p_tok p =? tok) (pendings st)) as [p|]; [|apply ext_refl].
  assert (Hc : forall st', conns st' = upd_conn (conns st) (p_conn p)
             {| cs_sess := cs_sess (conns st (p_conn p)); cs_closed := cs_closed (conns st (p_conn p)); cs_busy := false |} ->
             conn_le st st').
  { intros st' E. eapply conn_le_upd; [exact E | simpl; auto]. }
  destruct r; simpl.
  - destruct (find_sess (p_sid p) (sessions st)); simpl.
    + split; [simpl; rewrite sids_upd_sess; [reflexivity | intros; apply ss_sid_remember]|].
      split; [reflexivity | apply Hc; reflexivity].
    + destruct rc; (split; [reflexivity|]; split; [reflexivity | apply Hc; reflexivity]).
  - split; [reflexivity|]. split; [reflexivity | apply Hc; reflexivity].
  - split; [reflexivity|]. split; [reflexivity | apply Hc; reflexivity].
Qed.

Lemma mcu_done_nohello : forall st tok r, nohello (msgs (snd (mcu_done rc st tok r))).
Proof.
  intros st tok r. unfold mcu_done.
  destruct (find (fun p => p_tok p =? tok) (pendings st)) as [p|]; [|constructor].
  destruct r; simpl.
  - destruct (find_sess (p_sid p) (sessions st)); simpl; [apply nohello_send_sess; exact I|].
    destruct rc; constructor.
  - apply nohello_send_sess; exact I.
  - apply nohello_send_sess; exact I.
Qed.

Lemma mcu_done_in_ext : forall canc sid st tok r, ext st (fst (mcu_done_in rc canc sid st tok r)).
Proof.
  intros canc sid st tok r. unfold mcu_done_in.
  destruct (find (fun p => p_tok p =? tok) (pendings st)) as [p|]; [|apply mcu_done_ext].
  destruct ((p_sid p =? sid) && is_ok r && canc && rc); [|apply mcu_done_ext].
  simpl. split; [reflexivity|]. split; [reflexivity|]. eapply conn_le_upd; [reflexivity | simpl; auto].
Qed.

Lemma mcu_done_in_nohello : forall canc sid st tok r, nohello (msgs (snd (mcu_done_in rc canc sid st tok r))).
Proof.
  intros canc sid st tok r. unfold mcu_done_in.
  destruct (find (fun p => p_tok p =? tok) (pendings st)) as [p|]; [|apply mcu_done_nohello].
  destruct ((p_sid p =? sid) && is_ok r && canc && rc); [constructor | apply mcu_done_nohello].
Qed.

Lemma window_ext : forall w sid sched st, ext st (fst (window rc w sid sched st)).
Proof.
  intros w sid sched. induction sched as [|[[w' tok] r] rest IH]; intros st; simpl; [apply ext_refl|].
  destruct (phase_eqb w' w); [|apply IH].
  pose proof (mcu_done_in_ext (cancelled w) sid st tok r) as H1.
  destruct (mcu_done_in rc (cancelled w) sid st tok r) as [st1 o1]. simpl in H1.
  pose proof (IH st1) as H2. destruct (window rc w sid rest st1) as [st2 m2]. simpl in *.
  eapply ext_trans; eassumption.
Qed.

Lemma window_nohello : forall w sid sched st, nohello (snd (window rc w sid sched st)).
Proof.
  intros w sid sched. induction sched as [|[[w' tok] r] rest IH]; intros st; simpl; [constructor|].
  destruct (phase_eqb w' w); [|apply IH].
  pose proof (mcu_done_in_nohello (cancelled w) sid st tok r) as H1.
  destruct (mcu_done_in rc (cancelled w) sid st tok r) as [st1 o1]. simpl in H1.
  pose proof (IH st1) as H2. destruct (window rc w sid rest st1) as [st2 m2]. simpl in *.
  apply nohello_app; assumption.
Qed.

Lemma clear_kind_ext : forall k sid st, ext st (clear_kind k sid st).
Proof.
  intros k sid st. unfold clear_kind. destruct (find_sess sid (sessions st)); [|apply ext_refl].
  split; [simpl; rewrite sids_upd_sess; [reflexivity | intros; apply ss_sid_clear_tab]|].
  split; [reflexivity|]. intros c H. auto.
Qed.

(* the close removes the session and nothing else; no session id appears *)
Lemma close_phased_sids : forall st sid r sched,
  ~ In sid (map ss_sid (sessions (fst (close_phased rc st sid r sched)))) /\
  (forall x, In x (map ss_sid (sessions (fst (close_phased rc st sid r sched)))) -> In x (map ss_sid (sessions st))) /\
  next_sid (fst (close_phased rc st sid r sched)) = next_sid st /\
  conn_le st (fst (close_phased rc st sid r sched)) /\
  nohello (snd (close_phased rc st sid r sched)).
Proof.
  intros st sid r sched. unfold close_phased.
  destruct (find_sess sid (sessions st)) as [s|] eqn:Ef.
  2:{ simpl. split; [apply find_sess_none; assumption|]. split; [auto|]. split; [reflexivity|].
      split; [intros c H; auto | constructor]. }
  set (st0 := {| next_sid := next_sid st; next_obj := next_obj st; sessions := sessions st;
                 conns := upd_conn (conns st) (ss_conn s) {| cs_sess := None; cs_closed := true; cs_busy := cs_busy (conns st (ss_conn s)) |};
                 clients := clients st; mopen := mopen st; pendings := pendings st |}).
  assert (H0 : ext st st0).
  { split; [reflexivity|]. split; [reflexivity|]. eapply conn_le_upd; [reflexivity | simpl; discriminate]. }
  pose proof (window_ext PhList sid sched st0) as H1. pose proof (window_nohello PhList sid sched st0) as N1.
  destruct (window rc PhList sid sched st0) as [st1 m1]. simpl in H1, N1.
  pose proof (window_ext PhCtx sid sched st1) as H2. pose proof (window_nohello PhCtx sid sched st1) as N2.
  destruct (window rc PhCtx sid sched st1) as [st2 m2]. simpl in H2, N2.
  pose proof (clear_kind_ext Pub sid st2) as H2'.
  pose proof (window_ext PhPubs sid sched (clear_kind Pub sid st2)) as H3. pose proof (window_nohello PhPubs sid sched (clear_kind Pub sid st2)) as N3.
  destruct (window rc PhPubs sid sched (clear_kind Pub sid st2)) as [st3 m3]. simpl in H3, N3.
  pose proof (clear_kind_ext Sub sid st3) as H3'.
  pose proof (window_ext PhSubs sid sched (clear_kind Sub sid st3)) as H4. pose proof (window_nohello PhSubs sid sched (clear_kind Sub sid st3)) as N4.
  destruct (window rc PhSubs sid sched (clear_kind Sub sid st3)) as [st4 m4]. simpl in H4, N4.
  pose proof (window_ext PhRemote sid sched st4) as H5. pose proof (window_nohello PhRemote sid sched st4) as N5.
  destruct (window rc PhRemote sid sched st4) as [st5 m5]. simpl in H5, N5.
  assert (H : ext st st5).
  { eapply ext_trans; [exact H0|]. eapply ext_trans; [exact H1|]. eapply ext_trans; [exact H2|].
    eapply ext_trans; [exact H2'|]. eapply ext_trans; [exact H3|]. eapply ext_trans; [exact H3'|].
    eapply ext_trans; [exact H4 | exact H5]. }
  destruct H as [G1 [G2 G3]]. simpl.
  split; [apply del_sess_gone|].
  split; [intros x Hx; apply sids_del_sess_incl in Hx; rewrite G1 in Hx; exact Hx|].
  split; [exact G2|]. split; [exact G3|].
  apply nohello_app; [apply nohello_send; exact I|].
  repeat (apply nohello_app; [assumption|]). assumption.
Qed.

End Phased.

(* the repaired code: every step inside the close keeps the invariant (the session being
   closed still counts as a session until the last step), and what was cleared stays empty *)
Definition tab_empty (k : kind) (sid : N) (st : state) : Prop :=
  forall s, find_sess sid (sessions st) = Some s -> tab k s = [].

Lemma Inv_unpend : forall st p, Inv st -> Inv (unpend st p).
Proof. intros st p H. unfold Inv, unpend; simpl. apply InvC_unpend; assumption. Qed.

Lemma clear_kind_empties : forall k sid st, tab_empty k sid (clear_kind k sid st).
Proof.
  intros k sid st s. unfold clear_kind. destruct (find_sess sid (sessions st)) as [s0|] eqn:E; simpl.
  - rewrite find_sess_upd_same by (intros; apply ss_sid_clear_tab). rewrite E. simpl.
    intro H. inversion H. destruct k; reflexivity.
  - rewrite E. discriminate.
Qed.

Lemma clear_kind_keeps : forall k k' sid st, tab_empty k sid st -> tab_empty k sid (clear_kind k' sid st).
Proof.
  intros k k' sid st H s. unfold clear_kind. destruct (find_sess sid (sessions st)) as [s0|] eqn:E; simpl.
  - rewrite find_sess_upd_same by (intros; apply ss_sid_clear_tab). rewrite E. simpl.
    intro H1. inversion H1. pose proof (H s0 E) as H0. destruct k, k'; simpl in *; auto.
  - intro H1. apply H. exact H1.
Qed.

Lemma Inv_clear_kind : forall k sid st, Inv st -> Inv (clear_kind k sid st).
Proof.
  intros k sid st H. unfold clear_kind. destruct (find_sess sid (sessions st)) as [s|] eqn:E; [|assumption].
  apply find_sess_some in E. destruct E as [Hin Hsid]. unfold Inv; simpl. rewrite <- Hsid.
  apply InvC_clear_kind; assumption.
Qed.

(* ---- every operation of the repaired model keeps the invariant ------------------------ *)
Section Steps.
Context (sv : string -> N -> N -> N -> bool).
Context (keys : N -> option N).
Notation stepT := (step sv keys true).

Lemma Inv_close_session : forall st sid r, Inv st -> Inv (fst (close_session st sid r)).
Proof.
  intros st sid r H. unfold close_session.
  destruct (find_sess sid (sessions st)) as [s|] eqn:E; simpl; [|assumption].
  apply find_sess_some in E. destruct E as [Hin Hsid]. unfold Inv; simpl.
  rewrite <- Hsid. apply InvC_close; assumption.
Qed.

Lemma Inv_delete : forall st c sid k id, Inv st -> Inv (fst (delete st c sid k id)).
Proof.
  intros st c sid k id H. unfold delete.
  destruct (find_entry id (clients st)) as [e|]; simpl; [|assumption].
  destruct (kind_eqb (e_kind e) k); simpl; [|assumption].
  destruct (find_sess sid (sessions st)) as [s|] eqn:E; simpl; [|assumption].
  destruct (owns s k id) eqn:Eo; simpl; [|assumption].
  apply find_sess_some in E. destruct E as [Hin Hsid].
  unfold Inv; simpl. apply (InvC_delete _ _ _ _ _ _ _ _ _ s); assumption.
Qed.

Lemma Inv_mcu_done : forall st tok r, Inv st -> Inv (fst (mcu_done true st tok r)).
Proof.
  intros st tok r H. unfold mcu_done.
  destruct (find (fun p => p_tok p =? tok) (pendings st)) as [p|] eqn:E; simpl; [|assumption].
  apply find_some in E. destruct E as [Hp Ht]. apply N.eqb_eq in Ht.
  destruct r; simpl.
  - destruct (find_sess (p_sid p) (sessions st)) as [s0|] eqn:Es; simpl.
    + apply find_sess_some in Es. destruct Es as [Hin Hsid].
      unfold Inv; simpl. rewrite <- Ht. apply (InvC_store _ _ _ _ _ _ _ s0); assumption.
    + unfold Inv; simpl. apply InvC_unpend; assumption.
  - unfold Inv; simpl. apply InvC_unpend; assumption.
  - unfold Inv; simpl. apply InvC_unpend; assumption.
Qed.


Lemma Inv_mcu_done_in : forall canc sid st tok r, Inv st -> Inv (fst (mcu_done_in true canc sid st tok r)).
Proof.
  intros canc sid st tok r H. unfold mcu_done_in.
  destruct (find (fun p => p_tok p =? tok) (pendings st)) as [p|] eqn:E; [|apply Inv_mcu_done; assumption].
  destruct ((p_sid p =? sid) && is_ok r && canc && true); [|apply Inv_mcu_done; assumption].
  simpl. apply find_some in E. destruct E as [_ Ht]. apply N.eqb_eq in Ht.
  unfold Inv, unpend; simpl. apply InvC_unpend; assumption.
Qed.

Lemma mcu_done_in_keeps : forall k sid st tok r,
  tab_empty k sid st -> tab_empty k sid (fst (mcu_done_in true true sid st tok r)).
Proof.
  intros k sid st tok r H. unfold mcu_done_in.
  destruct (find (fun p => p_tok p =? tok) (pendings st)) as [p|] eqn:E.
  2:{ unfold mcu_done. rewrite E. exact H. }
  destruct ((p_sid p =? sid) && is_ok r) eqn:Eo; simpl; [exact H|].
  unfold mcu_done. rewrite E. destruct r; simpl; try exact H.
  destruct (find_sess (p_sid p) (sessions st)); simpl; [|exact H].
  rewrite andb_true_r in Eo. apply N.eqb_neq in Eo.
  intros s1 Hs. simpl in Hs. rewrite find_sess_upd_other in Hs; [apply H; exact Hs | exact Eo | intros; apply ss_sid_remember].
Qed.

Lemma Inv_window : forall w sid sched st, Inv st -> Inv (fst (window true w sid sched st)).
Proof.
  intros w sid sched. induction sched as [|[[w' tok] r] rest IH]; intros st H; simpl; [assumption|].
  destruct (phase_eqb w' w); [|apply IH; assumption].
  pose proof (Inv_mcu_done_in (cancelled w) sid st tok r H) as H1.
  destruct (mcu_done_in true (cancelled w) sid st tok r) as [st1 o1]. simpl in H1.
  pose proof (IH st1 H1) as H2. destruct (window true w sid rest st1) as [st2 m2]. exact H2.
Qed.

Lemma window_keeps : forall k w sid sched st, cancelled w = true ->
  tab_empty k sid st -> tab_empty k sid (fst (window true w sid sched st)).
Proof.
  intros k w sid sched st Hw. revert st. induction sched as [|[[w' tok] r] rest IH]; intros st H; simpl; [assumption|].
  destruct (phase_eqb w' w); [|apply IH; assumption].
  rewrite Hw. pose proof (mcu_done_in_keeps k sid st tok r H) as H1.
  destruct (mcu_done_in true true sid st tok r) as [st1 o1]. simpl in H1.
  pose proof (IH st1 H1) as H2. destruct (window true w sid rest st1) as [st2 m2]. exact H2.
Qed.

Lemma Inv_close_phased : forall st sid r sched, Inv st -> Inv (fst (close_phased true st sid r sched)).
Proof.
  intros st sid r sched H. unfold close_phased.
  destruct (find_sess sid (sessions st)) as [s|] eqn:Ef; [|exact H].
  set (st0 := {| next_sid := next_sid st; next_obj := next_obj st; sessions := sessions st;
                 conns := upd_conn (conns st) (ss_conn s) {| cs_sess := None; cs_closed := true; cs_busy := cs_busy (conns st (ss_conn s)) |};
                 clients := clients st; mopen := mopen st; pendings := pendings st |}).
  assert (H0 : Inv st0) by exact H.
  pose proof (Inv_window PhList sid sched st0 H0) as H1.
  destruct (window true PhList sid sched st0) as [st1 m1]. simpl in H1.
  pose proof (Inv_window PhCtx sid sched st1 H1) as H2.
  destruct (window true PhCtx sid sched st1) as [st2 m2]. simpl in H2.
  pose proof (Inv_window PhPubs sid sched _ (Inv_clear_kind Pub sid st2 H2)) as H3.
  pose proof (window_keeps Pub PhPubs sid sched _ eq_refl (clear_kind_empties Pub sid st2)) as P3.
  destruct (window true PhPubs sid sched (clear_kind Pub sid st2)) as [st3 m3]. simpl in H3, P3.
  pose proof (Inv_window PhSubs sid sched _ (Inv_clear_kind Sub sid st3 H3)) as H4.
  pose proof (window_keeps Pub PhSubs sid sched _ eq_refl (clear_kind_keeps Pub Sub sid st3 P3)) as P4.
  pose proof (window_keeps Sub PhSubs sid sched _ eq_refl (clear_kind_empties Sub sid st3)) as S4.
  destruct (window true PhSubs sid sched (clear_kind Sub sid st3)) as [st4 m4]. simpl in H4, P4, S4.
  pose proof (Inv_window PhRemote sid sched st4 H4) as H5.
  pose proof (window_keeps Pub PhRemote sid sched st4 eq_refl P4) as P5.
  pose proof (window_keeps Sub PhRemote sid sched st4 eq_refl S4) as S5.
  destruct (window true PhRemote sid sched st4) as [st5 m5]. simpl in H5, P5, S5.
  simpl. unfold Inv; simpl.
  destruct (find_sess sid (sessions st5)) as [s5|] eqn:E5.
  - pose proof (P5 s5 E5) as Hp. pose proof (S5 s5 E5) as Hs. simpl in Hp, Hs.
    apply find_sess_some in E5. destruct E5 as [Hin Hsid].
    pose proof (InvC_close _ _ _ _ _ _ s5 H5 Hin) as Hc.
    rewrite Hp, Hs, Hsid in Hc. simpl in Hc. rewrite !drop_ids_nil in Hc. exact Hc.
  - rewrite del_sess_absent by assumption. exact H5.
Qed.

Lemma Inv_step : forall st o, Inv st -> Inv (fst (stepT st o)).
Proof.
  intros st o H. destruct o as [c now t | c sid | c | c k | c id p | c | c | c b | c | sid | | tok r | c sched | sid sched]; simpl; unfold on_conn;
    try (destruct (cs_closed (conns st c) || cs_busy (conns st c)); [exact H|]);
    try (destruct (cs_sess (conns st c)) as [sid0|]; simpl; try exact H).
  - (* hello *)
    destruct (check_token sv keys now t); simpl; [exact H|].
    unfold Inv; simpl. apply InvC_hello; assumption.
  - (* resume *)
    destruct (find_sess sid (sessions st)) as [s|]; simpl; [|exact H].
    unfold Inv; simpl. apply InvC_upd_same; [reflexivity | intros s1 k1 id1; destruct k1; reflexivity | assumption].
  - (* command *)
    destruct k; simpl; try exact H.
    + unfold Inv; simpl. apply InvC_create; assumption.
    + unfold Inv; simpl. apply InvC_create; assumption.
    + unfold Inv; simpl. apply InvC_create; assumption.
    + apply Inv_delete; assumption.
    + apply Inv_delete; assumption.
    + destruct (find_entry id (clients st)) as [e|]; [destruct (kind_eqb (e_kind e) Pub)|]; exact H.
  - (* payload *)
    unfold payload. destruct (find_entry id (clients st)); [destruct p|]; exact H.
  - (* bye *)
    pose proof (Inv_close_session st sid0 RClosed H) as Hc.
    destruct (close_session st sid0 RClosed). exact Hc.
  - (* drop *)
    destruct (cs_closed (conns st c)); exact H.
  - destruct (cs_closed (conns st c)); exact H.
  - (* expire *)
    pose proof (Inv_close_session st sid RExpired H) as Hc.
    destruct (close_session st sid RExpired). exact Hc.
  - (* media server lost *)
    unfold Inv; simpl. apply InvC_mculost; assumption.
  - (* creation completes *)
    apply Inv_mcu_done; assumption.
  - (* bye, the close in phases *)
    pose proof (Inv_close_phased st sid0 RClosed sched H) as Hc.
    destruct (close_phased true st sid0 RClosed sched). exact Hc.
  - (* expiry, the close in phases *)
    pose proof (Inv_close_phased st sid RExpired sched H) as Hc.
    destruct (close_phased true st sid RExpired sched). exact Hc.
Qed.

Definition run (ops : list op) : state := fold_left (fun st o => fst (stepT st o)) ops init.

Lemma Inv_run : forall ops, Inv (run ops).
Proof.
  intros ops. unfold run. assert (H : Inv init) by apply Inv_init. revert H. generalize init.
  induction ops as [|o r IH]; intros st H; simpl; [assumption|]. apply IH. apply Inv_step; assumption.
Qed.

End Steps.

(* ---- the trace predicate holds on every trace of the repaired model -------------------- *)
Section Simulation.
Context (sv : string -> N -> N -> N -> bool).
Context (keys : N -> option N).
Notation stepT := (step sv keys true).

(* what P_C18 remembers is consistent with the model state *)
Definition bind_ok (st : state) (b : bindings) : Prop :=
  forall c, cs_closed (conns st c) = false -> bound b c = cs_sess (conns st c).

Definition pobs (st : state) : obs := obs_of st {| applied := true; msgs := [] |}.

Definition tables (prev : obs) (st : state) : Prop :=
  ob_sessions prev = ob_sessions (pobs st) /\ ob_clients prev = clients st /\
  ob_open prev = mopen st /\ ob_pending prev = ob_pending (pobs st).

Lemma chk_step_prev : forall b prev st o ob,
  tables prev st -> chk_step sv keys b prev o ob = chk_step sv keys b (pobs st) o ob.
Proof.
  intros b prev st o ob [H1 [H2 [H3 H4]]].
  unfold chk_step, chk_sessions, chk_prehello, chk_cleanup, chk_ids, same_state, sids.
  rewrite H1, H2, H3, H4. reflexivity.
Qed.

Lemma sids_obs : forall st out, sids (obs_of st out) = map ss_sid (sessions st).
Proof. intros. unfold sids, obs_of; simpl. rewrite map_map. reflexivity. Qed.

Lemma new_sids_nil : forall (l l' : list N), (forall x, In x l' -> In x l) ->
  filter (fun s => negb (memN s l)) l' = [].
Proof.
  intros l l' H. induction l' as [|x r IH]; simpl; [reflexivity|].
  assert (Hx : memN x l = true) by (apply memN_In; apply H; left; reflexivity).
  rewrite Hx. simpl. apply IH. intros y Hy. apply H. right; assumption.
Qed.

Lemma owners_live : forall st out, Inv st ->
  forallb (fun e => memN (e_owner e) (sids (obs_of st out)))
          (ob_clients (obs_of st out) ++ ob_open (obs_of st out)) = true.
Proof.
  intros st out H. rewrite sids_obs. simpl. apply forallb_forall. intros e He.
  apply memN_In. apply in_app_iff in He.
  assert (Ho : owns_entry (sessions st) e).
  { destruct H. destruct He; auto. }
  destruct Ho as [s [Hs [Hsid _]]]. apply in_map_iff. exists s. tauto.
Qed.

Lemma open_owned : forall st out, Inv st ->
  forallb (owned_in (ob_sessions (obs_of st out))) (ob_open (obs_of st out)) = true.
Proof.
  intros st out H. apply forallb_forall. intros e He. simpl in He.
  destruct H. destruct (inv_own_m0 e He) as [s [Hs [Hsid Hw]]].
  unfold owned_in. apply existsb_exists. exists (ss_sid s, ss_pubs s, ss_subs s). split.
  - simpl. apply in_map_iff. exists s. split; [reflexivity | assumption].
  - simpl. rewrite Hsid, N.eqb_refl. simpl. unfold owns in Hw. destruct (e_kind e); exact Hw.
Qed.

Lemma send_open : forall st c m, cs_closed (conns st c) = false -> send st c m = [(c, m)].
Proof. intros st c m H. unfold send. rewrite H. reflexivity. Qed.

Definition not_hello (m : msg) : Prop := match m with MHello _ => False | _ => True end.

Lemma hello_sids_send : forall st c m, not_hello m -> hello_sids (send st c m) = [].
Proof. intros st c m H. unfold send. destruct (cs_closed (conns st c)); [reflexivity|]. destruct m; simpl in *; tauto. Qed.

Lemma hello_sids_send_sess : forall st sid m, not_hello m -> hello_sids (send_sess st sid m) = [].
Proof. intros st sid m H. unfold send_sess. destruct (find_sess sid (sessions st)); [apply hello_sids_send; assumption | reflexivity]. Qed.

Lemma bind_step_send : forall b st c m, not_hello m -> bind_step b (send st c m) = b.
Proof. intros b st c m H. unfold send, bind_step. destruct (cs_closed (conns st c)); [reflexivity|]. destruct m; simpl in *; tauto. Qed.

Lemma bind_step_send_sess : forall b st sid m, not_hello m -> bind_step b (send_sess st sid m) = b.
Proof. intros b st sid m H. unfold send_sess. destruct (find_sess sid (sessions st)); [apply bind_step_send; assumption | reflexivity]. Qed.

Lemma pobs_same : forall st out, same_state (pobs st) (obs_of st out) = true.
Proof. intros. apply same_state_refl; reflexivity. Qed.

Lemma find_entry_mem : forall id l e, find_entry id l = Some e -> memN id (ids l) = true.
Proof.
  intros id l e H. apply find_entry_some in H. destruct H as [H1 H2]. apply memN_In.
  unfold ids. apply in_map_iff. exists e. tauto.
Qed.

(* the connection an operation is a message of *)
Definition conn_of (o : op) : option N :=
  match o with
  | OHello c _ _ | OResume c _ | OResumeBad c | OCmd c _ | OPayload c _ _ | OBye c
  | OUnknownType c | OMalformed c _ | OByeIn c _ => Some c
  | _ => None
  end.

(* an operation that was not executed *)
Lemma skip_ok : forall st b o,
  chk_step sv keys b (pobs st) o (obs_of st {| applied := false; msgs := [] |}) = true.
Proof. intros. unfold chk_step. simpl. apply pobs_same. Qed.

(* an operation that is answered with an error and changes nothing *)
Lemma err_ok : forall st b o c e, Inv st ->
  conn_of o = Some c -> match o with OBye c' | OByeIn c' _ => bound b c' = None | _ => True end ->
  chk_step sv keys b (pobs st) o (obs_of st {| applied := true; msgs := [(c, MErr e)] |}) = true.
Proof.
  intros st b o c e HI Hc Hbye. unfold chk_step. cbn [ob_applied obs_of applied].
  assert (Hnew : filter (fun s => negb (memN s (sids (pobs st)))) (sids (obs_of st {| applied := true; msgs := [(c, MErr e)] |})) = []).
  { apply new_sids_nil. intros x Hx. rewrite sids_obs in Hx. unfold pobs. rewrite sids_obs. exact Hx. }
  apply andb_true_iff; split; [apply andb_true_iff; split; [apply andb_true_iff; split|]|].
  - unfold chk_sessions. rewrite Hnew. destruct o; reflexivity.
  - unfold chk_prehello. destruct o; simpl in Hc; try discriminate; inversion Hc; subst; simpl; try reflexivity;
      destruct (bound b c); try reflexivity; rewrite N.eqb_refl; simpl; apply pobs_same.
  - unfold chk_cleanup. rewrite owners_live by assumption. rewrite open_owned by assumption.
    destruct o; simpl in Hc; try discriminate; try reflexivity; simpl in Hbye; rewrite Hbye; reflexivity.
  - unfold chk_ids. destruct (named_id o) as [[c1 id]|] eqn:En; [|reflexivity].
    assert (c1 = c) by (destruct o as [| | |? k| | | | | | | | | |]; simpl in *; try discriminate; [destruct k|]; simpl in *; congruence).
    subst c1. cbn [ob_msgs obs_of msgs ob_clients ob_open]. 
    assert (Herr : only_errors_to c [(c, MErr e)] = true) by (simpl; rewrite N.eqb_refl; reflexivity).
    rewrite Herr. apply andb_true_iff. split; [destruct (memN id (ids (ob_clients (pobs st)))); reflexivity|].
    destruct (is_delete o); [|reflexivity].
    simpl. rewrite !andb_negb_r. simpl. unfold cmsg_eqb. simpl. rewrite andb_false_r. reflexivity.
Qed.

Lemma chk_sessions_quiet : forall st st' o out,
  (forall x, In x (map ss_sid (sessions st')) -> In x (map ss_sid (sessions st))) ->
  hello_sids (msgs out) = [] ->
  chk_sessions sv keys (pobs st) o (obs_of st' out) = true.
Proof.
  intros st st' o out Hs Hh. unfold chk_sessions.
  rewrite new_sids_nil by (intros x Hx; rewrite sids_obs in Hx; unfold pobs; rewrite sids_obs; auto).
  cbn [ob_msgs obs_of]. rewrite Hh. destruct o; reflexivity.
Qed.

Lemma chk_cleanup_plain : forall st' b prev o out, Inv st' ->
  match o with OMcuLost | OBye _ | OExpire _ | OByeIn _ _ | OExpireIn _ _ => False | _ => True end ->
  chk_cleanup b prev o (obs_of st' out) = true.
Proof.
  intros st' b prev o out HI Ho. unfold chk_cleanup. rewrite owners_live by assumption. rewrite open_owned by assumption.
  destruct o; try reflexivity; contradiction.
Qed.

Lemma upd_conn_same : forall f c v, upd_conn f c v c = v.
Proof. intros. unfold upd_conn. rewrite N.eqb_refl. reflexivity. Qed.
Lemma upd_conn_other : forall f c v c', c' <> c -> upd_conn f c v c' = f c'.
Proof. intros f c v c' H. unfold upd_conn. apply N.eqb_neq in H. rewrite H. reflexivity. Qed.

Lemma bind_ok_upd : forall st st' b c v,
  conns st' = upd_conn (conns st) c v -> bind_ok st b ->
  (cs_closed v = false -> cs_closed (conns st c) = false /\ cs_sess v = cs_sess (conns st c)) ->
  bind_ok st' b.
Proof.
  intros st st' b c v Hc Hb Hv c' Hc'. rewrite Hc in *.
  destruct (N.eq_dec c' c) as [E|E].
  - subst c'. rewrite upd_conn_same in *. destruct (Hv Hc') as [H1 H2]. rewrite H2. apply Hb; assumption.
  - rewrite upd_conn_other in * by assumption. apply Hb; assumption.
Qed.

Lemma bind_ok_conns : forall st st' b, conns st' = conns st -> bind_ok st b -> bind_ok st' b.
Proof. intros st st' b Hc Hb c' Hc'. rewrite Hc in *. apply Hb; assumption. Qed.

Lemma bound_cons_same : forall b c s, bound ((c, s) :: b) c = Some s.
Proof. intros. simpl. rewrite N.eqb_refl. reflexivity. Qed.
Lemma bound_cons_other : forall b c s c', c' <> c -> bound ((c, s) :: b) c' = bound b c'.
Proof. intros b c s c' H. simpl. apply N.eqb_neq in H. rewrite N.eqb_sym, H. reflexivity. Qed.

Lemma hello_sids_flat : forall st (l : list sess) m, not_hello m ->
  hello_sids (flat_map (fun s => send st (ss_conn s) m) l) = [].
Proof.
  intros st l m H. induction l as [|s r IH]; simpl; [reflexivity|].
  unfold hello_sids in *. rewrite flat_map_app. fold (hello_sids (send st (ss_conn s) m)).
  rewrite hello_sids_send by assumption. simpl. exact IH.
Qed.

Lemma bind_step_flat : forall b st (l : list sess) m, not_hello m ->
  bind_step b (flat_map (fun s => send st (ss_conn s) m) l) = b.
Proof.
  intros b st l m H. unfold bind_step. induction l as [|s r IH]; simpl; [reflexivity|].
  rewrite flat_map_app, <- app_assoc, IH.
  change (bind_step b (send st (ss_conn s) m) = b). apply bind_step_send; assumption.
Qed.

Lemma forallb_const_true : forall {A} (l : list A), forallb (fun _ => true) l = true.
Proof. induction l; simpl; auto. Qed.

Ltac four := apply andb_true_iff; split; [apply andb_true_iff; split; [apply andb_true_iff; split|]|].

(* close_session, as used by bye and expiry *)
Lemma close_ok : forall st b sid r o, Inv st -> bind_ok st b ->
  match o with
  | OBye c => cs_closed (conns st c) = false /\ cs_sess (conns st c) = Some sid
  | OExpire s => s = sid
  | _ => False
  end ->
  let st' := fst (close_session st sid r) in
  let out := {| applied := true; msgs := snd (close_session st sid r) |} in
  Inv st' ->
  chk_step sv keys b (pobs st) o (obs_of st' out) = true /\ bind_ok st' (bind_step b (msgs out)).
Proof.
  intros st b sid r o HI Hb Ho st' out HI'.
  assert (Hgone : ~ In sid (map ss_sid (sessions st'))).
  { unfold st', close_session. destruct (find_sess sid (sessions st)) eqn:E; simpl.
    - apply del_sess_gone.
    - apply find_sess_none; assumption. }
  assert (Hincl : forall x, In x (map ss_sid (sessions st')) -> In x (map ss_sid (sessions st))).
  { unfold st', close_session. destruct (find_sess sid (sessions st)) eqn:E; simpl; [apply sids_del_sess_incl | auto]. }
  assert (Hmsgs : hello_sids (msgs out) = [] /\ bind_step b (msgs out) = b).
  { unfold out, close_session. destruct (find_sess sid (sessions st)) eqn:E; simpl; [|split; reflexivity].
    split; [apply hello_sids_send | apply bind_step_send]; exact I. }
  destruct Hmsgs as [Hm1 Hm2]. split.
  - unfold chk_step. cbn [ob_applied obs_of applied out]. four.
    + apply chk_sessions_quiet; assumption.
    + unfold chk_prehello. destruct o; try contradiction; simpl; [|reflexivity].
      destruct Ho as [Ho1 Ho2]. rewrite (Hb c Ho1), Ho2. reflexivity.
    + unfold chk_cleanup. rewrite owners_live by assumption. rewrite open_owned by assumption. rewrite sids_obs.
      apply memN_false in Hgone.
      destruct o; try contradiction; simpl.
      * destruct Ho as [Ho1 Ho2]. rewrite (Hb c Ho1), Ho2, Hgone. reflexivity.
      * subst. rewrite Hgone. reflexivity.
    + unfold chk_ids. destruct o; try contradiction; reflexivity.
  - rewrite Hm2. unfold st', close_session. destruct (find_sess sid (sessions st)) as [s|] eqn:E; simpl; [|exact Hb].
    eapply bind_ok_upd; [reflexivity | exact Hb | simpl; discriminate].
Qed.


(* the close of a session, atomic or in phases: what the predicate needs to know about it *)
Lemma nohello_quiet : forall ms, nohello ms -> hello_sids ms = [] /\ forall b, bind_step b ms = b.
Proof.
  intros ms H. unfold hello_sids, bind_step. induction H as [|x l Hx Hl IH]; simpl; [auto|].
  destruct IH as [IH1 IH2]. destruct x as [c m]. destruct m; simpl in *; try contradiction; auto.
Qed.

Lemma close_gen_ok : forall st b sid o st' ms, Inv st -> bind_ok st b ->
  match o with
  | OBye c | OByeIn c _ => cs_closed (conns st c) = false /\ cs_sess (conns st c) = Some sid
  | OExpire s | OExpireIn s _ => s = sid
  | _ => False
  end ->
  Inv st' -> ~ In sid (map ss_sid (sessions st')) ->
  (forall x, In x (map ss_sid (sessions st')) -> In x (map ss_sid (sessions st))) ->
  nohello ms -> conn_le st st' ->
  chk_step sv keys b (pobs st) o (obs_of st' {| applied := true; msgs := ms |}) = true /\
  bind_ok st' (bind_step b ms).
Proof.
  intros st b sid o st' ms HI Hb Ho HI' Hgone Hincl Hnh Hle.
  destruct (nohello_quiet ms Hnh) as [Hm1 Hm2]. split.
  - unfold chk_step. cbn [ob_applied obs_of applied]. four.
    + apply chk_sessions_quiet; assumption.
    + unfold chk_prehello. destruct o; try contradiction; simpl; try reflexivity;
        destruct Ho as [Ho1 Ho2]; rewrite (Hb _ Ho1), Ho2; reflexivity.
    + unfold chk_cleanup. rewrite owners_live by assumption. rewrite open_owned by assumption. rewrite sids_obs.
      apply memN_false in Hgone.
      destruct o; try contradiction; simpl.
      * destruct Ho as [Ho1 Ho2]. rewrite (Hb _ Ho1), Ho2, Hgone. reflexivity.
      * subst. rewrite Hgone. reflexivity.
      * destruct Ho as [Ho1 Ho2]. rewrite (Hb _ Ho1), Ho2, Hgone. reflexivity.
      * subst. rewrite Hgone. reflexivity.
    + unfold chk_ids. destruct o; try contradiction; reflexivity.
  - rewrite Hm2. intros c Hc. destruct (Hle c Hc) as [H1 H2]. rewrite H2. apply Hb; assumption.
Qed.

Lemma phased_ok : forall st b sid r sched o, Inv st -> bind_ok st b ->
  match o with
  | OByeIn c _ => cs_closed (conns st c) = false /\ cs_sess (conns st c) = Some sid
  | OExpireIn s _ => s = sid
  | _ => False
  end ->
  Inv (fst (close_phased true st sid r sched)) ->
  chk_step sv keys b (pobs st) o (obs_of (fst (close_phased true st sid r sched))
                                   {| applied := true; msgs := snd (close_phased true st sid r sched) |}) = true /\
  bind_ok (fst (close_phased true st sid r sched)) (bind_step b (snd (close_phased true st sid r sched))).
Proof.
  intros st b sid r sched o HI Hb Ho HI'.
  destruct (close_phased_sids true st sid r sched) as [G1 [G2 [_ [G4 G5]]]].
  apply (close_gen_ok st b sid o); try assumption.
  destruct o; try contradiction; exact Ho.
Qed.

(* a reply to a welcomed connection naming an id that resolves; state unchanged
   (get-publisher-streams, payload) *)
Lemma reply_ok : forall st b o c m id e s, Inv st ->
  named_id o = Some (c, id) -> is_delete o = false -> client_msg_conn o = Some c ->
  bound b c = Some s -> find_entry id (clients st) = Some e -> not_hello m ->
  chk_step sv keys b (pobs st) o (obs_of st {| applied := true; msgs := [(c, m)] |}) = true.
Proof.
  intros st b o c m id e s HI Hn Hd Hc Hbd Hf Hm. unfold chk_step. cbn [ob_applied obs_of applied]. four.
  - apply chk_sessions_quiet; [auto|]. destruct m; simpl in *; tauto.
  - unfold chk_prehello. rewrite Hc, Hbd. reflexivity.
  - apply chk_cleanup_plain; [assumption|].
    destruct o; simpl in Hn; try discriminate; exact I.
  - unfold chk_ids. rewrite Hn, Hd. cbn [ob_clients pobs obs_of].
    rewrite (find_entry_mem _ _ _ Hf). reflexivity.
Qed.

(* delete-publisher / delete-subscriber *)
Lemma delete_ok : forall st b c sid k id o, Inv st -> bind_ok st b ->
  cs_closed (conns st c) = false -> cs_sess (conns st c) = Some sid ->
  o = OCmd c (match k with Pub => CDeletePub id | Sub => CDeleteSub id end) ->
  Inv (fst (delete st c sid k id)) ->
  chk_step sv keys b (pobs st) o (obs_of (fst (delete st c sid k id)) (snd (delete st c sid k id))) = true /\
  bind_ok (fst (delete st c sid k id)) (bind_step b (msgs (snd (delete st c sid k id)))).
Proof.
  intros st b c sid k id o HI Hb Ecl Es Ho HI'.
  assert (Hbc : bound b c = Some sid) by (rewrite (Hb c Ecl); exact Es).
  assert (Hconn : conn_of o = Some c) by (subst o; reflexivity).
  assert (Hnb : match o with OBye c' | OByeIn c' _ => bound b c' = None | _ => True end) by (subst o; exact I).
  unfold delete in *.
  destruct (find_entry id (clients st)) as [e|] eqn:Ef; simpl in *;
    [| rewrite send_open by assumption; split; [apply err_ok; assumption | exact Hb]].
  destruct (kind_eqb (e_kind e) k) eqn:Ek; simpl in *;
    [| rewrite send_open by assumption; split; [apply err_ok; assumption | exact Hb]].
  destruct (find_sess sid (sessions st)) as [s|] eqn:Efs; simpl in *;
    [| rewrite send_open by assumption; split; [apply err_ok; assumption | exact Hb]].
  destruct (owns s k id) eqn:Eo; simpl in *;
    [| rewrite send_open by assumption; split; [apply err_ok; assumption | exact Hb]].
  rewrite send_open by assumption. split; [|eapply bind_ok_conns; [reflexivity | exact Hb]].
  (* the object belongs to the asking session *)
  apply find_sess_some in Efs. destruct Efs as [Hin Hsid].
  assert (Hent : find_entry id (clients st) = Some (id, k, sid)).
  { destruct HI. apply find_entry_unique; [assumption | | reflexivity].
    rewrite <- Hsid. apply inv_tab0; assumption. }
  unfold chk_step. cbn [ob_applied obs_of applied]. four.
  - apply chk_sessions_quiet; [|reflexivity]. simpl.
    rewrite sids_upd_sess; [auto | intros; apply ss_sid_forget].
  - unfold chk_prehello. subst o. destruct k; simpl; rewrite Hbc; reflexivity.
  - apply chk_cleanup_plain; [assumption|]. subst o. destruct k; exact I.
  - unfold chk_ids. subst o.
    assert (Hmem : memN id (ids (ob_clients (pobs st))) = true) by (apply (find_entry_mem _ _ _ Hent)).
    destruct k; cbn [named_id is_delete]; rewrite Hmem; cbn [andb];
      cbn [ob_clients pobs obs_of]; rewrite Hent, Hbc; simpl; rewrite N.eqb_refl;
      match goal with |- (if ?x then true else true) = true => destruct x; reflexivity end.
Qed.

(* the continuation of a creation *)
Lemma mcu_done_ok : forall st b tok r, Inv st -> bind_ok st b ->
  Inv (fst (mcu_done true st tok r)) ->
  chk_step sv keys b (pobs st) (OMcuDone tok r)
     (obs_of (fst (mcu_done true st tok r)) (snd (mcu_done true st tok r))) = true /\
  bind_ok (fst (mcu_done true st tok r)) (bind_step b (msgs (snd (mcu_done true st tok r)))).
Proof.
  intros st b tok r HI Hb HI'.
  assert (Hmain : forall st' out, Inv st' ->
            (forall x, In x (map ss_sid (sessions st')) -> In x (map ss_sid (sessions st))) ->
            hello_sids (msgs out) = [] -> applied out = true ->
            chk_step sv keys b (pobs st) (OMcuDone tok r) (obs_of st' out) = true).
  { intros st' out Hi Hs Hh Ha. unfold chk_step. cbn [ob_applied obs_of]. rewrite Ha. four.
    - apply chk_sessions_quiet; assumption.
    - reflexivity.
    - apply chk_cleanup_plain; [assumption | exact I].
    - reflexivity. }
  unfold mcu_done in *.
  destruct (find (fun p => p_tok p =? tok) (pendings st)) as [p|] eqn:E; simpl in *.
  2: { split; [apply Hmain; auto | exact Hb]. }
  destruct r; simpl in *.
  - destruct (find_sess (p_sid p) (sessions st)) as [s0|] eqn:Es; simpl in *.
    + split.
      * apply Hmain; [assumption | | apply hello_sids_send_sess; exact I | reflexivity].
        simpl. rewrite sids_upd_sess; [auto | intros; apply ss_sid_remember].
      * rewrite bind_step_send_sess by exact I.
        eapply bind_ok_upd; [reflexivity | exact Hb | simpl; auto].
    + split.
      * apply Hmain; [assumption | auto | reflexivity | reflexivity].
      * eapply bind_ok_upd; [reflexivity | exact Hb | simpl; auto].
  - split.
    + apply Hmain; [assumption | auto | apply hello_sids_send_sess; exact I | reflexivity].
    + rewrite bind_step_send_sess by exact I.
      eapply bind_ok_upd; [reflexivity | exact Hb | simpl; auto].
  - split.
    + apply Hmain; [assumption | auto | apply hello_sids_send_sess; exact I | reflexivity].
    + rewrite bind_step_send_sess by exact I.
      eapply bind_ok_upd; [reflexivity | exact Hb | simpl; auto].
Qed.

Ltac skip_case Hb := simpl; split; [apply skip_ok | exact Hb].
Ltac err_case Hb :=
  simpl; rewrite ?send_open by assumption;
  split; [apply err_ok; [assumption | reflexivity | simpl; first [exact I | congruence]] | exact Hb].

Lemma step_ok : forall st b o, Inv st -> bind_ok st b ->
  chk_step sv keys b (pobs st) o (obs_of (fst (stepT st o)) (snd (stepT st o))) = true /\
  bind_ok (fst (stepT st o)) (bind_step b (msgs (snd (stepT st o)))).
Proof.
  intros st b o HI Hb. pose proof (Inv_step sv keys st o HI) as HI'.
  destruct o as [c now t | c sid | c | c k | c id p | c | c | c bd | c | sid | | tok r | c sched | sid sched];
    cbn [step] in *; unfold on_conn in *;
    try (destruct (cs_closed (conns st c)) eqn:Ecl; [skip_case Hb|];
         destruct (cs_busy (conns st c)) eqn:Ebu; [skip_case Hb|];
         cbn [orb] in *; pose proof (Hb c Ecl) as Hbc).
  - (* hello *)
    destruct (cs_sess (conns st c)) as [sid0|] eqn:Es; [err_case Hb|].
    destruct (check_token sv keys now t) as [e|] eqn:Et; [err_case Hb|].
    simpl in *. split.
    + unfold chk_step. cbn [ob_applied obs_of applied]. four.
      * unfold chk_sessions. cbn [ob_msgs obs_of msgs]. simpl hello_sids. cbn [null].
        rewrite andb_false_r. apply check_token_spec; assumption.
      * reflexivity.
      * apply chk_cleanup_plain; [assumption | exact I].
      * reflexivity.
    + intros c' Hc'. simpl in Hc'. simpl conns. unfold bind_step; simpl.
      destruct (N.eq_dec c' c) as [E|E].
      * subst c'. rewrite upd_conn_same. simpl. rewrite N.eqb_refl. reflexivity.
      * rewrite upd_conn_other in * by assumption. apply N.eqb_neq in E. rewrite N.eqb_sym, E.
        apply Hb; assumption.
  - (* resume *)
    destruct (cs_sess (conns st c)) as [sid0|] eqn:Es; [err_case Hb|].
    destruct (find_sess sid (sessions st)) as [s|] eqn:Ef; [|err_case Hb].
    simpl in *. pose proof (find_sess_some _ _ _ Ef) as [Hin Hsid].
    assert (Hh : hello_sids ((send st (ss_conn s) MEvLoad ++ send st (ss_conn s) (MBye RResumed)) ++ [(c, MHello sid); (c, MEvLoad)]) = [sid]).
    { unfold send. destruct (cs_closed (conns st (ss_conn s))); reflexivity. }
    assert (Hbs : bind_step b ((send st (ss_conn s) MEvLoad ++ send st (ss_conn s) (MBye RResumed)) ++ [(c, MHello sid); (c, MEvLoad)]) = (c, sid) :: b).
    { unfold send. destruct (cs_closed (conns st (ss_conn s))); reflexivity. }
    split.
    + unfold chk_step. cbn [ob_applied obs_of applied]. four.
      * unfold chk_sessions. cbn [ob_msgs obs_of msgs]. rewrite Hh.
        rewrite new_sids_nil.
        2:{ intros x Hx. rewrite sids_obs in Hx. simpl in Hx. unfold pobs. rewrite sids_obs.
            rewrite sids_upd_sess in Hx; [assumption | reflexivity]. }
        simpl. unfold pobs. rewrite sids_obs.
        assert (Hm : memN sid (map ss_sid (sessions st)) = true)
          by (apply memN_In; apply in_map_iff; exists s; tauto).
        rewrite Hm. reflexivity.
      * reflexivity.
      * apply chk_cleanup_plain; [assumption | exact I].
      * reflexivity.
    + rewrite Hbs. intros c' Hc'. simpl in Hc'. simpl conns.
      destruct (N.eq_dec c' c) as [E|E].
      * subst c'. rewrite upd_conn_same. simpl. rewrite N.eqb_refl. reflexivity.
      * rewrite upd_conn_other in * by assumption. rewrite bound_cons_other by assumption.
        destruct (N.eq_dec c' (ss_conn s)) as [E2|E2].
        -- subst c'. rewrite upd_conn_same in Hc'. simpl in Hc'. discriminate.
        -- rewrite upd_conn_other in * by assumption. apply Hb; assumption.
  - (* resume with an id that was never issued *)
    destruct (cs_sess (conns st c)) as [sid0|] eqn:Es; err_case Hb.
  - (* command *)
    destruct (cs_sess (conns st c)) as [sid0|] eqn:Es; [|err_case Hb].
    assert (Hbd : bound b c = Some sid0) by congruence.
    destruct k as [ | | | id | id | id | ]; cbn [command] in *.
    + (* create-publisher *)
      unfold create in *. simpl in *. split.
      * unfold chk_step. cbn [ob_applied obs_of applied]. four.
        -- apply chk_sessions_quiet; [auto | reflexivity].
        -- unfold chk_prehello. simpl. rewrite Hbd. reflexivity.
        -- apply chk_cleanup_plain; [assumption | exact I].
        -- reflexivity.
      * eapply bind_ok_upd; [reflexivity | exact Hb | simpl; auto].
    + (* create-subscriber *)
      unfold create in *. simpl in *. split.
      * unfold chk_step. cbn [ob_applied obs_of applied]. four.
        -- apply chk_sessions_quiet; [auto | reflexivity].
        -- unfold chk_prehello. simpl. rewrite Hbd. reflexivity.
        -- apply chk_cleanup_plain; [assumption | exact I].
        -- reflexivity.
      * eapply bind_ok_upd; [reflexivity | exact Hb | simpl; auto].
    + unfold create in *. simpl in *. split.
      * unfold chk_step. cbn [ob_applied obs_of applied]. four.
        -- apply chk_sessions_quiet; [auto | reflexivity].
        -- unfold chk_prehello. simpl. rewrite Hbd. reflexivity.
        -- apply chk_cleanup_plain; [assumption | exact I].
        -- reflexivity.
      * eapply bind_ok_upd; [reflexivity | exact Hb | simpl; auto].
    + apply (delete_ok st b c sid0 Pub id); auto.
    + apply (delete_ok st b c sid0 Sub id); auto.
    + (* get-publisher-streams *)
      destruct (find_entry id (clients st)) as [e|] eqn:Ef; [|err_case Hb].
      destruct (kind_eqb (e_kind e) Pub); [|err_case Hb].
      simpl. rewrite send_open by assumption. split; [|exact Hb].
      eapply reply_ok; try eassumption; try reflexivity; try exact I.
    + err_case Hb.
  - (* payload *)
    destruct (cs_sess (conns st c)) as [sid0|] eqn:Es; [|err_case Hb].
    assert (Hbd : bound b c = Some sid0) by congruence.
    unfold payload in *.
    destruct (find_entry id (clients st)) as [e|] eqn:Ef; [|err_case Hb].
    destruct p; [| |err_case Hb]; simpl; rewrite send_open by assumption; (split; [|exact Hb]);
      eapply reply_ok; try eassumption; try reflexivity; try exact I.
  - (* bye *)
    destruct (cs_sess (conns st c)) as [sid0|] eqn:Es; [|err_case Hb].
    pose proof (close_ok st b sid0 RClosed (OBye c) HI Hb (conj Ecl Es)) as Hc.
    destruct (close_session st sid0 RClosed) as [st1 out1]. simpl in *. apply Hc; assumption.
  - (* unknown message type *)
    destruct (cs_sess (conns st c)) as [sid0|] eqn:Es; err_case Hb.
  - (* malformed *)
    err_case Hb.
  - (* drop *)
    destruct (cs_closed (conns st c)) eqn:Ecl; [skip_case Hb|].
    simpl in *. split.
    + unfold chk_step. cbn [ob_applied obs_of applied]. four.
      * apply chk_sessions_quiet; [auto | reflexivity].
      * reflexivity.
      * apply chk_cleanup_plain; [assumption | exact I].
      * reflexivity.
    + eapply bind_ok_upd; [reflexivity | exact Hb | simpl; discriminate].
  - (* expire *)
    pose proof (close_ok st b sid RExpired (OExpire sid) HI Hb eq_refl) as Hc.
    destruct (close_session st sid RExpired) as [st1 out1]. simpl in *. apply Hc; assumption.
  - (* media server lost *)
    simpl in *. split.
    + unfold chk_step. cbn [ob_applied obs_of applied]. four.
      * apply chk_sessions_quiet; [|apply hello_sids_flat; exact I].
        simpl. rewrite map_map. simpl. auto.
      * reflexivity.
      * unfold chk_cleanup. rewrite owners_live by assumption. rewrite open_owned by assumption.
        cbn [ob_clients ob_open obs_of andb].
        destruct HI. rewrite (drop_all_nil (sessions st) (clients st)) by assumption.
        rewrite (drop_all_nil (sessions st) (mopen st)) by assumption.
        simpl. apply forallb_const_true.
      * reflexivity.
    + rewrite bind_step_flat by exact I. eapply bind_ok_conns; [reflexivity | exact Hb].
  - (* a creation completes *)
    apply mcu_done_ok; assumption.
  - (* bye, the close in phases *)
    destruct (cs_sess (conns st c)) as [sid0|] eqn:Es; [|err_case Hb].
    pose proof (phased_ok st b sid0 RClosed sched (OByeIn c sched) HI Hb (conj Ecl Es)) as Hc.
    destruct (close_phased true st sid0 RClosed sched) as [st1 out1]. simpl in *. apply Hc; assumption.
  - (* expiry, the close in phases *)
    pose proof (phased_ok st b sid RExpired sched (OExpireIn sid sched) HI Hb eq_refl) as Hc.
    destruct (close_phased true st sid RExpired sched) as [st1 out1]. simpl in *. apply Hc; assumption.
Qed.

(* ---- the headline: P_C18 holds on every trace of the repaired model ------------------- *)
Lemma tables_pobs : forall st out, tables (obs_of st out) st.
Proof. intros. unfold tables, pobs. simpl. auto. Qed.

Lemma P_from_ok : forall ops st b prev, Inv st -> bind_ok st b -> tables prev st ->
  P_from sv keys b prev (trace_from sv keys true st ops) = true.
Proof.
  induction ops as [|o r IH]; intros st b prev HI Hb Ht; [reflexivity|].
  cbn [trace_from]. pose proof (step_ok st b o HI Hb) as [H1 H2].
  pose proof (Inv_step sv keys st o HI) as HI'.
  destruct (stepT st o) as [st' out] eqn:E. cbn [fst snd] in *. cbn [P_from].
  rewrite (chk_step_prev _ _ _ _ _ Ht), H1. cbn [andb].
  apply IH; [assumption | exact H2 | apply tables_pobs].
Qed.

Theorem P_holds : forall ops, P_C18 sv keys (trace_of sv keys true ops) = true.
Proof.
  intros ops. unfold P_C18, trace_of. apply P_from_ok.
  - apply Inv_init.
  - intros c _. reflexivity.
  - unfold tables, pobs, obs0. simpl. auto.
Qed.

End Simulation.

(* ---- statements about single operations and reachable states -------------------------- *)
Section Statements.
Context (sv : string -> N -> N -> N -> bool).
Context (keys : N -> option N).
Notation stepT := (step sv keys true).

Definition live (st : state) (sid : N) : Prop := In sid (map ss_sid (sessions st)).

Lemma delete_sids : forall st c sid k id,
  map ss_sid (sessions (fst (delete st c sid k id))) = map ss_sid (sessions st) /\
  next_sid (fst (delete st c sid k id)) = next_sid st.
Proof.
  intros st c sid k id. unfold delete.
  destruct (find_entry id (clients st)) as [e|]; [|split; reflexivity].
  destruct (kind_eqb (e_kind e) k); [|split; reflexivity].
  destruct (find_sess sid (sessions st)) as [s|]; [|split; reflexivity].
  destruct (owns s k id); [|split; reflexivity].
  simpl. split; [|reflexivity]. rewrite sids_upd_sess; [reflexivity | intros; apply ss_sid_forget].
Qed.

(* sessions come into being by an accepted hello only (any value of recheck) *)
Lemma step_sids : forall rc st o x,
  In x (map ss_sid (sessions (fst (step sv keys rc st o)))) ->
  In x (map ss_sid (sessions st)) \/
  (exists c now t, o = OHello c now t /\ check_token sv keys now t = None /\ x = next_sid st + 1).
Proof.
  intros rc st o x H.
  destruct o as [c now t | c sid | c | c k | c id p | c | c | c bd | c | sid | | tok r | c sched | sid sched];
    cbn [step] in H; unfold on_conn in H;
    try (destruct (cs_closed (conns st c) || cs_busy (conns st c)); [left; exact H|]);
    try (destruct (cs_sess (conns st c)) as [sid0|]; simpl in H; try (left; exact H)).
  - destruct (check_token sv keys now t) eqn:Et; simpl in H; [left; exact H|].
    rewrite map_app in H. apply in_app_iff in H. destruct H as [H|[H|[]]]; [left; exact H|].
    right. exists c, now, t. auto.
  - destruct (find_sess sid (sessions st)); simpl in H; [|left; exact H].
    rewrite sids_upd_sess in H; [left; exact H | reflexivity].
  - left. destruct k; cbn [command] in H; try exact H.
    + rewrite (proj1 (delete_sids st c sid0 Pub id)) in H. exact H.
    + rewrite (proj1 (delete_sids st c sid0 Sub id)) in H. exact H.
    + destruct (find_entry id (clients st)) as [e|]; [destruct (kind_eqb (e_kind e) Pub)|]; exact H.
  - left. unfold payload in H. destruct (find_entry id (clients st)); [destruct p|]; exact H.
  - left. unfold close_session in H. destruct (find_sess sid0 (sessions st)); simpl in H; [|exact H].
    apply sids_del_sess_incl in H. exact H.
  - left. destruct (cs_closed (conns st c)); exact H.
  - left. destruct (cs_closed (conns st c)); exact H.
  - left. unfold close_session in H. destruct (find_sess sid (sessions st)); simpl in H; [|exact H].
    apply sids_del_sess_incl in H. exact H.
  - left. simpl in H. rewrite map_map in H. exact H.
  - left. unfold mcu_done in H.
    destruct (find (fun p => p_tok p =? tok) (pendings st)) as [p|]; simpl in H; [|exact H].
    destruct r; simpl in H; try exact H.
    destruct (find_sess (p_sid p) (sessions st)); simpl in H.
    + rewrite sids_upd_sess in H; [exact H | intros; apply ss_sid_remember].
    + destruct rc; exact H.
  - left. pose proof (proj1 (proj2 (close_phased_sids rc st sid0 RClosed sched))) as Hs.
    destruct (close_phased rc st sid0 RClosed sched). simpl in *. apply Hs; exact H.
  - left. pose proof (proj1 (proj2 (close_phased_sids rc st sid RExpired sched))) as Hs.
    destruct (close_phased rc st sid RExpired sched). simpl in *. apply Hs; exact H.
Qed.

Lemma hello_sound : forall rc st o x,
  live (fst (step sv keys rc st o)) x -> ~ live st x ->
  exists c now t, o = OHello c now t /\
    t_wf t = true /\ In (t_alg t) ["RS256"; "RS384"; "RS512"]%string /\ t_sigdec t = true /\
    exists k, keys (t_iss t) = Some k /\ sv (t_alg t) k (t_text t) (t_sig t) = true /\
    exists i, t_iat t = Some i /\
      (now - (5 * 60 * 1000000000 + 60 * 1000000000) <= i <= now + 60 * 1000000000)%Z /\
      (forall e, t_exp t = Some e -> now < e + 60 * 1000000000)%Z /\
      (forall n, t_nbf t = Some n -> n - 60 * 1000000000 <= now)%Z.
Proof.
  intros rc st o x H Hn. apply step_sids in H. destruct H as [H|[c [now [t [Ho [Hc _]]]]]]; [contradiction|].
  exists c, now, t. split; [assumption|]. apply check_token_sound in Hc. exact Hc.
Qed.

(* a message other than hello on a connection that has not been welcomed *)
Definition refused (st : state) (c : N) (r : state * outcome) : Prop :=
  fst r = st /\
  (snd r = {| applied := false; msgs := [] |} \/
   snd r = {| applied := true; msgs := [(c, MErr EHelloExpected)] |} \/
   snd r = {| applied := true; msgs := [(c, MErr EInvalidFormat)] |}).

Lemma prehello_refused : forall rc st o c,
  client_msg_conn o = Some c -> cs_sess (conns st c) = None ->
  refused st c (step sv keys rc st o) /\
  (cs_closed (conns st c) = false -> cs_busy (conns st c) = false ->
   match o with OMalformed _ _ => False | _ => True end ->
   snd (step sv keys rc st o) = {| applied := true; msgs := [(c, MErr EHelloExpected)] |}).
Proof.
  intros rc st o c Hc Hs.
  destruct o as [| | |c0 k|c0 id p|c0|c0|c0 bd| | | | |c0 sched|]; simpl in Hc; try discriminate; inversion Hc; subst c0;
    cbn [step]; unfold on_conn; rewrite ?Hs;
    destruct (cs_closed (conns st c)) eqn:Ecl; simpl;
    try (split; [split; [reflexivity | left; reflexivity] | intros; discriminate]);
    destruct (cs_busy (conns st c)) eqn:Ebu; simpl;
    try (split; [split; [reflexivity | left; reflexivity] | intros; discriminate]);
    unfold send; rewrite Ecl; simpl.
  all: try (split; [split; [reflexivity | right; left; reflexivity] | intros; reflexivity]).
  split; [split; [reflexivity | right; right; reflexivity] | intros _ _ []].
Qed.

(* every registered or open object belongs to a live session, in every reachable state *)
Lemma cleanup_all : forall ops e,
  In e (clients (run sv keys ops) ++ mopen (run sv keys ops)) -> live (run sv keys ops) (e_owner e).
Proof.
  intros ops e He. pose proof (Inv_run sv keys ops) as HI. destruct HI.
  apply in_app_iff in He.
  assert (Ho : owns_entry (sessions (run sv keys ops)) e) by (destruct He; auto).
  destruct Ho as [s [Hs [Hsid _]]]. unfold live. apply in_map_iff. exists s. tauto.
Qed.

(* ... and it is in that session's own table *)
Lemma cleanup_owned : forall ops e,
  In e (clients (run sv keys ops) ++ mopen (run sv keys ops)) ->
  exists s, In s (sessions (run sv keys ops)) /\ ss_sid s = e_owner e /\ owns s (e_kind e) (e_id e) = true.
Proof.
  intros ops e He. pose proof (Inv_run sv keys ops) as HI. destruct HI.
  apply in_app_iff in He. destruct He as [He|He]; [apply inv_own_c0 in He | apply inv_own_m0 in He]; exact He.
Qed.

(* bye and expiry remove the session; nothing of it stays behind *)
Lemma close_session_gone : forall st sid r, ~ live (fst (close_session st sid r)) sid.
Proof.
  intros st sid r. unfold live, close_session.
  destruct (find_sess sid (sessions st)) eqn:E; simpl; [apply del_sess_gone | apply find_sess_none; assumption].
Qed.

Lemma bye_ends : forall rc st c sid,
  cs_closed (conns st c) = false -> cs_busy (conns st c) = false -> cs_sess (conns st c) = Some sid ->
  ~ live (fst (step sv keys rc st (OBye c))) sid.
Proof.
  intros rc st c sid H1 H2 H3. cbn [step]. unfold on_conn. rewrite H1, H2, H3. simpl.
  pose proof (close_session_gone st sid RClosed) as H.
  destruct (close_session st sid RClosed). exact H.
Qed.

Lemma expire_ends : forall rc st sid, ~ live (fst (step sv keys rc st (OExpire sid))) sid.
Proof.
  intros rc st sid. cbn [step].
  pose proof (close_session_gone st sid RExpired) as H.
  destruct (close_session st sid RExpired). exact H.
Qed.

(* the same for the close in phases, whatever completes inside it (repaired code or not) *)
Lemma bye_in_ends : forall rc st c sid sched,
  cs_closed (conns st c) = false -> cs_busy (conns st c) = false -> cs_sess (conns st c) = Some sid ->
  ~ live (fst (step sv keys rc st (OByeIn c sched))) sid.
Proof.
  intros rc st c sid sched H1 H2 H3. cbn [step]. unfold on_conn. rewrite H1, H2, H3. simpl.
  pose proof (proj1 (close_phased_sids rc st sid RClosed sched)) as H.
  destruct (close_phased rc st sid RClosed sched). exact H.
Qed.

Lemma expire_in_ends : forall rc st sid sched, ~ live (fst (step sv keys rc st (OExpireIn sid sched))) sid.
Proof.
  intros rc st sid sched. cbn [step].
  pose proof (proj1 (close_phased_sids rc st sid RExpired sched)) as H.
  destruct (close_phased rc st sid RExpired sched). exact H.
Qed.

(* with nothing completing inside it the close in phases is the atomic close *)
Lemma del_sess_upd_sess : forall sid f l, (forall s, ss_sid (f s) = ss_sid s) ->
  del_sess sid (upd_sess sid f l) = del_sess sid l.
Proof.
  intros sid f l Hf. unfold del_sess, upd_sess. induction l as [|s r IH]; simpl; [reflexivity|].
  destruct (ss_sid s =? sid) eqn:E; simpl.
  - rewrite Hf, E. simpl. exact IH.
  - rewrite E. simpl. rewrite IH. reflexivity.
Qed.

Lemma drop_ids_app : forall a b l, drop_ids b (drop_ids a l) = drop_ids (a ++ b) l.
Proof.
  intros a b l. unfold drop_ids. induction l as [|e r IH]; simpl; [reflexivity|].
  unfold memN in *. rewrite existsb_app.
  destruct (existsb (N.eqb (e_id e)) a); simpl; [exact IH|].
  destruct (existsb (N.eqb (e_id e)) b); simpl; [exact IH | rewrite IH; reflexivity].
Qed.

Lemma close_phased_plain : forall rc st sid r, close_phased rc st sid r [] = close_session st sid r.
Proof.
  intros rc st sid r. unfold close_phased, close_session.
  destruct (find_sess sid (sessions st)) as [s|] eqn:E; [|reflexivity].
  cbn [window]. unfold clear_kind.
  repeat (cbn [sessions clients mopen conns pendings next_sid next_obj set_sessions fst snd];
          rewrite ?find_sess_upd_same by (intros; apply ss_sid_clear_tab); rewrite ?E; cbn [option_map]).
  unfold set_sessions. cbn [sessions clients mopen conns pendings next_sid next_obj tab clear_tab ss_pubs ss_subs].
  rewrite !del_sess_upd_sess by (intros; apply ss_sid_clear_tab).
  rewrite !drop_ids_app. rewrite !app_nil_r. reflexivity.
Qed.

Lemma mcu_lost_clears : forall ops,
  let st := fst (stepT (run sv keys ops) OMcuLost) in clients st = [] /\ mopen st = [].
Proof.
  intros ops. pose proof (Inv_run sv keys ops) as HI. destruct HI. simpl.
  split; apply drop_all_nil; assumption.
Qed.

(* a session that has ended never comes back *)
Lemma close_next_sid : forall st sid r, next_sid (fst (close_session st sid r)) = next_sid st.
Proof. intros. unfold close_session. destruct (find_sess sid (sessions st)); reflexivity. Qed.

Lemma next_sid_mono : forall rc st o, next_sid st <= next_sid (fst (step sv keys rc st o)).
Proof.
  intros rc st o.
  destruct o as [c now t | c sid | c | c k | c id p | c | c | c bd | c | sid | | tok r | c sched | sid sched];
    cbn [step]; unfold on_conn, payload, mcu_done;
    try (destruct k; cbn [command]; unfold create; try rewrite (proj2 (delete_sids _ _ _ _ _)));
    repeat match goal with
    | |- context [let '(_, _) := close_session ?st ?sid ?r in _] =>
        let H := fresh "H" in pose proof (close_next_sid st sid r) as H; destruct (close_session st sid r); cbn [fst] in H
    | |- context [let '(_, _) := close_phased ?rc ?st ?sid ?r ?sc in _] =>
        let H := fresh "H" in pose proof (proj1 (proj2 (proj2 (close_phased_sids rc st sid r sc)))) as H;
        destruct (close_phased rc st sid r sc); cbn [fst] in H
    | |- context [match ?x with _ => _ end] => destruct x; cbn [fst snd next_sid done skip]
    end; cbn [fst snd next_sid done skip]; try rewrite (proj2 (delete_sids _ _ _ _ _)); lia.
Qed.

Lemma ended_is_final : forall rc more st sid,
  sid <= next_sid st -> ~ live st sid ->
  ~ live (fold_left (fun s o => fst (step sv keys rc s o)) more st) sid.
Proof.
  intros rc more. induction more as [|o r IH]; intros st sid Hle Hn; simpl; [assumption|].
  apply IH.
  - pose proof (next_sid_mono rc st o). lia.
  - intro H. apply step_sids in H. destruct H as [H|[c [now [t [_ [_ Hx]]]]]]; [contradiction | lia].
Qed.

(* delete works only for the session that owns the object *)
Lemma delete_owner_only : forall ops c k id e,
  let st := run sv keys ops in
  In e (clients st) -> e_id e = id -> cs_sess (conns st c) <> Some (e_owner e) ->
  let r := stepT st (OCmd c (match k with Pub => CDeletePub id | Sub => CDeleteSub id end)) in
  fst r = st /\ forall x, In x (msgs (snd r)) -> exists er, x = (c, MErr er).
Proof.
  intros ops c k id e st He Hid Hne r. pose proof (Inv_run sv keys ops) as HI. fold st in HI.
  assert (Hsend : forall er x, In x (send st c (MErr er)) -> exists er', x = (c, MErr er')).
  { intros er x Hx. unfold send in Hx. destruct (cs_closed (conns st c)); [contradiction|].
    destruct Hx as [Hx|[]]. exists er. auto. }
  assert (Hdel : forall sid, cs_sess (conns st c) = Some sid ->
            fst (delete st c sid k id) = st /\ forall x, In x (msgs (snd (delete st c sid k id))) -> exists er, x = (c, MErr er)).
  { intros sid Hs. unfold delete.
    destruct (find_entry id (clients st)) as [e'|] eqn:Ef; simpl; [|split; [reflexivity | apply Hsend]].
    destruct (kind_eqb (e_kind e') k) eqn:Ek; simpl; [|split; [reflexivity | apply Hsend]].
    destruct (find_sess sid (sessions st)) as [s|] eqn:Efs; simpl; [|split; [reflexivity | apply Hsend]].
    destruct (owns s k id) eqn:Eo; simpl; [|split; [reflexivity | apply Hsend]].
    exfalso. apply Hne. rewrite Hs. f_equal.
    apply find_sess_some in Efs. destruct Efs as [Hin Hsid]. destruct HI.
    assert (Heq : (id, k, ss_sid s) = e).
    { apply (NoDup_map_inj e_id (clients st)); auto. }
    subst e. simpl. symmetry. exact Hsid. }
  unfold r. destruct k; cbn [step]; unfold on_conn;
    (destruct (cs_closed (conns st c) || cs_busy (conns st c)); [simpl; split; [reflexivity | intros x []]|]);
    (destruct (cs_sess (conns st c)) as [sid|] eqn:Es; [cbn [command]; apply Hdel; reflexivity | simpl; split; [reflexivity | apply Hsend]]).
Qed.

End Statements.

(* ---- the code as found: a creation that completes after its session was closed --------- *)
Definition witness_tok : token :=
  {| t_wf := true; t_alg := "RS256"; t_sigdec := true; t_iss := 0; t_iat := Some 1000%Z;
     t_exp := None; t_nbf := None; t_text := 0; t_sig := 0 |}.
Definition witness_ops : list op :=
  [OHello 0 1000%Z witness_tok; OCmd 0 CCreatePub; OResume 1 1; OBye 1; OMcuDone 0 MOk].
Definition sv_all : string -> N -> N -> N -> bool := fun _ _ _ _ => true.
Definition keys_all : N -> option N := fun _ => Some 0.

Definition run_gen (rc : bool) (ops : list op) : state :=
  fold_left (fun st o => fst (step sv_all keys_all rc st o)) ops init.

Lemma create_after_close_refuted :
  P_C18 sv_all keys_all (trace_of sv_all keys_all false witness_ops) = false /\
  sessions (run_gen false witness_ops) = [] /\
  clients (run_gen false witness_ops) = [(0, Pub, 1)] /\
  mopen (run_gen false witness_ops) = [(0, Pub, 1)].
Proof. vm_compute. auto. Qed.

(* the same history with the creation completing inside the close, in each window *)
Definition witness_ops_in (w : phase) (k : cmd) : list op :=
  [OHello 0 1000%Z witness_tok; OCmd 0 k; OResume 1 1; OByeIn 1 [(w, 0, MOk)]].
Definition all_windows : list phase := [PhList; PhCtx; PhPubs; PhSubs; PhRemote].

(* repaired code: nothing remains whatever the window; code as found (no second look at the
   session context): a publisher stays behind when it arrives after clearPublishers, a
   subscriber when it arrives after clearSubscribers *)
Lemma create_inside_close_repaired :
  forallb (fun w => forallb (fun k =>
     P_C18 sv_all keys_all (trace_of sv_all keys_all true (witness_ops_in w k)) &&
     null (clients (run_gen true (witness_ops_in w k))) && null (mopen (run_gen true (witness_ops_in w k))))
     [CCreatePub; CCreateSub]) all_windows = true.
Proof. vm_compute. reflexivity. Qed.

Lemma create_inside_close_as_found :
  map (fun w => P_C18 sv_all keys_all (trace_of sv_all keys_all false (witness_ops_in w CCreatePub))) all_windows
    = [true; true; false; false; false] /\
  map (fun w => P_C18 sv_all keys_all (trace_of sv_all keys_all false (witness_ops_in w CCreateSub))) all_windows
    = [true; true; true; false; false] /\
  clients (run_gen false (witness_ops_in PhRemote CCreatePub)) = [(0, Pub, 1)].
Proof. vm_compute. auto. Qed.

Lemma create_after_close_repaired :
  P_C18 sv_all keys_all (trace_of sv_all keys_all true witness_ops) = true /\
  clients (run_gen true witness_ops) = [] /\ mopen (run_gen true witness_ops) = [].
Proof. vm_compute. auto. Qed.

(* ---- remote subscribers: the references of the remote publisher ------------------ *)
(* after the handler the remote publisher is open exactly when the subscriber was
   created (the completion the model stores, is_ok), with exactly one reference:
   the subscriber's *)
Lemma remote_refs_handler : forall r,
  refs_after (handler_refops true r) = if is_ok (rres_mres r) then Some 1 else None.
Proof. destruct r; reflexivity. Qed.

(* ... and the Close of that subscriber closes it: nothing stays open *)
Lemma remote_refs_closed : forall r,
  refs_after (handler_refops true r ++ sub_close_refops r) = None.
Proof. destruct r; reflexivity. Qed.

(* a failed request leaves nothing at any point after the handler *)
Lemma remote_refs_failed : forall r, is_ok (rres_mres r) = false ->
  refs_after (handler_refops true r) = None /\ sub_close_refops r = [].
Proof. destruct r; simpl; intro H; try discriminate; split; reflexivity. Qed.

(* giving the creator's reference back only after NewRemoteSubscriber succeeded is
   not enough: the remote publisher of a request whose attach failed stays open
   with one reference, no subscriber exists whose Close would release it *)
Lemma remote_refs_release_late_refuted : exists r,
  is_ok (rres_mres r) = false /\ sub_close_refops r = [] /\
  refs_after (handler_refops false r ++ sub_close_refops r) = Some 1.
Proof. exists RRSubFail. repeat split. Qed.
