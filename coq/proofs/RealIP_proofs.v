(* Lemmas about the model of GetRealUserIP / AllowedIps / the stats gate. *)
From Coq Require Import List NArith Bool String Ascii Lia.
From Verif Require Import gen.Params model.RealIP corr.Run_C16.
Import ListNotations.

(* ======================================================================== *)
(* 1. CIDR arithmetic: the mask test is equality of the top len bits          *)
(* ======================================================================== *)
Section Cidr.
Open Scope N_scope.

Lemma land_shifted_ones : forall x len k,
  N.land x (N.shiftl (N.ones len) k) = N.shiftl (N.land (N.shiftr x k) (N.ones len)) k.
Proof.
  intros x len k. apply N.bits_inj. intro i.
  rewrite N.land_spec.
  destruct (N.ltb_spec i k) as [Hlt|Hge].
  - rewrite !N.shiftl_spec_low by exact Hlt. apply andb_false_r.
  - rewrite !N.shiftl_spec_high by lia.
    rewrite N.land_spec, N.shiftr_spec by lia.
    replace (i - k + k) with i by lia. reflexivity.
Qed.

Lemma shiftl_inj : forall a b k, N.shiftl a k = N.shiftl b k -> a = b.
Proof.
  intros a b k H. rewrite !N.shiftl_mul_pow2 in H.
  apply N.mul_cancel_r in H; [exact H|]. apply N.pow_nonzero. discriminate.
Qed.

Lemma mask_test_top_bits : forall w len x y,
  N.eqb (N.land x (mask w len)) (N.land y (mask w len)) =
  N.eqb (top_bits w len x) (top_bits w len y).
Proof.
  intros w len x y. unfold mask, top_bits.
  rewrite !land_shifted_ones, !N.land_ones, !N.shiftr_div_pow2.
  destruct (N.eqb_spec ((x / 2 ^ (w - len)) mod 2 ^ len) ((y / 2 ^ (w - len)) mod 2 ^ len)) as [E|E].
  - rewrite E. apply N.eqb_refl.
  - apply N.eqb_neq. intro H. apply E. exact (shiftl_inj _ _ _ H).
Qed.

Lemma contains_in_net : forall n a, contains n a = in_net n a.
Proof.
  intros [[x|x] len] [y|y]; unfold contains, in_net; cbn [fst snd]; try reflexivity;
    apply mask_test_top_bits.
Qed.

Lemma allowed_on_list : forall nets a, allowed nets a = on_list nets a.
Proof.
  intros nets a. unfold allowed, on_list. induction nets as [|n r IH]; [reflexivity|].
  cbn [existsb]. rewrite contains_in_net, IH. reflexivity.
Qed.

(* the same with shifts only, for well-formed addresses *)
Lemma top_bits_shiftr : forall w len x y, len <= w -> x < 2 ^ w -> y < 2 ^ w ->
  (top_bits w len x = top_bits w len y <-> N.shiftr x (w - len) = N.shiftr y (w - len)).
Proof.
  intros w len x y Hl Hx Hy. unfold top_bits. rewrite !N.shiftr_div_pow2.
  assert (Hb : forall z, z < 2 ^ w -> z / 2 ^ (w - len) < 2 ^ len).
  { intros z Hz. apply N.div_lt_upper_bound; [apply N.pow_nonzero; discriminate|].
    rewrite <- N.pow_add_r. replace (w - len + len) with w by lia. exact Hz. }
  rewrite !N.mod_small by (apply Hb; assumption). tauto.
Qed.

(* bit by bit: exactly the bits w-len .. w-1 are compared *)
Lemma top_bits_testbit : forall w len x y, len <= w ->
  (top_bits w len x = top_bits w len y <->
   forall i, w - len <= i < w -> N.testbit x i = N.testbit y i).
Proof.
  intros w len x y Hl. unfold top_bits.
  rewrite <- !N.shiftr_div_pow2, <- !N.land_ones. split.
  - intros H i Hi.
    assert (E : N.testbit (N.land (N.shiftr x (w - len)) (N.ones len)) (i - (w - len)) =
                N.testbit (N.land (N.shiftr y (w - len)) (N.ones len)) (i - (w - len))) by (rewrite H; reflexivity).
    rewrite !N.land_spec, !N.shiftr_spec in E by lia.
    rewrite N.ones_spec_low in E by lia. rewrite !andb_true_r in E.
    replace (i - (w - len) + (w - len)) with i in E by lia. exact E.
  - intros H. apply N.bits_inj. intro j. rewrite !N.land_spec, !N.shiftr_spec by lia.
    destruct (N.ltb_spec j len) as [Hj|Hj].
    + rewrite (H (j + (w - len))) by lia. reflexivity.
    + rewrite N.ones_spec_high by lia. rewrite !andb_false_r. reflexivity.
Qed.

Definition wf_ip (a : ip) : Prop := match a with V4 n => n < 2 ^ 32 | V6 n => n < 2 ^ 128 end.
Definition width (a : ip) : N := match a with V4 _ => 32 | V6 _ => 128 end.
Definition num (a : ip) : N := match a with V4 n | V6 n => n end.
Definition same_family (a b : ip) : Prop :=
  match a, b with V4 _, V4 _ | V6 _, V6 _ => True | _, _ => False end.

Lemma contains_shiftr : forall b len a, len <= width b -> wf_ip b -> wf_ip a ->
  (contains (b, len) a = true <->
   same_family b a /\ N.shiftr (num b) (width b - len) = N.shiftr (num a) (width b - len)).
Proof.
  intros [x|x] len [y|y] Hl Hx Hy; rewrite contains_in_net; unfold in_net; cbn [fst snd same_family num width] in *.
  - rewrite N.eqb_eq, top_bits_shiftr by assumption. tauto.
  - split; [discriminate|tauto].
  - split; [discriminate|tauto].
  - rewrite N.eqb_eq, top_bits_shiftr by assumption. tauto.
Qed.

Lemma contains_bits : forall b len a, len <= width b ->
  (contains (b, len) a = true <->
   same_family b a /\ forall i, width b - len <= i < width b -> N.testbit (num b) i = N.testbit (num a) i).
Proof.
  intros [x|x] len [y|y] Hl; rewrite contains_in_net; unfold in_net; cbn [fst snd same_family num width] in *.
  - rewrite N.eqb_eq, top_bits_testbit by assumption. tauto.
  - split; [discriminate|tauto].
  - split; [discriminate|tauto].
  - rewrite N.eqb_eq, top_bits_testbit by assumption. tauto.
Qed.

(* an entry without prefix length: exactly that address *)
Lemma top_bits_full : forall w x, x < 2 ^ w -> top_bits w w x = x.
Proof.
  intros w x H. unfold top_bits. rewrite N.sub_diag. change (2 ^ 0) with 1.
  rewrite N.div_1_r. apply N.mod_small. exact H.
Qed.

Lemma in_net_full : forall b a, wf_ip b -> wf_ip a -> in_net (full_net b) a = ip_eqb a b.
Proof.
  intros [x|x] [y|y] Hb Ha; cbn [full_net in_net fst snd ip_eqb wf_ip] in *; try reflexivity.
  - rewrite !top_bits_full by assumption. apply N.eqb_sym.
  - rewrite !top_bits_full by assumption. apply N.eqb_sym.
Qed.

Lemma ip_eqb_eq : forall a b, ip_eqb a b = true <-> a = b.
Proof.
  intros [x|x] [y|y]; cbn [ip_eqb]; try (split; [discriminate|intros H; discriminate H]).
  - rewrite N.eqb_eq. split; [congruence|intros H; now injection H].
  - rewrite N.eqb_eq. split; [congruence|intros H; now injection H].
Qed.

Lemma bare_entry_exact : forall b a, wf_ip b -> wf_ip a ->
  (contains (full_net b) a = true <-> a = b).
Proof. intros b a Hb Ha. rewrite contains_in_net, in_net_full by assumption. apply ip_eqb_eq. Qed.

(* what a wrong mask length does: with the mask of an IPv4 address (/32) on an
   IPv6 entry, every address of its /32 is on the list *)
Lemma short_mask_matches_neighbours : forall b a, wf_ip (V6 b) -> wf_ip (V6 a) ->
  N.shiftr b 96 = N.shiftr a 96 -> contains (V6 b, 32) (V6 a) = true.
Proof.
  intros b a Hb Ha H. apply (contains_shiftr (V6 b) 32 (V6 a)); [cbn; lia|exact Hb|exact Ha|].
  cbn [same_family num width]. split; [exact I|]. change (128 - 32) with 96. exact H.
Qed.
End Cidr.

(* ======================================================================== *)
(* 2. strings: Split / Join / TrimSpace                                       *)
(* ======================================================================== *)
Open Scope string_scope.

Lemma split_on_nonempty : forall sep s, split_on sep s <> [].
Proof.
  intros sep s. destruct s as [|c r]; cbn [split_on]; [discriminate|].
  destruct (Ascii.eqb c sep); [discriminate|]. destruct (split_on sep r); discriminate.
Qed.

Lemma split_on_app : forall sep a b,
  split_on sep (a ++ String sep b) = (split_on sep a ++ split_on sep b)%list.
Proof.
  intros sep a b. induction a as [|c a IH]; cbn [append split_on].
  - rewrite Ascii.eqb_refl. reflexivity.
  - destruct (Ascii.eqb c sep); [rewrite IH; reflexivity|].
    rewrite IH. destruct (split_on sep a) as [|h t] eqn:E; [exfalso; exact (split_on_nonempty _ _ E)|].
    reflexivity.
Qed.

Lemma split_join : forall xs, xs <> [] ->
  split_comma (join_comma xs) = flat_map split_comma xs.
Proof.
  induction xs as [|a r IH]; intros Hne; [congruence|].
  destruct r as [|b r'].
  - cbn [join_comma flat_map]. rewrite app_nil_r. reflexivity.
  - change (join_comma (a :: b :: r')) with (a ++ String "," (join_comma (b :: r'))).
    unfold split_comma at 1. rewrite split_on_app. fold (split_comma (join_comma (b :: r'))).
    rewrite IH by discriminate. reflexivity.
Qed.

Lemma append_assoc : forall a b c : string, (a ++ b) ++ c = a ++ (b ++ c).
Proof. induction a as [|x a IH]; intros; cbn [append]; [reflexivity|rewrite IH; reflexivity]. Qed.
Lemma append_nil_r : forall a : string, a ++ "" = a.
Proof. induction a as [|x a IH]; cbn [append]; [reflexivity|rewrite IH; reflexivity]. Qed.

(* every piece of a split literally occurs in the string *)
Lemma split_on_first_prefix : forall sep s h t, split_on sep s = h :: t ->
  exists post, s = h ++ post.
Proof.
  intros sep s. induction s as [|d r IHr]; intros h t E; cbn [split_on] in E.
  - injection E as <- <-. exists "". reflexivity.
  - destruct (Ascii.eqb d sep).
    + injection E as <- <-. exists (String d r). reflexivity.
    + destruct (split_on sep r) as [|h' t'] eqn:E'; [exfalso; exact (split_on_nonempty _ _ E')|].
      injection E as <- <-. destruct (IHr _ _ eq_refl) as (p' & ->). exists p'. reflexivity.
Qed.

Lemma split_on_sub : forall sep s raw, In raw (split_on sep s) ->
  exists pre post, s = pre ++ raw ++ post.
Proof.
  intros sep s. induction s as [|c r IH]; intros raw Hin; cbn [split_on] in Hin.
  - destruct Hin as [<-|[]]. exists "", "". reflexivity.
  - destruct (Ascii.eqb c sep).
    + destruct Hin as [<-|Hin].
      * exists "", (String c r). reflexivity.
      * destruct (IH _ Hin) as (pre & post & ->). exists (String c pre), post. reflexivity.
    + destruct (split_on sep r) as [|h t] eqn:E; [exfalso; exact (split_on_nonempty _ _ E)|].
      destruct Hin as [<-|Hin].
      * destruct (split_on_first_prefix _ _ _ _ E) as (post & ->). exists "", post. reflexivity.
      * destruct (IH raw (or_intror Hin)) as (pre & post & ->). exists (String c pre), post. reflexivity.
Qed.

Lemma strip_prefix_spec : forall p s t, strip_prefix p s = Some t -> s = p ++ t.
Proof.
  induction p as [|c p IH]; intros s t H; cbn [strip_prefix] in H.
  - injection H as ->. reflexivity.
  - destruct s as [|d s]; [discriminate|]. destruct (Ascii.eqb_spec c d) as [->|]; [|discriminate].
    cbn [append]. rewrite (IH _ _ H). reflexivity.
Qed.

Lemma strip_any_spec : forall ps s t, strip_any ps s = Some t -> exists p, s = p ++ t.
Proof.
  induction ps as [|p ps IH]; intros s t H; cbn [strip_any] in H; [discriminate|].
  destruct (strip_prefix p s) as [u|] eqn:E.
  - injection H as ->. exists p. exact (strip_prefix_spec _ _ _ E).
  - exact (IH _ _ H).
Qed.

Lemma trim_left_f_spec : forall ps fuel s, exists pre, s = pre ++ trim_left_f ps fuel s.
Proof.
  intros ps fuel. induction fuel as [|f IH]; intros s; cbn [trim_left_f].
  - exists "". reflexivity.
  - destruct (strip_any ps s) as [t|] eqn:E; [|exists ""; reflexivity].
    destruct (strip_any_spec _ _ _ E) as (p & ->). destruct (IH t) as (pre & Ht).
    exists (p ++ pre). rewrite append_assoc, <- Ht. reflexivity.
Qed.

Lemma rev_app_spec : forall s acc, rev_app s acc = rev_string s ++ acc.
Proof.
  unfold rev_string. induction s as [|c s IH]; intros acc; cbn [rev_app]; [reflexivity|].
  rewrite IH, (IH (String c "")), append_assoc. reflexivity.
Qed.
Lemma rev_string_app : forall a b, rev_string (a ++ b) = rev_string b ++ rev_string a.
Proof.
  induction a as [|c a IH]; intros b; cbn [append].
  - unfold rev_string at 3. cbn [rev_app]. rewrite append_nil_r. reflexivity.
  - unfold rev_string at 1 3. cbn [rev_app]. rewrite !rev_app_spec, IH, append_assoc. reflexivity.
Qed.
Lemma rev_string_involutive : forall s, rev_string (rev_string s) = s.
Proof.
  induction s as [|c s IH]; [reflexivity|].
  unfold rev_string at 2. cbn [rev_app]. rewrite rev_app_spec, rev_string_app, IH. reflexivity.
Qed.

(* TrimSpace returns a piece of its argument *)
Lemma trim_sub : forall s, exists pre post, s = pre ++ trim s ++ post.
Proof.
  intros s. unfold trim, trim_left.
  destruct (trim_left_f_spec space_pats (String.length s) s) as (pre & Hs).
  set (u := trim_left_f space_pats (String.length s) s) in *.
  destruct (trim_left_f_spec space_pats_rev (String.length (rev_string u)) (rev_string u)) as (pre' & Hu).
  set (v := trim_left_f space_pats_rev (String.length (rev_string u)) (rev_string u)) in *.
  exists pre, (rev_string pre').
  rewrite <- rev_string_app, <- Hu, rev_string_involutive. exact Hs.
Qed.

Lemma trim_empty : trim "" = "".
Proof. reflexivity. Qed.

(* ======================================================================== *)
(* 3. lists                                                                   *)
(* ======================================================================== *)
Lemma filter_rev' : forall {A} (p : A -> bool) l, filter p (rev l) = rev (filter p l).
Proof.
  intros A p. induction l as [|x l IH]; [reflexivity|].
  cbn [rev filter]. rewrite filter_app, IH. cbn [filter]. destruct (p x); cbn [rev]; [reflexivity|apply app_nil_r].
Qed.
Lemma find_hd_filter : forall {A} (p : A -> bool) l, find p l = hd_error (filter p l).
Proof.
  intros A p. induction l as [|x l IH]; [reflexivity|]. cbn [find filter]. destruct (p x); [reflexivity|exact IH].
Qed.
Lemma find_rev_last : forall {A} (p : A -> bool) l, find p (rev l) = last_opt (filter p l).
Proof.
  intros A p l. rewrite find_hd_filter, filter_rev'. unfold last_opt.
  destruct (rev (filter p l)); reflexivity.
Qed.
Lemma filter_filter' : forall {A} (p q : A -> bool) l,
  filter p (filter q l) = filter (fun x => q x && p x) l.
Proof.
  intros A p q. induction l as [|x l IH]; [reflexivity|]. cbn [filter].
  destruct (q x); cbn [filter andb]; [destruct (p x); rewrite IH; reflexivity|exact IH].
Qed.
Lemma last_cons' : forall {A} (x : A) l d, last (x :: l) d = last l x.
Proof.
  intros A x l. revert x. induction l as [|y l IH]; intros x d; [reflexivity|].
  change (last (x :: y :: l) d) with (last (y :: l) d). rewrite !IH. reflexivity.
Qed.
Lemma last_rev_hd : forall {A} (l : list A) d, last (rev l) d = hd d l.
Proof.
  intros A l d. destruct l as [|x l]; [reflexivity|]. cbn [rev hd]. apply last_last.
Qed.

Lemma last_opt_filter_Some : forall {A} (p : A -> bool) l x,
  last_opt (filter p l) = Some x ->
  exists pre post, l = (pre ++ x :: post)%list /\ p x = true /\ forall y, In y post -> p y = false.
Proof.
  intros A p l x. rewrite <- find_rev_last.
  assert (G : forall m, find p m = Some x ->
              exists pre post, m = (pre ++ x :: post)%list /\ p x = true /\ forall y, In y pre -> p y = false).
  { induction m as [|z m IH]; cbn [find]; [discriminate|].
    destruct (p z) eqn:Ez.
    - intros H. injection H as ->. exists [], m. split; [reflexivity|]. split; [exact Ez|]. intros y [].
    - intros H. destruct (IH H) as (pre & post & -> & Hx & Hp). exists (z :: pre), post.
      split; [reflexivity|]. split; [exact Hx|]. intros y [<-|Hy]; [exact Ez|exact (Hp y Hy)]. }
  intros H. destruct (G _ H) as (pre & post & Hr & Hx & Hp).
  exists (rev post), (rev pre). split.
  - rewrite <- (rev_involutive l), Hr, rev_app_distr. cbn [rev]. rewrite <- app_assoc. reflexivity.
  - split; [exact Hx|]. intros y Hy. apply Hp. apply in_rev. exact Hy.
Qed.
Lemma last_opt_filter_None : forall {A} (p : A -> bool) l,
  last_opt (filter p l) = None -> forall y, In y l -> p y = false.
Proof.
  intros A p l H y Hy. unfold last_opt in H.
  destruct (rev (filter p l)) as [|z r] eqn:E; [|discriminate].
  assert (Hf : filter p l = []) by (rewrite <- (rev_involutive (filter p l)), E; reflexivity).
  destruct (p y) eqn:Ey; [|reflexivity].
  assert (Hin : In y (filter p l)) by (apply filter_In; split; assumption).
  rewrite Hf in Hin. destruct Hin.
Qed.
Lemma filter_head_split : forall {A} (p : A -> bool) l x t,
  filter p l = x :: t ->
  exists pre post, l = (pre ++ x :: post)%list /\ p x = true /\ forall y, In y pre -> p y = false.
Proof.
  intros A p. induction l as [|z l IH]; intros x t H; cbn [filter] in H; [discriminate|].
  destruct (p z) eqn:Ez.
  - injection H as -> _. exists [], l. split; [reflexivity|]. split; [exact Ez|]. intros y [].
  - destruct (IH _ _ H) as (pre & post & -> & Hx & Hp). exists (z :: pre), post.
    split; [reflexivity|]. split; [exact Hx|]. intros y [<-|Hy]; [exact Ez|exact (Hp y Hy)].
Qed.

(* ======================================================================== *)
(* 4. GetRealUserIP                                                           *)
(* ======================================================================== *)
Section RealIPProofs.
Context (parse_ip : string -> option ip) (split_host_port : string -> option string)
        (parse_cidr : string -> option net).

Notation strip := (strip_port split_host_port).
Notation realip := (real_ip parse_ip split_host_port).
Notation scan' := (scan parse_ip split_host_port).
Notation isaddr := (is_addr parse_ip).
Notation isproxy := (is_proxy parse_ip).
Notation g := (fun h => host_of split_host_port (trim h)).

(* the peer is not a configured trusted proxy *)
Definition untrusted_peer (trusted : option (list net)) (peer : string) : Prop :=
  forall a, parse_ip (strip peer) = Some a ->
            match trusted with Some l => allowed l a = false | None => True end.

Lemma untrusted_peer_ignores_headers : forall trusted peer xr xff,
  untrusted_peer trusted peer -> realip trusted peer xr xff = strip peer.
Proof.
  intros t peer xr xff H. unfold real_ip.
  destruct (parse_ip (strip peer)) as [a|] eqn:E; [|reflexivity].
  destruct t as [l|]; [|reflexivity]. rewrite (H a E). reflexivity.
Qed.

Lemma direct_client_cannot_spoof : forall trusted peer xr xff xr' xff',
  untrusted_peer trusted peer -> realip trusted peer xr xff = realip trusted peer xr' xff'.
Proof. intros. rewrite !untrusted_peer_ignores_headers by assumption. reflexivity. Qed.

Lemma direct_client_same_gate : forall e trusted allow peer xr xff xr' xff',
  untrusted_peer (Some trusted) peer ->
  endpoint_status parse_ip split_host_port e trusted allow peer xr xff =
  endpoint_status parse_ip split_host_port e trusted allow peer xr' xff'.
Proof.
  intros e t al peer xr xff xr' xff' H. unfold endpoint_status, allow_stats.
  rewrite (direct_client_cannot_spoof (Some t) peer xr xff xr' xff' H). reflexivity.
Qed.

(* the untrusted-peer condition, as the spec's decision procedure *)
Lemma is_proxy_false_untrusted : forall t peer,
  isproxy t (host_of split_host_port peer) = false -> untrusted_peer t peer.
Proof.
  intros t peer H a Ha. unfold is_proxy in H. change (host_of split_host_port peer) with (strip peer) in H.
  rewrite Ha in H. destruct t as [l|]; [|exact I]. rewrite allowed_on_list. exact H.
Qed.

(* ---- the loop ------------------------------------------------------------ *)
Definition U (l : list net) (h : string) : bool := isaddr h && negb (isproxy (Some l) h).

Lemma U_val : forall l h,
  U l h = match parse_ip h with Some a => negb (allowed l a) | None => false end /\
  isaddr h = match parse_ip h with Some _ => true | None => false end.
Proof.
  intros l h. unfold U, is_addr, is_proxy. destruct (parse_ip h) as [a|]; [|split; reflexivity].
  rewrite allowed_on_list. split; reflexivity.
Qed.

Lemma scan_spec : forall l hops lt,
  fst (scan' l hops lt) = find (U l) (map g hops) /\
  (find (U l) (map g hops) = None ->
   snd (scan' l hops lt) = last (filter isaddr (map g hops)) lt).
Proof.
  intros l hops. induction hops as [|hop r IH]; intros lt; [split; reflexivity|].
  cbn [scan map find filter].
  change (strip_port split_host_port (trim hop)) with (host_of split_host_port (trim hop)).
  set (h := host_of split_host_port (trim hop)).
  destruct (U_val l h) as [HU HA]. rewrite HU, HA.
  destruct (parse_ip h) as [a|] eqn:E.
  - destruct (allowed l a) eqn:Ea; cbn [negb].
    + destruct (IH h) as [IH1 IH2]. split; [exact IH1|].
      intros Hn. rewrite (IH2 Hn). symmetry. apply last_cons'.
    + split; [reflexivity|discriminate].
  - exact (IH lt).
Qed.

(* ---- the model computes the address the property describes ----------------- *)
Definition oracle_sane : Prop := parse_ip "" = None /\ split_host_port "" = None.

Lemma real_ip_spec : oracle_sane -> forall trusted peer xr xff,
  realip trusted peer xr xff = spec_addr parse_ip split_host_port trusted peer xr xff.
Proof.
  intros [He Hs] t peer xr xff. unfold real_ip, spec_addr.
  change (strip_port split_host_port peer) with (host_of split_host_port peer).
  set (host := host_of split_host_port peer).
  unfold is_proxy at 1.
  destruct (parse_ip host) as [a|] eqn:Ea; [|reflexivity].
  destruct t as [l|]; [|reflexivity].
  rewrite <- allowed_on_list. destruct (allowed l a) eqn:Eal; cbn [negb]; [|reflexivity].
  (* the forwarded part *)
  set (cands := filter isaddr (hops split_host_port xff)).
  set (fwd := match last_opt (filter (fun h => negb (isproxy (Some l) h)) cands) with
              | Some h => h
              | None => match cands with h :: _ => h | [] => host end
              end).
  assert (Hf : match scan' l (rev (split_comma (join_comma xff))) "" with
               | (Some hop, _) => hop
               | (None, lt) => if String.eqb lt "" then host else lt
               end = fwd).
  { destruct xff as [|x0 xs].
    - (* no X-Forwarded-For line: Split("") = [""] *)
      cbn [join_comma]. change (split_comma "") with [""]. cbn [rev app scan].
      rewrite trim_empty. unfold strip_port. rewrite Hs, He. reflexivity.
    - rewrite split_join by discriminate.
      set (raws := flat_map split_comma (x0 :: xs)).
      destruct (scan_spec l (rev raws) "") as [H1 H2].
      destruct (scan' l (rev raws) "") as [o lt]. cbn [fst snd] in H1, H2.
      rewrite map_rev, find_rev_last in H1, H2.
      unfold fwd, cands, hops. fold raws. rewrite filter_filter'.
      change (fun x : string => isaddr x && negb (isproxy (Some l) x)) with (U l).
      rewrite <- H1. destruct o as [hop|]; [reflexivity|].
      rewrite (H2 (eq_sym H1)), filter_rev', last_rev_hd.
      destruct (filter isaddr (map g raws)) as [|h t] eqn:Ec; [reflexivity|].
      cbn [hd].
      assert (Hh : isaddr h = true).
      { assert (Hin : In h (filter isaddr (map g raws))) by (rewrite Ec; left; reflexivity).
        apply filter_In in Hin. exact (proj2 Hin). }
      destruct (String.eqb_spec h "") as [->|]; [|reflexivity].
      unfold is_addr in Hh. rewrite He in Hh. discriminate. }
  destruct xr as [|v vs].
  - rewrite String.eqb_refl. exact Hf.
  - unfold is_addr at 1. destruct (String.eqb_spec v "") as [->|Hv].
    + rewrite He. exact Hf.
    + destruct (parse_ip v); [reflexivity|exact Hf].
Qed.

Lemma allow_stats_spec : oracle_sane -> forall trusted allow peer xr xff,
  allow_stats parse_ip split_host_port trusted allow peer xr xff =
  spec_gate parse_ip split_host_port trusted allow peer xr xff.
Proof.
  intros Ho t al peer xr xff. unfold allow_stats, spec_gate.
  rewrite (real_ip_spec Ho). destruct (parse_ip _); [apply allowed_on_list|reflexivity].
Qed.

(* ---- configuration strings: the model's ParseAllowedIps is the reading of
        corr/Run_C16.v ------------------------------------------------------------ *)
Notation pallowed := (parse_allowed parse_ip parse_cidr).
Notation snets := (spec_nets parse_ip parse_cidr).
Notation sentry := (spec_entry parse_ip parse_cidr).

Lemma has_slash_existsb : forall s,
  has_slash s = existsb (fun c => Ascii.eqb c "/") (list_ascii_of_string s).
Proof. induction s as [|c r IH]; cbn; [reflexivity|]. now rewrite IH. Qed.

Definition good_entry (e : entry) : bool := match e with EBad => false | _ => true end.
Definition entries_nets (es : list entry) : option (list net) :=
  if forallb good_entry es then Some (flat_map entry_net es) else None.

Lemma parse_ipnet_entry : forall s,
  parse_ipnet parse_ip parse_cidr s =
  match sentry s with EBad => None | e => match entry_net e with n :: _ => Some n | [] => None end end.
Proof.
  intros s. unfold parse_ipnet, spec_entry. rewrite <- has_slash_existsb.
  destruct (has_slash s).
  - destruct (parse_cidr s); reflexivity.
  - destruct (parse_ip s) as [[x|x]|]; reflexivity.
Qed.

Lemma entry_net_good : forall e, good_entry e = true -> exists n, entry_net e = [n].
Proof. intros [[x|x]|n|]; cbn; intros H; try discriminate; eauto. Qed.

Lemma parse_entries_spec : forall l,
  parse_entries parse_ip parse_cidr l =
  entries_nets (map sentry (filter (fun s => negb (String.eqb s "")) (map trim l))).
Proof.
  induction l as [|e r IH]; [reflexivity|].
  cbn [parse_entries map filter]. destruct (String.eqb (trim e) "") eqn:Ee; cbn [negb]; [exact IH|].
  cbn [map]. rewrite parse_ipnet_entry, IH. unfold entries_nets. cbn [forallb flat_map].
  destruct (sentry (trim e)) as [a|n|] eqn:Es; cbn [good_entry andb]; [| |reflexivity].
  - destruct a as [x|x]; cbn [entry_net];
      destruct (forallb good_entry _); reflexivity.
  - cbn [entry_net]. destruct (forallb good_entry _); reflexivity.
Qed.

Lemma parse_allowed_spec : forall cfg, pallowed cfg = snets cfg.
Proof.
  intros cfg. unfold parse_allowed, spec_nets, config_valid, spec_entries.
  rewrite parse_entries_spec. reflexivity.
Qed.

(* [on_list] of the configured networks is "the address is one of the entries":
   an entry without prefix length matches that address and no other *)
Lemma on_list_entries : (forall s b, parse_ip s = Some b -> wf_ip b) ->
  forall cfg l a, wf_ip a -> snets cfg = Some l ->
  on_list l a = configured parse_ip parse_cidr cfg a.
Proof.
  intros Hwf cfg l a Ha. unfold spec_nets, configured, config_valid.
  destruct (forallb _ (spec_entries parse_ip parse_cidr cfg)) eqn:Hv; [|discriminate].
  intros H. injection H as <-.
  assert (Hes : forall e, In e (spec_entries parse_ip parse_cidr cfg) ->
                          match e with EAddr b => wf_ip b | _ => True end).
  { intros e He. unfold spec_entries in He. apply in_map_iff in He as (s & <- & _).
    unfold spec_entry. destruct (existsb _ _).
    - destruct (parse_cidr s); exact I.
    - destruct (parse_ip s) as [b|] eqn:E; [exact (Hwf s b E)|exact I]. }
  induction (spec_entries parse_ip parse_cidr cfg) as [|e es IH]; [reflexivity|].
  cbn [forallb] in Hv. apply andb_prop in Hv as [_ Hv].
  cbn [flat_map existsb]. unfold on_list in *. rewrite existsb_app.
  rewrite (IH Hv (fun e' He' => Hes e' (or_intror He'))). f_equal.
  pose proof (Hes e (or_introl eq_refl)) as He.
  destruct e as [[x|x]|n|]; cbn [entry_net entry_has existsb]; rewrite ?orb_false_r; try reflexivity.
  - exact (in_net_full (V4 x) a He Ha).
  - exact (in_net_full (V6 x) a He Ha).
Qed.

(* ---- configuration histories: the fold over the reloads is "the last valid
        configuration" of corr/Run_C16.v ---------------------------------------- *)
Notation cvalid := (config_valid parse_ip parse_cidr).
Notation ineffect := (in_effect parse_ip parse_cidr).
Notation hlist := (history_list parse_ip parse_cidr).

Definition eff_list (d : list net) (cfg : string) : list net :=
  match snets cfg with Some l => or_default d l | None => d end.

Lemma last_opt_snoc : forall {A} (l : list A) x, last_opt (l ++ [x]) = Some x.
Proof. intros A l x. unfold last_opt. rewrite rev_app_distr. reflexivity. Qed.

Lemma fold_reload_spec : forall d rl cur,
  fold_left (reload_list parse_ip parse_cidr d) rl cur =
  match last_opt (filter cvalid (map cfg_text rl)) with
  | Some c => eff_list d c
  | None => cur
  end.
Proof.
  intros d rl. induction rl as [|x rl IH] using rev_ind; intros cur; [reflexivity|].
  rewrite fold_left_app, map_app, filter_app. cbn [fold_left map filter].
  unfold reload_list at 1. rewrite parse_allowed_spec.
  change (opt_text x) with (cfg_text x).
  unfold spec_nets at 1. destruct (cvalid (cfg_text x)) eqn:Hv.
  - rewrite last_opt_snoc. unfold eff_list, spec_nets. rewrite Hv. reflexivity.
  - rewrite app_nil_r. apply IH.
Qed.

Lemma in_effect_valid : forall st rl cfg, ineffect st rl = Some cfg -> cvalid cfg = true.
Proof.
  intros st rl cfg. unfold in_effect. destruct (cvalid (cfg_text st)) eqn:Hs; [|discriminate].
  destruct (last_opt _) as [c|] eqn:El.
  - intros H. injection H as <-. apply last_opt_filter_Some in El as (_ & _ & _ & Hc & _). exact Hc.
  - intros H. injection H as <-. exact Hs.
Qed.

Lemma in_effect_nets : forall st rl cfg, ineffect st rl = Some cfg -> exists l, snets cfg = Some l.
Proof.
  intros st rl cfg H. apply in_effect_valid in H. unfold spec_nets. rewrite H. eauto.
Qed.

(* the model's list after a history is the list of the configuration in effect *)
Lemma history_list_spec : forall d st rl,
  hlist d st rl =
  match ineffect st rl with
  | Some cfg => match snets cfg with Some l => Some (or_default d l) | None => None end
  | None => None
  end.
Proof.
  intros d st rl. unfold history_list, in_effect. rewrite parse_allowed_spec.
  change (opt_text st) with (cfg_text st).
  unfold spec_nets at 1. destruct (cvalid (cfg_text st)) eqn:Hs; [|reflexivity].
  rewrite fold_reload_spec. destruct (last_opt _) as [c|] eqn:El.
  - apply last_opt_filter_Some in El as (_ & _ & _ & Hc & _).
    unfold eff_list, spec_nets. rewrite Hc. reflexivity.
  - unfold spec_nets. rewrite Hs. reflexivity.
Qed.

(* after any reloads the server answers as one freshly started with the configuration in
   effect (the model's OCfgHub / OCfgStats on that text) *)
Lemma hist_hub_as_fresh : forall st rl cfg peer xr xff,
  ineffect st rl = Some cfg ->
  step parse_ip split_host_port parse_cidr (OHistHub st rl peer xr xff) =
  step parse_ip split_host_port parse_cidr (OCfgHub cfg peer xr xff).
Proof.
  intros st rl cfg peer xr xff H. cbn [step]. rewrite history_list_spec, H.
  unfold hub_trusted. rewrite parse_allowed_spec. destruct (snets cfg); reflexivity.
Qed.
Lemma hist_stats_as_fresh : forall e st rl tcfg acfg peer xr xff,
  ineffect (fst st) (map fst rl) = Some tcfg ->
  ineffect (snd st) (map snd rl) = Some acfg ->
  step parse_ip split_host_port parse_cidr (OHistStats e st rl peer xr xff) =
  step parse_ip split_host_port parse_cidr (OCfgStats e tcfg acfg peer xr xff).
Proof.
  intros e st rl tcfg acfg peer xr xff Ht Ha. cbn [step]. rewrite !history_list_spec, Ht, Ha.
  unfold hub_trusted, stats_allowed. rewrite !parse_allowed_spec.
  destruct (snets tcfg); destruct (snets acfg); reflexivity.
Qed.

(* a reload with a file from which the option has been removed: whatever was configured
   before, nothing is configured now (provided the server started at all) *)
Lemma in_effect_removed : forall st rl,
  cvalid (cfg_text st) = true -> ineffect st (rl ++ [None]) = Some "".
Proof.
  intros st rl Hs. unfold in_effect. rewrite Hs, map_app, filter_app. cbn [map filter cfg_text].
  assert (Hv : cvalid "" = true) by reflexivity. rewrite Hv, last_opt_snoc. reflexivity.
Qed.
(* ... and a reload with a valid text replaces whatever was there *)
Lemma in_effect_replaced : forall st rl o,
  cvalid (cfg_text st) = true -> cvalid (cfg_text o) = true -> ineffect st (rl ++ [o]) = Some (cfg_text o).
Proof.
  intros st rl o Hs Ho. unfold in_effect. rewrite Hs, map_app, filter_app. cbn [map filter].
  rewrite Ho, last_opt_snoc. reflexivity.
Qed.
(* ... while one with a refused text changes nothing *)
Lemma in_effect_refused : forall st rl o,
  cvalid (cfg_text o) = false -> ineffect st (rl ++ [o]) = ineffect st rl.
Proof.
  intros st rl o Ho. unfold in_effect. rewrite map_app, filter_app. cbn [map filter].
  rewrite Ho, app_nil_r. reflexivity.
Qed.

Lemma model_satisfies_P : oracle_sane -> forall ops,
  P_C16 parse_ip split_host_port parse_cidr (trace_of parse_ip split_host_port parse_cidr ops) = true.
Proof.
  intros Ho ops. unfold P_C16, trace_of. apply forallb_forall. intros [o v] Hin.
  apply in_map_iff in Hin. destruct Hin as (o' & Heq & _). injection Heq as -> <-.
  destruct o as [t peer xr xff|e t al peer xr xff|nets a| |cfg peer xr xff|cfg peer xr xff|e tcfg acfg peer xr xff|cfg a|cfg
                  |st rl peer xr xff|e st rl peer xr xff];
    cbn [P_step step].
  - rewrite (real_ip_spec Ho). apply String.eqb_refl.
  - unfold endpoint_status. rewrite (allow_stats_spec Ho).
    destruct (spec_gate parse_ip split_host_port t al peer xr xff); reflexivity.
  - rewrite allowed_on_list. apply Bool.eqb_reflx.
  - reflexivity.
  - destruct cfg as [cfg|].
    + rewrite parse_allowed_spec. destruct (snets cfg); [|reflexivity].
      rewrite (real_ip_spec Ho). apply String.eqb_refl.
    + rewrite (real_ip_spec Ho). apply String.eqb_refl.
  - unfold hub_trusted. rewrite parse_allowed_spec. destruct (snets cfg); [|reflexivity].
    rewrite (real_ip_spec Ho). apply String.eqb_refl.
  - unfold hub_trusted, stats_allowed. rewrite !parse_allowed_spec.
    destruct (snets tcfg) as [t|]; [|destruct (snets acfg); reflexivity].
    destruct (snets acfg) as [al|]; [|reflexivity].
    unfold endpoint_status. rewrite (allow_stats_spec Ho).
    change (or_default default_trusted t) with (spec_or_default default_trusted t).
    change (or_default default_stats_allowed al) with (spec_or_default default_stats_allowed al).
    destruct (spec_gate parse_ip split_host_port _ _ peer xr xff); reflexivity.
  - rewrite parse_allowed_spec. destruct (snets cfg); [|reflexivity].
    rewrite allowed_on_list. apply Bool.eqb_reflx.
  - rewrite parse_allowed_spec. destruct (snets cfg); reflexivity.
  - rewrite history_list_spec. destruct (ineffect st rl) as [cfg|] eqn:E; [|reflexivity].
    destruct (in_effect_nets _ _ _ E) as (t & Ht). rewrite Ht.
    rewrite (real_ip_spec Ho). apply String.eqb_refl.
  - rewrite !history_list_spec.
    destruct (ineffect (fst st) (map fst rl)) as [tcfg|] eqn:Et;
      [|destruct (ineffect (snd st) (map snd rl)); reflexivity].
    destruct (in_effect_nets _ _ _ Et) as (t & Ht). rewrite Ht.
    destruct (ineffect (snd st) (map snd rl)) as [acfg|] eqn:Ea; [|reflexivity].
    destruct (in_effect_nets _ _ _ Ea) as (al & Hal). rewrite Hal.
    unfold endpoint_status. rewrite (allow_stats_spec Ho).
    change (or_default default_trusted t) with (spec_or_default default_trusted t).
    change (or_default default_stats_allowed al) with (spec_or_default default_stats_allowed al).
    destruct (spec_gate parse_ip split_host_port _ _ peer xr xff); reflexivity.
Qed.

(* a direct client of a hub configured with the text cfg: the result is its
   socket address, whatever headers it sends *)
Lemma cfg_direct_client : forall cfg t peer xr xff,
  hub_trusted parse_ip parse_cidr cfg = Some t ->
  untrusted_peer (Some t) peer ->
  step parse_ip split_host_port parse_cidr (OCfgHub cfg peer xr xff) = VAddr (strip peer).
Proof.
  intros cfg t peer xr xff Ht Hu. cbn [step]. rewrite Ht.
  now rewrite untrusted_peer_ignores_headers.
Qed.

(* ---- the same, read relationally --------------------------------------------
   peer is a trusted proxy; r is the address the model returns *)
Definition no_usable_real_ip (xr : list string) : Prop :=
  match xr with [] => True | v :: _ => isaddr v = false end.
Definition not_untrusted (l : list net) (h : string) : Prop :=
  isaddr h = false \/ isproxy (Some l) h = true.

Lemma U_false : forall l h, U l h = false -> not_untrusted l h.
Proof.
  intros l h H. unfold U in H. unfold not_untrusted. destruct (isaddr h); [right|left; reflexivity].
  cbn [andb] in H. destruct (isproxy (Some l) h); [reflexivity|discriminate].
Qed.

Lemma trusted_peer_cases : oracle_sane -> forall l peer a xr xff,
  parse_ip (strip peer) = Some a -> allowed l a = true ->
  let r := realip (Some l) peer xr xff in
  let hs := hops split_host_port xff in
  (* X-Real-IP: the first header line, when it is an address *)
  (exists v vs, xr = v :: vs /\ isaddr v = true /\ r = v) \/
  (* the right-most hop of X-Forwarded-For that is an address and not a trusted proxy *)
  (no_usable_real_ip xr /\ exists pre post, hs = (pre ++ r :: post)%list /\
     isaddr r = true /\ isproxy (Some l) r = false /\ forall h, In h post -> not_untrusted l h) \/
  (* every hop is a trusted proxy or no address: the left-most address *)
  (no_usable_real_ip xr /\ (forall h, In h hs -> not_untrusted l h) /\
     exists pre post, hs = (pre ++ r :: post)%list /\ isaddr r = true /\
                      forall h, In h pre -> isaddr h = false) \/
  (* no hop is an address: the socket peer *)
  (no_usable_real_ip xr /\ (forall h, In h hs -> isaddr h = false) /\ r = strip peer).
Proof.
  intros Ho l peer a xr xff Ha Hal r hs.
  set (F := match last_opt (filter (U l) hs) with
            | Some h => h
            | None => match filter isaddr hs with h :: _ => h | [] => strip peer end
            end).
  assert (Hres : r = match xr with [] => F | v :: _ => if isaddr v then v else F end).
  { subst r F. rewrite (real_ip_spec Ho). unfold spec_addr.
    change (host_of split_host_port peer) with (strip peer).
    unfold is_proxy at 1. rewrite Ha, <- allowed_on_list, Hal. cbn [negb].
    fold hs. rewrite filter_filter'. reflexivity. }
  clearbody r.
  assert (Hx : (exists v vs, xr = v :: vs /\ isaddr v = true) \/ (no_usable_real_ip xr /\ r = F)).
  { destruct xr as [|v vs]; [right; split; [exact I|exact Hres]|].
    destruct (isaddr v) eqn:Ev; [left; eauto|right; split; [exact Ev|exact Hres]]. }
  destruct Hx as [(v & vs & -> & Hv)|[Hn HF]].
  { left. exists v, vs. rewrite Hv in Hres. auto. }
  right. clear Hres. subst r F.
  destruct (last_opt (filter (U l) hs)) as [h|] eqn:El.
  - left. split; [exact Hn|].
    destruct (last_opt_filter_Some _ _ _ El) as (pre & post & Hs & Hu & Hp).
    exists pre, post. split; [exact Hs|]. unfold U in Hu. apply andb_true_iff in Hu. destruct Hu as [H1 H2].
    split; [exact H1|]. split; [destruct (isproxy (Some l) h); [discriminate|reflexivity]|].
    intros y Hy. apply U_false. exact (Hp y Hy).
  - right. pose proof (last_opt_filter_None _ _ El) as Hall.
    destruct (filter isaddr hs) as [|h t] eqn:Ef.
    + right. split; [exact Hn|]. split; [|reflexivity].
      intros y Hy. destruct (isaddr y) eqn:Ey; [|reflexivity].
      assert (Hin : In y (filter isaddr hs)) by (apply filter_In; split; assumption).
      rewrite Ef in Hin. destruct Hin.
    + left. split; [exact Hn|]. split; [intros y Hy; apply U_false; exact (Hall y Hy)|].
      destruct (filter_head_split _ _ _ _ Ef) as (pre & post & Hs & Hh & Hp).
      exists pre, post. auto.
Qed.

(* ---- provenance: where the returned text comes from (no hypothesis) --------- *)
Lemma scan_provenance : forall l hops lt o lt',
  scan' l hops lt = (o, lt') ->
  (forall h, o = Some h -> isaddr h = true /\ exists raw, In raw hops /\ h = strip (trim raw)) /\
  (lt' = lt \/ (isaddr lt' = true /\ exists raw, In raw hops /\ lt' = strip (trim raw))).
Proof.
  intros l hops. induction hops as [|hop r IH]; intros lt o lt' H; cbn [scan] in H.
  - injection H as <- <-. split; [discriminate|left; reflexivity].
  - destruct (parse_ip (strip (trim hop))) as [a|] eqn:E.
    + destruct (allowed l a).
      * destruct (IH _ _ _ H) as [H1 H2]. split.
        -- intros h Hh. destruct (H1 h Hh) as (Hi & raw & Hin & Hr). split; [exact Hi|].
           exists raw. split; [right; exact Hin|exact Hr].
        -- right. destruct H2 as [->|(Hi & raw & Hin & Hr)].
           ++ split; [unfold is_addr; rewrite E; reflexivity|]. exists hop. split; [left; reflexivity|reflexivity].
           ++ split; [exact Hi|]. exists raw. split; [right; exact Hin|exact Hr].
      * injection H as <- <-. split; [|left; reflexivity].
        intros h Hh. injection Hh as <-. split; [unfold is_addr; rewrite E; reflexivity|].
        exists hop. split; [left; reflexivity|reflexivity].
    + destruct (IH _ _ _ H) as [H1 H2]. split.
      * intros h Hh. destruct (H1 h Hh) as (Hi & raw & Hin & Hr). split; [exact Hi|].
        exists raw. split; [right; exact Hin|exact Hr].
      * destruct H2 as [->|(Hi & raw & Hin & Hr)]; [left; reflexivity|right].
        split; [exact Hi|]. exists raw. split; [right; exact Hin|exact Hr].
Qed.

Lemma result_provenance : forall trusted peer xr xff,
  let r := realip trusted peer xr xff in
  r = strip peer \/
  (exists l a, trusted = Some l /\ parse_ip (strip peer) = Some a /\ allowed l a = true /\
     isaddr r = true /\
     ((exists vs, xr = r :: vs) \/
      (exists raw, In raw (split_comma (join_comma xff)) /\ r = strip (trim raw)))).
Proof.
  intros t peer xr xff r. subst r. unfold real_ip.
  destruct (parse_ip (strip peer)) as [a|] eqn:Ea; [|left; reflexivity].
  destruct t as [l|]; [|left; reflexivity].
  destruct (allowed l a) eqn:Eal; cbn [negb]; [|left; reflexivity].
  set (real := match xr with [] => "" | v :: _ => v end).
  destruct (String.eqb real "") eqn:Er.
  2: destruct (parse_ip real) as [b|] eqn:Eb.
  2: { right. exists l, a. repeat split; try assumption; try reflexivity.
       - unfold is_addr. rewrite Eb. reflexivity.
       - left. subst real. destruct xr as [|v vs]; [discriminate|]. exists vs. reflexivity. }
  all: destruct (scan' l (rev (split_comma (join_comma xff))) "") as [o lt] eqn:Es;
       destruct (scan_provenance _ _ _ _ _ Es) as [H1 H2];
       destruct o as [hop|].
  1,3: right; exists l, a; destruct (H1 hop eq_refl) as (Hi & raw & Hin & Hr);
       repeat split; try assumption; try reflexivity;
       right; exists raw; split; [apply in_rev; exact Hin|exact Hr].
  all: destruct (String.eqb lt "") eqn:El; [left; reflexivity|];
       destruct H2 as [->|(Hi & raw & Hin & Hr)]; [discriminate|];
       right; exists l, a; repeat split; try assumption; try reflexivity;
       right; exists raw; split; [apply in_rev; exact Hin|exact Hr].
Qed.

(* with at least one X-Forwarded-For line, the hop literally occurs in one line *)
Lemma hop_literal : forall xff raw, xff <> [] -> In raw (split_comma (join_comma xff)) ->
  exists v pre post, In v xff /\ v = pre ++ trim raw ++ post.
Proof.
  intros xff raw Hne Hin. rewrite split_join in Hin by exact Hne.
  apply in_flat_map in Hin. destruct Hin as (v & Hv & Hraw).
  destruct (split_on_sub _ _ _ Hraw) as (pre & post & Hvs).
  destruct (trim_sub raw) as (p2 & q2 & Hr).
  exists v, (pre ++ p2), (q2 ++ post). split; [exact Hv|].
  rewrite Hvs. rewrite Hr at 1. rewrite !append_assoc. reflexivity.
Qed.

Lemma result_literal : forall trusted peer xr xff,
  let r := realip trusted peer xr xff in
  r = strip peer \/ In r xr \/
  (exists v pre t post, In v xff /\ v = pre ++ t ++ post /\ r = strip t) \/
  (xff = [] /\ r = strip "").
Proof.
  intros t peer xr xff r. destruct (result_provenance t peer xr xff) as [H|(l & a & _ & _ & _ & _ & H)].
  - left. exact H.
  - right. destruct H as [(vs & ->)|(raw & Hin & Hr)]; [left; left; reflexivity|right].
    destruct xff as [|x xs].
    + right. split; [reflexivity|]. cbn in Hin. destruct Hin as [<-|[]]. exact Hr.
    + left. destruct (hop_literal (x :: xs) raw) as (v & pre & post & Hv & Heq); [discriminate|exact Hin|].
      exists v, pre, (trim raw), post. auto.
Qed.

(* a trusted-proxy request never yields a text that is not an address *)
Lemma result_is_address : forall trusted peer xr xff a,
  parse_ip (strip peer) = Some a -> isaddr (realip trusted peer xr xff) = true.
Proof.
  intros t peer xr xff a Ha.
  destruct (result_provenance t peer xr xff) as [H|(l & b & _ & _ & _ & H & _)]; [|exact H].
  rewrite H. unfold is_addr. rewrite Ha. reflexivity.
Qed.

(* ---- the stats gate ---------------------------------------------------------- *)
Lemma stats_gate_iff : forall e trusted allow peer xr xff,
  (endpoint_status parse_ip split_host_port e trusted allow peer xr xff = 200%N <->
   exists a n, parse_ip (realip (Some trusted) peer xr xff) = Some a /\ In n allow /\ in_net n a = true) /\
  (endpoint_status parse_ip split_host_port e trusted allow peer xr xff = 200%N \/
   endpoint_status parse_ip split_host_port e trusted allow peer xr xff = 403%N).
Proof.
  intros e t al peer xr xff. unfold endpoint_status, allow_stats.
  destruct (parse_ip (realip (Some t) peer xr xff)) as [a|].
  - destruct (allowed al a) eqn:Ea.
    + split; [|left; reflexivity]. split; [intros _|reflexivity].
      rewrite allowed_on_list in Ea. unfold on_list in Ea. apply existsb_exists in Ea.
      destruct Ea as (n & Hn & Hc). exists a, n. auto.
    + split; [|right; reflexivity]. split; [discriminate|].
      intros (a' & n & Ha & Hn & Hc). injection Ha as <-.
      assert (allowed al a = true); [|congruence].
      rewrite allowed_on_list. apply existsb_exists. exists n. auto.
  - split; [|right; reflexivity]. split; [discriminate|]. intros (a' & n & Ha & _). discriminate.
Qed.

(* a direct (untrusted) client: the gate looks at the socket peer only *)
Lemma stats_gate_direct : forall e trusted allow peer xr xff,
  untrusted_peer (Some trusted) peer ->
  (endpoint_status parse_ip split_host_port e trusted allow peer xr xff = 200%N <->
   exists a, parse_ip (strip peer) = Some a /\ on_list allow a = true).
Proof.
  intros e t al peer xr xff Hu. unfold endpoint_status, allow_stats.
  rewrite (untrusted_peer_ignores_headers (Some t) peer xr xff Hu).
  destruct (parse_ip (strip peer)) as [a|].
  - rewrite allowed_on_list. destruct (on_list al a) eqn:Eo.
    + split; [intros _; exists a; auto|reflexivity].
    + split; [discriminate|]. intros (a' & Ha & Hc). injection Ha as <-. congruence.
  - split; [discriminate|]. intros (a' & Ha & _). discriminate.
Qed.
End RealIPProofs.

(* ======================================================================== *)
(* 5. the default lists                                                       *)
(* ======================================================================== *)
Open Scope N_scope.
Lemma default_trusted_val :
  default_trusted = [(V4 2130706432, 8); (V4 167772160, 8); (V4 2886729728, 12); (V4 3232235520, 16)].
Proof. vm_compute. reflexivity. Qed.

Lemma top_bits_small : forall len n, len <= 32 -> n < 2 ^ 32 ->
  top_bits 32 len n = n / 2 ^ (32 - len).
Proof.
  intros len n Hl Hn. unfold top_bits. apply N.mod_small.
  apply N.div_lt_upper_bound; [apply N.pow_nonzero; discriminate|].
  rewrite <- N.pow_add_r. replace (32 - len + len) with 32 by lia. exact Hn.
Qed.

(* 127.0.0.0/8, 10.0.0.0/8, 172.16.0.0/12, 192.168.0.0/16 and nothing else *)
Lemma default_trusted_v4 : forall n, n < 2 ^ 32 ->
  allowed default_trusted (V4 n) =
  (n / 2 ^ 24 =? 127) || (n / 2 ^ 24 =? 10) || (n / 2 ^ 20 =? 2753) || (n / 2 ^ 16 =? 49320).
Proof.
  intros n Hn. rewrite allowed_on_list, default_trusted_val. unfold on_list, in_net.
  cbn [existsb fst snd]. rewrite !top_bits_small by (try exact Hn; try lia; vm_compute; reflexivity || discriminate).
  change (32 - 8) with 24. change (32 - 12) with 20. change (32 - 16) with 16.
  change (2130706432 / 2 ^ 24) with 127. change (167772160 / 2 ^ 24) with 10.
  change (2886729728 / 2 ^ 20) with 2753. change (3232235520 / 2 ^ 16) with 49320.
  rewrite orb_false_r, !orb_assoc.
  rewrite (N.eqb_sym 127), (N.eqb_sym 10), (N.eqb_sym 2753), (N.eqb_sym 49320). reflexivity.
Qed.

Lemma default_trusted_v6 : forall n, allowed default_trusted (V6 n) = false.
Proof. intros n. rewrite default_trusted_val. reflexivity. Qed.
