(* C11, last sentence, third class: "incall" (all not true) and "participants" requests whose
   user lists name nobody ([names_nobody] of corr/Run_C11.v) publish nothing, whatever the state.
   Lemmas for props/C11.v. *)
From Coq Require Import List ZArith NArith String Bool Lia.
From Verif Require Import gen.Params lib.Json lib.Decode model.RoomApi corr.Run_C11 proofs.Decode_proofs proofs.RoomApi_proofs.
Import ListNotations.
Open Scope string_scope.
Open Scope list_scope.

(* ---- the two loops of the map / slice decoders as top-level functions ------------------------------ *)
Fixpoint map_go (t : gty) (ms : members) (acc : list (string * gval)) : result (list (string * gval)) :=
  match ms with
  | [] => Ok acc
  | (k, x) :: r => match decode t (zero t) x with
                   | Err e => Err e
                   | Ok v => map_go t r (map_set k v acc)
                   end
  end.

Lemma decode_map_obj : forall t cur ms,
  decode (TMap t) cur (JObj ms) = match map_go t ms [] with Ok m => Ok (GMap m) | Err e => Err e end.
Proof.
  intros t cur ms. cbn [decode]. generalize (@nil (string * gval)) as acc.
  induction ms as [|[k x] r IH]; intros acc; [reflexivity|].
  cbn [map_go]. destruct (decode t (zero t) x); [apply IH | reflexivity].
Qed.

Fixpoint slice_go (t : gty) (l : list json) : result (list gval) :=
  match l with
  | [] => Ok []
  | x :: r => match decode t (zero t) x with
              | Err e => Err e
              | Ok v => match slice_go t r with Err e => Err e | Ok vs => Ok (v :: vs) end
              end
  end.

Lemma decode_slice_arr : forall t cur l,
  decode (TSlice t) cur (JArr l) = match slice_go t l with Ok vs => Ok (GSlice vs) | Err e => Err e end.
Proof.
  intros t cur l. cbn [decode].
  assert (H : forall l,
    (fix go (l : list json) : result (list gval) :=
       match l with
       | [] => Ok []
       | x :: r => match decode t (zero t) x with
                   | Err e => Err e
                   | Ok v => match go r with Err e => Err e | Ok vs => Ok (v :: vs) end
                   end
       end) l = slice_go t l).
  { induction l0 as [|x r IH]; [reflexivity|]. cbn [slice_go]. now rewrite IH. }
  now rewrite H.
Qed.

(* what a key of a decoded map holds is the decoded value of one of its occurrences *)
Lemma map_go_assoc : forall t ms acc m k v, map_go t ms acc = Ok m -> assoc k m = Some v ->
  (exists x, In x (occurrences k ms) /\ decode t (zero t) x = Ok v) \/ assoc k acc = Some v.
Proof.
  intros t ms. induction ms as [|[k' x] r IH]; intros acc m k v Hgo Ha.
  - cbn in Hgo. injection Hgo as <-. now right.
  - cbn [map_go] in Hgo. destruct (decode t (zero t) x) as [v'|] eqn:Ed; [|discriminate].
    destruct (IH _ _ _ _ Hgo Ha) as [[y [Hin Hy]]|Hacc].
    + left. exists y. split; [|assumption]. apply in_occurrences. right. now apply in_occurrences.
    + destruct (String.eqb k' k) eqn:Ek.
      * apply String.eqb_eq in Ek. subst k'. rewrite assoc_map_set_same in Hacc. injection Hacc as <-.
        left. exists x. split; [|assumption]. apply in_occurrences. now left.
      * right. rewrite assoc_map_set_other in Hacc; [assumption|]. intros ->. now rewrite String.eqb_refl in Ek.
Qed.

(* ---- entries that name nobody are dropped by fixupUserSessions ------------------------------------- *)
Definition known_of (st : state) : list string := map fst (st_rs st).

Lemma assoc_known : forall (l : list (string * string)) s x, assoc s l = Some x -> existsb (String.eqb s) (map fst l) = true.
Proof.
  induction l as [|[k v] r IH]; intros s x H; [discriminate|].
  cbn in H |- *. destruct (String.eqb s k); [reflexivity|]. cbn. eauto.
Qed.

Lemma lookup_names_session : forall st s sid, lookup_rs st s = Some sid -> names_session (known_of st) (JStr s) = true.
Proof.
  intros st s sid H. unfold lookup_rs in H. unfold names_session, known_of.
  change c11_sessionIdNotInMeeting with "0" in H.
  destruct (String.eqb s "0"); [discriminate|]. cbn [negb andb]. eapply assoc_known; eauto.
Qed.

Definition t_entry : gty := TMap TIface.

Lemma entry_nobody_fixup : forall st e u,
  entry_names_nobody (known_of st) e = true -> decode t_entry (zero t_entry) e = Ok u -> fixup_user st u = [].
Proof.
  intros st e u Hn Hd. destruct e; try discriminate.
  - cbn in Hd. injection Hd as <-. reflexivity.
  - unfold t_entry in Hd. rewrite decode_map_obj in Hd.
    destruct (map_go TIface ms []) as [m|] eqn:Eg; [|discriminate]. injection Hd as <-.
    unfold fixup_user. cbn [as_map].
    destruct (assoc "sessionId" m) as [v|] eqn:Ea; [|reflexivity].
    destruct v; try reflexivity. destruct j; try reflexivity.
    destruct (lookup_rs st s) as [sid|] eqn:El; [|reflexivity]. exfalso.
    destruct (map_go_assoc _ _ _ _ _ _ Eg Ea) as [[x [Hin Hx]]|Hacc]; [|discriminate].
    assert (x = JStr s).
    { cbn in Hx. destruct x; try discriminate;
        match type of Hx with (if ?c then _ else _) = _ => destruct c end; try discriminate; now injection Hx as <-. }
    subst x. cbn [entry_names_nobody] in Hn. apply negb_true_iff in Hn.
    assert (Ht : existsb (names_session (known_of st)) (occurrences "sessionId" ms) = true).
    { apply existsb_exists. exists (JStr s). split; [assumption|]. eapply lookup_names_session; eauto. }
    congruence.
Qed.

Lemma slice_nobody_fixup : forall st l vs,
  forallb (entry_names_nobody (known_of st)) l = true -> slice_go t_entry l = Ok vs -> fixup_users st vs = [].
Proof.
  intros st l. induction l as [|e r IH]; intros vs Hn Hd.
  - cbn in Hd. injection Hd as <-. reflexivity.
  - cbn [forallb] in Hn. apply andb_prop in Hn as [He Hr]. cbn [slice_go] in Hd.
    destruct (decode t_entry (zero t_entry) e) as [u|] eqn:Eu; [|discriminate].
    destruct (slice_go t_entry r) as [us|] eqn:Er; [|discriminate]. injection Hd as <-.
    unfold fixup_users. cbn [flat_map]. rewrite (entry_nobody_fixup _ _ _ He Eu). cbn [app].
    now apply IH.
Qed.

Lemma list_nobody_fixup : forall st v c x,
  list_names_nobody (known_of st) v = true -> decode t_users c v = Ok x -> fixup_users st (as_list x) = [].
Proof.
  intros st v c x Hn Hd. destruct v; try discriminate.
  - cbn in Hd. injection Hd as <-. reflexivity.
  - unfold t_users in Hd. rewrite decode_slice_arr in Hd. fold t_entry in Hd.
    destruct (slice_go t_entry l) as [vs|] eqn:Es; [|discriminate]. injection Hd as <-.
    cbn [as_list]. eapply slice_nobody_fixup; eauto.
Qed.

Lemma occs_nobody_fixup : forall st vs c x,
  (forall v, In v vs -> list_names_nobody (known_of st) v = true) ->
  fixup_users st (as_list c) = [] -> decode_occs t_users vs c = Ok x -> fixup_users st (as_list x) = [].
Proof.
  intros st vs. induction vs as [|v r IH]; intros c x Hall Hc Hd.
  - cbn in Hd. now injection Hd as <-.
  - cbn [decode_occs] in Hd. destruct (decode t_users c v) as [c'|] eqn:Ed; [|discriminate].
    apply (IH c' x); [intros w Hw; apply Hall; now right | | assumption].
    eapply list_nobody_fixup; [apply Hall; now left | exact Ed].
Qed.

(* a list member of a sub-object all of whose occurrences name nobody *)
Lemma member_nobody_fixup : forall st fs sub vs2 gn jn,
  decode_fields fs (zero (TStruct fs)) sub = Ok vs2 -> NoDup (map fname fs) -> In (gn, jn, t_users) fs ->
  sget gn (zero (TStruct fs)) (zero t_users) = GSlice [] ->
  forallb (list_names_nobody (known_of st)) (occurrences jn sub) = true ->
  fixup_users st (as_list (fld gn (GStruct vs2))) = [].
Proof.
  intros st fs sub vs2 gn jn E2 Hnd Hin Hz Hn.
  destruct (decode_fields_assoc _ _ _ _ _ _ _ E2 Hnd Hin) as [w [Hw Ha]].
  cbn [fld]. rewrite Ha. rewrite Hz in Hw.
  eapply occs_nobody_fixup; [| |exact Hw]; [|reflexivity].
  intros v Hv. rewrite forallb_forall in Hn. apply Hn.
  apply in_nonnull_occurrences in Hv as [Hv _]. now apply in_occurrences.
Qed.

(* "all" without an occurrence that is true decodes to false *)
Lemma occs_not_true : forall vs c w, (forall v, In v vs -> is_true v = false) -> c = GBool false ->
  decode_occs TBool vs c = Ok w -> w = GBool false.
Proof.
  induction vs as [|v r IH]; intros c w Hall Hc Hd.
  - cbn in Hd. injection Hd as <-. assumption.
  - cbn [decode_occs] in Hd. destruct (decode TBool c v) as [c'|] eqn:Ed; [|discriminate].
    apply (IH c' w); [intros x Hx; apply Hall; now right | | assumption].
    destruct v; try discriminate. cbn in Ed. injection Ed as <-.
    specialize (Hall (JBool b) (or_introl eq_refl)). destruct b; [discriminate | reflexivity].
Qed.

Lemma all_not_true_value : forall ic vs2,
  decode_fields incall_fields (zero (TStruct incall_fields)) ic = Ok vs2 ->
  existsb is_true (occurrences "all" ic) = false -> as_bool (fld "All" (GStruct vs2)) = false.
Proof.
  intros ic vs2 E2 Hn.
  assert (Hs : In ("All", "all", TBool) incall_fields) by (cbn; tauto).
  destruct (decode_fields_assoc _ _ _ _ _ _ _ E2 incall_fields_nodup Hs) as [w [Hw Ha]].
  cbn [fld]. rewrite Ha.
  assert (Hall : forall v, In v (nonnull_occurrences "all" ic) -> is_true v = false).
  { intros v Hv. apply in_nonnull_occurrences in Hv as [Hv _]. apply in_occurrences in Hv.
    destruct (is_true v) eqn:Et; [|reflexivity].
    assert (existsb is_true (occurrences "all" ic) = true) by (apply existsb_exists; eauto). congruence. }
  now rewrite (occs_not_true _ _ _ Hall eq_refl Hw).
Qed.

Definition participants_fields : list (string * string * gty) :=
  [("Changed", "changed", t_users); ("Users", "users", t_users)].

Lemma participants_fields_nodup : NoDup (map fname participants_fields).
Proof. cbn. repeat (constructor; [cbn; intuition discriminate|]). constructor. Qed.

(* the sub-object of the request after decoding a document with a single one *)
Lemma single_sub : forall ms vs F jn fs sub,
  decode_fields req_fields zero_req ms = Ok vs -> In (F, jn, TPtr (TStruct fs)) req_fields ->
  sget F zero_req (zero (TPtr (TStruct fs))) = GNil ->
  occurrences jn ms = [JObj sub] ->
  exists vs2, fld F (GStruct vs) = GPtr (GStruct vs2) /\ decode_fields fs (zero (TStruct fs)) sub = Ok vs2.
Proof.
  intros ms vs F jn fs sub Hdf Hin Hz Eo.
  destruct (field_value _ _ _ _ _ Hdf Hin) as [v [Hv Hf]].
  rewrite (nonnull_single _ _ _ Eo eq_refl) in Hv. rewrite Hz in Hv. cbn [decode_occs] in Hv.
  destruct (decode (TPtr (TStruct fs)) GNil (JObj sub)) as [c|] eqn:Ed; [|discriminate].
  injection Hv as ->.
  rewrite decode_ptr_obj, decode_struct_obj in Ed.
  destruct (decode_fields fs (zero (TStruct fs)) sub) as [vs2|] eqn:E2; [|discriminate].
  injection Ed as <-. exists vs2. split; [assumption | reflexivity].
Qed.

Lemma names_nobody_dispatch : forall st ms vs,
  decode_fields req_fields zero_req ms = Ok vs ->
  doc_names_nobody (known_of st) (JObj ms) = true ->
  dispatch st (GStruct vs) = hdone 200 [].
Proof.
  intros st ms vs Hdf Hn. cbn [doc_names_nobody] in Hn.
  destruct (effective_type ms) as [ty|] eqn:Ety; [|discriminate].
  apply andb_prop in Hn as [Hty Hn].
  pose proof (type_value _ _ _ Hdf Ety) as Htv.
  destruct (occurrences ty ms) as [|o [|? ?]] eqn:Eo; try discriminate.
  2: { destruct o; discriminate. }
  destruct o; try discriminate. rename ms0 into sub.
  unfold sub_names_nobody in Hn. apply andb_prop in Hn as [Hn Hch]. apply andb_prop in Hn as [Hall Hus].
  apply orb_prop in Hty as [Hty|Hty]; apply String.eqb_eq in Hty; subst ty.
  - (* incall *)
    cbn [String.eqb Ascii.eqb Bool.eqb negb orb] in Hall. apply negb_true_iff in Hall.
    assert (Hin : In ("InCall", "incall", TPtr (TStruct incall_fields)) req_fields) by (cbn; unfold ty_incall; tauto).
    destruct (single_sub _ _ _ _ _ _ Hdf Hin eq_refl Eo) as [vs2 [Hf E2]].
    unfold dispatch. rewrite Htv. cbn [String.eqb Ascii.eqb Bool.eqb]. unfold do_incall. rewrite Hf. cbn [deref].
    rewrite (all_not_true_value _ _ E2 Hall).
    rewrite (member_nobody_fixup st incall_fields sub vs2 "Users" "users" E2 incall_fields_nodup); [|cbn; tauto|reflexivity|assumption].
    rewrite (member_nobody_fixup st incall_fields sub vs2 "Changed" "changed" E2 incall_fields_nodup); [|cbn; tauto|reflexivity|assumption].
    reflexivity.
  - (* participants *)
    assert (Hin : In ("Participants", "participants", TPtr (TStruct participants_fields)) req_fields) by (cbn; unfold ty_participants; tauto).
    destruct (single_sub _ _ _ _ _ _ Hdf Hin eq_refl Eo) as [vs2 [Hf E2]].
    unfold dispatch. rewrite Htv. cbn [String.eqb Ascii.eqb Bool.eqb]. unfold do_participants. rewrite Hf. cbn [deref].
    rewrite (member_nobody_fixup st participants_fields sub vs2 "Users" "users" E2 participants_fields_nodup); [|cbn; tauto|reflexivity|assumption].
    rewrite (member_nobody_fixup st participants_fields sub vs2 "Changed" "changed" E2 participants_fields_nodup); [|cbn; tauto|reflexivity|assumption].
    reflexivity.
Qed.

Lemma names_nobody_handle : forall st b, names_nobody (known_of st) b = true ->
  exists c, (c = 200 \/ c = 400)%Z /\ handle true st b = hdone c [].
Proof.
  intros st b Hn. destruct b as [|j]; [discriminate|]. cbn [names_nobody] in Hn. cbn [handle].
  destruct (Z.of_nat (json_depth j) >? max_nesting)%Z; [exists 400%Z; auto|].
  destruct (decode ty_request (zero ty_request) j) as [req|] eqn:Ed; [|exists 400%Z; auto].
  destruct j; try discriminate.
  destruct (request_fields _ _ Ed) as [vs [-> Hdf]].
  cbn [andb]. destruct (check_valid (GStruct vs)); cbn [negb]; [|exists 400%Z; auto].
  exists 200%Z. split; [auto|]. now apply names_nobody_dispatch with (ms := ms).
Qed.

(* whatever the state: answered (200, or 400 when the document does not decode), nothing killed,
   state unchanged, nothing published at all *)
Lemma names_nobody_silent : forall st b, names_nobody (known_of st) b = true ->
  exists c, (c = 200 \/ c = 400)%Z /\
            step true st b = (st, {| o_reply := Status c; o_exit := false; o_pubs := [] |}).
Proof.
  intros st b Hn. destruct (names_nobody_handle st b Hn) as [c [Hc H]].
  exists c. split; [assumption|]. unfold step. rewrite H. reflexivity.
Qed.

(* ---- the class is monotone in the set of known ids, and requests never add ids ---------------------- *)
Lemma existsb_incl : forall (A : Type) (f : A -> bool) l l', incl l l' -> existsb f l = true -> existsb f l' = true.
Proof. intros A f l l' Hi H. apply existsb_exists in H as [x [Hx Hf]]. apply existsb_exists. exists x. auto. Qed.

Lemma names_session_mono : forall k k' v, incl k' k -> names_session k' v = true -> names_session k v = true.
Proof.
  intros k k' v Hi H. destruct v; try discriminate. cbn in H |- *.
  apply andb_prop in H as [H1 H2]. rewrite H1. cbn. eapply existsb_incl; eauto.
Qed.

Lemma entry_nobody_mono : forall k k' e, incl k' k -> entry_names_nobody k e = true -> entry_names_nobody k' e = true.
Proof.
  intros k k' e Hi H. destruct e; try reflexivity. cbn in H |- *.
  apply negb_true_iff in H. apply negb_true_iff.
  destruct (existsb (names_session k') (occurrences "sessionId" ms)) eqn:E; [|reflexivity].
  apply existsb_exists in E as [x [Hx Hs]].
  assert (existsb (names_session k) (occurrences "sessionId" ms) = true)
    by (apply existsb_exists; exists x; split; [assumption | eapply names_session_mono; eauto]).
  congruence.
Qed.

Lemma list_nobody_mono : forall k k' v, incl k' k -> list_names_nobody k v = true -> list_names_nobody k' v = true.
Proof.
  intros k k' v Hi H. destruct v; try reflexivity. cbn in H |- *.
  rewrite forallb_forall in H. apply forallb_forall. intros x Hx. eapply entry_nobody_mono; eauto.
Qed.

Lemma lists_nobody_mono : forall k k' l, incl k' k ->
  forallb (list_names_nobody k) l = true -> forallb (list_names_nobody k') l = true.
Proof.
  intros k k' l Hi H. rewrite forallb_forall in H. apply forallb_forall. intros x Hx. eapply list_nobody_mono; eauto.
Qed.

Lemma names_nobody_mono : forall k k' b, incl k' k -> names_nobody k b = true -> names_nobody k' b = true.
Proof.
  intros k k' b Hi H. destruct b as [|j]; [discriminate|]. cbn [names_nobody] in H |- *.
  destruct j; try discriminate. cbn [doc_names_nobody] in H |- *.
  destruct (effective_type ms) as [ty|]; [|discriminate].
  apply andb_prop in H as [Hty H]. rewrite Hty. cbn [andb].
  destruct (occurrences ty ms) as [|o [|? ?]]; try discriminate.
  2: { destruct o; discriminate. }
  destruct o; try discriminate. unfold sub_names_nobody in H |- *.
  apply andb_prop in H as [H Hc]. apply andb_prop in H as [Ha Hu].
  rewrite Ha, (lists_nobody_mono _ _ _ Hi Hu), (lists_nobody_mono _ _ _ Hi Hc). reflexivity.
Qed.

Lemma incl_map_fst_filter : forall (f : string * string -> bool) l, incl (map fst (filter f l)) (map fst l).
Proof. intros f l x Hx. apply in_map_iff in Hx as [y [<- Hy]]. apply filter_In in Hy as [Hy _]. now apply in_map. Qed.

Lemma consume_known : forall st r, incl (known_of (c_state (consume st r))) (known_of st).
Proof.
  intros st r. unfold consume, publish_participants.
  repeat match goal with
         | |- context [if ?c then _ else _] => destruct c
         | |- context [match ?x with _ => _ end] => destruct x
         end; try apply incl_refl; apply incl_map_fst_filter.
Qed.

Lemma deliver_known : forall ps st, incl (known_of (c_state (deliver st ps))) (known_of st).
Proof.
  induction ps as [|p r IH]; intros st; [apply incl_refl|].
  destruct p; cbn [deliver c_state]; try apply IH.
  destruct (st_room st); cbn [c_state]; [|apply IH].
  destruct (c_exit (consume st r0)); cbn [c_state]; [apply consume_known|].
  eapply incl_tran; [apply IH | apply consume_known].
Qed.

Lemma step_known : forall st b, incl (known_of (fst (step true st b))) (known_of st).
Proof. intros st b. unfold step. cbn [fst]. apply deliver_known. Qed.

(* the state after a history *)
Fixpoint after (st : state) (bs : list body) : state :=
  match bs with [] => st | b :: r => after (fst (step true st b)) r end.

Lemma after_known : forall bs st, incl (known_of (after st bs)) (known_of st).
Proof.
  induction bs as [|b r IH]; intros st; [apply incl_refl|]. cbn [after].
  eapply incl_tran; [apply IH | apply step_known].
Qed.

(* the form used by the trace predicate: the ids of the harness fixture, at any point of a history *)
Lemma names_nobody_fixture : forall ex num bs b, names_nobody run_known b = true ->
  exists c, (c = 200 \/ c = 400)%Z /\
            step true (after (fixture ex num) bs) b =
              (after (fixture ex num) bs, {| o_reply := Status c; o_exit := false; o_pubs := [] |}).
Proof.
  intros ex num bs b Hn. apply names_nobody_silent.
  eapply names_nobody_mono; [|exact Hn].
  eapply incl_tran; [apply after_known|]. apply incl_refl.
Qed.

(* non-vacuity: the request of the report of the seeded change and neighbours; none is malformed,
   all are answered 200 and are silent with the client in the call; next to one valid entry the
   update reaches the client *)
Definition nb_entries : list json :=
  [JObj [("inCall", JNum 7); ("userId", JStr "foo")]; JObj [("inCall", JNum 7); ("sessionId", JNum 12345)];
   JObj [("inCall", JNum 7); ("sessionId", JStr "0")]; JObj [("sessionId", JStr "nobody")]; JObj []; JNull].
Definition ex_nobody : list body :=
  [Doc (JObj [("type", JStr "incall"); ("incall", JObj [("incall", JNum 7); ("changed", JArr nb_entries); ("users", JArr nb_entries)])]);
   Doc (JObj [("type", JStr "incall"); ("incall", JObj [("incall", JNum 7); ("users", JArr [JObj []])])]);
   Doc (JObj [("type", JStr "participants"); ("participants", JObj [("changed", JArr nb_entries); ("users", JArr nb_entries)])]);
   Doc (JObj [("type", JStr "participants"); ("participants", JObj [("changed", JArr [JObj [("sessionId", JStr "0"); ("permissions", JArr [JStr "control"])]])])])].
Definition ex_somebody : body :=
  Doc (JObj [("type", JStr "incall");
             ("incall", JObj [("incall", JNum 7); ("users", JArr (nb_entries ++ [JObj [("sessionId", JStr "c11-rs"); ("inCall", JNum 7)]]))])]).
Lemma ex_nobody_ok :
  forallb (names_nobody run_known) ex_nobody = true /\ forallb (fun b => negb (malformed b)) ex_nobody = true /\
  forallb (fun b => match o_reply (snd (step true (with_incall wst [fixture_sid]) b)) with Status 200 => true | _ => false end) ex_nobody = true /\
  names_nobody run_known ex_somebody = false /\
  events_for wst fixture_sid (o_pubs (snd (step true wst ex_somebody))) = [KParticipants 1].
Proof. repeat split; vm_compute; reflexivity. Qed.
