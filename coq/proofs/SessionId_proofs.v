(* Lemmas about model/SessionId.v.  The statements exported as the property's
   theorems are collected in props/C15.v. *)
From Coq Require Import List Ascii String Bool Arith NArith Lia.
From Verif Require Import gen.Params lib.B64 model.SessionId.
Import ListNotations.

(* ---- splitting at pipes ----------------------------------------------------------- *)
Definition nopipe (l : bytes) : Prop := ~ In pipe l.

Lemma split1_app : forall a r, nopipe a -> split1 (a ++ pipe :: r) = Some (a, r).
Proof.
  induction a as [|c a IH]; intros r H; cbn.
  - reflexivity.
  - destruct (Ascii.eqb c pipe) eqn:E.
    + apply Ascii.eqb_eq in E. exfalso. apply H. left. exact E.
    + rewrite IH; [reflexivity|]. intro I. apply H. right. exact I.
Qed.

Lemma split1_sound : forall l a r, split1 l = Some (a, r) -> l = a ++ pipe :: r /\ nopipe a.
Proof.
  induction l as [|c l IH]; intros a r H; cbn in H; [discriminate|].
  destruct (Ascii.eqb c pipe) eqn:E.
  - apply Ascii.eqb_eq in E. injection H as <- <-. subst c. split; [reflexivity | intros []].
  - destruct (split1 l) as [[a' r']|] eqn:S; [|discriminate]. injection H as <- <-.
    destruct (IH _ _ eq_refl) as [-> N]. split; [reflexivity|].
    intros [I|I]; [subst c; rewrite Ascii.eqb_refl in E; discriminate | exact (N I)].
Qed.

Lemma split3_join : forall a b c, nopipe a -> nopipe b -> split3 (join3 a b c) = Some (a, b, c).
Proof.
  intros a b c Ha Hb. unfold split3, join3. rewrite (split1_app a _ Ha), (split1_app b _ Hb). reflexivity.
Qed.

Lemma split3_sound : forall l a b c, split3 l = Some (a, b, c) -> l = join3 a b c /\ nopipe a /\ nopipe b.
Proof.
  intros l a b c H. unfold split3 in H.
  destruct (split1 l) as [[a' r]|] eqn:S1; [|discriminate].
  destruct (split1 r) as [[b' c']|] eqn:S2; [|discriminate]. injection H as <- <- <-.
  destruct (split1_sound _ _ _ S1) as [-> Na]. destruct (split1_sound _ _ _ S2) as [-> Nb].
  repeat split; assumption.
Qed.

(* the three parts of a value can be read back in one way only *)
Theorem split3_unambiguous : forall a b c a' b' c',
  nopipe a -> nopipe b -> nopipe a' -> nopipe b' ->
  join3 a b c = join3 a' b' c' -> a = a' /\ b = b' /\ c = c'.
Proof.
  intros a b c a' b' c' Ha Hb Ha' Hb' E.
  pose proof (split3_join a b c Ha Hb) as S. rewrite E, (split3_join a' b' c' Ha' Hb') in S.
  injection S as -> -> ->. auto.
Qed.

Lemma mac_msg_join : forall n ts v, mac_msg n ts v = join3 n ts v.
Proof. reflexivity. Qed.

Lemma mac_msg_inj : forall n ts v ts' v', nopipe n -> nopipe ts -> nopipe ts' ->
  mac_msg n ts v = mac_msg n ts' v' -> ts = ts' /\ v = v'.
Proof.
  intros n ts v ts' v' Hn Ht Ht' E. rewrite !mac_msg_join in E.
  destruct (split3_unambiguous _ _ _ _ _ _ Hn Ht Hn Ht' E) as (_ & -> & ->). auto.
Qed.

(* ---- the two cookie names ------------------------------------------------------------- *)
Lemma role_name_nopipe : forall r, nopipe (role_name r).
Proof.
  intros [] H; vm_compute in H; repeat (destruct H as [H|H]; [discriminate H|]); exact H.
Qed.

(* no message authenticated for one role is a message of the other role *)
Lemma role_msgs_differ : forall ts v ts' v', mac_msg (role_name Private) ts v <> mac_msg (role_name Public) ts' v'.
Proof.
  intros ts v ts' v' H. unfold mac_msg, role_name in H. vm_compute bs in H. cbn [app] in H. discriminate H.
Qed.

Lemma role_name_inj : forall r r', role_name r = role_name r' -> r = r'.
Proof. intros [] [] H; try reflexivity; vm_compute in H; discriminate H. Qed.

(* ---- time stamps accepted by ParseInt contain digits and a sign only ------------------------ *)
Lemma digit_not_pipe : forall c d, digit_val c = Some d -> c <> pipe.
Proof. intros c d H E. subst c. vm_compute in H. discriminate H. Qed.

Lemma digits_nopipe : forall l acc n, digits_val acc l = Some n -> nopipe l.
Proof.
  induction l as [|c l IH]; intros acc n H; [intros []|]. cbn in H.
  destruct (digit_val c) as [d|] eqn:D; [|discriminate].
  intros [I|I]; [exact (digit_not_pipe _ _ D I) | exact (IH _ _ H I)].
Qed.

Lemma magnitude_nopipe : forall l b, magnitude_ok l b = true -> nopipe l.
Proof.
  intros l b H. unfold magnitude_ok in H. destruct l as [|c l]; [discriminate|].
  destruct (digits_val 0 (c :: l)) as [n|] eqn:D; [|discriminate]. exact (digits_nopipe _ _ _ D).
Qed.

Lemma parse_int_nopipe : forall ts, parse_int_ok ts = true -> nopipe ts.
Proof.
  intros [|c r] H; [discriminate|]. cbn [parse_int_ok] in H.
  destruct (Ascii.eqb c "-"%char) eqn:E1; [|destruct (Ascii.eqb c "+"%char) eqn:E2].
  - apply Ascii.eqb_eq in E1. subst c. pose proof (magnitude_nopipe _ _ H) as N.
    intros [I|I]; [discriminate I | exact (N I)].
  - apply Ascii.eqb_eq in E2. subst c. pose proof (magnitude_nopipe _ _ H) as N.
    intros [I|I]; [discriminate I | exact (N I)].
  - exact (magnitude_nopipe _ _ H).
Qed.

Lemma firstn_app_exact : forall (A : Type) (a b : list A), firstn (List.length a) (a ++ b) = a.
Proof. induction a as [|x a IH]; intro b; cbn; [destruct b; reflexivity | f_equal; apply IH]. Qed.
Lemma skipn_app_exact : forall (A : Type) (a b : list A), skipn (List.length a) (a ++ b) = b.
Proof. induction a as [|x a IH]; intro b; cbn; [reflexivity | apply IH]. Qed.
Lemma rev_inj : forall (A : Type) (a b : list A), rev a = rev b -> a = b.
Proof. intros A a b H. rewrite <- (rev_involutive a), <- (rev_involutive b), H. reflexivity. Qed.

Section Codec.
Context {key bkey data : Type}.
Context (O : oracles key bkey data).
Notation keyset := (keyset key bkey).

(* the two shapes of an id: base64 of date|value|mac, and base64 of the same bytes in reverse order *)
Definition triple_bytes (r : role) (ts v m : bytes) : bytes :=
  match r with Private => join3 ts v m | Public => rev (join3 ts v m) end.
Definition id_string (r : role) (ts v m : bytes) : bytes := b64enc (triple_bytes r ts v m).

Lemma triple_bytes_inj : forall r ts v m ts' v' m', nopipe ts -> nopipe v -> nopipe ts' -> nopipe v' ->
  triple_bytes r ts v m = triple_bytes r ts' v' m' -> ts = ts' /\ v = v' /\ m = m'.
Proof.
  intros r ts v m ts' v' m' H1 H2 H3 H4 E. destruct r; cbn in E.
  - exact (split3_unambiguous _ _ _ _ _ _ H1 H2 H3 H4 E).
  - apply rev_inj in E. exact (split3_unambiguous _ _ _ _ _ _ H1 H2 H3 H4 E).
Qed.

Lemma id_string_inj : forall r ts v m ts' v' m', nopipe ts -> nopipe v -> nopipe ts' -> nopipe v' ->
  id_string r ts v m = id_string r ts' v' m' -> ts = ts' /\ v = v' /\ m = m'.
Proof.
  intros r ts v m ts' v' m' H1 H2 H3 H4 E. apply b64enc_inj in E.
  exact (triple_bytes_inj _ _ _ _ _ _ _ H1 H2 H3 H4 E).
Qed.

(* what the stream cipher has to do for one value so that decrypt undoes encrypt *)
Definition stream_ok (b : option bkey) (iv p : bytes) : Prop :=
  match b with
  | None => True
  | Some k => List.length iv = iv_size /\ ctr O k iv p <> [] /\ ctr O k iv (ctr O k iv p) = p
  end.

Lemma decrypt_encrypt : forall b iv p, stream_ok b iv p -> decrypt O b (encrypt O b iv p) = Some p.
Proof.
  intros [k|] iv p H; cbn [decrypt encrypt]; [|reflexivity].
  destruct H as (L & N & I).
  assert (E : (iv_size <? List.length (iv ++ ctr O k iv p))%nat = true).
  { apply Nat.ltb_lt. rewrite app_length, L. destruct (ctr O k iv p); [contradiction | cbn [List.length]; lia]. }
  rewrite E. rewrite <- L, firstn_app_exact, skipn_app_exact, I. reflexivity.
Qed.

(* with a length-preserving, involutive stream cipher only the empty plaintext is a problem *)
Lemma stream_ok_from_ctr_laws : forall k iv p,
  List.length iv = iv_size -> (forall x, List.length (ctr O k iv x) = List.length x) ->
  (forall x, ctr O k iv (ctr O k iv x) = x) -> p <> [] -> stream_ok (Some k) iv p.
Proof.
  intros k iv p L LP I N. repeat split; [exact L | | apply I].
  intro E. apply N. apply length_zero_iff_nil. rewrite <- (LP p), E. reflexivity.
Qed.

Lemma decrypt_encrypt_empty : forall k iv, List.length iv = iv_size -> ctr O k iv [] = [] ->
  decrypt O (Some k) (encrypt O (Some k) iv []) = None.
Proof.
  intros k iv L E. cbn [decrypt encrypt]. rewrite E, app_nil_r, L, Nat.ltb_irrefl. reflexivity.
Qed.

(* ---- SecureCookie.Decode after SecureCookie.Encode ------------------------------------------- *)
Lemma cookie_encode_form : forall name ks ts iv d s, cookie_encode O name ks ts iv d = Ok s ->
  exists p, ser O d = Some p /\
    let v := b64enc (encrypt O (bk ks) iv p) in
    s = b64enc (join3 ts v (hmac O (hk ks) (mac_msg name ts v))) /\ (max_length <? List.length s)%nat = false.
Proof.
  intros name ks ts iv d s H. unfold cookie_encode in H. destruct (ser O d) as [p|]; [|discriminate].
  exists p. split; [reflexivity|]. cbv zeta in *.
  destruct (max_length <? _)%nat eqn:L; [discriminate|]. injection H as <-. split; [reflexivity | exact L].
Qed.

Lemma cookie_decode_encode : forall name ks ts iv d p s,
  ser O d = Some p -> deser O p = Some d -> stream_ok (bk ks) iv p -> parse_int_ok ts = true ->
  cookie_encode O name ks ts iv d = Ok s -> cookie_decode O name ks s = Ok d.
Proof.
  intros name ks ts iv d p s Hs Hd Hc Ht He.
  destruct (cookie_encode_form _ _ _ _ _ _ He) as (p' & Hs' & Hform). rewrite Hs in Hs'. injection Hs' as <-.
  cbv zeta in Hform. destruct Hform as [-> L].
  unfold cookie_decode. rewrite L, b64_roundtrip.
  rewrite split3_join by (try exact (parse_int_nopipe _ Ht); apply b64enc_no_pipe).
  rewrite beqb_refl. cbn [negb]. rewrite Ht. cbn [negb]. rewrite b64_roundtrip, (decrypt_encrypt _ _ _ Hc), Hd.
  reflexivity.
Qed.

Lemma cookie_decode_sound : forall name ks s d, cookie_decode O name ks s = Ok d ->
  exists ts v m c p,
    (max_length <? List.length s)%nat = false /\ b64dec s = Some (join3 ts v m) /\ nopipe ts /\ nopipe v /\
    m = hmac O (hk ks) (mac_msg name ts v) /\ parse_int_ok ts = true /\
    b64dec v = Some c /\ decrypt O (bk ks) c = Some p /\ deser O p = Some d.
Proof.
  intros name ks s d H. unfold cookie_decode in H.
  destruct (max_length <? List.length s)%nat eqn:L; [discriminate|].
  destruct (b64dec s) as [b|] eqn:B; [|discriminate].
  destruct (split3 b) as [[[ts v] m]|] eqn:S; [|discriminate].
  destruct (beqb (hmac O (hk ks) (mac_msg name ts v)) m) eqn:M; cbn [negb] in H; [|discriminate].
  destruct (parse_int_ok ts) eqn:T; cbn [negb] in H; [|discriminate].
  destruct (b64dec v) as [c|] eqn:V; [|discriminate].
  destruct (decrypt O (bk ks) c) as [p|] eqn:D; [|discriminate].
  destruct (deser O p) as [d'|] eqn:P; [|discriminate]. injection H as <-.
  destruct (split3_sound _ _ _ _ S) as (-> & N1 & N2). apply beqb_eq in M.
  exists ts, v, m, c, p. repeat split; auto.
Qed.

(* the later stages of a decode: a function of the value part alone *)
Definition payload (ks : keyset) (v : bytes) : option data :=
  match b64dec v with
  | None => None
  | Some c => match decrypt O (bk ks) c with None => None | Some p => deser O p end
  end.

(* ---- decoders without the canonical-form check -------------------------------------------------- *)
Theorem decode_lax_sound : forall r ks s d, decode_lax O r ks s = Ok d ->
  exists ts v m,
    b64dec s = Some (triple_bytes r ts v m) /\ nopipe ts /\ nopipe v /\
    m = hmac O (hk ks) (mac_msg (role_name r) ts v) /\ parse_int_ok ts = true /\ payload ks v = Some d.
Proof.
  intros r ks s d H. destruct r; cbn [decode_lax] in H.
  - unfold decode_private_lax in H.
    destruct (cookie_decode_sound _ _ _ _ H) as (ts & v & m & c & p & _ & B & N1 & N2 & M & T & V & D & P).
    exists ts, v, m. unfold payload. rewrite V, D. repeat split; auto.
  - unfold decode_public_lax, reverse_id in H. destruct (b64dec s) as [b|] eqn:B; [|discriminate].
    destruct (cookie_decode_sound _ _ _ _ H) as (ts & v & m & c & p & _ & B' & N1 & N2 & M & T & V & D & P).
    rewrite b64_roundtrip in B'. injection B' as B'.
    exists ts, v, m. unfold payload. rewrite V, D. cbn [triple_bytes]. rewrite <- B', rev_involutive. repeat split; auto.
Qed.

(* a string that decodes to the same bytes is treated in the same way *)
Theorem decode_private_lax_respelling : forall ks s s',
  b64dec s' = b64dec s -> (max_length <? List.length s')%nat = (max_length <? List.length s)%nat ->
  decode_private_lax O ks s' = decode_private_lax O ks s.
Proof. intros ks s s' B L. unfold decode_private_lax, cookie_decode. rewrite B, L. reflexivity. Qed.

Theorem decode_public_lax_respelling : forall ks s s',
  b64dec s' = b64dec s -> decode_public_lax O ks s' = decode_public_lax O ks s.
Proof. intros ks s s' B. unfold decode_public_lax, reverse_id. rewrite B. reflexivity. Qed.

(* ---- the decoders with the canonical-form check ----------------------------------------------------- *)
Lemma decode_is_lax : forall r ks s, decode O r ks s = if is_canonical s then decode_lax O r ks s else Err ENotCanonical.
Proof. intros [] ks s; reflexivity. Qed.

Theorem decode_sound : forall r ks s d, decode O r ks s = Ok d ->
  exists ts v m,
    s = id_string r ts v m /\ nopipe ts /\ nopipe v /\
    m = hmac O (hk ks) (mac_msg (role_name r) ts v) /\ parse_int_ok ts = true /\ payload ks v = Some d.
Proof.
  intros r ks s d H. rewrite decode_is_lax in H. destruct (is_canonical s) eqn:C; [|discriminate].
  destruct (decode_lax_sound _ _ _ _ H) as (ts & v & m & B & R).
  exists ts, v, m. split; [|exact R]. exact (canonical_dec_enc _ _ C B).
Qed.

Lemma is_canonical_b64enc : forall x, is_canonical (b64enc x) = true.
Proof. intro x. apply is_canonical_spec. eauto. Qed.

Lemma decode_public_of_rev : forall ks x d,
  cookie_decode O (role_name Public) ks (b64enc x) = Ok d -> decode_public O ks (b64enc (rev x)) = Ok d.
Proof.
  intros ks x d H. unfold decode_public, decode_public_lax, reverse_id.
  rewrite is_canonical_b64enc, b64_roundtrip, rev_involutive. exact H.
Qed.

Theorem decode_encode : forall r ks ts iv d p s,
  ser O d = Some p -> deser O p = Some d -> stream_ok (bk ks) iv p -> parse_int_ok ts = true ->
  encode O r ks ts iv d = Ok s -> decode O r ks s = Ok d.
Proof.
  intros r ks ts iv d p s Hs Hd Hc Ht He. destruct r; cbn [encode decode] in *.
  - unfold encode_private in He. unfold decode_private, decode_private_lax.
    destruct (cookie_encode_form _ _ _ _ _ _ He) as (p' & _ & Hf). cbv zeta in Hf. destruct Hf as [E _].
    rewrite E at 1. rewrite is_canonical_b64enc.
    exact (cookie_decode_encode _ _ _ _ _ _ _ Hs Hd Hc Ht He).
  - unfold encode_public in He. destruct (cookie_encode O (role_name Public) ks ts iv d) as [s0|] eqn:E0; [|discriminate].
    destruct (cookie_encode_form _ _ _ _ _ _ E0) as (p' & _ & Hf). cbv zeta in Hf. destruct Hf as [E _].
    pose proof (cookie_decode_encode _ _ _ _ _ _ _ Hs Hd Hc Ht E0) as D0.
    remember (join3 ts (b64enc (encrypt O (bk ks) iv p')) (hmac O (hk ks) (mac_msg (role_name Public) ts (b64enc (encrypt O (bk ks) iv p'))))) as x eqn:Ex.
    subst s0. unfold reverse_id in He. rewrite b64_roundtrip in He. injection He as <-.
    exact (decode_public_of_rev _ _ _ D0).
Qed.

(* what a minted id looks like *)
Theorem encode_form : forall r ks ts iv d s, encode O r ks ts iv d = Ok s ->
  exists p, ser O d = Some p /\
    let v := b64enc (encrypt O (bk ks) iv p) in
    s = id_string r ts v (hmac O (hk ks) (mac_msg (role_name r) ts v)).
Proof.
  intros r ks ts iv d s He. destruct r; cbn [encode] in He.
  - destruct (cookie_encode_form _ _ _ _ _ _ He) as (p & Hp & Hf). exists p. split; [exact Hp|]. exact (proj1 Hf).
  - unfold encode_public in He. destruct (cookie_encode O (role_name Public) ks ts iv d) as [s0|] eqn:E0; [|discriminate].
    destruct (cookie_encode_form _ _ _ _ _ _ E0) as (p & Hp & Hf). exists p. split; [exact Hp|].
    cbv zeta in *. destruct Hf as [E _]. unfold reverse_id in He. rewrite E, b64_roundtrip in He. injection He as <-. reflexivity.
Qed.

(* ---- exactly the strings of the minted form with a correct MAC are accepted ------------------------ *)
Lemma cookie_decode_complete : forall name ks ts v m d,
  nopipe ts -> nopipe v -> m = hmac O (hk ks) (mac_msg name ts v) -> parse_int_ok ts = true ->
  payload ks v = Some d -> (List.length (b64enc (join3 ts v m)) <= max_length)%nat ->
  cookie_decode O name ks (b64enc (join3 ts v m)) = Ok d.
Proof.
  intros name ks ts v m d N1 N2 -> T P L. unfold cookie_decode.
  apply Nat.ltb_ge in L. rewrite L, b64_roundtrip, (split3_join _ _ _ N1 N2), beqb_refl. cbn [negb].
  rewrite T. cbn [negb]. unfold payload in P.
  destruct (b64dec v) as [c|]; [|discriminate]. destruct (decrypt O (bk ks) c) as [p|]; [|discriminate].
  rewrite P. reflexivity.
Qed.

Lemma id_string_length : forall r ts v m, List.length (id_string r ts v m) = List.length (b64enc (join3 ts v m)).
Proof.
  intros [] ts v m; unfold id_string; cbn [triple_bytes]; [reflexivity|].
  apply b64enc_length_dep. apply rev_length.
Qed.

Theorem decode_complete : forall r ks ts v m d,
  nopipe ts -> nopipe v -> m = hmac O (hk ks) (mac_msg (role_name r) ts v) -> parse_int_ok ts = true ->
  payload ks v = Some d -> (List.length (id_string r ts v m) <= max_length)%nat ->
  decode O r ks (id_string r ts v m) = Ok d.
Proof.
  intros r ks ts v m d N1 N2 M T P L. rewrite id_string_length in L.
  pose proof (cookie_decode_complete (role_name r) ks ts v m d N1 N2 M T P L) as C.
  destruct r; unfold id_string; cbn [triple_bytes decode].
  - unfold decode_private, decode_private_lax. rewrite is_canonical_b64enc. exact C.
  - exact (decode_public_of_rev _ _ _ C).
Qed.

Theorem decode_length : forall r ks s d, decode O r ks s = Ok d -> (List.length s <= max_length)%nat.
Proof.
  intros r ks s d H. rewrite decode_is_lax in H. destruct (is_canonical s) eqn:C; [|discriminate].
  destruct r; cbn [decode_lax] in H.
  - destruct (cookie_decode_sound _ _ _ _ H) as (ts & v & m & c & p & L & _). apply Nat.ltb_ge. exact L.
  - unfold decode_public_lax, reverse_id in H. destruct (b64dec s) as [b|] eqn:B; [|discriminate].
    destruct (cookie_decode_sound _ _ _ _ H) as (ts & v & m & c & p & L & _). apply Nat.ltb_ge in L.
    rewrite (canonical_dec_enc _ _ C B). rewrite (b64enc_length_dep b (rev b)); [exact L | symmetry; apply rev_length].
Qed.

(* key sets with the same hash key: the other block key is applied to the value part, nothing else is checked *)
Theorem shared_hash_key : forall r ks1 ks2 s d1, hk ks1 = hk ks2 -> decode O r ks1 s = Ok d1 ->
  exists ts v m, s = id_string r ts v m /\ forall d2, payload ks2 v = Some d2 -> decode O r ks2 s = Ok d2.
Proof.
  intros r ks1 ks2 s d1 HK H. pose proof (decode_length _ _ _ _ H) as L.
  destruct (decode_sound _ _ _ _ H) as (ts & v & m & -> & N1 & N2 & M & T & _).
  exists ts, v, m. split; [reflexivity|]. intros d2 P. rewrite HK in M.
  exact (decode_complete r ks2 ts v m d2 N1 N2 M T P L).
Qed.

(* the value whose serialization is empty does not survive a block key *)
Theorem empty_plaintext_lost : forall r ks k ts iv d s,
  bk ks = Some k -> ser O d = Some [] -> List.length iv = iv_size -> ctr O k iv [] = [] -> parse_int_ok ts = true ->
  encode O r ks ts iv d = Ok s -> decode O r ks s = Err EDecrypt.
Proof.
  intros r ks k ts iv d s BK S LI CE T E.
  assert (X : forall name s0, cookie_encode O name ks ts iv d = Ok s0 ->
              exists x, s0 = b64enc x /\ cookie_decode O name ks (b64enc x) = Err EDecrypt).
  { intros name s0 E0. destruct (cookie_encode_form _ _ _ _ _ _ E0) as (p & P & F). rewrite S in P. injection P as <-.
    cbv zeta in F. destruct F as [-> L]. eexists. split; [reflexivity|].
    unfold cookie_decode. rewrite L, b64_roundtrip.
    rewrite split3_join by (try exact (parse_int_nopipe _ T); apply b64enc_no_pipe).
    rewrite beqb_refl. cbn [negb]. rewrite T. cbn [negb]. rewrite b64_roundtrip, BK.
    rewrite (decrypt_encrypt_empty k iv LI CE). reflexivity. }
  destruct r; cbn [encode decode] in *.
  - destruct (X _ _ E) as (x & -> & D). unfold decode_private, decode_private_lax. rewrite is_canonical_b64enc. exact D.
  - unfold encode_public in E. destruct (cookie_encode O (role_name Public) ks ts iv d) as [s0|] eqn:E0; [|discriminate].
    destruct (X _ _ E0) as (x & -> & D). unfold reverse_id in E. rewrite b64_roundtrip in E. injection E as <-.
    unfold decode_public, decode_public_lax, reverse_id. rewrite is_canonical_b64enc, b64_roundtrip, rev_involutive. exact D.
Qed.

(* ---- modification ------------------------------------------------------------------------------------- *)
Theorem modification : forall r ks s s' d d',
  decode O r ks s = Ok d -> decode O r ks s' = Ok d' -> s' <> s ->
  exists ts v ts' v',
    s = id_string r ts v (hmac O (hk ks) (mac_msg (role_name r) ts v)) /\
    s' = id_string r ts' v' (hmac O (hk ks) (mac_msg (role_name r) ts' v')) /\
    mac_msg (role_name r) ts' v' <> mac_msg (role_name r) ts v.
Proof.
  intros r ks s s' d d' H H' N.
  destruct (decode_sound _ _ _ _ H) as (ts & v & m & -> & N1 & N2 & -> & _).
  destruct (decode_sound _ _ _ _ H') as (ts' & v' & m' & -> & N1' & N2' & -> & _).
  exists ts, v, ts', v'. repeat split. intro E.
  destruct (mac_msg_inj _ _ _ _ _ (role_name_nopipe r) N1' N1 E) as [-> ->]. apply N. reflexivity.
Qed.

Theorem modification_lax : forall r ks s s' d d',
  decode_lax O r ks s = Ok d -> decode_lax O r ks s' = Ok d' ->
  (b64dec s' = b64dec s /\ d' = d) \/
  exists ts v ts' v',
    b64dec s = Some (triple_bytes r ts v (hmac O (hk ks) (mac_msg (role_name r) ts v))) /\
    b64dec s' = Some (triple_bytes r ts' v' (hmac O (hk ks) (mac_msg (role_name r) ts' v'))) /\
    mac_msg (role_name r) ts' v' <> mac_msg (role_name r) ts v.
Proof.
  intros r ks s s' d d' H H'.
  destruct (decode_lax_sound _ _ _ _ H) as (ts & v & m & B & N1 & N2 & -> & _ & P).
  destruct (decode_lax_sound _ _ _ _ H') as (ts' & v' & m' & B' & N1' & N2' & -> & _ & P').
  destruct (list_eq_dec ascii_dec (mac_msg (role_name r) ts' v') (mac_msg (role_name r) ts v)) as [E|E].
  - left. destruct (mac_msg_inj _ _ _ _ _ (role_name_nopipe r) N1' N1 E) as [-> ->].
    split; [congruence | congruence].
  - right. exists ts, v, ts', v'. auto.
Qed.

(* ---- roles ---------------------------------------------------------------------------------------------- *)
(* one string accepted under both roles carries MACs of two different messages *)
Theorem role_separation_same_string : forall ks s d d',
  decode O Private ks s = Ok d -> decode O Public ks s = Ok d' ->
  exists ts v ts' v',
    s = id_string Private ts v (hmac O (hk ks) (mac_msg (role_name Private) ts v)) /\
    s = id_string Public ts' v' (hmac O (hk ks) (mac_msg (role_name Public) ts' v')) /\
    mac_msg (role_name Private) ts v <> mac_msg (role_name Public) ts' v'.
Proof.
  intros ks s d d' H H'.
  destruct (decode_sound _ _ _ _ H) as (ts & v & m & E & _ & _ & -> & _).
  destruct (decode_sound _ _ _ _ H') as (ts' & v' & m' & E' & _ & _ & -> & _).
  exists ts, v, ts', v'. repeat split; auto. apply role_msgs_differ.
Qed.

(* an id accepted as private whose reversal (the codec's own private<->public
   transformation) is accepted as public: one MAC for two different messages *)
Theorem role_separation_swap : forall ks s s' d d',
  decode O Private ks s = Ok d -> decode O Public ks s' = Ok d' -> reverse_id s = Some s' ->
  exists ts v,
    hmac O (hk ks) (mac_msg (role_name Private) ts v) = hmac O (hk ks) (mac_msg (role_name Public) ts v) /\
    mac_msg (role_name Private) ts v <> mac_msg (role_name Public) ts v.
Proof.
  intros ks s s' d d' H H' R.
  destruct (decode_sound _ _ _ _ H) as (ts & v & m & -> & N1 & N2 & M & _).
  destruct (decode_sound _ _ _ _ H') as (ts' & v' & m' & -> & N1' & N2' & M' & _).
  unfold reverse_id, id_string in R. rewrite b64_roundtrip in R. injection R as R. apply b64enc_inj in R.
  cbn [triple_bytes] in R. apply rev_inj in R.
  destruct (split3_unambiguous _ _ _ _ _ _ N1 N2 N1' N2' R) as (<- & <- & <-).
  exists ts, v. split; [congruence | apply role_msgs_differ].
Qed.

Lemma reverse_id_canonical_involutive : forall s s', is_canonical s' = true -> reverse_id s' = Some s -> reverse_id s = Some s'.
Proof.
  intros s s' C R. apply is_canonical_spec in C as [x ->]. unfold reverse_id in *. rewrite b64_roundtrip in R.
  injection R as <-. rewrite b64_roundtrip, rev_involutive. reflexivity.
Qed.

Lemma decode_canonical : forall r ks s d, decode O r ks s = Ok d -> is_canonical s = true.
Proof. intros r ks s d H. rewrite decode_is_lax in H. destruct (is_canonical s); [reflexivity | discriminate]. Qed.

Theorem role_separation_swap' : forall ks s s' d d',
  decode O Private ks s = Ok d -> decode O Public ks s' = Ok d' -> reverse_id s' = Some s ->
  exists ts v,
    hmac O (hk ks) (mac_msg (role_name Private) ts v) = hmac O (hk ks) (mac_msg (role_name Public) ts v) /\
    mac_msg (role_name Private) ts v <> mac_msg (role_name Public) ts v.
Proof.
  intros ks s s' d d' H H' R.
  exact (role_separation_swap ks s s' d d' H H' (reverse_id_canonical_involutive _ _ (decode_canonical _ _ _ _ H') R)).
Qed.

(* ---- keys ------------------------------------------------------------------------------------------------ *)
Theorem key_separation : forall r ks1 ks2 s d1 d2,
  decode O r ks1 s = Ok d1 -> decode O r ks2 s = Ok d2 ->
  exists ts v, s = id_string r ts v (hmac O (hk ks1) (mac_msg (role_name r) ts v)) /\
    hmac O (hk ks1) (mac_msg (role_name r) ts v) = hmac O (hk ks2) (mac_msg (role_name r) ts v).
Proof.
  intros r ks1 ks2 s d1 d2 H1 H2.
  destruct (decode_sound _ _ _ _ H1) as (ts & v & m & -> & N1 & N2 & M & _).
  destruct (decode_sound _ _ _ _ H2) as (ts' & v' & m' & E & N1' & N2' & M' & _).
  destruct (id_string_inj _ _ _ _ _ _ _ N1 N2 N1' N2' E) as (<- & <- & <-).
  exists ts, v. split; congruence.
Qed.

Theorem decode_encode_without_block_key : forall r ks ts iv d p s,
  bk ks = None ->
  ser O d = Some p -> deser O p = Some d -> parse_int_ok ts = true ->
  encode O r ks ts iv d = Ok s -> decode O r ks s = Ok d.
Proof.
  intros r ks ts iv d p s B S D T E.
  apply (decode_encode r ks ts iv d p s S D); [rewrite B; exact I | exact T | exact E].
Qed.

Theorem role_separation_swap_either : forall ks s s' d d',
  decode O Private ks s = Ok d -> decode O Public ks s' = Ok d' ->
  reverse_id s = Some s' \/ reverse_id s' = Some s ->
  exists ts v,
    hmac O (hk ks) (mac_msg (role_name Private) ts v) = hmac O (hk ks) (mac_msg (role_name Public) ts v) /\
    mac_msg (role_name Private) ts v <> mac_msg (role_name Public) ts v.
Proof.
  intros ks s s' d d' H H' [R|R];
    [exact (role_separation_swap ks s s' d d' H H' R) | exact (role_separation_swap' ks s s' d d' H H' R)].
Qed.

End Codec.

(* ---- cache keys -------------------------------------------------------------------------------------- *)
Lemma nopipe_rev : forall l, nopipe l -> nopipe (rev l).
Proof. intros l H I. apply H. apply in_rev. exact I. Qed.

Theorem cache_key_injective : forall id1 n1 id2 n2, nopipe n1 -> nopipe n2 ->
  cache_key id1 n1 = cache_key id2 n2 -> id1 = id2 /\ n1 = n2.
Proof.
  intros id1 n1 id2 n2 H1 H2 E. unfold cache_key in E.
  assert (R : rev n1 ++ pipe :: rev id1 = rev n2 ++ pipe :: rev id2).
  { assert (X : forall (a b : bytes), rev (a ++ pipe :: b) = rev b ++ pipe :: rev a).
    { intros a b. rewrite rev_app_distr. cbn [rev]. rewrite <- app_assoc. reflexivity. }
    rewrite <- !X, E. reflexivity. }
  pose proof (split1_app (rev n1) (rev id1) (nopipe_rev _ H1)) as S. rewrite R in S.
  rewrite (split1_app (rev n2) (rev id2) (nopipe_rev _ H2)) in S. injection S as A B.
  split; apply rev_inj; congruence.
Qed.

Corollary cache_key_role_injective : forall id1 r1 id2 r2,
  cache_key id1 (role_name r1) = cache_key id2 (role_name r2) -> id1 = id2 /\ r1 = r2.
Proof.
  intros id1 r1 id2 r2 E.
  destruct (cache_key_injective _ _ _ _ (role_name_nopipe r1) (role_name_nopipe r2) E) as [A B].
  split; [exact A | exact (role_name_inj _ _ B)].
Qed.

Section Hub.
Context {key bkey data : Type}.
Context (O : oracles key bkey data).
Context (ks : keyset key bkey).
Notation hub := (hub data).
Notation lru := (lru data).

(* ---- lookups compare the whole string ---------------------------------------------------------------- *)
Theorem hub_exact_match : forall r h id h' sid,
  hub_lookup O ks r h id = (h', Some sid) ->
  exists ids, session_find sid (sessions h') = Some ids /\ id = stored_id r ids.
Proof.
  intros r h id h' sid H. unfold hub_lookup in H.
  destruct (hub_decode O ks r h id) as [h1 [d|]]; [|discriminate].
  destruct (session_find (sid_of O d) (sessions h1)) as [ids|] eqn:F; [|discriminate].
  destruct (beqb (stored_id r ids) id) eqn:B; [|discriminate].
  injection H as <- <-. exists ids. apply beqb_eq in B. auto.
Qed.

(* ---- the decode caches hold nothing but results of decode ----------------------------------------------- *)
Definition entry_ok (e : bytes * data) : Prop :=
  exists r id, fst e = cache_key id (role_name r) /\ decode O r ks id = Ok (snd e).
Definition lru_ok (c : lru) : Prop := Forall entry_ok c.
Definition cache_inv (h : hub) : Prop := Forall lru_ok (caches h).

Lemma lru_del_ok : forall k c, lru_ok c -> lru_ok (lru_del k c).
Proof.
  intros k c H. unfold lru_ok, lru_del in *. rewrite Forall_forall in *. intros e I.
  apply filter_In in I. apply H. exact (proj1 I).
Qed.

Lemma lru_find_in : forall k (c : lru) v, lru_find k c = Some v -> exists k', k' = k /\ In (k', v) c.
Proof.
  induction c as [|[k' v'] c IH]; intros v H; cbn in H; [discriminate|].
  destruct (beqb k k') eqn:B.
  - injection H as <-. apply beqb_eq in B. exists k'. split; [auto | left; reflexivity].
  - destruct (IH _ H) as (k2 & E & I). exists k2. split; [exact E | right; exact I].
Qed.

Lemma lru_find_ok : forall k c v, lru_ok c -> lru_find k c = Some v -> entry_ok (k, v).
Proof.
  intros k c v H F. destruct (lru_find_in _ _ _ F) as (k' & -> & I).
  unfold lru_ok in H. rewrite Forall_forall in H. exact (H _ I).
Qed.

Lemma lru_get_ok : forall k c, lru_ok c -> lru_ok (snd (lru_get k c)).
Proof.
  intros k c H. unfold lru_get. destruct (lru_find k c) as [v|] eqn:F; cbn [snd]; [|exact H].
  constructor; [exact (lru_find_ok _ _ _ H F) | exact (lru_del_ok _ _ H)].
Qed.

Lemma removelast_ok : forall c, lru_ok c -> lru_ok (removelast c).
Proof.
  intros c H. unfold lru_ok in *. rewrite Forall_forall in *. intros e I.
  apply H. clear H. induction c as [|x c IH]; [destruct I|]. cbn in I. destruct c as [|y c]; [destruct I|].
  destruct I as [I|I]; [left; exact I | right; exact (IH I)].
Qed.

Lemma lru_set_ok : forall size k v c, lru_ok c -> entry_ok (k, v) -> lru_ok (lru_set size k v c).
Proof.
  intros size k v c H E. unfold lru_set. destruct (lru_find k c).
  - constructor; [exact E | exact (lru_del_ok _ _ H)].
  - assert (X : lru_ok ((k, v) :: c)) by (constructor; assumption).
    destruct ((0 <? size)%nat && (size <? List.length ((k, v) :: c))%nat); [exact (removelast_ok _ X) | exact X].
Qed.

Lemma upd_nth_Forall : forall (A : Type) (P : A -> Prop) i x (l : list A), Forall P l -> P x -> Forall P (upd_nth i x l).
Proof.
  intros A P i x l. revert i. induction l as [|y l IH]; intros i H Hx; destruct i; cbn; try constructor;
    inversion H as [|? ? Hy Hl]; subst; auto.
Qed.

Lemma get_cache_ok : forall h i, cache_inv h -> lru_ok (get_cache h i).
Proof.
  intros h i H. unfold get_cache, cache_inv in *. revert i. induction (caches h) as [|c l IH]; intro i.
  - destruct i; constructor.
  - inversion H; subst. destruct i; cbn; auto.
Qed.

Lemma with_cache_inv : forall h i c, cache_inv h -> lru_ok c -> cache_inv (with_cache h i c).
Proof. intros h i c H Hc. unfold cache_inv, with_cache. cbn [caches]. apply upd_nth_Forall; assumption. Qed.

Lemma hub_decode_inv : forall r h id, cache_inv h -> cache_inv (fst (hub_decode O ks r h id)).
Proof.
  intros r h id H. unfold hub_decode. destruct id as [|c0 id0]; [exact H|].
  set (id := c0 :: id0). set (ck := cache_key id (role_name r)). set (i := cache_index h ck).
  pose proof (lru_get_ok ck _ (get_cache_ok h i H)) as G.
  destruct (lru_get ck (get_cache h i)) as [[d|] c'] eqn:L; cbn [snd] in G.
  - cbn [fst]. apply with_cache_inv; assumption.
  - destruct (decode O r ks id) as [d|e] eqn:D; cbn [fst]; [|exact H].
    apply with_cache_inv; [exact H|]. apply lru_set_ok; [exact (get_cache_ok h i H)|].
    exists r, id. split; [reflexivity | exact D].
Qed.

(* the answer of the cached decoder is the answer of the decoder *)
Theorem cache_transparent : forall r h id, cache_inv h ->
  snd (hub_decode O ks r h id) = match decode O r ks id with Ok d => Some d | Err _ => None end.
Proof.
  intros r h id H. unfold hub_decode. destruct id as [|c0 id0].
  - destruct r; reflexivity.
  - set (id := c0 :: id0). set (ck := cache_key id (role_name r)). set (i := cache_index h ck).
    unfold lru_get. destruct (lru_find ck (get_cache h i)) as [d|] eqn:F.
    + cbn [snd]. destruct (lru_find_ok _ _ _ (get_cache_ok h i H) F) as (r' & id' & E & D). cbn [fst snd] in E, D.
      destruct (cache_key_role_injective _ _ _ _ E) as [<- <-]. rewrite D. reflexivity.
    + destruct (decode O r ks id); reflexivity.
Qed.

Lemma hub_set_decoded_inv : forall r h id d, cache_inv h -> decode O r ks id = Ok d -> cache_inv (hub_set_decoded r h id d).
Proof.
  intros r h id d H D. unfold hub_set_decoded. destruct id as [|c0 id0]; [exact H|].
  apply with_cache_inv; [exact H|]. apply lru_set_ok; [apply get_cache_ok; exact H|].
  exists r, (c0 :: id0). split; [reflexivity | exact D].
Qed.

Lemma hub_invalidate_inv : forall r h id, cache_inv h -> cache_inv (hub_invalidate r h id).
Proof.
  intros r h id H. unfold hub_invalidate. destruct id as [|c0 id0]; [exact H|].
  apply with_cache_inv; [exact H|]. apply lru_del_ok. apply get_cache_ok. exact H.
Qed.

(* what a registration needs from the oracles for the value it mints ids for *)
Definition mint_ok (ts iv : bytes) (d : data) : Prop :=
  parse_int_ok ts = true /\ forall p, ser O d = Some p -> deser O p = Some d /\ stream_ok O (bk ks) iv p.
Definition wf_hop (o : hop data) : Prop :=
  match o with
  | HRegister d ts1 iv1 ts2 iv2 => mint_ok ts1 iv1 d /\ mint_ok ts2 iv2 d
  | HAddSession d ts1 iv1 ts2 iv2 => mint_ok ts1 iv1 d /\ mint_ok ts2 iv2 d
  | HPrefill r id d => decode O r ks id = Ok d     (* a pre-fill stores the id's own data *)
  | _ => True
  end.

Lemma encode_then_decode : forall r ts iv d s, mint_ok ts iv d -> encode O r ks ts iv d = Ok s -> decode O r ks s = Ok d.
Proof.
  intros r ts iv d s [T M] E. destruct (encode_form O _ _ _ _ _ _ E) as (p & P & _).
  destruct (M _ P) as [D S]. exact (decode_encode O _ _ _ _ _ _ _ P D S T E).
Qed.

Lemma hub_lookup_inv : forall r h id, cache_inv h -> cache_inv (fst (hub_lookup O ks r h id)).
Proof.
  intros r h id H. unfold hub_lookup. pose proof (hub_decode_inv r h id H) as G.
  destruct (hub_decode O ks r h id) as [h1 [d|]]; cbn [fst] in *; [|exact G].
  destruct (session_find (sid_of O d) (sessions h1)); [|exact G].
  destruct (beqb _ _); exact G.
Qed.

Lemma hub_step_inv : forall h o, cache_inv h -> wf_hop o -> cache_inv (fst (hub_step O ks h o)).
Proof.
  intros h o H W. destruct o as [d ts1 iv1 ts2 iv2|sid|r id|id|r id|d ts1 iv1 ts2 iv2|r id d|r id|r id]; cbn [hub_step].
  - destruct W as [W1 W2].
    destruct (encode_private O ks ts1 iv1 d) as [priv|] eqn:E1; [|exact H].
    destruct (encode_public O ks ts2 iv2 d) as [pub|] eqn:E2; [|exact H]. cbn [fst].
    apply hub_set_decoded_inv; [apply hub_set_decoded_inv|].
    + exact H.
    + exact (encode_then_decode Private _ _ _ _ W1 E1).
    + exact (encode_then_decode Public _ _ _ _ W2 E2).
  - destruct (session_find sid (sessions h)) as [ids|]; [|exact H]. cbn [fst].
    unfold cache_inv. cbn [caches]. apply hub_invalidate_inv. apply hub_invalidate_inv. exact H.
  - pose proof (hub_lookup_inv r h id H) as G. destruct (hub_lookup O ks r h id) as [h' o]. exact G.
  - pose proof (hub_lookup_inv Private h id H) as G. destruct (hub_lookup O ks Private h id) as [h' o]. exact G.
  - pose proof (hub_decode_inv r h id H) as G. destruct (hub_decode O ks r h id) as [h' o]. exact G.
  - destruct (encode_private O ks ts1 iv1 d) as [priv|]; [|exact H].
    destruct (encode_public O ks ts2 iv2 d) as [pub|]; exact H.
  - cbn [fst]. apply hub_set_decoded_inv; assumption.
  - cbn [fst]. apply hub_invalidate_inv. exact H.
  - exact H.
Qed.

Fixpoint hub_run (h : hub) (ops : list (hop data)) : hub * list (hop data * hout data) :=
  match ops with
  | [] => (h, [])
  | o :: r => let '(h1, v) := hub_step O ks h o in
              let '(h2, tr) := hub_run h1 r in (h2, (o, v) :: tr)
  end.

Theorem cache_sound : forall ops h, cache_inv h -> Forall wf_hop ops -> cache_inv (fst (hub_run h ops)).
Proof.
  induction ops as [|o ops IH]; intros h H W; [exact H|]. cbn [hub_run].
  inversion W as [|? ? Wo Wr]; subst. pose proof (hub_step_inv h o H Wo) as H1.
  destruct (hub_step O ks h o) as [h1 v]. cbn [fst] in H1. specialize (IH h1 H1 Wr).
  destruct (hub_run h1 ops) as [h2 tr]. exact IH.
Qed.

Lemma cache_inv_init : forall n size, cache_inv (hub_init n size).
Proof.
  intros n size. unfold cache_inv, hub_init. cbn [caches]. induction n; cbn; constructor; [constructor | assumption].
Qed.

(* consequence for lookups: a session is found only through a string that the decoder itself accepts *)
Corollary hub_lookup_sound : forall r h id h' sid, cache_inv h ->
  hub_lookup O ks r h id = (h', Some sid) ->
  exists d ids, decode O r ks id = Ok d /\ sid_of O d = sid /\
                session_find sid (sessions h') = Some ids /\ id = stored_id r ids.
Proof.
  intros r h id h' sid H L. pose proof (cache_transparent r h id H) as T. unfold hub_lookup in L.
  destruct (hub_decode O ks r h id) as [h1 [d|]]; [|discriminate]. cbn [snd] in T.
  destruct (session_find (sid_of O d) (sessions h1)) as [ids|] eqn:F; [|discriminate].
  destruct (beqb (stored_id r ids) id) eqn:B; [|discriminate]. injection L as <- <-.
  destruct (decode O r ks id) as [d'|]; [|discriminate]. injection T as <-.
  exists d, ids. apply beqb_eq in B. auto.
Qed.

(* ---- the session table is what was handed out ------------------------------------------------------------- *)
(* computed from observations only: the ids of the answers to registrations, minus removals *)
Fixpoint live_from (l : list (N * (bytes * bytes))) (tr : list (hop data * hout data)) : list (N * (bytes * bytes)) :=
  match tr with
  | [] => l
  | (HRegister d _ _ _ _, HIds p q) :: r => live_from ((sid_of O d, (p, q)) :: session_del (sid_of O d) l) r
  | (HAddSession d _ _ _ _, HIds p q) :: r => live_from ((sid_of O d, (p, q)) :: session_del (sid_of O d) l) r
  | (HRemove sid, _) :: r => live_from (session_del sid l) r
  | _ :: r => live_from l r
  end.

Lemma hub_decode_sessions : forall r h id, sessions (fst (hub_decode O ks r h id)) = sessions h.
Proof.
  intros r h id. unfold hub_decode. destruct id; [reflexivity|].
  destruct (lru_get _ _) as [[d|] c]; [reflexivity|]. destruct (decode O r ks _); reflexivity.
Qed.
Lemma hub_lookup_sessions : forall r h id, sessions (fst (hub_lookup O ks r h id)) = sessions h.
Proof.
  intros r h id. unfold hub_lookup. pose proof (hub_decode_sessions r h id) as G.
  destruct (hub_decode O ks r h id) as [h1 [d|]]; cbn [fst] in *; [|exact G].
  destruct (session_find _ _); [|exact G]. destruct (beqb _ _); exact G.
Qed.
Lemma hub_set_decoded_sessions : forall r (h : hub) id (d : data), sessions (hub_set_decoded r h id d) = sessions h.
Proof. intros r h id d. unfold hub_set_decoded. destruct id; reflexivity. Qed.
Lemma hub_invalidate_sessions : forall r (h : hub) id, sessions (hub_invalidate r h id) = sessions h.
Proof. intros r h id. unfold hub_invalidate. destruct id; reflexivity. Qed.
Lemma session_del_absent : forall sid (l : list (N * (bytes * bytes))), session_find sid l = None -> session_del sid l = l.
Proof.
  induction l as [|[s ids] l IH]; intro H; [reflexivity|]. cbn in *.
  destruct (N.eqb s sid); [discriminate|]. cbn. f_equal. exact (IH H).
Qed.

Theorem sessions_are_handed_out : forall ops h,
  sessions (fst (hub_run h ops)) = live_from (sessions h) (snd (hub_run h ops)).
Proof.
  induction ops as [|o ops IH]; intro h; [reflexivity|]. cbn [hub_run].
  destruct (hub_step O ks h o) as [h1 v] eqn:S. specialize (IH h1).
  destruct (hub_run h1 ops) as [h2 tr]. cbn [fst snd] in *. rewrite IH. clear IH.
  destruct o as [d ts1 iv1 ts2 iv2|sid|r id|id|r id|d ts1 iv1 ts2 iv2|r id d|r id|r id]; cbn [hub_step] in S.
  - destruct (encode_private O ks ts1 iv1 d) as [priv|]; [|injection S as <- <-; reflexivity].
    destruct (encode_public O ks ts2 iv2 d) as [pub|]; injection S as <- <-; [|reflexivity].
    cbn [live_from]. rewrite !hub_set_decoded_sessions. reflexivity.
  - cbn [live_from]. destruct (session_find sid (sessions h)) as [ids|] eqn:F; injection S as <- <-.
    + cbn [sessions]. rewrite !hub_invalidate_sessions. reflexivity.
    + rewrite (session_del_absent _ _ F). reflexivity.
  - pose proof (hub_lookup_sessions r h id) as G. destruct (hub_lookup O ks r h id) as [h' o]. injection S as <- <-.
    cbn [fst] in G. rewrite G. destruct o; reflexivity.
  - pose proof (hub_lookup_sessions Private h id) as G. destruct (hub_lookup O ks Private h id) as [h' o]. injection S as <- <-.
    cbn [fst] in G. rewrite G. destruct o; reflexivity.
  - pose proof (hub_decode_sessions r h id) as G. destruct (hub_decode O ks r h id) as [h' o]. injection S as <- <-.
    cbn [fst] in G. rewrite G. destruct o; reflexivity.
  - destruct (encode_private O ks ts1 iv1 d) as [priv|]; [|injection S as <- <-; reflexivity].
    destruct (encode_public O ks ts2 iv2 d) as [pub|]; injection S as <- <-; reflexivity.
  - injection S as <- <-. cbn [live_from]. rewrite hub_set_decoded_sessions. reflexivity.
  - injection S as <- <-. cbn [live_from]. rewrite hub_invalidate_sessions. reflexivity.
  - injection S as <- <-. destruct (decode O r ks id); reflexivity.
Qed.

(* ---- the hub's decoder of a role (decodePrivateSessionId / decodePublicSessionId) ------------------------ *)
(* it returns data only for a string that the codec accepts FOR THAT ROLE, and then that data;
   in every state of the caches that the invariant allows (every reachable one) *)
Theorem hub_decode_step_sound : forall r h id h' d, cache_inv h ->
  hub_step O ks h (HDecode r id) = (h', HData d) -> decode O r ks id = Ok d.
Proof.
  intros r h id h' d H S. cbn [hub_step] in S. pose proof (cache_transparent r h id H) as T.
  destruct (hub_decode O ks r h id) as [h1 [d1|]]; cbn [snd] in T; [|discriminate].
  injection S as _ <-. destruct (decode O r ks id) as [d2|]; [|discriminate]. injection T as <-. reflexivity.
Qed.
Theorem hub_decode_step_complete : forall r h id d, cache_inv h ->
  decode O r ks id = Ok d -> snd (hub_step O ks h (HDecode r id)) = HData d.
Proof.
  intros r h id d H D. cbn [hub_step]. pose proof (cache_transparent r h id H) as T. rewrite D in T.
  destruct (hub_decode O ks r h id) as [h1 o]. cbn [snd] in *. rewrite T. reflexivity.
Qed.
Theorem hub_decode_step_refuses : forall r h id, cache_inv h ->
  (forall d, decode O r ks id <> Ok d) -> snd (hub_step O ks h (HDecode r id)) = HNoData.
Proof.
  intros r h id H D. cbn [hub_step]. pose proof (cache_transparent r h id H) as T.
  destruct (hub_decode O ks r h id) as [h1 o]. cbn [snd] in *. rewrite T.
  destruct (decode O r ks id) as [d|]; [exfalso; exact (D d eq_refl) | reflexivity].
Qed.

(* over histories: whatever was registered, removed, looked up and decoded before (under
   either role), with whatever cache sizes *)
Theorem hub_run_decode_sound : forall ops h r id d, cache_inv h -> Forall wf_hop ops ->
  In (HDecode r id, HData d) (snd (hub_run h ops)) -> decode O r ks id = Ok d.
Proof.
  induction ops as [|o ops IH]; intros h r id d H W I; [destruct I|].
  cbn [hub_run] in I. inversion W as [|? ? Wo Wr]; subst.
  pose proof (hub_step_inv h o H Wo) as H1.
  destruct (hub_step O ks h o) as [h1 v] eqn:S. cbn [fst] in H1.
  destruct (hub_run h1 ops) as [h2 tr] eqn:R. cbn [snd] in I. destruct I as [I|I].
  - injection I as -> ->. exact (hub_decode_step_sound _ _ _ _ _ H S).
  - apply (IH h1 r id d H1 Wr). rewrite R. exact I.
Qed.

(* roles at the hub: one string that the hub decodes under both roles -- in whatever two
   states, e.g. right after the registration that primed the caches with both ids of the
   session -- carries correct MACs of two different messages *)
Theorem hub_role_separation : forall ops h s d d', cache_inv h -> Forall wf_hop ops ->
  In (HDecode Private s, HData d) (snd (hub_run h ops)) ->
  In (HDecode Public s, HData d') (snd (hub_run h ops)) ->
  exists ts v ts' v',
    s = id_string Private ts v (hmac O (hk ks) (mac_msg (role_name Private) ts v)) /\
    s = id_string Public ts' v' (hmac O (hk ks) (mac_msg (role_name Public) ts' v')) /\
    mac_msg (role_name Private) ts v <> mac_msg (role_name Public) ts' v'.
Proof.
  intros ops h s d d' H W I I'.
  exact (role_separation_same_string O ks s d d' (hub_run_decode_sound _ _ _ _ _ H W I) (hub_run_decode_sound _ _ _ _ _ H W I')).
Qed.
(* and the swap: the id of one role, reversed, decoded by the hub under the other role *)
Theorem hub_role_separation_swap : forall ops h s s' d d', cache_inv h -> Forall wf_hop ops ->
  In (HDecode Private s, HData d) (snd (hub_run h ops)) ->
  In (HDecode Public s', HData d') (snd (hub_run h ops)) ->
  reverse_id s = Some s' \/ reverse_id s' = Some s ->
  exists ts v,
    hmac O (hk ks) (mac_msg (role_name Private) ts v) = hmac O (hk ks) (mac_msg (role_name Public) ts v) /\
    mac_msg (role_name Private) ts v <> mac_msg (role_name Public) ts v.
Proof.
  intros ops h s s' d d' H W I I' R.
  exact (role_separation_swap_either O ks s s' d d' (hub_run_decode_sound _ _ _ _ _ H W I) (hub_run_decode_sound _ _ _ _ _ H W I') R).
Qed.

(* ---- the request paths that make ids, the cache operations by themselves, the codec asked directly -------- *)
Definition codec_answer (r : role) (id : bytes) : hout data :=
  match decode O r ks id with Ok d => HData d | Err _ => HNoData end.

(* the codec the hub holds, asked directly (hub.cookie.DecodePrivate / DecodePublic) *)
Lemma hub_codec_step : forall r h id, hub_step O ks h (HCodec r id) = (h, codec_answer r id).
Proof. reflexivity. Qed.

(* the hub's decoder of a role answers what the codec answers for that role, in every cache state
   the invariant allows; the two need not be asked in the same state *)
Theorem hub_decode_step_is_codec : forall r h h0 id, cache_inv h ->
  snd (hub_step O ks h (HDecode r id)) = snd (hub_step O ks h0 (HCodec r id)).
Proof.
  intros r h h0 id H. cbn [hub_step snd]. pose proof (cache_transparent r h id H) as T.
  destruct (hub_decode O ks r h id) as [h1 o]. cbn [snd] in *. rewrite T.
  destruct (decode O r ks id); reflexivity.
Qed.

Lemma hub_run_in : forall (P : hop data -> hout data -> Prop),
  (forall h o, cache_inv h -> wf_hop o -> P o (snd (hub_step O ks h o))) ->
  forall ops h o v, cache_inv h -> Forall wf_hop ops -> In (o, v) (snd (hub_run h ops)) -> P o v.
Proof.
  intros P HP. induction ops as [|o0 ops IH]; intros h o v H W I; [destruct I|].
  cbn [hub_run] in I. inversion W as [|? ? Wo Wr]; subst.
  pose proof (hub_step_inv h o0 H Wo) as H1. pose proof (HP h o0 H Wo) as P0.
  destruct (hub_step O ks h o0) as [h1 v0]. cbn [fst snd] in *.
  destruct (hub_run h1 ops) as [h2 tr] eqn:R. cbn [snd] in I. destruct I as [I|I].
  - injection I as <- <-. exact P0.
  - apply (IH h1 o v H1 Wr). rewrite R. exact I.
Qed.

(* over histories (registrations, added virtual sessions, removals, pre-fills with the id's own data,
   invalidations, lookups, decodes under either role, evictions): every answer of the hub's decoder
   is the codec's answer for that role and that string ... *)
Theorem hub_run_decode_is_codec : forall ops h r id v, cache_inv h -> Forall wf_hop ops ->
  In (HDecode r id, v) (snd (hub_run h ops)) -> v = codec_answer r id.
Proof.
  intros ops h r id v H W I.
  refine (hub_run_in (fun o v => match o with HDecode r id => v = codec_answer r id | _ => True end) _ ops h _ _ H W I).
  intros h0 o H0 _. destruct o; try exact Logic.I.
  rewrite (hub_decode_step_is_codec r0 h0 h0 id0 H0). reflexivity.
Qed.
(* ... so wherever a history asks both about the same string, they agree *)
Theorem hub_run_hub_is_codec : forall ops h r id v v', cache_inv h -> Forall wf_hop ops ->
  In (HDecode r id, v) (snd (hub_run h ops)) -> In (HCodec r id, v') (snd (hub_run h ops)) -> v = v'.
Proof.
  intros ops h r id v v' H W I I'. rewrite (hub_run_decode_is_codec ops h r id v H W I).
  refine (hub_run_in (fun o v => match o with HCodec r id => codec_answer r id = v | _ => True end) _ ops h _ _ H W I').
  intros h0 o _ _. destruct o; try exact Logic.I. reflexivity.
Qed.

(* the ids a request path hands out (hello: HRegister; addsession: HAddSession) decode, through the
   codec and through the hub's decoder of their role, to the data they were minted for -- at any point
   of the history, whether the entry was pre-filled, evicted, invalidated or never cached *)
Definition mints (o : hop data) (d : data) : Prop :=
  match o with
  | HRegister d' _ _ _ _ | HAddSession d' _ _ _ _ => d' = d
  | _ => False
  end.
Theorem hub_run_minted_decode : forall ops h o d p q, cache_inv h -> Forall wf_hop ops ->
  In (o, HIds p q) (snd (hub_run h ops)) -> mints o d ->
  decode O Private ks p = Ok d /\ decode O Public ks q = Ok d.
Proof.
  intros ops h o d p q H W I M.
  refine (hub_run_in (fun o v => forall d p q, v = HIds p q -> mints o d ->
            decode O Private ks p = Ok d /\ decode O Public ks q = Ok d) _ ops h _ _ H W I d p q eq_refl M).
  clear. intros h o _ Wo d p q E M.
  destruct o as [d' ts1 iv1 ts2 iv2| | | | |d' ts1 iv1 ts2 iv2| | |]; try destruct M; cbn [hub_step] in E;
    destruct Wo as [W1 W2];
    destruct (encode_private O ks ts1 iv1 d') as [priv|] eqn:E1; try discriminate;
    destruct (encode_public O ks ts2 iv2 d') as [pub|] eqn:E2; try discriminate;
    cbn [snd] in E; injection E as <- <-;
    (split; [exact (encode_then_decode Private _ _ _ _ W1 E1) | exact (encode_then_decode Public _ _ _ _ W2 E2)]).
Qed.
Corollary hub_run_minted_hub_decode : forall ops h o d p q v v', cache_inv h -> Forall wf_hop ops ->
  In (o, HIds p q) (snd (hub_run h ops)) -> mints o d ->
  In (HDecode Private p, v) (snd (hub_run h ops)) -> In (HDecode Public q, v') (snd (hub_run h ops)) ->
  v = HData d /\ v' = HData d.
Proof.
  intros ops h o d p q v v' H W I M I1 I2. destruct (hub_run_minted_decode ops h o d p q H W I M) as [D1 D2].
  rewrite (hub_run_decode_is_codec ops h Private p v H W I1), (hub_run_decode_is_codec ops h Public q v' H W I2).
  unfold codec_answer. rewrite D1, D2. split; reflexivity.
Qed.

(* a pre-fill with the id's own data keeps the invariant (one step; cache_sound has the histories) *)
Theorem prefill_own_data_sound : forall r h id d, cache_inv h -> decode O r ks id = Ok d ->
  cache_inv (fst (hub_step O ks h (HPrefill r id d))).
Proof. intros r h id d H D. exact (hub_step_inv h (HPrefill r id d) H D). Qed.

(* a pre-fill with any other data does not: the hub's decoder then answers that data, whatever the
   codec says about the string (hypotheses: the string is not empty -- setDecodedSessionId and the
   decoders ignore the empty string -- and there is a cache) *)
Lemma lru_find_set : forall size k (v : data) c, lru_find k (lru_set size k v c) = Some v.
Proof.
  intros size k v c. unfold lru_set. destruct (lru_find k c) eqn:F.
  - cbn. rewrite beqb_refl. reflexivity.
  - destruct ((0 <? size)%nat && (size <? List.length ((k, v) :: c))%nat) eqn:B.
    + destruct c as [|e c].
      * exfalso. apply andb_prop in B. destruct B as [B1 B2]. apply Nat.ltb_lt in B1, B2. cbn in B2. lia.
      * cbn [removelast]. cbn. rewrite beqb_refl. reflexivity.
    + cbn. rewrite beqb_refl. reflexivity.
Qed.
Lemma nth_upd_nth : forall (A : Type) i (x d : A) l, (i < List.length l)%nat -> nth i (upd_nth i x l) d = x.
Proof.
  intros A i x d l. revert i. induction l as [|y l IH]; intros i L; [inversion L|].
  destruct i; [reflexivity|]. cbn. apply IH. cbn in L. lia.
Qed.
Lemma upd_nth_length : forall (A : Type) i (x : A) l, List.length (upd_nth i x l) = List.length l.
Proof.
  intros A i x l. revert i. induction l as [|y l IH]; intro i; [destruct i; reflexivity|].
  destruct i; cbn; [reflexivity|]. f_equal. apply IH.
Qed.
Lemma cache_index_lt : forall (h : hub) ck, caches h <> [] -> (cache_index h ck < List.length (caches h))%nat.
Proof.
  intros h ck NE. unfold cache_index.
  assert (L : N.of_nat (List.length (caches h)) <> 0%N) by (destruct (caches h); [contradiction | cbn [List.length]; lia]).
  pose proof (N.mod_lt (fnv32a ck) _ L) as M. lia.
Qed.
Theorem prefill_other_data_is_answered : forall r h id d', id <> [] -> caches h <> [] ->
  snd (hub_step O ks (fst (hub_step O ks h (HPrefill r id d'))) (HDecode r id)) = HData d'.
Proof.
  intros r h id d' NI NC. cbn [hub_step fst]. unfold hub_set_decoded, hub_decode.
  destruct id as [|c0 id0]; [contradiction|]. set (id := c0 :: id0). set (ck := cache_key id (role_name r)).
  set (i := cache_index h ck). set (c := lru_set (csize h) ck d' (get_cache h i)).
  assert (Ei : cache_index (with_cache h i c) ck = i).
  { unfold cache_index, with_cache. cbn [caches]. rewrite upd_nth_length. reflexivity. }
  rewrite Ei. unfold get_cache at 1. unfold with_cache at 1. cbn [caches].
  rewrite nth_upd_nth by (apply cache_index_lt; exact NC).
  unfold lru_get. unfold c at 1. rewrite lru_find_set. reflexivity.
Qed.
(* hence: if the data is not what the codec answers for the string, the hub's decoder and the codec
   disagree right after the pre-fill (the cache is no longer transparent) *)
Corollary prefill_other_data_refuted : forall r h id d', id <> [] -> caches h <> [] ->
  decode O r ks id <> Ok d' ->
  snd (hub_step O ks (fst (hub_step O ks h (HPrefill r id d'))) (HDecode r id)) <> codec_answer r id.
Proof.
  intros r h id d' NI NC D. rewrite (prefill_other_data_is_answered r h id d' NI NC). unfold codec_answer.
  destruct (decode O r ks id) as [d|]; [|discriminate]. intro E. injection E as <-. exact (D eq_refl).
Qed.

End Hub.

(* ======================================================================================= *)
(*  Concrete oracle instances: witnesses of the refutations, non-vacuity of the hypotheses   *)
(* ======================================================================================= *)
Definition nbytes (l : list N) : bytes := map ascii_of_N l.

(* (1) a real id: minted by the real codec (hash key "12345678901234567890123456789012", no
   block key, SessionIdData{Sid: 1, BackendId: "b"}); the oracle tables hold the one HMAC-SHA256
   value and the one protobuf serialization that occur.  The harness replays it (c15WitnessId). *)
Definition wit_id : bytes := bs "MTc5MDc5MzA3MHxDQUVhQVdJPXyAP1N2Jrhx1GLVCx0g8Jtpu4aZDy_xsMj3O0pm8vfQTw==".
Definition wit_msg : bytes := bs "private-session|1790793070|CAEaAWI=".
Definition wit_mac : bytes :=
  nbytes [128; 63; 83; 118; 38; 184; 113; 212; 98; 213; 11; 29; 32; 240; 155; 105; 187; 134; 153; 15; 47; 241;
          176; 200; 247; 59; 74; 102; 242; 247; 208; 79]%N.
Definition wit_ser : bytes := nbytes [8; 1; 26; 1; 98]%N.
Definition wit_oracles : oracles N N N :=
  {| hmac := fun _ m => if beqb m wit_msg then wit_mac else [];
     ser := fun d => if N.eqb d 1 then Some wit_ser else None;
     deser := fun p => if beqb p wit_ser then Some 1%N else None;
     ctr := fun _ _ x => x;
     sid_of := fun d => d |}.
Definition wit_ks : keyset N N := {| hk := 0%N; bk := None |}.
Definition wit_id_nl : bytes := wit_id ++ [LF].                       (* a line break appended *)
Definition wit_id_bits : bytes := bs "MTc5MDc5MzA3MHxDQUVhQVdJPXyAP1N2Jrhx1GLVCx0g8Jtpu4aZDy_xsMj3O0pm8vfQTx==".  (* "w==" -> "x==" *)

Lemma wit_lax_accepts_three_spellings :
  decode_private_lax wit_oracles wit_ks wit_id = Ok 1%N /\
  decode_private_lax wit_oracles wit_ks wit_id_nl = Ok 1%N /\
  decode_private_lax wit_oracles wit_ks wit_id_bits = Ok 1%N /\
  wit_id_nl <> wit_id /\ wit_id_bits <> wit_id.
Proof.
  split; [vm_compute; reflexivity|]. split; [vm_compute; reflexivity|]. split; [vm_compute; reflexivity|].
  split; intro H; vm_compute in H; discriminate H.
Qed.

Lemma wit_repaired_accepts_one :
  decode wit_oracles Private wit_ks wit_id = Ok 1%N /\
  decode wit_oracles Private wit_ks wit_id_nl = Err ENotCanonical /\
  decode wit_oracles Private wit_ks wit_id_bits = Err ENotCanonical.
Proof. split; [vm_compute; reflexivity|]. split; vm_compute; reflexivity. Qed.

Lemma wit_encode : encode wit_oracles Private wit_ks (bs "1790793070") [] 1%N = Ok wit_id.
Proof. vm_compute. reflexivity. Qed.

(* (2) toy oracles (a keyed, length-preserving, involutive "cipher"; an identity "serializer";
   an "HMAC" that depends on key and message) for the statements that need a block key *)
Definition toy_xor (k : N) (x : bytes) : bytes := map (fun c => ascii_of_N (N.lxor (N_of_ascii c) k)) x.
Definition toy_oracles : oracles N N bytes :=
  {| hmac := fun k m => ascii_of_N k :: firstn 4 (rev m);
     ser := fun d => Some d;
     deser := fun p => Some p;
     ctr := fun k _ x => toy_xor k x;
     sid_of := fun d => N.of_nat (List.length d) |}.
Definition toy_iv : bytes := bs "0123456789abcdef".
Definition toy_ks1 : keyset N N := {| hk := 7%N; bk := Some 1%N |}.
Definition toy_ks2 : keyset N N := {| hk := 7%N; bk := Some 2%N |}.      (* same hash key, other block key *)
Definition toy_ks3 : keyset N N := {| hk := 8%N; bk := Some 1%N |}.

Lemma toy_empty_value_lost : forall r,
  exists s, encode toy_oracles r toy_ks1 (bs "17") toy_iv [] = Ok s /\ decode toy_oracles r toy_ks1 s = Err EDecrypt.
Proof. intros []; eexists; (split; [vm_compute; reflexivity|]); vm_compute; reflexivity. Qed.

Lemma toy_block_key_not_authenticated :
  exists s d', encode toy_oracles Private toy_ks1 (bs "17") toy_iv (bs "data") = Ok s /\
               decode toy_oracles Private toy_ks2 s = Ok d' /\ d' <> bs "data" /\ hk toy_ks1 = hk toy_ks2 /\ bk toy_ks1 <> bk toy_ks2.
Proof.
  eexists. eexists. split; [vm_compute; reflexivity|]. split; [vm_compute; reflexivity|].
  split; [intro H; vm_compute in H; discriminate H|]. split; [reflexivity | discriminate].
Qed.

Lemma toy_stream_ok : stream_ok toy_oracles (bk toy_ks1) toy_iv (bs "data").
Proof.
  split; [reflexivity|]. split; [intro H; vm_compute in H; discriminate H | vm_compute; reflexivity].
Qed.

Lemma toy_roundtrip_hyps : forall r,
  ser toy_oracles (bs "data") = Some (bs "data") /\ deser toy_oracles (bs "data") = Some (bs "data") /\
  stream_ok toy_oracles (bk toy_ks1) toy_iv (bs "data") /\ parse_int_ok (bs "17") = true /\
  exists s, encode toy_oracles r toy_ks1 (bs "17") toy_iv (bs "data") = Ok s.
Proof.
  intro r. split; [reflexivity|]. split; [reflexivity|]. split; [exact toy_stream_ok|]. split; [reflexivity|].
  destruct r; eexists; vm_compute; reflexivity.
Qed.

(* two different accepted ids of one role under one key set (hypotheses of [modification]) *)
Lemma toy_two_ids : forall r,
  exists s s', decode toy_oracles r toy_ks1 s = Ok (bs "data") /\ decode toy_oracles r toy_ks1 s' = Ok (bs "data") /\ s' <> s.
Proof.
  intro r.
  destruct (toy_roundtrip_hyps r) as (S & D & C & T & s & E).
  assert (T' : parse_int_ok (bs "18") = true) by reflexivity.
  assert (E' : exists s', encode toy_oracles r toy_ks1 (bs "18") toy_iv (bs "data") = Ok s') by (destruct r; eexists; vm_compute; reflexivity).
  destruct E' as [s' E']. exists s, s'.
  split; [exact (decode_encode _ _ _ _ _ _ _ _ S D C T E)|]. split; [exact (decode_encode _ _ _ _ _ _ _ _ S D C T' E')|].
  intro X. subst s'. destruct r; vm_compute in E, E'; rewrite <- E in E'; discriminate E'.
Qed.

(* an "HMAC" that ignores its arguments: the hypotheses of the separation theorems can be met,
   and then the equations they conclude are indeed collisions of that function *)
Definition const_oracles : oracles N N bytes :=
  {| hmac := fun _ _ => bs "mac"; ser := fun d => Some d; deser := fun p => Some p; ctr := fun k _ x => toy_xor k x;
     sid_of := fun d => N.of_nat (List.length d) |}.
Definition const_ks (h : N) : keyset N N := {| hk := h; bk := None |}.
Lemma const_cross_role_and_key :
  exists s s', decode const_oracles Private (const_ks 1) s = Ok (bs "d") /\
               reverse_id s = Some s' /\ decode const_oracles Public (const_ks 1) s' = Ok (bs "d") /\
               decode const_oracles Private (const_ks 2) s = Ok (bs "d").
Proof.
  exists (b64enc (join3 (bs "17") (b64enc (bs "d")) (bs "mac"))). eexists.
  split; [vm_compute; reflexivity|]. split; [vm_compute; reflexivity|]. split; [vm_compute; reflexivity|]. vm_compute; reflexivity.
Qed.

Lemma wit_lax_refuted :
  exists s s' s'', s' <> s /\ s'' <> s /\
    decode_private_lax wit_oracles wit_ks s = Ok 1%N /\
    decode_private_lax wit_oracles wit_ks s' = Ok 1%N /\
    decode_private_lax wit_oracles wit_ks s'' = Ok 1%N.
Proof.
  exists wit_id, wit_id_nl, wit_id_bits. pose proof wit_lax_accepts_three_spellings as H. tauto.
Qed.

Lemma empty_value_refuted :
  (forall (key bkey data : Type) (O : oracles key bkey data) r ks k ts iv d s,
     bk ks = Some k -> ser O d = Some [] -> List.length iv = iv_size -> ctr O k iv [] = [] -> parse_int_ok ts = true ->
     encode O r ks ts iv d = Ok s -> decode O r ks s = Err EDecrypt) /\
  (forall r, exists s, encode toy_oracles r toy_ks1 (bs "17") toy_iv [] = Ok s /\ decode toy_oracles r toy_ks1 s = Err EDecrypt).
Proof. split; [exact @empty_plaintext_lost | exact toy_empty_value_lost]. Qed.

Lemma blockkey_refuted :
  (forall (key bkey data : Type) (O : oracles key bkey data) r ks1 ks2 s d1, hk ks1 = hk ks2 -> decode O r ks1 s = Ok d1 ->
     exists ts v m, s = id_string r ts v m /\ forall d2, payload O ks2 v = Some d2 -> decode O r ks2 s = Ok d2) /\
  (exists s d', encode toy_oracles Private toy_ks1 (bs "17") toy_iv (bs "data") = Ok s /\
                decode toy_oracles Private toy_ks2 s = Ok d' /\ d' <> bs "data" /\
                hk toy_ks1 = hk toy_ks2 /\ bk toy_ks1 <> bk toy_ks2).
Proof. split; [exact @shared_hash_key | exact toy_block_key_not_authenticated]. Qed.

Lemma real_id_roundtrip : encode wit_oracles Private wit_ks (bs "1790793070") [] 1%N = Ok wit_id /\
                          decode wit_oracles Private wit_ks wit_id = Ok 1%N.
Proof. split; [exact wit_encode | exact (proj1 wit_repaired_accepts_one)]. Qed.

(* ---- NewHub: the key set a hub runs with (config_keyset) ------------------------------------------ *)
Lemma block_key_length_ok_spec : forall n, block_key_length_ok n = true <-> (n = 16 \/ n = 24 \/ n = 32)%nat.
Proof.
  intro n. unfold block_key_length_ok. rewrite !orb_true_iff, !Nat.eqb_eq. tauto.
Qed.

Lemma config_keyset_accepts : forall h b ks, config_keyset h b = Some ks ->
  hk ks = h /\
  ((b = [] /\ bk ks = None) \/
   (bk ks = Some b /\ (List.length b = 16 \/ List.length b = 24 \/ List.length b = 32)%nat)).
Proof.
  intros h b ks H. unfold config_keyset in H. destruct b as [|c b'].
  - injection H as <-. split; [reflexivity | left; split; reflexivity].
  - destruct (block_key_length_ok (List.length (c :: b'))) eqn:L; [|discriminate].
    injection H as <-. split; [reflexivity|]. right. split; [reflexivity|].
    apply block_key_length_ok_spec. exact L.
Qed.

Lemma config_keyset_refuses : forall h b, config_keyset h b = None <->
  (List.length b <> 0 /\ List.length b <> 16 /\ List.length b <> 24 /\ List.length b <> 32)%nat.
Proof.
  intros h b. unfold config_keyset. destruct b as [|c b'].
  - split; [discriminate | intros (H & _); exfalso; apply H; reflexivity].
  - destruct (block_key_length_ok (List.length (c :: b'))) eqn:L.
    + split; [discriminate|]. intros (_ & H1 & H2 & H3). apply block_key_length_ok_spec in L. exfalso. tauto.
    + split; [|reflexivity]. intros _. split; [cbn [List.length]; lia|].
      assert (N : ~ (List.length (c :: b') = 16 \/ List.length (c :: b') = 24 \/ List.length (c :: b') = 32)%nat).
      { intro X. apply block_key_length_ok_spec in X. congruence. }
      tauto.
Qed.

(* a block key of a valid length is the block key of the hub: never dropped, never replaced *)
Lemma config_keyset_keeps_block_key : forall h b,
  (List.length b = 16 \/ List.length b = 24 \/ List.length b = 32)%nat ->
  config_keyset h b = Some {| hk := h; bk := Some b |}.
Proof.
  intros h b L. unfold config_keyset. destruct b as [|c b'].
  - cbn in L. lia.
  - apply block_key_length_ok_spec in L. rewrite L. reflexivity.
Qed.

Lemma config_keyset_inj : forall h1 b1 h2 b2 ks,
  config_keyset h1 b1 = Some ks -> config_keyset h2 b2 = Some ks -> h1 = h2 /\ b1 = b2.
Proof.
  intros h1 b1 h2 b2 ks H1 H2.
  destruct (config_keyset_accepts _ _ _ H1) as (E1 & [(B1 & K1) | (K1 & _)]);
  destruct (config_keyset_accepts _ _ _ H2) as (E2 & [(B2 & K2) | (K2 & _)]); split; try congruence.
Qed.

Section ConfiguredHubs.
Context {data : Type}.
Context (O : oracles bytes bytes data).

(* ids of a hub with a configured block key are encrypted with that key *)
Theorem config_encode_form : forall r h b ks ts iv d s, b <> [] ->
  config_keyset h b = Some ks -> encode O r ks ts iv d = Ok s ->
  exists p, ser O d = Some p /\
    let v := b64enc (iv ++ ctr O b iv p) in
    s = id_string r ts v (hmac O h (mac_msg (role_name r) ts v)).
Proof.
  intros r h b ks ts iv d s NE C E.
  destruct (config_keyset_accepts _ _ _ C) as (HK & [(B & _) | (BK & _)]); [contradiction|].
  destruct (encode_form O _ _ _ _ _ _ E) as (p & Hp & F). exists p. split; [exact Hp|].
  rewrite BK, HK in F. exact F.
Qed.

(* two configured hubs: acceptance by both forces the HMAC equation between the two hash keys *)
Theorem config_key_separation : forall r h1 b1 h2 b2 k1 k2 s d1 d2,
  config_keyset h1 b1 = Some k1 -> config_keyset h2 b2 = Some k2 ->
  decode O r k1 s = Ok d1 -> decode O r k2 s = Ok d2 ->
  exists ts v, s = id_string r ts v (hmac O h1 (mac_msg (role_name r) ts v)) /\
    hmac O h1 (mac_msg (role_name r) ts v) = hmac O h2 (mac_msg (role_name r) ts v).
Proof.
  intros r h1 b1 h2 b2 k1 k2 s d1 d2 C1 C2 D1 D2.
  destruct (config_keyset_accepts _ _ _ C1) as (<- & _). destruct (config_keyset_accepts _ _ _ C2) as (<- & _).
  exact (key_separation O r k1 k2 s d1 d2 D1 D2).
Qed.

(* an id minted by a hub with block key b1, presented to a hub configured with another block key
   (or none): whatever the second hub answers is what protobuf makes of the value read with ITS key;
   the minting hub's key has been applied, so the second hub sees the plain serialization only if
   the two keystreams cancel *)
Theorem config_other_block_key : forall r h1 b1 h2 b2 k1 k2 ts iv d s d2,
  b1 <> [] -> List.length iv = iv_size -> parse_int_ok ts = true ->
  config_keyset h1 b1 = Some k1 -> config_keyset h2 b2 = Some k2 ->
  encode O r k1 ts iv d = Ok s -> decode O r k2 s = Ok d2 ->
  exists p, ser O d = Some p /\
    match b2 with
    | [] => deser O (iv ++ ctr O b1 iv p) = Some d2
    | _ => ctr O b1 iv p <> [] /\ deser O (ctr O b2 iv (ctr O b1 iv p)) = Some d2
    end.
Proof.
  intros r h1 b1 h2 b2 k1 k2 ts iv d s d2 NE L T C1 C2 E D.
  destruct (config_encode_form _ _ _ _ _ _ _ _ NE C1 E) as (p & Hp & F). cbv zeta in F.
  exists p. split; [exact Hp|].
  destruct (decode_sound O _ _ _ _ D) as (ts' & v' & m' & S & N1 & N2 & _ & _ & P).
  rewrite F in S.
  destruct (id_string_inj _ _ _ _ _ _ _ (parse_int_nopipe _ T) (b64enc_no_pipe _) N1 N2 S) as (_ & <- & _).
  unfold payload in P. rewrite b64_roundtrip in P.
  destruct (config_keyset_accepts _ _ _ C2) as (_ & [(-> & K2) | (K2 & LB)]); rewrite K2 in P; cbn [decrypt] in P.
  - exact P.
  - destruct b2 as [|c2 b2']; [cbn in LB; lia|].
    destruct (iv_size <? List.length (iv ++ ctr O b1 iv p))%nat eqn:Q; [|discriminate].
    rewrite <- L in P at 1 2. rewrite firstn_app_exact, skipn_app_exact in P. split; [|exact P].
    intro Z. rewrite Z, app_nil_r, L, Nat.ltb_irrefl in Q. discriminate.
Qed.
End ConfiguredHubs.
