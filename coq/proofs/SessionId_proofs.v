(* Lemmas about model/SessionId.v.  The statements exported as the property's
   theorems are collected in props/C15.v. *)
From Coq Require Import List Ascii String Bool Arith NArith Lia.
From Verif Require Import gen.Params lib.B64 model.SessionId.
Import ListNotations.

(* ---- splitting at pipes ----------------------------------------------------------- *)
Definition nopipe (l : bytes) : Prop := ~ In pipe l.

Lemma split1_app : forall a r, nopipe a -> split1 (a ++ pipe :: r) = Some (a, r).
Proof.
  induction a as [|c a IH]; intros r H; cbn.
  - reflexivity.
  - destruct (Ascii.eqb c pipe) eqn:E.
    + apply Ascii.eqb_eq in E. exfalso. apply H. left. exact E.
    + rewrite IH; [reflexivity|]. intro I. apply H. right. exact I.
Qed.

Lemma split1_sound : forall l a r, split1 l = Some (a, r) -> l = a ++ pipe :: r /\ nopipe a.
Proof.
  induction l as [|c l IH]; intros a r H; cbn in H; [discriminate|].
  destruct (Ascii.eqb c pipe) eqn:E.
  - apply Ascii.eqb_eq in E. injection H as <- <-. subst c. split; [reflexivity | intros []].
  - destruct (split1 l) as [[a' r']|] eqn:S; [|discriminate]. injection H as <- <-.
    destruct (IH _ _ eq_refl) as [-> N]. split; [reflexivity|].
    intros [I|I]; [subst c; rewrite Ascii.eqb_refl in E; discriminate | exact (N I)].
Qed.

Lemma split3_join : forall a b c, nopipe a -> nopipe b -> split3 (join3 a b c) = Some (a, b, c).
Proof.
  intros a b c Ha Hb. unfold split3, join3. rewrite (split1_app a _ Ha), (split1_app b _ Hb). reflexivity.
Qed.

Lemma split3_sound : forall l a b c, split3 l = Some (a, b, c) -> l = join3 a b c /\ nopipe a /\ nopipe b.
Proof.
  intros l a b c H. unfold split3 in H.
  destruct (split1 l) as [[a' r]|] eqn:S1; [|discriminate].
  destruct (split1 r) as [[b' c']|] eqn:S2; [|discriminate]. injection H as <- <- <-.
  destruct (split1_sound _ _ _ S1) as [-> Na]. destruct (split1_sound _ _ _ S2) as [-> Nb].
  repeat split; assumption.
Qed.

(* the three parts of a value can be read back in one way only *)
Theorem split3_unambiguous : forall a b c a' b' c',
  nopipe a -> nopipe b -> nopipe a' -> nopipe b' ->
  join3 a b c = join3 a' b' c' -> a = a' /\ b = b' /\ c = c'.
Proof.
  intros a b c a' b' c' Ha Hb Ha' Hb' E.
  pose proof (split3_join a b c Ha Hb) as S. rewrite E, (split3_join a' b' c' Ha' Hb') in S.
  injection S as -> -> ->. auto.
Qed.

Lemma mac_msg_join : forall n ts v, mac_msg n ts v = join3 n ts v.
Proof. reflexivity. Qed.

Lemma mac_msg_inj : forall n ts v ts' v', nopipe n -> nopipe ts -> nopipe ts' ->
  mac_msg n ts v = mac_msg n ts' v' -> ts = ts' /\ v = v'.
Proof.
  intros n ts v ts' v' Hn Ht Ht' E. rewrite !mac_msg_join in E.
  destruct (split3_unambiguous _ _ _ _ _ _ Hn Ht Hn Ht' E) as (_ & -> & ->). auto.
Qed.

(* ---- the two cookie names ------------------------------------------------------------- *)
Lemma role_name_nopipe : forall r, nopipe (role_name r).
Proof.
  intros [] H; vm_compute in H; repeat (destruct H as [H|H]; [discriminate H|]); exact H.
Qed.

(* no message authenticated for one role is a message of the other role *)
Lemma role_msgs_differ : forall ts v ts' v', mac_msg (role_name Private) ts v <> mac_msg (role_name Public) ts' v'.
Proof.
  intros ts v ts' v' H. unfold mac_msg, role_name in H. vm_compute bs in H. cbn [app] in H. discriminate H.
Qed.

Lemma role_name_inj : forall r r', role_name r = role_name r' -> r = r'.
Proof. intros [] [] H; try reflexivity; vm_compute in H; discriminate H. Qed.

(* ---- time stamps accepted by ParseInt contain digits and a sign only ------------------------ *)
Lemma digit_not_pipe : forall c d, digit_val c = Some d -> c <> pipe.
Proof. intros c d H E. subst c. vm_compute in H. discriminate H. Qed.

Lemma digits_nopipe : forall l acc n, digits_val acc l = Some n -> nopipe l.
Proof.
  induction l as [|c l IH]; intros acc n H; [intros []|]. cbn in H.
  destruct (digit_val c) as [d|] eqn:D; [|discriminate].
  intros [I|I]; [exact (digit_not_pipe _ _ D I) | exact (IH _ _ H I)].
Qed.

Lemma magnitude_nopipe : forall l b, magnitude_ok l b = true -> nopipe l.
Proof.
  intros l b H. unfold magnitude_ok in H. destruct l as [|c l]; [discriminate|].
  destruct (digits_val 0 (c :: l)) as [n|] eqn:D; [|discriminate]. exact (digits_nopipe _ _ _ D).
Qed.

Lemma parse_int_nopipe : forall ts, parse_int_ok ts = true -> nopipe ts.
Proof.
  intros [|c r] H; [discriminate|]. cbn [parse_int_ok] in H.
  destruct (Ascii.eqb c "-"%char) eqn:E1; [|destruct (Ascii.eqb c "+"%char) eqn:E2].
  - apply Ascii.eqb_eq in E1. subst c. pose proof (magnitude_nopipe _ _ H) as N.
    intros [I|I]; [discriminate I | exact (N I)].
  - apply Ascii.eqb_eq in E2. subst c. pose proof (magnitude_nopipe _ _ H) as N.
    intros [I|I]; [discriminate I | exact (N I)].
  - exact (magnitude_nopipe _ _ H).
Qed.

Lemma firstn_app_exact : forall (A : Type) (a b : list A), firstn (List.length a) (a ++ b) = a.
Proof. induction a as [|x a IH]; intro b; cbn; [destruct b; reflexivity | f_equal; apply IH]. Qed.
Lemma skipn_app_exact : forall (A : Type) (a b : list A), skipn (List.length a) (a ++ b) = b.
Proof. induction a as [|x a IH]; intro b; cbn; [reflexivity | apply IH]. Qed.
Lemma rev_inj : forall (A : Type) (a b : list A), rev a = rev b -> a = b.
Proof. intros A a b H. rewrite <- (rev_involutive a), <- (rev_involutive b), H. reflexivity. Qed.

Section Codec.
Context {key bkey data : Type}.
Context (O : oracles key bkey data).
Notation keyset := (keyset key bkey).

(* the two shapes of an id: base64 of date|value|mac, and base64 of the same bytes in reverse order *)
Definition triple_bytes (r : role) (ts v m : bytes) : bytes :=
  match r with Private => join3 ts v m | Public => rev (join3 ts v m) end.
Definition id_string (r : role) (ts v m : bytes) : bytes := b64enc (triple_bytes r ts v m).

Lemma triple_bytes_inj : forall r ts v m ts' v' m', nopipe ts -> nopipe v -> nopipe ts' -> nopipe v' ->
  triple_bytes r ts v m = triple_bytes r ts' v' m' -> ts = ts' /\ v = v' /\ m = m'.
Proof.
  intros r ts v m ts' v' m' H1 H2 H3 H4 E. destruct r; cbn in E.
  - exact (split3_unambiguous _ _ _ _ _ _ H1 H2 H3 H4 E).
  - apply rev_inj in E. exact (split3_unambiguous _ _ _ _ _ _ H1 H2 H3 H4 E).
Qed.

Lemma id_string_inj : forall r ts v m ts' v' m', nopipe ts -> nopipe v -> nopipe ts' -> nopipe v' ->
  id_string r ts v m = id_string r ts' v' m' -> ts = ts' /\ v = v' /\ m = m'.
Proof.
  intros r ts v m ts' v' m' H1 H2 H3 H4 E. apply b64enc_inj in E.
  exact (triple_bytes_inj _ _ _ _ _ _ _ H1 H2 H3 H4 E).
Qed.

(* what the stream cipher has to do for one value so that decrypt undoes encrypt *)
Definition stream_ok (b : option bkey) (iv p : bytes) : Prop :=
  match b with
  | None => True
  | Some k => List.length iv = iv_size /\ ctr O k iv p <> [] /\ ctr O k iv (ctr O k iv p) = p
  end.

Lemma decrypt_encrypt : forall b iv p, stream_ok b iv p -> decrypt O b (encrypt O b iv p) = Some p.
Proof.
  intros [k|] iv p H; cbn [decrypt encrypt]; [|reflexivity].
  destruct H as (L & N & I).
  assert (E : (iv_size <? List.length (iv ++ ctr O k iv p))%nat = true).
  { apply Nat.ltb_lt. rewrite app_length, L. destruct (ctr O k iv p); [contradiction | cbn [List.length]; lia]. }
  rewrite E. rewrite <- L, firstn_app_exact, skipn_app_exact, I. reflexivity.
Qed.

(* with a length-preserving, involutive stream cipher only the empty plaintext is a problem *)
Lemma stream_ok_from_ctr_laws : forall k iv p,
  List.length iv = iv_size -> (forall x, List.length (ctr O k iv x) = List.length x) ->
  (forall x, ctr O k iv (ctr O k iv x) = x) -> p <> [] -> stream_ok (Some k) iv p.
Proof.
  intros k iv p L LP I N. repeat split; [exact L | | apply I].
  intro E. apply N. apply length_zero_iff_nil. rewrite <- (LP p), E. reflexivity.
Qed.

Lemma decrypt_encrypt_empty : forall k iv, List.length iv = iv_size -> ctr O k iv [] = [] ->
  decrypt O (Some k) (encrypt O (Some k) iv []) = None.
Proof.
  intros k iv L E. cbn [decrypt encrypt]. rewrite E, app_nil_r, L, Nat.ltb_irrefl. reflexivity.
Qed.

(* ---- SecureCookie.Decode after SecureCookie.Encode ------------------------------------------- *)
Lemma cookie_encode_form : forall name ks ts iv d s, cookie_encode O name ks ts iv d = Ok s ->
  exists p, ser O d = Some p /\
    let v := b64enc (encrypt O (bk ks) iv p) in
    s = b64enc (join3 ts v (hmac O (hk ks) (mac_msg name ts v))) /\ (max_length <? List.length s)%nat = false.
Proof.
  intros name ks ts iv d s H. unfold cookie_encode in H. destruct (ser O d) as [p|]; [|discriminate].
  exists p. split; [reflexivity|]. cbv zeta in *.
  destruct (max_length <? _)%nat eqn:L; [discriminate|]. injection H as <-. split; [reflexivity | exact L].
Qed.

Lemma cookie_decode_encode : forall name ks ts iv d p s,
  ser O d = Some p -> deser O p = Some d -> stream_ok (bk ks) iv p -> parse_int_ok ts = true ->
  cookie_encode O name ks ts iv d = Ok s -> cookie_decode O name ks s = Ok d.
Proof.
  intros name ks ts iv d p s Hs Hd Hc Ht He.
  destruct (cookie_encode_form _ _ _ _ _ _ He) as (p' & Hs' & Hform). rewrite Hs in Hs'. injection Hs' as <-.
  cbv zeta in Hform. destruct Hform as [-> L].
  unfold cookie_decode. rewrite L, b64_roundtrip.
  rewrite split3_join by (try exact (parse_int_nopipe _ Ht); apply b64enc_no_pipe).
  rewrite beqb_refl. cbn [negb]. rewrite Ht. cbn [negb]. rewrite b64_roundtrip, (decrypt_encrypt _ _ _ Hc), Hd.
  reflexivity.
Qed.

Lemma cookie_decode_sound : forall name ks s d, cookie_decode O name ks s = Ok d ->
  exists ts v m c p,
    (max_length <? List.length s)%nat = false /\ b64dec s = Some (join3 ts v m) /\ nopipe ts /\ nopipe v /\
    m = hmac O (hk ks) (mac_msg name ts v) /\ parse_int_ok ts = true /\
    b64dec v = Some c /\ decrypt O (bk ks) c = Some p /\ deser O p = Some d.
Proof.
  intros name ks s d H. unfold cookie_decode in H.
  destruct (max_length <? List.length s)%nat eqn:L; [discriminate|].
  destruct (b64dec s) as [b|] eqn:B; [|discriminate].
  destruct (split3 b) as [[[ts v] m]|] eqn:S; [|discriminate].
  destruct (beqb (hmac O (hk ks) (mac_msg name ts v)) m) eqn:M; cbn [negb] in H; [|discriminate].
  destruct (parse_int_ok ts) eqn:T; cbn [negb] in H; [|discriminate].
  destruct (b64dec v) as [c|] eqn:V; [|discriminate].
  destruct (decrypt O (bk ks) c) as [p|] eqn:D; [|discriminate].
  destruct (deser O p) as [d'|] eqn:P; [|discriminate]. injection H as <-.
  destruct (split3_sound _ _ _ _ S) as (-> & N1 & N2). apply beqb_eq in M.
  exists ts, v, m, c, p. repeat split; auto.
Qed.

(* the later stages of a decode: a function of the value part alone *)
Definition payload (ks : keyset) (v : bytes) : option data :=
  match b64dec v with
  | None => None
  | Some c => match decrypt O (bk ks) c with None => None | Some p => deser O p end
  end.

(* ---- decoders without the canonical-form check -------------------------------------------------- *)
Theorem decode_lax_sound : forall r ks s d, decode_lax O r ks s = Ok d ->
  exists ts v m,
    b64dec s = Some (triple_bytes r ts v m) /\ nopipe ts /\ nopipe v /\
    m = hmac O (hk ks) (mac_msg (role_name r) ts v) /\ parse_int_ok ts = true /\ payload ks v = Some d.
Proof.
  intros r ks s d H. destruct r; cbn [decode_lax] in H.
  - unfold decode_private_lax in H.
    destruct (cookie_decode_sound _ _ _ _ H) as (ts & v & m & c & p & _ & B & N1 & N2 & M & T & V & D & P).
    exists ts, v, m. unfold payload. rewrite V, D. repeat split; auto.
  - unfold decode_public_lax, reverse_id in H. destruct (b64dec s) as [b|] eqn:B; [|discriminate].
    destruct (cookie_decode_sound _ _ _ _ H) as (ts & v & m & c & p & _ & B' & N1 & N2 & M & T & V & D & P).
    rewrite b64_roundtrip in B'. injection B' as B'.
    exists ts, v, m. unfold payload. rewrite V, D. cbn [triple_bytes]. rewrite <- B', rev_involutive. repeat split; auto.
Qed.

(* a string that decodes to the same bytes is treated in the same way *)
Theorem decode_private_lax_respelling : forall ks s s',
  b64dec s' = b64dec s -> (max_length <? List.length s')%nat = (max_length <? List.length s)%nat ->
  decode_private_lax O ks s' = decode_private_lax O ks s.
Proof. intros ks s s' B L. unfold decode_private_lax, cookie_decode. rewrite B, L. reflexivity. Qed.

Theorem decode_public_lax_respelling : forall ks s s',
  b64dec s' = b64dec s -> decode_public_lax O ks s' = decode_public_lax O ks s.
Proof. intros ks s s' B. unfold decode_public_lax, reverse_id. rewrite B. reflexivity. Qed.

(* ---- the decoders with the canonical-form check ----------------------------------------------------- *)
Lemma decode_is_lax : forall r ks s, decode O r ks s = if is_canonical s then decode_lax O r ks s else Err ENotCanonical.
Proof. intros [] ks s; reflexivity. Qed.

Theorem decode_sound : forall r ks s d, decode O r ks s = Ok d ->
  exists ts v m,
    s = id_string r ts v m /\ nopipe ts /\ nopipe v /\
    m = hmac O (hk ks) (mac_msg (role_name r) ts v) /\ parse_int_ok ts = true /\ payload ks v = Some d.
Proof.
  intros r ks s d H. rewrite decode_is_lax in H. destruct (is_canonical s) eqn:C; [|discriminate].
  destruct (decode_lax_sound _ _ _ _ H) as (ts & v & m & B & R).
  exists ts, v, m. split; [|exact R]. exact (canonical_dec_enc _ _ C B).
Qed.

Lemma is_canonical_b64enc : forall x, is_canonical (b64enc x) = true.
Proof. intro x. apply is_canonical_spec. eauto. Qed.

Lemma decode_public_of_rev : forall ks x d,
  cookie_decode O (role_name Public) ks (b64enc x) = Ok d -> decode_public O ks (b64enc (rev x)) = Ok d.
Proof.
  intros ks x d H. unfold decode_public, decode_public_lax, reverse_id.
  rewrite is_canonical_b64enc, b64_roundtrip, rev_involutive. exact H.
Qed.

Theorem decode_encode : forall r ks ts iv d p s,
  ser O d = Some p -> deser O p = Some d -> stream_ok (bk ks) iv p -> parse_int_ok ts = true ->
  encode O r ks ts iv d = Ok s -> decode O r ks s = Ok d.
Proof.
  intros r ks ts iv d p s Hs Hd Hc Ht He. destruct r; cbn [encode decode] in *.
  - unfold encode_private in He. unfold decode_private, decode_private_lax.
    destruct (cookie_encode_form _ _ _ _ _ _ He) as (p' & _ & Hf). cbv zeta in Hf. destruct Hf as [E _].
    rewrite E at 1. rewrite is_canonical_b64enc.
    exact (cookie_decode_encode _ _ _ _ _ _ _ Hs Hd Hc Ht He).
  - unfold encode_public in He. destruct (cookie_encode O (role_name Public) ks ts iv d) as [s0|] eqn:E0; [|discriminate].
    destruct (cookie_encode_form _ _ _ _ _ _ E0) as (p' & _ & Hf). cbv zeta in Hf. destruct Hf as [E _].
    pose proof (cookie_decode_encode _ _ _ _ _ _ _ Hs Hd Hc Ht E0) as D0.
    remember (join3 ts (b64enc (encrypt O (bk ks) iv p')) (hmac O (hk ks) (mac_msg (role_name Public) ts (b64enc (encrypt O (bk ks) iv p'))))) as x eqn:Ex.
    subst s0. unfold reverse_id in He. rewrite b64_roundtrip in He. injection He as <-.
    exact (decode_public_of_rev _ _ _ D0).
Qed.

(* what a minted id looks like *)
Theorem encode_form : forall r ks ts iv d s, encode O r ks ts iv d = Ok s ->
  exists p, ser O d = Some p /\
    let v := b64enc (encrypt O (bk ks) iv p) in
    s = id_string r ts v (hmac O (hk ks) (mac_msg (role_name r) ts v)).
Proof.
  intros r ks ts iv d s He. destruct r; cbn [encode] in He.
  - destruct (cookie_encode_form _ _ _ _ _ _ He) as (p & Hp & Hf). exists p. split; [exact Hp|]. exact (proj1 Hf).
  - unfold encode_public in He. destruct (cookie_encode O (role_name Public) ks ts iv d) as [s0|] eqn:E0; [|discriminate].
    destruct (cookie_encode_form _ _ _ _ _ _ E0) as (p & Hp & Hf). exists p. split; [exact Hp|].
    cbv zeta in *. destruct Hf as [E _]. unfold reverse_id in He. rewrite E, b64_roundtrip in He. injection He as <-. reflexivity.
Qed.

(* ---- modification ------------------------------------------------------------------------------------- *)
Theorem modification : forall r ks s s' d d',
  decode O r ks s = Ok d -> decode O r ks s' = Ok d' -> s' <> s ->
  exists ts v ts' v',
    s = id_string r ts v (hmac O (hk ks) (mac_msg (role_name r) ts v)) /\
    s' = id_string r ts' v' (hmac O (hk ks) (mac_msg (role_name r) ts' v')) /\
    mac_msg (role_name r) ts' v' <> mac_msg (role_name r) ts v.
Proof.
  intros r ks s s' d d' H H' N.
  destruct (decode_sound _ _ _ _ H) as (ts & v & m & -> & N1 & N2 & -> & _).
  destruct (decode_sound _ _ _ _ H') as (ts' & v' & m' & -> & N1' & N2' & -> & _).
  exists ts, v, ts', v'. repeat split. intro E.
  destruct (mac_msg_inj _ _ _ _ _ (role_name_nopipe r) N1' N1 E) as [-> ->]. apply N. reflexivity.
Qed.

Theorem modification_lax : forall r ks s s' d d',
  decode_lax O r ks s = Ok d -> decode_lax O r ks s' = Ok d' ->
  (b64dec s' = b64dec s /\ d' = d) \/
  exists ts v ts' v',
    b64dec s = Some (triple_bytes r ts v (hmac O (hk ks) (mac_msg (role_name r) ts v))) /\
    b64dec s' = Some (triple_bytes r ts' v' (hmac O (hk ks) (mac_msg (role_name r) ts' v'))) /\
    mac_msg (role_name r) ts' v' <> mac_msg (role_name r) ts v.
Proof.
  intros r ks s s' d d' H H'.
  destruct (decode_lax_sound _ _ _ _ H) as (ts & v & m & B & N1 & N2 & -> & _ & P).
  destruct (decode_lax_sound _ _ _ _ H') as (ts' & v' & m' & B' & N1' & N2' & -> & _ & P').
  destruct (list_eq_dec ascii_dec (mac_msg (role_name r) ts' v') (mac_msg (role_name r) ts v)) as [E|E].
  - left. destruct (mac_msg_inj _ _ _ _ _ (role_name_nopipe r) N1' N1 E) as [-> ->].
    split; [congruence | congruence].
  - right. exists ts, v, ts', v'. auto.
Qed.

(* ---- roles ---------------------------------------------------------------------------------------------- *)
(* one string accepted under both roles carries MACs of two different messages *)
Theorem role_separation_same_string : forall ks s d d',
  decode O Private ks s = Ok d -> decode O Public ks s = Ok d' ->
  exists ts v ts' v',
    s = id_string Private ts v (hmac O (hk ks) (mac_msg (role_name Private) ts v)) /\
    s = id_string Public ts' v' (hmac O (hk ks) (mac_msg (role_name Public) ts' v')) /\
    mac_msg (role_name Private) ts v <> mac_msg (role_name Public) ts' v'.
Proof.
  intros ks s d d' H H'.
  destruct (decode_sound _ _ _ _ H) as (ts & v & m & E & _ & _ & -> & _).
  destruct (decode_sound _ _ _ _ H') as (ts' & v' & m' & E' & _ & _ & -> & _).
  exists ts, v, ts', v'. repeat split; auto. apply role_msgs_differ.
Qed.

(* an id accepted as private whose reversal (the codec's own private<->public
   transformation) is accepted as public: one MAC for two different messages *)
Theorem role_separation_swap : forall ks s s' d d',
  decode O Private ks s = Ok d -> decode O Public ks s' = Ok d' -> reverse_id s = Some s' ->
  exists ts v,
    hmac O (hk ks) (mac_msg (role_name Private) ts v) = hmac O (hk ks) (mac_msg (role_name Public) ts v) /\
    mac_msg (role_name Private) ts v <> mac_msg (role_name Public) ts v.
Proof.
  intros ks s s' d d' H H' R.
  destruct (decode_sound _ _ _ _ H) as (ts & v & m & -> & N1 & N2 & M & _).
  destruct (decode_sound _ _ _ _ H') as (ts' & v' & m' & -> & N1' & N2' & M' & _).
  unfold reverse_id, id_string in R. rewrite b64_roundtrip in R. injection R as R. apply b64enc_inj in R.
  cbn [triple_bytes] in R. apply rev_inj in R.
  destruct (split3_unambiguous _ _ _ _ _ _ N1 N2 N1' N2' R) as (<- & <- & <-).
  exists ts, v. split; [congruence | apply role_msgs_differ].
Qed.

Lemma reverse_id_canonical_involutive : forall s s', is_canonical s' = true -> reverse_id s' = Some s -> reverse_id s = Some s'.
Proof.
  intros s s' C R. apply is_canonical_spec in C as [x ->]. unfold reverse_id in *. rewrite b64_roundtrip in R.
  injection R as <-. rewrite b64_roundtrip, rev_involutive. reflexivity.
Qed.

Lemma decode_canonical : forall r ks s d, decode O r ks s = Ok d -> is_canonical s = true.
Proof. intros r ks s d H. rewrite decode_is_lax in H. destruct (is_canonical s); [reflexivity | discriminate]. Qed.

Theorem role_separation_swap' : forall ks s s' d d',
  decode O Private ks s = Ok d -> decode O Public ks s' = Ok d' -> reverse_id s' = Some s ->
  exists ts v,
    hmac O (hk ks) (mac_msg (role_name Private) ts v) = hmac O (hk ks) (mac_msg (role_name Public) ts v) /\
    mac_msg (role_name Private) ts v <> mac_msg (role_name Public) ts v.
Proof.
  intros ks s s' d d' H H' R.
  exact (role_separation_swap ks s s' d d' H H' (reverse_id_canonical_involutive _ _ (decode_canonical _ _ _ _ H') R)).
Qed.

(* ---- keys ------------------------------------------------------------------------------------------------ *)
Theorem key_separation : forall r ks1 ks2 s d1 d2,
  decode O r ks1 s = Ok d1 -> decode O r ks2 s = Ok d2 ->
  exists ts v, s = id_string r ts v (hmac O (hk ks1) (mac_msg (role_name r) ts v)) /\
    hmac O (hk ks1) (mac_msg (role_name r) ts v) = hmac O (hk ks2) (mac_msg (role_name r) ts v).
Proof.
  intros r ks1 ks2 s d1 d2 H1 H2.
  destruct (decode_sound _ _ _ _ H1) as (ts & v & m & -> & N1 & N2 & M & _).
  destruct (decode_sound _ _ _ _ H2) as (ts' & v' & m' & E & N1' & N2' & M' & _).
  destruct (id_string_inj _ _ _ _ _ _ _ N1 N2 N1' N2' E) as (<- & <- & <-).
  exists ts, v. split; congruence.
Qed.

End Codec.
