(* What the replay of corr/Run_C20.v accepts: every log it follows to the end is
   a run of model/Bus.v -- an op list applied with [step] from the initial
   state -- whose callbacks, in order, are the logged callbacks.  The replay
   decides between "drop a snapshot entry that is not a member any more now" and
   "leave it" by looking at the callbacks the log still holds (future_recvs);
   whatever it decides, it only applies [step]. *)
From Coq Require Import List Arith NArith Bool String Ascii Lia.
From Verif Require Import model.Bus corr.Run_C20 proofs.Bus_proofs proofs.Bus_more_proofs.
Import ListNotations.

Lemma run_app ops1 ops2 t : run (ops1 ++ ops2) t = run ops2 (run ops1 t).
Proof. unfold run. apply fold_left_app. Qed.

(* ---- only Call writes the callback log ---------------------------------------- *)
Definition not_call (o : op) : bool := match o with Call _ => false | _ => true end.

Lemma step_dlog t o : not_call o = true -> dlog (step t o) = dlog t.
Proof.
  intros H. unfold step. destruct (negb (enabled t o)); [reflexivity|].
  destruct o; try discriminate; cbn;
    repeat match goal with
           | |- context [match ?x with _ => _ end] => destruct x; cbn
           | |- context [if ?x then _ else _] => destruct x; cbn
           end; reflexivity.
Qed.

Lemma first_some_prop {A} (P : A -> Prop) (f : nat -> option A) js a :
  (forall j x, f j = Some x -> P x) -> first_some f js = Some a -> P a.
Proof.
  intros Hf. induction js as [|j r IH]; cbn; [discriminate|].
  destruct (f j) eqn:E; intros H.
  - inversion H; subst. eauto.
  - auto.
Qed.

Lemma eager_not_call f t b o : eager f t b = Some o -> not_call o = true.
Proof.
  unfold eager. destruct (enabled t Dispatch); [intros H; inversion H; reflexivity|].
  destruct (disp t) as [[[s m] [|j r]]|].
  2: { intros H; inversion H; reflexivity. }
  all: intros H; apply (first_some_prop (fun o => not_call o = true)) in H; [exact H|]; clear H;
    intros j x;
    repeat match goal with
           | |- context [match ?x with _ => _ end] => destruct x
           | |- context [if ?x then _ else _] => destruct x
           end; intros H; inversion H; reflexivity.
Qed.

(* ---- the eager steps --------------------------------------------------------------- *)
Lemma settle_ops_run fuel f t b :
  run (fst (settle_ops fuel f t b)) t = snd (settle_ops fuel f t b) /\
  dlog (snd (settle_ops fuel f t b)) = dlog t.
Proof.
  revert t; induction fuel as [|n IH]; intros t; cbn; [split; reflexivity|].
  destruct (eager f t b) as [o|] eqn:E; cbn; [|split; reflexivity].
  destruct (settle_ops n f (step t o) b) as [os t'] eqn:S. cbn.
  specialize (IH (step t o)). rewrite S in IH. cbn in IH. destruct IH as [IH1 IH2].
  split; [exact IH1|]. rewrite IH2. apply step_dlog. eapply eager_not_call; eauto.
Qed.

Lemma settled_ops_run f t b :
  run (fst (settled_ops f t b)) t = snd (settled_ops f t b) /\
  dlog (snd (settled_ops f t b)) = dlog t.
Proof. unfold settled_ops. generalize (200 + 8 * settle_fuel t). intros n. apply settle_ops_run. Qed.

(* ---- a logged callback ------------------------------------------------------------- *)
Lemma find_pick_spec t b k l m j :
  find_pick t b k l m = Some j ->
  exists x vis, nth_error (subs t) j = Some x /\ infl x = Some (m, vis) /\ cur x = None /\
                memb l vis = true /\ memb l (ls x) = true.
Proof.
  unfold find_pick. intros H.
  apply (first_some_prop (fun j => exists x vis, nth_error (subs t) j = Some x /\ infl x = Some (m, vis) /\
                                   cur x = None /\ memb l vis = true /\ memb l (ls x) = true)
                         _ _ _) in H; [exact H|].
  clear. intros j j'. destruct (is_blocked b j); [discriminate|].
  destruct (nth_error (subs t) j) as [x|] eqn:N; [|discriminate].
  destruct (infl x) as [[m' vis]|] eqn:I; [|discriminate].
  destruct (cur x) eqn:C; [discriminate|].
  destruct (N.eqb (kind_code (skind x)) k && N.eqb m m' && memb l vis && memb l (ls x)) eqn:Q; [|discriminate].
  intros H; inversion H; subst j'.
  apply andb_prop in Q; destruct Q as [Q Q4]. apply andb_prop in Q; destruct Q as [Q Q3].
  apply andb_prop in Q; destruct Q as [Q1 Q2]. apply N.eqb_eq in Q2; subst m'.
  exists x, vis. repeat split; assumption.
Qed.

Lemma call_dlog t j x m vis l :
  nth_error (subs t) j = Some x -> infl x = Some (m, vis) -> cur x = Some l ->
  dlog (step t (Call j)) = dlog t ++ [(j, l, m)].
Proof.
  intros N I C.
  assert (E : enabled t (Call j) = true) by (cbn; rewrite N, I, C; reflexivity).
  unfold step. rewrite E. cbn. rewrite N, I, C. reflexivity.
Qed.

Lemma pick_call_dlog t j l m x vis :
  nth_error (subs t) j = Some x -> infl x = Some (m, vis) -> cur x = None ->
  memb l vis = true -> memb l (ls x) = true ->
  dlog (step (step t (Pick j l)) (Call j)) = dlog t ++ [(j, l, m)].
Proof.
  intros N I C V L.
  assert (E1 : enabled t (Pick j l) = true) by (cbn; rewrite N, I, C; exact V).
  unfold step at 2. rewrite E1. cbn. rewrite N, I, L.
  set (x2 := set_cur (Some l) (set_infl (Some (m, remove_l l vis)) x)).
  rewrite (call_dlog _ j x2 m (remove_l l vis) l); [reflexivity| |reflexivity|reflexivity].
  cbn. apply (nth_upd_same (fun _ => x2)) with (x := x). exact N.
Qed.

(* ---- one event, the whole log --------------------------------------------------- *)
Definition ev_callbacks (e : ev) : list (lid * msg) := future_recvs [e].

Lemma future_recvs_cons e r : future_recvs (e :: r) = ev_callbacks e ++ future_recvs r.
Proof. destruct e; reflexivity. Qed.

Lemma replay_ev_ops_run tb r e rest os r' :
  replay_ev_ops tb r e rest = Some (os, r') ->
  run os (r_st r) = r_st r' /\
  model_callbacks (r_st r') = model_callbacks (r_st r) ++ ev_callbacks e.
Proof.
  unfold replay_ev_ops.
  pose proof (settled_ops_run (future_recvs (e :: rest)) (r_st r) (r_blocked r)) as [R D].
  destruct (settled_ops (future_recvs (e :: rest)) (r_st r) (r_blocked r)) as [os0 t] eqn:S. cbn [fst snd] in R, D.
  assert (MC : model_callbacks t = model_callbacks (r_st r)) by (unfold model_callbacks; now rewrite D).
  assert (plain : forall o, not_call o = true ->
            run (os0 ++ [o]) (r_st r) = step t o /\ model_callbacks (step t o) = model_callbacks (r_st r) ++ []).
  { intros o Ho. rewrite run_app, R. split; [reflexivity|].
    rewrite app_nil_r. unfold model_callbacks. now rewrite step_dlog, D. }
  destruct e; cbn [ev_callbacks future_recvs];
    try (destruct (negb (quiescent _ t (r_blocked r))); [discriminate|]).
  - (* EPub *)
    destruct (Bool.eqb _ ok); [|discriminate]. intros H; injection H as <- <-; cbn [r_st]. now apply plain.
  - (* EReg *)
    destruct (Bool.eqb _ ok); [|discriminate]. intros H; injection H as <- <-; cbn [r_st].
    rewrite run_app, R. split; [reflexivity|]. rewrite app_nil_r. unfold model_callbacks.
    now rewrite !step_dlog, D.
  - (* EUnreg *)
    intros H; injection H as <- <-; cbn [r_st]. now apply plain.
  - (* ERelease *)
    intros H; injection H as <- <-; cbn [r_st]. rewrite app_nil_r. now split.
  - (* EDigest *)
    destruct (digest_ok tb t open_subs loopback); [|discriminate].
    intros H; injection H as <- <-; cbn [r_st]. rewrite app_nil_r. now split.
  - (* ERecv *)
    destruct (find_pick t (r_blocked r) k l m) as [j|] eqn:F; [|discriminate].
    destruct (existsb _ (r_pl r)); [|discriminate].
    intros H; injection H as <- <-; cbn [r_st].
    apply find_pick_spec in F. destruct F as (x & vis & N & I & C & V & L).
    rewrite run_app, R. split; [reflexivity|].
    unfold model_callbacks. rewrite (pick_call_dlog t j l m x vis N I C V L), map_app, D. reflexivity.
  - discriminate.
  - discriminate.
  - discriminate.
  - discriminate.
  - discriminate.
  - discriminate.
Qed.

Lemma replay_ops_run tb evs : forall r ops t,
  replay_ops tb r evs = Some (ops, t) ->
  run ops (r_st r) = t /\ model_callbacks t = model_callbacks (r_st r) ++ logged_callbacks evs.
Proof.
  induction evs as [|e rest IH]; intros r ops t; cbn [replay_ops].
  - pose proof (settled_ops_run [] (r_st r) (r_blocked r)) as [R D].
    destruct (settled_ops [] (r_st r) (r_blocked r)) as [os t0]. cbn [fst snd] in R, D.
    destruct (quiescent [] t0 (r_blocked r)); [|discriminate].
    intros H; injection H as <- <-. split; [exact R|].
    unfold logged_callbacks, model_callbacks. cbn. now rewrite app_nil_r, D.
  - destruct (replay_ev_ops tb r e rest) as [[os r']|] eqn:E; [|discriminate].
    destruct (replay_ops tb r' rest) as [[os' t']|] eqn:E'; [|discriminate].
    intros H; injection H as <- <-.
    apply replay_ev_ops_run in E. destruct E as [E1 E2].
    apply IH in E'. destruct E' as [E3 E4].
    split.
    + now rewrite run_app, E1.
    + rewrite E4, E2, <- app_assoc. unfold logged_callbacks. now rewrite (future_recvs_cons e rest).
Qed.

(* the judge's verdict "the model follows the log" (replay ... = None) is that run *)
Lemma replay_accepts tb evs : forall i r,
  replay tb i r evs = None -> exists ops t, replay_ops tb r evs = Some (ops, t).
Proof.
  induction evs as [|e rest IH]; intros i r; cbn [replay replay_ops].
  - unfold settled. destruct (settled_ops [] (r_st r) (r_blocked r)) as [os t0]. cbn.
    destruct (quiescent [] t0 (r_blocked r)); [|discriminate]. eauto.
  - unfold replay_ev. destruct (replay_ev_ops tb r e rest) as [[os r']|]; cbn; [|discriminate].
    intros H. apply IH in H. destruct H as (ops & t & H). rewrite H. eauto.
Qed.

Theorem replay_is_run tb evs :
  replay tb 0 (mkR init [] []) evs = None ->
  exists ops, model_callbacks (run ops init) = logged_callbacks evs.
Proof.
  intros H. apply replay_accepts in H. destruct H as (ops & t & H).
  apply replay_ops_run in H. cbn in H. destruct H as [H1 H2]. exists ops. now rewrite H1, H2.
Qed.

(* ======================================================================== *)
(* clause (e) of P_C20 on the model                                          *)
(* ======================================================================== *)
(* The callback log only grows. *)
Lemma step_dlog_ext t o : exists d, dlog (step t o) = dlog t ++ d.
Proof.
  destruct (not_call o) eqn:E.
  - exists []. now rewrite step_dlog, app_nil_r.
  - destruct o; try discriminate. unfold step. destruct (negb (enabled t (Call i))).
    + exists []. now rewrite app_nil_r.
    + destruct (nth_error (subs t) i) as [x|]; [|exists []; now rewrite app_nil_r].
      destruct (infl x) as [[m vis]|]; [|exists []; now rewrite app_nil_r].
      destruct (cur x) as [l|]; [|exists []; now rewrite app_nil_r].
      cbn. eauto.
Qed.

Lemma run_dlog_ext ops : forall t, exists d, dlog (run ops t) = dlog t ++ d.
Proof.
  induction ops as [|o ops IH]; intros t; cbn [run fold_left].
  - exists []. now rewrite app_nil_r.
  - destruct (step_dlog_ext t o) as [d1 H1]. destruct (IH (step t o)) as [d2 H2].
    exists (d1 ++ d2). unfold run in H2. rewrite H2, H1. now rewrite app_assoc.
Qed.

Lemma delivered_of_app i l d1 d2 : delivered_of i l (d1 ++ d2) = delivered_of i l d1 ++ delivered_of i l d2.
Proof. unfold delivered_of. now rewrite filter_app, map_app. Qed.

(* l is not a listener of subscriber i (its unregistration has returned) and the
   subscriber has no callback decided -- in particular whenever its goroutine is
   inside a callback: [Call] clears [cur], the next [Pick] comes after the
   callback returned.  Then, whatever happens (any op list that does not
   register l for that subject again), l is not handed anything through i any
   more and nothing is decided for it. *)
Theorem nothing_behind_a_running_callback i l knd key ops t x :
  NotReg i l knd key t -> nth_error (subs t) i = Some x -> cur x = None ->
  forallb (noreg l knd key) ops = true ->
  delivered i l (run ops t) = delivered i l t /\
  late_of l (nth_error (subs (run ops t)) i) = [].
Proof.
  intros HN Hx Hc Hk.
  destruct (nothing_after_unregister i l knd key ops t HN Hk) as [_ HU].
  unfold U in HU. rewrite Hx in HU. cbn [late_of] in HU.
  assert (HL : late l x = []) by (unfold late; rewrite Hc; now destruct (infl x) as [[? ?]|]).
  rewrite HL, app_nil_r in HU.
  destruct (run_dlog_ext ops t) as [d Hd].
  unfold delivered in *. rewrite Hd, delivered_of_app, <- app_assoc in HU.
  rewrite <- (app_nil_r (delivered_of i l (dlog t))) in HU at 2.
  apply app_inv_head in HU. apply app_eq_nil in HU. destruct HU as [H1 H2].
  split; [|exact H2]. now rewrite Hd, delivered_of_app, H1, app_nil_r.
Qed.
